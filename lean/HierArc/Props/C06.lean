/-
  C06 — Each data likelihood is the stated density; the normalisation flag drops constants.

  Property theorems about `HierArc.Gauss` (Model/Gauss.lean) instantiated at ℝ, with
  `numpy.linalg` instantiated by Mathlib's matrix inverse / determinant (`realLA`) or left
  universally quantified (`la`).

  Reference densities (independent of the model's code path, Mathlib level):
    * `mvnLogPdf x μ C   = -½ (x-μ) ⬝ᵥ C⁻¹ *ᵥ (x-μ) - ½ (n log 2π + log det C)`
    * `mvnLogKernel x μ C = -½ (x-μ) ⬝ᵥ C⁻¹ *ᵥ (x-μ)`
    * one-dimensional: `Real.log (ProbabilityTheory.gaussianPDFReal μ σ² x)` (Mathlib's Gaussian
      density, which integrates to one: `integral_gaussianPDFReal_eq_one`);
      `mvnLogPdf` is anchored to it for diagonal covariances of any dimension
      (`mvnLogPdf_diagonal`).
-/
import HierArc.Model.Gauss
import HierArc.Proofs.RealInst
import HierArc.Proofs.Gauss
import Mathlib.Probability.Distributions.Gaussian.Real
import Mathlib.Tactic.FieldSimp
import Mathlib.Tactic.Ring
import Mathlib.Tactic.Linarith
import Mathlib.Tactic.NormNum

namespace HierArc.Gauss
open HierArc Matrix ProbabilityTheory
open scoped NNReal

/-! ## reference densities -/

/-- log-density of `N(μ, C)` at `x` -/
noncomputable def mvnLogPdf {n : ℕ} (x μ : Fin n → ℝ) (C : Matrix (Fin n) (Fin n) ℝ) : ℝ :=
  -(1 / 2) * ((x - μ) ⬝ᵥ (matInv C *ᵥ (x - μ)))
    - (1 / 2) * ((n : ℝ) * Real.log (2 * Real.pi) + Real.log C.det)

/-- the same without the normalising constant -/
noncomputable def mvnLogKernel {n : ℕ} (x μ : Fin n → ℝ) (C : Matrix (Fin n) (Fin n) ℝ) : ℝ :=
  -(1 / 2) * ((x - μ) ⬝ᵥ (matInv C *ᵥ (x - μ)))

/-- `matInv` really is the inverse on the matrices the theorems are about. -/
theorem matInv_mul_self {n : ℕ} (C : Matrix (Fin n) (Fin n) ℝ) (h : C.det ≠ 0) :
    matInv C * C = 1 ∧ C * matInv C = 1 := by
  have hu : IsUnit C.det := isUnit_iff_ne_zero.mpr h
  exact ⟨Matrix.nonsing_inv_mul C hu, Matrix.mul_nonsing_inv C hu⟩

/-- the normalising constant of a one-dimensional Gaussian:  `½ log(2π s²)` -/
noncomputable def gaussConst (s : ℝ) : ℝ := 1 / 2 * Real.log (2 * Real.pi * (s * s))

/-! ## the Gaussian core (shared by IFUKinCov, Mag, TDMag, TDMagMagnitude) -/

/-- **singular covariance ⇒ −inf, never an exception** — for *any* `numpy.linalg` behaviour:
    whenever `inv` fails the result is `-inf`. -/
theorem gaussCore_singular (la : LinAlg ℝ) (nrm chk : Bool) {n : ℕ} (δ : Vec ℝ n) (C : Mat ℝ n)
    (h : la.inv C = none) : gaussCore la nrm chk δ C = .negInf := by
  simp [gaussCore, h]

/-- over ℝ: a covariance with `det C = 0` gives `-inf`. -/
theorem gaussCore_singular_real (nrm chk : Bool) {n : ℕ} (δ : Vec ℝ n) (C : Mat ℝ n)
    (h : (Matrix.of C : Matrix (Fin n) (Fin n) ℝ).det = 0) :
    gaussCore realLA nrm chk δ C = .negInf :=
  gaussCore_singular _ _ _ _ _ (realLA_inv_of_det_zero C h)

/-- The singular clause is exactly `inv fails ⇒ -inf`; it cannot be strengthened to
    `det C = 0 ⇒ -inf` for an arbitrary engine: an engine that hands back *some* matrix for a singular
    input — as LAPACK does for `[[49,49],[49,49]]` (finding F16 in notes/C06.md) — makes the
    likelihood a number. -/
theorem singular_needs_inv_failure_counterexample :
    ∃ (la : LinAlg ℝ) (C : Mat ℝ 2) (δ : Vec ℝ 2),
      (Matrix.of C : Matrix (Fin 2) (Fin 2) ℝ).det = 0 ∧
      ∃ v, gaussCore la false false δ C = .val v := by
  refine ⟨{ inv := fun M => some M, slogdet := fun _ => (1, 0) }, fun _ _ => 49, fun _ => 1, ?_, ?_⟩
  · simp [Matrix.det_fin_two]
  · exact ⟨_, rfl⟩

/-- **model = reference** for the core: on a covariance with positive determinant (in particular a
    positive-definite one) the code path computes the multivariate normal log-density
    (`normalized`) resp. its kernel (un-normalised); the `ValueError` branch is not taken. -/
theorem gaussCore_eq_reference (nrm chk : Bool) {n : ℕ} (x μ : Vec ℝ n) (C : Mat ℝ n)
    (hdet : 0 < (Matrix.of C : Matrix (Fin n) (Fin n) ℝ).det) :
    gaussCore realLA nrm chk (fun i => x i - μ i) C
      = .val (if nrm then mvnLogPdf x μ (Matrix.of C) else mvnLogKernel x μ (Matrix.of C)) := by
  have hsub : (fun i => x i - μ i) = x - μ := rfl
  unfold gaussCore
  rw [realLA_inv_of_det_ne C hdet.ne', realLA_slogdet_of_det_pos C hdet]
  cases nrm
  · simp only [Bool.false_eq_true, if_false, hsub, mvnLogKernel, lit_two]
    rw [quad_eq']
    congr 1
    ring
  · have hdec : (decide ((1 : ℤ) < 0)) = false := by decide
    simp only [if_true, hsub, mvnLogPdf, lit_two, lit_one, hdec, Bool.and_false,
      Bool.false_eq_true, if_false]
    rw [quad_eq']
    congr 1
    simp only [Trans.log, TransX.pi]
    ring

/-- **un-normalised form removes exactly `(n·ln 2π + ln det C)/2` and nothing else** — for *any*
    `numpy.linalg` behaviour with a successful inverse and a non-negative determinant sign:
    both calls return numbers and they differ by exactly that constant. -/
theorem gaussCore_normalized_diff (la : LinAlg ℝ) (chk : Bool) {n : ℕ} (δ : Vec ℝ n) (C : Mat ℝ n)
    (Ci : Mat ℝ n) (hinv : la.inv C = some Ci) (hsign : 0 ≤ (la.slogdet C).1) :
    ∃ a b, gaussCore la true chk δ C = .val a ∧ gaussCore la false chk δ C = .val b ∧
      a - b = -((n : ℝ) * Real.log (2 * Real.pi) + (la.slogdet C).2) / 2 := by
  have hd : decide ((la.slogdet C).1 < 0) = false := by simpa using hsign
  refine ⟨-(dot δ (mulVec Ci δ)) / 2
      - 1 / 2 * ((n : ℝ) * Real.log (2 * Real.pi) + (la.slogdet C).2),
    -(dot δ (mulVec Ci δ)) / 2, ?_, ?_, by ring⟩
  · simp only [gaussCore, hinv, if_true, hd, Bool.and_false, Bool.false_eq_true, if_false,
      lit_one, lit_two]
    rfl
  · simp only [gaussCore, hinv, Bool.false_eq_true, if_false, lit_two]

/-- the same with Mathlib's determinant: the dropped constant is `(n log 2π + log det C)/2`. -/
theorem mvn_normalized_diff {n : ℕ} (x μ : Fin n → ℝ) (C : Matrix (Fin n) (Fin n) ℝ) :
    mvnLogPdf x μ C - mvnLogKernel x μ C
      = -((n : ℝ) * Real.log (2 * Real.pi) + Real.log C.det) / 2 := by
  unfold mvnLogPdf mvnLogKernel; ring

/-- with a negative determinant sign `KinLikelihood` (and only it) raises `ValueError` in the
    normalised form (documented behaviour, outside the property's positive-definite domain). -/
theorem gaussCore_negative_sign (la : LinAlg ℝ) {n : ℕ} (δ : Vec ℝ n) (C Ci : Mat ℝ n)
    (hinv : la.inv C = some Ci) (hsign : (la.slogdet C).1 < 0) :
    gaussCore la true true δ C = .valueError := by
  simp [gaussCore, hinv, hsign]

/-! ## anchoring `mvnLogPdf` to Mathlib's Gaussian density -/

/-- for a diagonal covariance (independent components, any dimension) the reference is the sum of
    the logs of Mathlib's one-dimensional Gaussian densities. -/
theorem mvnLogPdf_diagonal {n : ℕ} (x μ s : Fin n → ℝ) (hs : ∀ i, s i ≠ 0) :
    mvnLogPdf x μ (diagonal fun i => s i * s i)
      = ∑ i, Real.log (gaussianPDFReal (μ i) (var (s i)) (x i)) := by
  have hss : ∀ i, s i * s i ≠ 0 := fun i => mul_self_ne_zero.mpr (hs i)
  unfold mvnLogPdf
  rw [matInv_diagonal _ hss, Matrix.det_diagonal, Real.log_prod (fun i _ => hss i)]
  simp only [log_gaussianPDFReal _ _ _ (hs _), Matrix.mulVec_diagonal, dotProduct, Pi.sub_apply]
  have h2pi : (0 : ℝ) < 2 * Real.pi := by positivity
  have hterm : ∀ i, -((x i - μ i) * (x i - μ i)) / (s i * s i) / 2
        - 1 / 2 * Real.log (2 * Real.pi * (s i * s i))
      = -(1 / 2) * ((x i - μ i) * ((s i * s i)⁻¹ * (x i - μ i)))
        - 1 / 2 * Real.log (2 * Real.pi) - 1 / 2 * Real.log (s i * s i) := fun i => by
    rw [Real.log_mul h2pi.ne' (hss i)]
    have := hss i
    field_simp
    ring
  simp only [hterm, Finset.sum_sub_distrib, ← Finset.mul_sum, Finset.sum_const, Finset.card_univ,
    Fintype.card_fin, nsmul_eq_mul]
  ring

/-! ## one-dimensional types -/

/-- **DdtGaussian** = log of the Gaussian density of the measured `ddt_mean` given the model `ddt`,
    without its prefactor (this class has no `normalized` flag: always `+ ½ log(2πσ²)`). -/
theorem ddtGaussian_eq_reference (mean sigma ddt : ℝ) (hs : sigma ≠ 0) :
    ddtGaussian mean sigma ddt
      = Real.log (gaussianPDFReal ddt (var sigma) mean) + gaussConst sigma := by
  rw [log_gaussianPDFReal _ _ _ hs]
  unfold ddtGaussian gaussConst
  rw [lit_two]; ring

/-- **DdtLogNorm**: `log` of the log-normal density `φ_{μ,σ}(log x)/x` of the model `ddt`, in the
    documented form, i.e. without the factor `1/√(2π)` only. -/
theorem ddtLogNorm_eq_reference (mu sigma ddt : ℝ) (hs : sigma ≠ 0) (hx : 0 < ddt) :
    ddtLogNorm mu sigma ddt
      = Real.log (gaussianPDFReal mu (var sigma) (Real.log ddt) / ddt)
        + 1 / 2 * Real.log (2 * Real.pi) := by
  have hss : 0 < sigma * sigma := mul_self_pos.mpr hs
  have h2pi : (0 : ℝ) < 2 * Real.pi := by positivity
  rw [Real.log_div (gaussianPDFReal_pos _ _ _ (var_ne_zero hs)).ne' hx.ne',
    log_gaussianPDFReal _ _ _ hs, Real.log_mul h2pi.ne' hss.ne']
  unfold ddtLogNorm
  simp only [Trans.log]
  rw [lit_half]; ring

/-- **DdtDdGaussian**: independent Gaussians in Ddt and (scaled) Dd, both without prefactor. -/
theorem ddtDdGaussian_eq_reference (m s dm ds ddt dd : ℝ) (k0 : Option ℝ) (hs : s ≠ 0)
    (hds : ds ≠ 0) :
    ddtDdGaussian m s dm ds ddt dd k0
      = Real.log (gaussianPDFReal ddt (var s) m) + gaussConst s
        + (Real.log (gaussianPDFReal (dd * k0.getD 1) (var ds) dm) + gaussConst ds) := by
  rw [log_gaussianPDFReal _ _ _ hs, log_gaussianPDFReal _ _ _ hds]
  unfold ddtDdGaussian ddtGaussian gaussConst
  cases k0 <;> simp only [Option.getD, lit_two] <;> ring

/-- **DsDdsGaussian**: Gaussian in `Ds/Dds = Ddt/Dd/(1+z)` divided by the kinematic scaling. -/
theorem dsDdsGaussian_eq_reference (z m s ddt dd : ℝ) (k0 : Option ℝ) (hs : s ≠ 0) :
    dsDdsGaussian z m s ddt dd k0
      = Real.log (gaussianPDFReal (ddt / dd / (1 + z) / k0.getD 1) (var s) m) + gaussConst s := by
  rw [log_gaussianPDFReal _ _ _ hs]
  unfold dsDdsGaussian gaussConst
  cases k0 <;> simp only [Option.getD, lit_two, lit_one] <;> ring

/-- **DSPL**, normalised form = log of the Gaussian density of the measured Einstein-radius ratio
    given the predicted one. -/
theorem dspl_normalized_eq_reference (b s beta g lam : ℝ) (hs : s ≠ 0) :
    dspl true b s beta g lam
      = Real.log (gaussianPDFReal (beta2thetaERatio beta g lam) (var s) b) := by
  rw [log_gaussianPDFReal _ _ _ hs]
  unfold dspl
  simp only [if_true, Trans.log, TransX.pi]
  rw [lit_half, lit_one, lit_two]
  field_simp
  ring

/-- **DSPL**: the un-normalised form drops exactly the documented prefactor `½ log(2πσ²)`. -/
theorem dspl_normalized_diff (b s beta g lam : ℝ) :
    dspl true b s beta g lam - dspl false b s beta g lam = -gaussConst s := by
  unfold dspl gaussConst
  simp only [if_true, Bool.false_eq_true, if_false, Trans.log, TransX.pi]
  rw [lit_one, lit_two]; ring

/-- the predicted Einstein-radius ratio: `(β − (1−λ)(1−β))^(1/(γ−1))` -/
theorem beta2thetaERatio_eq (beta g lam : ℝ) :
    beta2thetaERatio beta g lam = (beta - (1 - lam) * (1 - beta)) ^ (1 / (g - 1)) := by
  unfold beta2thetaERatio
  simp only [TransX.rpow]
  rw [lit_one]

/-! ## IFU kinematics (KinLikelihood) -/

/-- Mathlib-level statement of the predicted velocity dispersion: `c·√(J · Ds/Dds · k)` -/
noncomputable def kinPredRef {n : ℕ} (j : Fin n → ℝ) (r : ℝ) (k : Fin n → ℝ) : Fin n → ℝ :=
  fun i => cKms * Real.sqrt (j i * r * k i)

/-- Mathlib-level statement of the total covariance:
    `M (+ (σ s)(σ s)ᵀ if included ∧ given) + (r c²) · diag(√k) E diag(√k)` -/
noncomputable def kinCovRef {n : ℕ} (d : KinData ℝ n) (r : ℝ) (k : Fin n → ℝ) (err : Option ℝ) :
    Matrix (Fin n) (Fin n) ℝ :=
  Matrix.of d.covMeas
    + (match d.sysInclude, err with
       | true, some e => vecMulVec (fun i => d.sigmaV i * e) (fun i => d.sigmaV i * e)
       | _, _ => 0)
    + (r * (cKms * cKms)) •
        (diagonal (fun i => Real.sqrt (k i)) * Matrix.of d.covJSqrt
          * diagonal (fun i => Real.sqrt (k i)))

theorem dsDdsOf_eq_max (z ddt dd : ℝ) : dsDdsOf z ddt dd = max (ddt / dd / (1 + z)) 0 := by
  unfold dsDdsOf
  simp only [lit_zero, lit_one]
  split
  · next h => exact (max_eq_right h.le).symm
  · next h => exact (max_eq_left (not_lt.mp h)).symm

theorem dsDdsOf_nonneg (z ddt dd : ℝ) : 0 ≤ dsDdsOf z ddt dd := by
  rw [dsDdsOf_eq_max]; exact le_max_right _ _

/-- **σ_model = c·√(J·Ds/Dds·scaling)** -/
theorem sigmaVModel_eq {n : ℕ} (j : Vec ℝ n) (r : ℝ) (k : Vec ℝ n) :
    sigmaVModel j r k = kinPredRef j r k := by
  funext i; simp [sigmaVModel, kinPredRef, Trans.sqrt, mul_comm]

/-- **model_cov_scaling**: entry `(i,j)` of the model part scales with `√kᵢ√kⱼ`, `Ds/Dds` and `c²`. -/
theorem covErrorModel_entry {n : ℕ} (e : Mat ℝ n) (r : ℝ) (k : Vec ℝ n) (i j : Fin n) :
    covErrorModel e r k i j = e i j * (Real.sqrt (k i) * Real.sqrt (k j)) * r * (cKms * cKms) := rfl

/-- the covariance the code assembles is the stated one -/
theorem kinCov_eq_ref {n : ℕ} (d : KinData ℝ n) (ddt dd : ℝ) (ks : Option (Vec ℝ n))
    (err : Option ℝ) :
    (Matrix.of (kinCov d ddt dd ks err) : Matrix (Fin n) (Fin n) ℝ)
      = kinCovRef d (dsDdsOf d.zLens ddt dd) (scalingOf ks) err := by
  unfold kinCov kinCovRef
  rw [madd_eq]
  congr 1
  · unfold covErrorMeasurement
    rcases hd : d.sysInclude with _ | _ <;> rcases err with _ | e <;> simp [madd_eq, outer_eq]
  · rw [← hadamard_outer_eq]
    ext i j
    simp [covErrorModel, Trans.sqrt, Matrix.smul_apply]
    ring

/-- **total kinematic covariance is positive definite** for a positive-definite measurement
    covariance and a positive-semidefinite √J covariance — for every distance ratio, scaling vector
    and systematic-error value (the rank-one systematic term and the rescaled model term are PSD). -/
theorem kinCovRef_posDef {n : ℕ} (d : KinData ℝ n) (r : ℝ) (hr : 0 ≤ r) (k : Fin n → ℝ)
    (err : Option ℝ)
    (hM : (Matrix.of d.covMeas : Matrix (Fin n) (Fin n) ℝ).PosDef)
    (hE : (Matrix.of d.covJSqrt : Matrix (Fin n) (Fin n) ℝ).PosSemidef) :
    (kinCovRef d r k err).PosDef := by
  unfold kinCovRef
  refine PosDef.add_posSemidef (PosDef.add_posSemidef hM ?_) ?_
  · rcases d.sysInclude with _ | _ <;> rcases err with _ | e <;>
      first | exact PosSemidef.zero | exact posSemidef_outer_self _
  · exact PosSemidef.smul (posSemidef_diag_conj hE _) (mul_nonneg hr (mul_self_nonneg _))

theorem kinCov_posDef {n : ℕ} (d : KinData ℝ n) (ddt dd : ℝ) (ks : Option (Vec ℝ n))
    (err : Option ℝ)
    (hM : (Matrix.of d.covMeas : Matrix (Fin n) (Fin n) ℝ).PosDef)
    (hE : (Matrix.of d.covJSqrt : Matrix (Fin n) (Fin n) ℝ).PosSemidef) :
    (Matrix.of (kinCov d ddt dd ks err) : Matrix (Fin n) (Fin n) ℝ).PosDef := by
  rw [kinCov_eq_ref]
  exact kinCovRef_posDef d _ (dsDdsOf_nonneg _ _ _) _ err hM hE

/-- the measured mean: `σ` or `σ·(1+offset)` -/
noncomputable def kinMeanRef {n : ℕ} (s : Fin n → ℝ) (off : Option ℝ) : Fin n → ℝ :=
  fun i => s i * (1 + off.getD 0)

theorem sigmaVMean_eq {n : ℕ} (s : Vec ℝ n) (off : Option ℝ) :
    sigmaVMean s off = kinMeanRef s off := by
  funext i
  cases off <;> simp [sigmaVMean, kinMeanRef, lit_one]

/-- **IFUKinCov = reference density**: for a positive-definite measurement covariance and a
    positive-semidefinite model covariance, for all distances, scalings, systematic error and
    offset, `KinLikelihood.log_likelihood` returns a number (no `-inf`, no `ValueError`) equal to
    the multivariate-normal log-density (normalised) / kernel (un-normalised) of the measured
    dispersions around `c√(J·Ds/Dds·k)` with the stated total covariance. -/
theorem kin_eq_reference {n : ℕ} (d : KinData ℝ n) (ddt dd : ℝ) (ks : Option (Vec ℝ n))
    (err off : Option ℝ)
    (hM : (Matrix.of d.covMeas : Matrix (Fin n) (Fin n) ℝ).PosDef)
    (hE : (Matrix.of d.covJSqrt : Matrix (Fin n) (Fin n) ℝ).PosSemidef) :
    kin realLA d ddt dd ks err off
      = .val (if d.normalized
          then mvnLogPdf (kinMeanRef d.sigmaV off)
                 (kinPredRef d.jModel (dsDdsOf d.zLens ddt dd) (scalingOf ks))
                 (kinCovRef d (dsDdsOf d.zLens ddt dd) (scalingOf ks) err)
          else mvnLogKernel (kinMeanRef d.sigmaV off)
                 (kinPredRef d.jModel (dsDdsOf d.zLens ddt dd) (scalingOf ks))
                 (kinCovRef d (dsDdsOf d.zLens ddt dd) (scalingOf ks) err)) := by
  have hpd := kinCov_posDef d ddt dd ks err hM hE
  unfold kin kinDelta
  simp only [sigmaVModel_eq, sigmaVMean_eq]
  rw [gaussCore_eq_reference _ _ _ _ _ hpd.det_pos, kinCov_eq_ref]

/-- **IFUKinCov, normalisation flag**: two likelihood objects that differ only in `normalized`
    return numbers that differ by exactly `(n log 2π + log det C)/2`, `C` the total covariance. -/
theorem kin_normalized_diff {n : ℕ} (d : KinData ℝ n) (ddt dd : ℝ) (ks : Option (Vec ℝ n))
    (err off : Option ℝ)
    (hM : (Matrix.of d.covMeas : Matrix (Fin n) (Fin n) ℝ).PosDef)
    (hE : (Matrix.of d.covJSqrt : Matrix (Fin n) (Fin n) ℝ).PosSemidef) :
    ∃ a b, kin realLA { d with normalized := true } ddt dd ks err off = .val a ∧
      kin realLA { d with normalized := false } ddt dd ks err off = .val b ∧
      a - b = -((n : ℝ) * Real.log (2 * Real.pi)
        + Real.log (kinCovRef d (dsDdsOf d.zLens ddt dd) (scalingOf ks) err).det) / 2 := by
  refine ⟨_, _, kin_eq_reference { d with normalized := true } ddt dd ks err off hM hE,
    kin_eq_reference { d with normalized := false } ddt dd ks err off hM hE, ?_⟩
  simp only [if_true, Bool.false_eq_true, if_false]
  exact mvn_normalized_diff _ _ _

/-- **singular total covariance ⇒ −inf** (any `numpy.linalg`) -/
theorem kin_singular (la : LinAlg ℝ) {n : ℕ} (d : KinData ℝ n) (ddt dd : ℝ)
    (ks : Option (Vec ℝ n)) (err off : Option ℝ)
    (h : la.inv (kinCov d ddt dd ks err) = none) : kin la d ddt dd ks err off = .negInf :=
  gaussCore_singular _ _ _ _ _ h

/-- the systematic error enters only when `sigma_sys_error_include` **and** a value is given -/
theorem kinCov_sys_ignored {n : ℕ} (d : KinData ℝ n) (ddt dd : ℝ) (ks : Option (Vec ℝ n))
    (err : Option ℝ) (h : d.sysInclude = false) :
    kinCov d ddt dd ks err = kinCov d ddt dd ks none := by
  unfold kinCov covErrorMeasurement
  rw [h]

/-! ## `normalized` forced when the systematic error is sampled -/

/-- **sys_forces_normalized**: `CosmoLikelihood.__init__` passes `normalized = True` to the lens
    likelihoods whenever `sigma_v_systematics` is set, irrespective of the user's flag. -/
theorem sys_forces_normalized (flag : Bool) : effectiveNormalized true flag = true := rfl

theorem no_sys_keeps_flag (flag : Bool) : effectiveNormalized false flag = flag := rfl

/-- consequence: with a sampled systematic error the kinematic likelihood is the *fully normalised*
    density — including `log det` of the covariance that contains the sampled error — whatever
    the flag was. -/
theorem kin_sys_sampled_fully_normalized {n : ℕ} (d : KinData ℝ n) (flag : Bool) (ddt dd : ℝ)
    (ks : Option (Vec ℝ n)) (e : ℝ) (off : Option ℝ)
    (hM : (Matrix.of d.covMeas : Matrix (Fin n) (Fin n) ℝ).PosDef)
    (hE : (Matrix.of d.covJSqrt : Matrix (Fin n) (Fin n) ℝ).PosSemidef) :
    kin realLA { d with normalized := effectiveNormalized true flag, sysInclude := true }
        ddt dd ks (some e) off
      = .val (mvnLogPdf (kinMeanRef d.sigmaV off)
          (kinPredRef d.jModel (dsDdsOf d.zLens ddt dd) (scalingOf ks))
          (Matrix.of d.covMeas + vecMulVec (fun i => d.sigmaV i * e) (fun i => d.sigmaV i * e)
            + (dsDdsOf d.zLens ddt dd * (cKms * cKms)) •
              (diagonal (fun i => Real.sqrt (scalingOf ks i)) * Matrix.of d.covJSqrt
                * diagonal (fun i => Real.sqrt (scalingOf ks i))))) := by
  rw [kin_eq_reference { d with normalized := effectiveNormalized true flag, sysInclude := true }
    ddt dd ks (some e) off hM hE]
  simp [sys_forces_normalized, kinCovRef]

/-! ## joint Ddt + kinematics likelihoods are the sum of their parts -/

/-- **DdtGaussKin = DdtGaussian + IFUKinCov** (with `-inf`/exception of the kinematic part
    propagating) — any `numpy.linalg`. -/
theorem ddtGaussKin_is_sum (la : LinAlg ℝ) {n : ℕ} (m s : ℝ) (d : KinData ℝ n) (ddt dd : ℝ)
    (ks : Option (Vec ℝ n)) (err off : Option ℝ) :
    ddtGaussKin la m s d ddt dd ks err off
      = Res.addVal (ddtGaussian m s ddt) (kin la d ddt dd ks err off) := rfl

/-- **DdtHistKin = sample-based Ddt part + IFUKinCov** -/
theorem ddtHistKin_is_sum (la : LinAlg ℝ) {n : ℕ} (t : ℝ) (d : KinData ℝ n) (ddt dd : ℝ)
    (ks : Option (Vec ℝ n)) (err : Option ℝ) :
    ddtHistKin la t d ddt dd ks err = Res.addVal t (kin la d ddt dd ks err none) := rfl

/-- on the property's domain the joint value is the *number* `Ddt part + kinematic reference`. -/
theorem ddtGaussKin_eq_reference {n : ℕ} (m s : ℝ) (d : KinData ℝ n) (ddt dd : ℝ)
    (ks : Option (Vec ℝ n)) (err off : Option ℝ) (hs : s ≠ 0)
    (hM : (Matrix.of d.covMeas : Matrix (Fin n) (Fin n) ℝ).PosDef)
    (hE : (Matrix.of d.covJSqrt : Matrix (Fin n) (Fin n) ℝ).PosSemidef) :
    ddtGaussKin realLA m s d ddt dd ks err off
      = .val (Real.log (gaussianPDFReal ddt (var s) m) + gaussConst s
          + (if d.normalized
              then mvnLogPdf (kinMeanRef d.sigmaV off)
                     (kinPredRef d.jModel (dsDdsOf d.zLens ddt dd) (scalingOf ks))
                     (kinCovRef d (dsDdsOf d.zLens ddt dd) (scalingOf ks) err)
              else mvnLogKernel (kinMeanRef d.sigmaV off)
                     (kinPredRef d.jModel (dsDdsOf d.zLens ddt dd) (scalingOf ks))
                     (kinCovRef d (dsDdsOf d.zLens ddt dd) (scalingOf ks) err))) := by
  rw [ddtGaussKin_is_sum, kin_eq_reference d ddt dd ks err off hM hE,
    ddtGaussian_eq_reference m s ddt hs]
  rfl

theorem ddtHistKin_eq_reference {n : ℕ} (t : ℝ) (d : KinData ℝ n) (ddt dd : ℝ)
    (ks : Option (Vec ℝ n)) (err : Option ℝ)
    (hM : (Matrix.of d.covMeas : Matrix (Fin n) (Fin n) ℝ).PosDef)
    (hE : (Matrix.of d.covJSqrt : Matrix (Fin n) (Fin n) ℝ).PosSemidef) :
    ddtHistKin realLA t d ddt dd ks err
      = .val (t + (if d.normalized
              then mvnLogPdf (kinMeanRef d.sigmaV none)
                     (kinPredRef d.jModel (dsDdsOf d.zLens ddt dd) (scalingOf ks))
                     (kinCovRef d (dsDdsOf d.zLens ddt dd) (scalingOf ks) err)
              else mvnLogKernel (kinMeanRef d.sigmaV none)
                     (kinPredRef d.jModel (dsDdsOf d.zLens ddt dd) (scalingOf ks))
                     (kinCovRef d (dsDdsOf d.zLens ddt dd) (scalingOf ks) err))) := by
  rw [ddtHistKin_is_sum, kin_eq_reference d ddt dd ks err none hM hE]
  rfl

/-- a singular kinematic covariance makes the joint likelihood `-inf` as well -/
theorem ddtGaussKin_singular (la : LinAlg ℝ) {n : ℕ} (m s : ℝ) (d : KinData ℝ n) (ddt dd : ℝ)
    (ks : Option (Vec ℝ n)) (err off : Option ℝ)
    (h : la.inv (kinCov d ddt dd ks err) = none) :
    ddtGaussKin la m s d ddt dd ks err off = .negInf := by
  rw [ddtGaussKin_is_sum, kin_singular la d ddt dd ks err off h]; rfl

theorem ddtHistKin_singular (la : LinAlg ℝ) {n : ℕ} (t : ℝ) (d : KinData ℝ n) (ddt dd : ℝ)
    (ks : Option (Vec ℝ n)) (err : Option ℝ)
    (h : la.inv (kinCov d ddt dd ks err) = none) :
    ddtHistKin la t d ddt dd ks err = .negInf := by
  rw [ddtHistKin_is_sum, kin_singular la d ddt dd ks err none h]; rfl

/-- **joint types, normalisation flag**: for DdtGaussKin the flag changes the kinematic constant
    `(n log 2π + log det C)/2` and nothing else (the Ddt Gaussian never carries its prefactor). -/
theorem ddtGaussKin_normalized_diff {n : ℕ} (m s : ℝ) (d : KinData ℝ n) (ddt dd : ℝ)
    (ks : Option (Vec ℝ n)) (err off : Option ℝ)
    (hM : (Matrix.of d.covMeas : Matrix (Fin n) (Fin n) ℝ).PosDef)
    (hE : (Matrix.of d.covJSqrt : Matrix (Fin n) (Fin n) ℝ).PosSemidef) :
    ∃ a b, ddtGaussKin realLA m s { d with normalized := true } ddt dd ks err off = .val a ∧
      ddtGaussKin realLA m s { d with normalized := false } ddt dd ks err off = .val b ∧
      a - b = -((n : ℝ) * Real.log (2 * Real.pi)
        + Real.log (kinCovRef d (dsDdsOf d.zLens ddt dd) (scalingOf ks) err).det) / 2 := by
  obtain ⟨a, b, ha, hb, hab⟩ := kin_normalized_diff d ddt dd ks err off hM hE
  refine ⟨ddtGaussian m s ddt + a, ddtGaussian m s ddt + b, ?_, ?_, by linarith⟩
  · rw [ddtGaussKin_is_sum, ha]; rfl
  · rw [ddtGaussKin_is_sum, hb]; rfl

/-- the same for DdtHistKin at a fixed value of its sample-based Ddt part -/
theorem ddtHistKin_normalized_diff {n : ℕ} (t : ℝ) (d : KinData ℝ n) (ddt dd : ℝ)
    (ks : Option (Vec ℝ n)) (err : Option ℝ)
    (hM : (Matrix.of d.covMeas : Matrix (Fin n) (Fin n) ℝ).PosDef)
    (hE : (Matrix.of d.covJSqrt : Matrix (Fin n) (Fin n) ℝ).PosSemidef) :
    ∃ a b, ddtHistKin realLA t { d with normalized := true } ddt dd ks err = .val a ∧
      ddtHistKin realLA t { d with normalized := false } ddt dd ks err = .val b ∧
      a - b = -((n : ℝ) * Real.log (2 * Real.pi)
        + Real.log (kinCovRef d (dsDdsOf d.zLens ddt dd) (scalingOf ks) err).det) / 2 := by
  obtain ⟨a, b, ha, hb, hab⟩ := kin_normalized_diff d ddt dd ks err none hM hE
  refine ⟨t + a, t + b, ?_, ?_, by linarith⟩
  · rw [ddtHistKin_is_sum, ha]; rfl
  · rw [ddtHistKin_is_sum, hb]; rfl

/-! ## magnification -/

/-- source amplitude `10^(-(m - zp)/2.5)` -/
theorem magnitude2cps_eq (m zp : ℝ) : magnitude2cps m zp = (10 : ℝ) ^ (-(m - zp) / (5 / 2)) := by
  unfold magnitude2cps
  simp only [Trans.pow10]
  rw [lit_2_5]

theorem magCov_eq {n : ℕ} (d : MagData ℝ n) (mu : ℝ) :
    (Matrix.of (magCov d mu) : Matrix (Fin n) (Fin n) ℝ)
      = Matrix.of d.covAmp
        + (magnitude2cps mu d.zeroPoint * magnitude2cps mu d.zeroPoint) • Matrix.of d.covMagModel := by
  ext i j
  simp [magCov, mul_comm]

theorem magCov_posDef {n : ℕ} (d : MagData ℝ n) (mu : ℝ)
    (hA : (Matrix.of d.covAmp : Matrix (Fin n) (Fin n) ℝ).PosDef)
    (hB : (Matrix.of d.covMagModel : Matrix (Fin n) (Fin n) ℝ).PosSemidef) :
    (Matrix.of (magCov d mu) : Matrix (Fin n) (Fin n) ℝ).PosDef := by
  rw [magCov_eq]
  exact PosDef.add_posSemidef hA (PosSemidef.smul hB (mul_self_nonneg _))

/-- **Mag = reference density** (always normalised): measured amplitudes around
    `amp·μ_model` with covariance `C_data + amp²·C_model`. -/
theorem mag_eq_reference {n : ℕ} (d : MagData ℝ n) (mu : ℝ)
    (hA : (Matrix.of d.covAmp : Matrix (Fin n) (Fin n) ℝ).PosDef)
    (hB : (Matrix.of d.covMagModel : Matrix (Fin n) (Fin n) ℝ).PosSemidef) :
    mag realLA d mu
      = .val (mvnLogPdf d.amp (fun i => magnitude2cps mu d.zeroPoint * d.magModel i)
          (Matrix.of d.covAmp
            + (magnitude2cps mu d.zeroPoint * magnitude2cps mu d.zeroPoint)
              • Matrix.of d.covMagModel)) := by
  unfold mag
  rw [gaussCore_eq_reference _ _ _ _ _ (magCov_posDef d mu hA hB).det_pos, magCov_eq]
  rfl

theorem mag_singular (la : LinAlg ℝ) {n : ℕ} (d : MagData ℝ n) (mu : ℝ)
    (h : la.inv (magCov d mu) = none) : mag la d mu = .negInf :=
  gaussCore_singular _ _ _ _ _ h

/-! ## time delays + magnification -/

/-- covariance of both time-delay + magnification likelihoods for a scale vector `s`:
    block-diagonal data covariance + `diag(s) C_modelᵀ diag(s)` -/
theorem tdMagCov_eq {a b : ℕ} (d : TDMagData ℝ a b) (ddt mu : ℝ) :
    (Matrix.of (tdMagCov d ddt mu) : Matrix (Fin (a + b)) (Fin (a + b)) ℝ)
      = Matrix.of (blockDiag d.covTd d.covAmp)
        + diagonal (tdMagScale d ddt mu) * (Matrix.of d.covModel)ᵀ * diagonal (tdMagScale d ddt mu) := by
  unfold tdMagCov; rw [madd_eq, scaleCov_eq]

theorem tdMagMagnitudeCov_eq {a b : ℕ} (d : TDMagData ℝ a b) (ddt : ℝ) :
    (Matrix.of (tdMagMagnitudeCov d ddt) : Matrix (Fin (a + b)) (Fin (a + b)) ℝ)
      = Matrix.of (blockDiag d.covTd d.covAmp)
        + diagonal (tdMagMagnitudeScale d ddt) * (Matrix.of d.covModel)ᵀ
          * diagonal (tdMagMagnitudeScale d ddt) := by
  unfold tdMagMagnitudeCov; rw [madd_eq, scaleCov_eq]

/-- the scale vector: `Ddt·(Fermat unit)` on the time-delay block, source amplitude on the flux block -/
theorem tdMagScale_eq {a b : ℕ} (d : TDMagData ℝ a b) (ddt mu : ℝ) :
    (∀ i : Fin a, tdMagScale d ddt mu (Fin.castAdd b i) = ddt * d.fermatUnit) ∧
    (∀ i : Fin b, tdMagScale d ddt mu (Fin.natAdd a i) = magnitude2cps mu d.zeroPoint) := by
  constructor <;> intro i <;> simp [tdMagScale, lit_one]

theorem tdMagMagnitudeScale_eq {a b : ℕ} (d : TDMagData ℝ a b) (ddt : ℝ) :
    (∀ i : Fin a, tdMagMagnitudeScale d ddt (Fin.castAdd b i) = ddt * d.fermatUnit) ∧
    (∀ i : Fin b, tdMagMagnitudeScale d ddt (Fin.natAdd a i) = 1) := by
  constructor <;> intro i <;> simp [tdMagMagnitudeScale, lit_one]

/-- entry `(i,j)` of the rescaled model covariance: `sᵢ sⱼ C_model[j,i]` — the time-delay block
    scales with `(Ddt·unit)²`, the flux block with `amp²`, the cross block with their product. -/
theorem scaleCov_entry {n : ℕ} (s : Vec ℝ n) (c : Mat ℝ n) (i j : Fin n) :
    scaleCov s c i j = s i * s j * c j i := by
  unfold scaleCov; ring

theorem tdMagCov_posDef {a b : ℕ} (d : TDMagData ℝ a b) (ddt mu : ℝ)
    (hT : (Matrix.of d.covTd : Matrix (Fin a) (Fin a) ℝ).PosDef)
    (hA : (Matrix.of d.covAmp : Matrix (Fin b) (Fin b) ℝ).PosDef)
    (hC : (Matrix.of d.covModel : Matrix (Fin (a + b)) (Fin (a + b)) ℝ).PosSemidef) :
    (Matrix.of (tdMagCov d ddt mu) : Matrix (Fin (a + b)) (Fin (a + b)) ℝ).PosDef := by
  unfold tdMagCov; rw [madd_eq]
  exact PosDef.add_posSemidef (posDef_blockDiag hT hA) (posSemidef_scaleCov _ hC)

theorem tdMagMagnitudeCov_posDef {a b : ℕ} (d : TDMagData ℝ a b) (ddt : ℝ)
    (hT : (Matrix.of d.covTd : Matrix (Fin a) (Fin a) ℝ).PosDef)
    (hA : (Matrix.of d.covAmp : Matrix (Fin b) (Fin b) ℝ).PosDef)
    (hC : (Matrix.of d.covModel : Matrix (Fin (a + b)) (Fin (a + b)) ℝ).PosSemidef) :
    (Matrix.of (tdMagMagnitudeCov d ddt) : Matrix (Fin (a + b)) (Fin (a + b)) ℝ).PosDef := by
  unfold tdMagMagnitudeCov; rw [madd_eq]
  exact PosDef.add_posSemidef (posDef_blockDiag hT hA) (posSemidef_scaleCov _ hC)

/-- **TDMag = reference density**: data `(Δt, amplitudes)` around
    `(Ddt·unit·Δφ, amp·μ)` with the combined covariance. -/
theorem tdMag_eq_reference {a b : ℕ} (d : TDMagData ℝ a b) (ddt mu : ℝ)
    (hT : (Matrix.of d.covTd : Matrix (Fin a) (Fin a) ℝ).PosDef)
    (hA : (Matrix.of d.covAmp : Matrix (Fin b) (Fin b) ℝ).PosDef)
    (hC : (Matrix.of d.covModel : Matrix (Fin (a + b)) (Fin (a + b)) ℝ).PosSemidef) :
    tdMag realLA d ddt mu
      = .val (mvnLogPdf (vappend d.td d.amp)
          (vappend (fun i => ddt * d.fermatUnit * d.fermat i)
                   (fun i => magnitude2cps mu d.zeroPoint * d.magModel i))
          (Matrix.of (blockDiag d.covTd d.covAmp)
            + diagonal (tdMagScale d ddt mu) * (Matrix.of d.covModel)ᵀ
              * diagonal (tdMagScale d ddt mu))) := by
  have hmodel : (fun i => tdMagScale d ddt mu i * vappend d.fermat d.magModel i)
      = vappend (fun i => ddt * d.fermatUnit * d.fermat i)
                (fun i => magnitude2cps mu d.zeroPoint * d.magModel i) := by
    funext i
    refine Fin.addCases (fun i' => ?_) (fun i' => ?_) i <;> simp [tdMagScale, lit_one]
  unfold tdMag tdMagDelta
  rw [gaussCore_eq_reference _ _ _ _ _ (tdMagCov_posDef d ddt mu hT hA hC).det_pos, tdMagCov_eq,
    hmodel]
  rfl

/-- **TDMagMagnitude = reference density**: data `(Δt, magnitudes)` around
    `(Ddt·unit·Δφ, m_model + m_source)`; the magnitude block of the model covariance is not
    rescaled. -/
theorem tdMagMagnitude_eq_reference {a b : ℕ} (d : TDMagData ℝ a b) (ddt mu : ℝ)
    (hT : (Matrix.of d.covTd : Matrix (Fin a) (Fin a) ℝ).PosDef)
    (hA : (Matrix.of d.covAmp : Matrix (Fin b) (Fin b) ℝ).PosDef)
    (hC : (Matrix.of d.covModel : Matrix (Fin (a + b)) (Fin (a + b)) ℝ).PosSemidef) :
    tdMagMagnitude realLA d ddt mu
      = .val (mvnLogPdf (vappend d.td d.amp)
          (vappend (fun i => ddt * d.fermatUnit * d.fermat i) (fun i => d.magModel i + mu))
          (Matrix.of (blockDiag d.covTd d.covAmp)
            + diagonal (tdMagMagnitudeScale d ddt) * (Matrix.of d.covModel)ᵀ
              * diagonal (tdMagMagnitudeScale d ddt))) := by
  unfold tdMagMagnitude tdMagMagnitudeDelta
  rw [gaussCore_eq_reference _ _ _ _ _ (tdMagMagnitudeCov_posDef d ddt hT hA hC).det_pos,
    tdMagMagnitudeCov_eq]
  rfl

theorem tdMag_singular (la : LinAlg ℝ) {a b : ℕ} (d : TDMagData ℝ a b) (ddt mu : ℝ)
    (h : la.inv (tdMagCov d ddt mu) = none) : tdMag la d ddt mu = .negInf :=
  gaussCore_singular _ _ _ _ _ h

theorem tdMagMagnitude_singular (la : LinAlg ℝ) {a b : ℕ} (d : TDMagData ℝ a b) (ddt mu : ℝ)
    (h : la.inv (tdMagMagnitudeCov d ddt) = none) : tdMagMagnitude la d ddt mu = .negInf :=
  gaussCore_singular _ _ _ _ _ h

/-! ## dispatch: each type receives only the arguments it consumes -/

/-- two argument sets agree on what the lens type consumes -/
def SameConsumed : Lens ℝ → Args ℝ → Args ℝ → Prop
  | .ddtGaussian _ _, x, y => x.ddt = y.ddt
  | .ddtLogNorm _ _, x, y => x.ddt = y.ddt
  | .ddtDdGaussian _ _ _ _, x, y => x.ddt = y.ddt ∧ x.dd = y.dd ∧ x.kinScaling = y.kinScaling
  | .dsDdsGaussian _ _ _, x, y => x.ddt = y.ddt ∧ x.dd = y.dd ∧ x.kinScaling = y.kinScaling
  | .ifuKinCov _ _, x, y =>
      x.ddt = y.ddt ∧ x.dd = y.dd ∧ x.kinScaling = y.kinScaling ∧ x.sigmaVSysError = y.sigmaVSysError
  | .ddtGaussKin _ _ _ _, x, y =>
      x.ddt = y.ddt ∧ x.dd = y.dd ∧ x.kinScaling = y.kinScaling ∧ x.sigmaVSysError = y.sigmaVSysError
  | .ddtHistKin _ _ _, x, y =>
      x.ddt = y.ddt ∧ x.dd = y.dd ∧ x.kinScaling = y.kinScaling ∧ x.sigmaVSysError = y.sigmaVSysError
  | .mag _ _, x, y => x.muIntrinsic = y.muIntrinsic
  | .tdMag _ _ _, x, y => x.ddt = y.ddt ∧ x.muIntrinsic = y.muIntrinsic
  | .tdMagMagnitude _ _ _, x, y => x.ddt = y.ddt ∧ x.muIntrinsic = y.muIntrinsic
  | .dspl _ _ _, x, y => x.betaDsp = y.betaDsp ∧ x.gammaPl = y.gammaPl ∧ x.lambdaMst = y.lambdaMst

/-- **dispatch**: `LensLikelihoodBase.log_likelihood` depends only on the arguments the lens type
    consumes (any `numpy.linalg`). -/
theorem dispatch_consumes_only (la : LinAlg ℝ) (l : Lens ℝ) (x y : Args ℝ)
    (h : SameConsumed l x y) : dispatch la l x = dispatch la l y := by
  cases l <;> simp only [SameConsumed] at h <;> simp only [dispatch] <;>
    first
      | (obtain ⟨h1, h2, h3, h4⟩ := h; rw [h1, h2, h3, h4])
      | (obtain ⟨h1, h2, h3⟩ := h; rw [h1, h2, h3])
      | (obtain ⟨h1, h2⟩ := h; rw [h1, h2])
      | rw [h]

/-- **dispatch routes to the type's own likelihood** -/
theorem dispatch_routes (la : LinAlg ℝ) (x : Args ℝ) :
    (∀ m s, dispatch la (.ddtGaussian m s) x = .val (ddtGaussian m s x.ddt)) ∧
    (∀ m s, dispatch la (.ddtLogNorm m s) x = .val (ddtLogNorm m s x.ddt)) ∧
    (∀ m s dm ds, dispatch la (.ddtDdGaussian m s dm ds) x
        = .val (ddtDdGaussian m s dm ds x.ddt x.dd (ks0 x.kinScaling))) ∧
    (∀ z m s, dispatch la (.dsDdsGaussian z m s) x
        = .val (dsDdsGaussian z m s x.ddt x.dd (ks0 x.kinScaling))) ∧
    (∀ n (d : KinData ℝ n), dispatch la (.ifuKinCov n d) x
        = kin la d x.ddt x.dd (ksVec x.kinScaling) x.sigmaVSysError none) ∧
    (∀ n m s (d : KinData ℝ n), dispatch la (.ddtGaussKin n m s d) x
        = ddtGaussKin la m s d x.ddt x.dd (ksVec x.kinScaling) x.sigmaVSysError none) ∧
    (∀ n f (d : KinData ℝ n), dispatch la (.ddtHistKin n f d) x
        = ddtHistKin la (f x.ddt) d x.ddt x.dd (ksVec x.kinScaling) x.sigmaVSysError) ∧
    (∀ n (d : MagData ℝ n), dispatch la (.mag n d) x = mag la d x.muIntrinsic) ∧
    (∀ a b (d : TDMagData ℝ a b), dispatch la (.tdMag a b d) x = tdMag la d x.ddt x.muIntrinsic) ∧
    (∀ a b (d : TDMagData ℝ a b), dispatch la (.tdMagMagnitude a b d) x
        = tdMagMagnitude la d x.ddt x.muIntrinsic) ∧
    (∀ nrm b s, dispatch la (.dspl nrm b s) x
        = .val (dspl nrm b s x.betaDsp x.gammaPl x.lambdaMst)) :=
  ⟨fun _ _ => rfl, fun _ _ => rfl, fun _ _ _ _ => rfl, fun _ _ _ => rfl, fun _ _ => rfl,
   fun _ _ _ _ => rfl, fun _ _ _ => rfl, fun _ _ => rfl, fun _ _ _ => rfl, fun _ _ _ => rfl,
   fun _ _ _ => rfl⟩

/-! ## non-vacuity: the hypotheses are satisfiable by concrete non-trivial instances -/

/-- a concrete IFU data set with correlated measurement *and* model covariance -/
noncomputable def exKin : KinData ℝ 2 :=
  { zLens := 0.5, sigmaV := fun i => if i = 0 then 250 else 260,
    jModel := fun _ => 1 / 1000000, covMeas := exM, covJSqrt := exM,
    normalized := true, sysInclude := true }

example : (Matrix.of exKin.covMeas : Matrix (Fin 2) (Fin 2) ℝ).PosDef := exM_posDef
example : (Matrix.of exKin.covJSqrt : Matrix (Fin 2) (Fin 2) ℝ).PosSemidef := exM_posDef.posSemidef

/-- `kin_eq_reference`, `kin_normalized_diff`, `kin_sys_sampled_fully_normalized`, `kinCov_posDef`,
    `ddtGaussKin_eq_reference`, `ddtHistKin_eq_reference` apply to it -/
example : ∃ v, kin realLA exKin 4000 1200 (some fun _ => 1.1) (some 0.05) (some 0.01) = .val v :=
  ⟨_, kin_eq_reference exKin 4000 1200 _ _ _ exM_posDef exM_posDef.posSemidef⟩

example : ∃ v, ddtGaussKin realLA 4000 100 exKin 4100 1200 none none none = .val v :=
  ⟨_, ddtGaussKin_eq_reference 4000 100 exKin 4100 1200 _ _ _ (by norm_num) exM_posDef
    exM_posDef.posSemidef⟩

/-- `gaussCore_eq_reference` / `gaussCore_normalized_diff`: `realLA` on `exM` -/
example : 0 < (Matrix.of exM : Matrix (Fin 2) (Fin 2) ℝ).det := exM_posDef.det_pos
example : ∃ Ci, realLA.inv exM = some Ci ∧ 0 ≤ (realLA.slogdet exM).1 :=
  ⟨_, realLA_inv_of_det_ne exM exM_posDef.det_pos.ne',
    by rw [realLA_slogdet_of_det_pos exM exM_posDef.det_pos]; norm_num⟩

/-- `gaussCore_singular_real`: a singular covariance exists (`[[1,1],[1,1]]`) -/
example : (Matrix.of (fun _ _ => (1 : ℝ)) : Matrix (Fin 2) (Fin 2) ℝ).det = 0 := by
  simp [Matrix.det_fin_two]

/-- `gaussCore_negative_sign`: an indefinite matrix `[[1,2],[2,1]]` has negative determinant sign -/
example : (realLA.slogdet (fun i j : Fin 2 => if i = j then (1 : ℝ) else 2)).1 < 0 := by
  have : (Matrix.of (fun i j : Fin 2 => if i = j then (1 : ℝ) else 2)).det = -3 := by
    simp [Matrix.det_fin_two]; norm_num
  simp [realLA, this]

/-- Mag / TDMag hypotheses: `exM` for the data blocks, `exM`-block-diagonal model covariance -/
noncomputable def exMag : MagData ℝ 2 :=
  { amp := fun _ => 10, covAmp := exM, magModel := fun _ => 2, covMagModel := exM, zeroPoint := 20 }

example : ∃ v, mag realLA exMag 19 = .val v :=
  ⟨_, mag_eq_reference exMag 19 exM_posDef exM_posDef.posSemidef⟩

noncomputable def exTDMag : TDMagData ℝ 2 2 :=
  { td := fun _ => 10, covTd := exM, amp := fun _ => 5, covAmp := exM, fermat := fun _ => 0.3,
    magModel := fun _ => 2, covModel := blockDiag exM exM, zeroPoint := 20, fermatUnit := 0.028 }

example : ∃ v, tdMag realLA exTDMag 4000 19 = .val v :=
  ⟨_, tdMag_eq_reference exTDMag 4000 19 exM_posDef exM_posDef
    (posDef_blockDiag exM_posDef exM_posDef).posSemidef⟩

example : ∃ v, tdMagMagnitude realLA exTDMag 4000 19 = .val v :=
  ⟨_, tdMagMagnitude_eq_reference exTDMag 4000 19 exM_posDef exM_posDef
    (posDef_blockDiag exM_posDef exM_posDef).posSemidef⟩

/-- one-dimensional types: `σ ≠ 0`, `ddt > 0` -/
example : (100 : ℝ) ≠ 0 ∧ (0 : ℝ) < 4000 := by norm_num

/-- dispatch: two argument sets that differ in everything a `Mag` lens does not consume -/
example : SameConsumed (.mag 2 exMag)
    ⟨1, 2, 3, none, none, 19, 4, 5⟩ ⟨6, 7, 8, some (fun _ => 1), some 0.1, 19, 9, 10⟩ := rfl

end HierArc.Gauss
