/-
  C16 — Posterior processing emits a self-consistent kinematic likelihood configuration.
  Property theorems about `HierArc.Posterior` instantiated at ℝ, the kinematics engine `J`,
  the halo conversion `K` and the values returned by the random generator being arbitrary.
-/
import HierArc.Model.Posterior
import HierArc.Proofs.RealInst
import HierArc.Proofs.Posterior
import Mathlib.Analysis.SpecialFunctions.Pow.Real
import Mathlib.Analysis.SpecialFunctions.Exp
import Mathlib.Analysis.Complex.ExponentialBounds
import Mathlib.Tactic.FieldSimp
import Mathlib.Tactic.Ring
import Mathlib.Tactic.Linarith
import Mathlib.Tactic.NormNum
import Mathlib.Tactic.Positivity

namespace HierArc.Posterior
open HierArc Finset

/-! ## 1. measurement covariance = diag(independent²) + covariant², or the supplied matrix -/

theorem errCov_formula (ind : List ℝ) (c : ℝ) (i j : ℕ) :
    errCovEntry ind c i j = (if i = j then (ind.getD i 0) ^ 2 else 0) + c ^ 2 := by
  unfold errCovEntry
  rw [lit_one, lit_zero]
  split <;> ring

/-- the matrix handed to the likelihood has exactly these entries (any size) -/
theorem errCovMatrix_entry (ind : List ℝ) (c : ℝ) (i j : ℕ) (hi : i < ind.length)
    (hj : j < ind.length) :
    ((errCovMatrix ind c).getD i []).getD j 0 = (if i = j then ind[i] ^ 2 else 0) + c ^ 2 := by
  unfold errCovMatrix
  simp [List.getD_eq_getElem?_getD, hi, hj, errCov_formula]

theorem errCovMatrix_symm (ind : List ℝ) (c : ℝ) (i j : ℕ) :
    errCovEntry ind c i j = errCovEntry ind c j i := by
  rw [errCov_formula, errCov_formula]
  by_cases h : i = j
  · subst h; rfl
  · simp [h, Ne.symm h]

theorem errorCov_supplied (m : List (List ℝ)) (ind : Option (List ℝ)) (c : Option ℝ) :
    errorCovMeasurement (some m) ind c = .ok m := rfl

theorem errorCov_from_errors (ind : List ℝ) (c : ℝ) :
    errorCovMeasurement none (some ind) (some c) = .ok (errCovMatrix ind c) := rfl

example : errCovEntry ([10, 11] : List ℝ) 3 0 0 = 109 ∧ errCovEntry ([10, 11] : List ℝ) 3 0 1 = 9 := by
  constructor <;> (rw [errCov_formula]; norm_num)

/-! ## 2. J-model = mean, √J-covariance = sample covariance over the lens-model draws -/

theorem jModel_is_mean (jm : ℕ → ℕ → ℝ) (N s : ℕ) :
    jModelEntry jm N s = (∑ i ∈ range N, jm i s) / N := by
  simp [jModelEntry, meanN_eq]

/-- mean of √J over the draws -/
noncomputable def sqrtMean (jm : ℕ → ℕ → ℝ) (N s : ℕ) : ℝ := (∑ i ∈ range N, √(jm i s)) / N

theorem covSqrt_is_sample_cov (jm : ℕ → ℕ → ℝ) (N s t : ℕ) :
    covSqrtEntry jm N s t =
      (∑ i ∈ range N, (√(jm i s) - sqrtMean jm N s) * (√(jm i t) - sqrtMean jm N t)) / (N - 1) := by
  simp [covSqrtEntry, meanN_eq, sumN_eq, natA_eq, lit_one, sqrtMean, Trans.sqrt]

theorem covSqrt_symm (jm : ℕ → ℕ → ℝ) (N s t : ℕ) : covSqrtEntry jm N s t = covSqrtEntry jm N t s := by
  rw [covSqrt_is_sample_cov, covSqrt_is_sample_cov]
  congr 1
  exact sum_congr rfl fun i _ => mul_comm _ _

/-- positive semi-definite for at least two draws (so it can be added to a covariance) -/
theorem covSqrt_psd (jm : ℕ → ℕ → ℝ) (N n : ℕ) (hN : 2 ≤ N) (v : ℕ → ℝ) :
    0 ≤ ∑ s ∈ range n, ∑ t ∈ range n, v s * covSqrtEntry jm N s t * v t := by
  have hN1 : (0 : ℝ) < (N : ℝ) - 1 := by
    have : (2 : ℝ) ≤ N := by exact_mod_cast hN
    linarith
  obtain ⟨d, hd⟩ : ∃ d : ℕ → ℕ → ℝ, ∀ i s, d i s = √(jm i s) - sqrtMean jm N s :=
    ⟨_, fun _ _ => rfl⟩
  have hcov : ∀ s t, covSqrtEntry jm N s t = (∑ i ∈ range N, d i s * d i t) / (N - 1) := by
    intro s t
    rw [covSqrt_is_sample_cov]
    simp only [hd]
  have key : ∑ s ∈ range n, ∑ t ∈ range n, v s * covSqrtEntry jm N s t * v t
      = (∑ i ∈ range N, (∑ s ∈ range n, v s * d i s) ^ 2) / (N - 1) := by
    have hL : ∀ s t, v s * covSqrtEntry jm N s t * v t
        = ∑ i ∈ range N, v s * (d i s * d i t / ((N : ℝ) - 1)) * v t := by
      intro s t
      rw [hcov, sum_div, mul_sum, sum_mul]
    have hR : ∀ i, (∑ s ∈ range n, v s * d i s) ^ 2 / ((N : ℝ) - 1)
        = ∑ s ∈ range n, ∑ t ∈ range n, v s * (d i s * d i t / ((N : ℝ) - 1)) * v t := by
      intro i
      rw [pow_two, sum_mul_sum, sum_div]
      refine sum_congr rfl fun s _ => ?_
      rw [sum_div]
      refine sum_congr rfl fun t _ => ?_
      ring
    rw [sum_div]
    simp only [hL, hR]
    conv_rhs => rw [sum_comm]
    refine sum_congr rfl fun s _ => ?_
    rw [sum_comm]
  rw [key]
  exact div_nonneg (sum_nonneg fun i _ => sq_nonneg _) hN1.le

example : covSqrtEntry (fun i _ => if i = 0 then (4 : ℝ) else 16) 2 0 0 = 2 := by
  rw [covSqrt_is_sample_cov]
  have h4 : √(4 : ℝ) = 2 := by
    rw [show (4 : ℝ) = 2 ^ 2 by norm_num]; exact Real.sqrt_sq (by norm_num)
  have h16 : √(16 : ℝ) = 4 := by
    rw [show (16 : ℝ) = 4 ^ 2 by norm_num]; exact Real.sqrt_sq (by norm_num)
  simp [sqrtMean, sum_range_succ, h4, h16]
  norm_num

/-! ## 3. every node of every scaling grid = J(parameters at the node) / J(base parameters),
       for any number of axes -/

theorem gridFlat_length (F : List ℝ → ℝ) (F0 : ℝ) (axes : List (List ℝ)) :
    (gridFlat F F0 axes).length = prodL (axes.map List.length) := by
  simp [gridFlat, nodes_length]

/-- **grid node = ratio**, any number of axes (induction over the axis list in `nodes_getElem?`):
    the entry at the row-major position of the multi-index `idx` is `F(node idx) / F0`. -/
theorem grid_node_is_ratio (F : List ℝ → ℝ) (F0 : ℝ) (axes : List (List ℝ)) (idx : List ℕ)
    (h : ValidIdx (axes.map List.length) idx) :
    (gridFlat F F0 axes)[flatIdx (axes.map List.length) idx]? = some (F (nodeAt axes idx) / F0) := by
  simp [gridFlat, List.getElem?_map, nodes_getElem? axes idx h]

/-- conversely every entry of the flattened grid belongs to exactly such a node -/
theorem grid_every_entry (F : List ℝ → ℝ) (F0 : ℝ) (axes : List (List ℝ)) (k : ℕ)
    (hk : k < (gridFlat F F0 axes).length) :
    ∃ idx, ValidIdx (axes.map List.length) idx ∧ flatIdx (axes.map List.length) idx = k ∧
      (gridFlat F F0 axes)[k]? = some (F (nodeAt axes idx) / F0) := by
  rw [gridFlat_length] at hk
  obtain ⟨idx, hv, hf⟩ := flatIdx_surj _ k hk
  exact ⟨idx, hv, hf, hf ▸ grid_node_is_ratio F F0 axes idx hv⟩

/-- the node with multi-index `idx` carries, on axis `k`, the `idx[k]`-th value of that axis -/
theorem nodeAt_coord : ∀ (axes : List (List ℝ)) (idx : List ℕ) (k : ℕ),
    ValidIdx (axes.map List.length) idx → k < axes.length →
    (nodeAt axes idx).getD k 0 = (axes.getD k []).getD (idx.getD k 0) 0
  | [], [], k, _, hk => by simp at hk
  | ax :: rest, i :: is, 0, _, _ => by simp [nodeAt, lit_zero]
  | ax :: rest, i :: is, k + 1, h, hk => by
    have := nodeAt_coord rest is k h.2 (by simpa using hk)
    simpa [nodeAt] using this
  | [], _ :: _, _, h, _ => by simp [ValidIdx] at h
  | _ :: _, [], _, h, _ => by simp [ValidIdx] at h

theorem nodeAt_length : ∀ (axes : List (List ℝ)) (idx : List ℕ),
    ValidIdx (axes.map List.length) idx → (nodeAt axes idx).length = axes.length
  | [], [], _ => by simp [nodeAt]
  | ax :: rest, i :: is, h => by simp [nodeAt, nodeAt_length rest is h.2]
  | [], _ :: _, h => by simp [ValidIdx] at h
  | _ :: _, [], h => by simp [ValidIdx] at h

/-- non-vacuity: a 3-axis grid (2 × 1 × 2), node (1,0,1) sits at flat position 3 -/
example : (gridFlat (fun p : List ℝ => p.sum) 2 [[1, 2], [10], [100, 200]])[3]?
    = some ((2 + (10 + 200)) / 2) := by
  have := grid_node_is_ratio (fun p => p.sum) 2 [[1, 2], [10], [100, 200]] [1, 0, 1]
    (by simp [ValidIdx])
  simpa [flatIdx, prodL, nodeAt] using this

/-! ### the same for the configurations the classes emit -/

theorem range_map_getD {γ : Type} (f : ℕ → γ) (n s : ℕ) (hs : s < n) (d : γ) :
    ((List.range n).map f).getD s d = f s := by
  simp [List.getD_eq_getElem?_getD, hs]

/-- power-law classes: grid of bin `s` at node `idx` = J(engine arguments at that node) / J(base call) -/
theorem corePL_grid_node (inp : PLInput ℝ) (J : EngineArgs ℝ → ℕ → ℝ) (raws : List (Raw ℝ))
    (names : List String) (axes : List (List ℝ)) (ani0 : Dict ℝ) (ec : List (List ℝ))
    (s : ℕ) (hs : s < inp.nData) (idx : List ℕ) (h : ValidIdx (axes.map List.length) idx) :
    let out := corePL inp J raws names axes ani0 ec
    (out.grids.getD s [])[flatIdx (axes.map List.length) idx]? =
      some (J (argsAtNodePL inp names (nodeAt axes idx)) s / J out.baseCall s) := by
  intro out
  have : out.grids.getD s [] = gridFlat (fun p => J (argsAtNodePL inp names p) s)
      (J out.baseCall s) axes := by
    simp only [out, corePL]
    rw [range_map_getD _ _ _ hs]
  rw [this]
  exact grid_node_is_ratio _ _ axes idx h

/-- composite class: the same with `argsAtNodeC` -/
theorem coreC_grid_node (c : CompInput ℝ) (K : ℝ → ℝ → ℝ → ℝ) (fac : ℝ → ℝ)
    (J : EngineArgsC ℝ → ℕ → ℝ) (raws : List (ℕ × ℝ)) (names : List String)
    (axes : List (List ℝ)) (norm rsA : List ℝ) (isAlpha : Bool) (l0 : List ℝ × List ℝ)
    (ani0 : Dict ℝ) (ec : List (List ℝ))
    (s : ℕ) (hs : s < c.nData) (idx : List ℕ) (h : ValidIdx (axes.map List.length) idx) :
    let out := coreC c K fac J raws names axes norm rsA isAlpha l0 ani0 ec
    (out.grids.getD s [])[flatIdx (axes.map List.length) idx]? =
      some (J (argsAtNodeC c K fac norm rsA isAlpha l0 names (nodeAt axes idx)) s
            / J out.baseCall s) := by
  intro out
  have : out.grids.getD s [] = gridFlat
      (fun p => J (argsAtNodeC c K fac norm rsA isAlpha l0 names p) s) (J out.baseCall s) axes := by
    simp only [out, coreC]
    rw [range_map_getD _ _ _ hs]
  rw [this]
  exact grid_node_is_ratio _ _ axes idx h

/-- the grids have the shape of the axes and there is one per measurement bin -/
theorem corePL_grid_shape (inp : PLInput ℝ) (J : EngineArgs ℝ → ℕ → ℝ) (raws : List (Raw ℝ))
    (names : List String) (axes : List (List ℝ)) (ani0 : Dict ℝ) (ec : List (List ℝ)) :
    let out := corePL inp J raws names axes ani0 ec
    out.grids.length = inp.nData ∧ ∀ g ∈ out.grids, g.length = prodL (axes.map List.length) := by
  simp only [corePL]
  refine ⟨by simp, ?_⟩
  intro g hg
  simp only [List.mem_map] at hg
  obtain ⟨s, _, rfl⟩ := hg
  exact gridFlat_length _ _ _

/-- the mean / covariance block shared by all classes -/
theorem margBlock_spec {E : Type} (J : E → ℕ → ℝ) (calls : List E) (dflt : E) (n s t : ℕ)
    (hs : s < n) (ht : t < n) :
    let jm : ℕ → ℕ → ℝ := fun i s => J (calls.getD i dflt) s
    (margBlock J calls dflt n).1.getD s 0 = (∑ i ∈ range calls.length, jm i s) / calls.length ∧
    ((margBlock J calls dflt n).2.getD s []).getD t 0 =
      (∑ i ∈ range calls.length, (√(jm i s) - sqrtMean jm calls.length s)
          * (√(jm i t) - sqrtMean jm calls.length t)) / (calls.length - 1) := by
  intro jm
  constructor
  · simp only [margBlock]
    rw [range_map_getD _ _ _ hs, jModel_is_mean]
  · simp only [margBlock]
    rw [range_map_getD _ _ _ hs, range_map_getD _ _ _ ht, covSqrt_is_sample_cov]

/-- J-model and √J-covariance of the emitted configuration are mean and covariance over the
    engine values of the `raws.length` lens-model draws (power-law classes) -/
theorem corePL_marginalisation (inp : PLInput ℝ) (J : EngineArgs ℝ → ℕ → ℝ) (raws : List (Raw ℝ))
    (names : List String) (axes : List (List ℝ)) (ani0 : Dict ℝ) (ec : List (List ℝ))
    (s t : ℕ) (hs : s < inp.nData) (ht : t < inp.nData) :
    let out := corePL inp J raws names axes ani0 ec
    let jm : ℕ → ℕ → ℝ := fun i s => J (out.margCalls.getD i EngineArgs.empty) s
    out.margCalls.length = raws.length ∧
    out.jModel.getD s 0 = (∑ i ∈ range raws.length, jm i s) / raws.length ∧
    (out.covJ.getD s []).getD t 0 =
      (∑ i ∈ range raws.length, (√(jm i s) - sqrtMean jm raws.length s)
          * (√(jm i t) - sqrtMean jm raws.length t)) / (raws.length - 1) := by
  intro out jm
  have hlen : out.margCalls.length = raws.length := by simp [out, corePL]
  have h := margBlock_spec J out.margCalls EngineArgs.empty inp.nData s t hs ht
  rw [hlen] at h
  exact ⟨hlen, h.1, h.2⟩

/-- the same for the composite class -/
theorem coreC_marginalisation (c : CompInput ℝ) (K : ℝ → ℝ → ℝ → ℝ) (fac : ℝ → ℝ)
    (J : EngineArgsC ℝ → ℕ → ℝ) (raws : List (ℕ × ℝ)) (names : List String)
    (axes : List (List ℝ)) (norm rsA : List ℝ) (isAlpha : Bool) (l0 : List ℝ × List ℝ)
    (ani0 : Dict ℝ) (ec : List (List ℝ)) (s t : ℕ) (hs : s < c.nData) (ht : t < c.nData) :
    let out := coreC c K fac J raws names axes norm rsA isAlpha l0 ani0 ec
    let jm : ℕ → ℕ → ℝ := fun i s => J (out.margCalls.getD i EngineArgsC.empty) s
    out.margCalls.length = raws.length ∧
    out.jModel.getD s 0 = (∑ i ∈ range raws.length, jm i s) / raws.length ∧
    (out.covJ.getD s []).getD t 0 =
      (∑ i ∈ range raws.length, (√(jm i s) - sqrtMean jm raws.length s)
          * (√(jm i t) - sqrtMean jm raws.length t)) / (raws.length - 1) := by
  intro out jm
  have hlen : out.margCalls.length = raws.length := by simp [out, coreC]
  have h := margBlock_spec J out.margCalls EngineArgsC.empty c.nData s t hs ht
  rw [hlen] at h
  exact ⟨hlen, h.1, h.2⟩

/-! ## 4. names and axes are aligned, in the declared parameter order -/

/-- declared anisotropy block of the supported models -/
noncomputable def aniBlock (m : String) : List (String × List ℝ) :=
  if m = "OM" then [("a_ani", omAxis)]
  else if m = "GOM" then [("a_ani", omAxis), ("beta_inf", betaInfAxis)]
  else [("a_ani", constAxis)]

/-- **axes in the declared order**: name `k` belongs to axis `k`; the anisotropy block comes first,
    then exactly the supplied optional axes in the order gamma_in, log_m2l, gamma_pl (`optPart`);
    names are distinct, so a node is decoded unambiguously. -/
theorem axes_in_declared_order {m : String} {gIn m2l gPl : Option (List ℝ)} {names : List String}
    {axes : List (List ℝ)} (h : scalingInit m gIn m2l gPl = .ok (names, some axes)) :
    (m = "OM" ∨ m = "GOM" ∨ m = "const") ∧ names.length = axes.length ∧ names.Nodup ∧
    List.zip names axes = aniBlock m ++ optPart gIn m2l gPl := by
  refine ⟨?_, scalingInit_length h, scalingInit_nodup h, ?_⟩
  · obtain ⟨an, aax, ha, _, _⟩ := scalingInit_some h
    rcases aniPart_some ha with ⟨hm, _⟩ | ⟨hm, _⟩ | ⟨hm, _⟩ <;> simp [hm]
  · obtain ⟨an, aax, ha, hn, hx⟩ := scalingInit_some h
    rw [hn, hx]
    rcases aniPart_some ha with ⟨hm, rfl, rfl⟩ | ⟨hm, rfl, rfl⟩ | ⟨hm, rfl, rfl⟩ <;>
      cases gIn <;> cases m2l <;> cases gPl <;> simp [hm, aniBlock, optPart]

example : scalingInit (α := ℝ) "GOM" none none (some [1.8, 2.2]) =
    .ok (["a_ani", "beta_inf", "gamma_pl"], some [omAxis, betaInfAxis, [1.8, 2.2]]) := by
  simp [scalingInit, aniPart, optPart]

/-- coordinate of a node that belongs to the parameter `name` -/
noncomputable def coord (names : List String) (p : List ℝ) (name : String) : ℝ :=
  p.getD (names.idxOf name) 0

/-- a node coordinate reaches `kwargs_anisotropy` / `kwargs_lens` under its own name -/
theorem decode_coord (names : List String) (p : List ℝ) (hn : names.Nodup)
    (hl : names.length = p.length) (name : String) (hmem : name ∈ names) :
    (if isLensParam name then (paramArray2kwargs names p).2
      else (paramArray2kwargs names p).1).get? name = some (coord names p name) := by
  have hk : names.idxOf name < names.length := List.idxOf_lt_length_of_mem hmem
  have hp : names.idxOf name < p.length := hl ▸ hk
  have := decode_get names p hn hl (names.idxOf name) hk hp
  rw [List.getElem_idxOf hk] at this
  rw [this, coord, List.getD_eq_getElem?_getD, List.getElem?_eq_getElem hp]
  rfl

/-- a name that is not an axis is absent from both keyword dictionaries -/
theorem decode_absent : ∀ (names : List String) (p : List ℝ) (name : String), name ∉ names →
    (paramArray2kwargs names p).1.get? name = none ∧ (paramArray2kwargs names p).2.get? name = none
  | [], _, _, _ => by simp [paramArray2kwargs, Dict.get?]
  | _ :: _, [], _, _ => by simp [paramArray2kwargs, Dict.get?]
  | n :: ns, x :: xs, name, h => by
    have hne : n ≠ name := fun e => h (by simp [e])
    have ih := decode_absent ns xs name (fun hm => h (by simp [hm]))
    simp only [paramArray2kwargs]
    by_cases hc : isLensParam n = true <;> simp [hc, Dict.get?, hne, ih.1, ih.2]

/-! ### the emitted configuration in terms of the pure core -/

theorem hierarchyPL_ok {inp : PLInput ℝ} {J : EngineArgs ℝ → ℕ → ℝ} {raws : List (Raw ℝ)}
    {out : Out ℝ (EngineArgs ℝ)} (h : hierarchyPL inp J raws = .ok out) :
    ∃ names axes ani0 ec,
      scalingInit inp.aniModel inp.gammaIn inp.logM2l inp.gammaPl = .ok (names, some axes) ∧
      aniBase inp.aniModel inp.img.rEff = .ok ani0 ∧
      errorCovMeasurement inp.supplied inp.ind inp.cov = .ok ec ∧
      ((lensBase names inp.gammaIn inp.logM2l inp.img.gamma).any (fun kv => kv.1 != "gamma_pl")) = false ∧
      out = corePL inp J raws names axes ani0 ec := by
  unfold hierarchyPL at h
  split at h
  · simp at h
  · rename_i names axes? hsc
    split at h
    · simp at h
    · rename_i ani0 hani
      split at h
      · simp at h
      · rename_i hany
        split at h
        · simp at h
        · rename_i axes
          split at h
          · simp at h
          · rename_i ec hec
            simp only [Except.ok.injEq] at h
            exact ⟨names, axes, ani0, ec, hsc, hani, hec, by simpa using hany, h.symm⟩

theorem hierarchyC_ok {c : CompInput ℝ} {K : ℝ → ℝ → ℝ → ℝ} {fac : ℝ → ℝ}
    {J : EngineArgsC ℝ → ℕ → ℝ} {raws : List (ℕ × ℝ)} {out : Out ℝ (EngineArgsC ℝ)}
    (h : hierarchyC c K fac J raws = .ok out) :
    ∃ names axes norm isAlpha rsA ani0 l0 ec,
      scalingInit c.aniModel (some c.gammaInArr) (if c.popLevel then some c.logM2lArr else none) none
        = .ok (names, some axes) ∧
      haloArrays c = .ok (norm, isAlpha, rsA) ∧
      aniBase c.aniModel c.img.rEff = .ok ani0 ∧
      c.light.head? = some l0 ∧
      errorCovMeasurement c.supplied c.ind c.cov = .ok ec ∧
      out = coreC c K fac J raws names axes norm rsA isAlpha l0 ani0 ec := by
  unfold hierarchyC at h
  split at h
  · simp at h
  · rename_i names axes? hsc
    split at h
    · simp at h
    · rename_i norm isAlpha rsA hhalo
      split at h
      · simp at h
      · split at h
        · simp at h
        · rename_i axes
          split at h
          · simp at h
          · rename_i ani0 hani
            split at h
            · simp at h
            · rename_i l0 lrest hlight
              split at h
              · simp at h
              · rename_i ec hec
                simp only [Except.ok.injEq] at h
                exact ⟨names, axes, norm, isAlpha, rsA, ani0, l0, ec, hsc, hhalo, hani,
                  by simp [hlight], hec, h.symm⟩

/-! ## 5. lens-model draws respect their physical ranges; mean values when errors are off -/

/-- power-law classes: θ_E ≥ 0, 1 ≤ γ ≤ 2.999 < 3 (when drawn), δ ≥ 0.001, r_eff = δ·r_eff > 0
    — for EVERY value the random generator may return -/
theorem draw_ranges_PL (c : ImgCfg ℝ) (gpl : Option ℝ) (r : Raw ℝ) :
    let d := drawLensPL c gpl false r
    0 ≤ d.thetaE ∧
    (gpl = none → 1 ≤ d.gamma ∧ d.gamma ≤ 2.999 ∧ d.gamma < 3) ∧
    (∀ g, gpl = some g → d.gamma = g) ∧
    0.001 ≤ d.delta ∧ d.rEff = d.delta * c.rEff ∧ (0 < c.rEff → 0 < d.rEff) := by
  simp only [drawLensPL, Bool.false_eq_true, if_false, maxA_eq, minA_eq, lit_zero, lit_one,
    lit_milli, lit_2999]
  refine ⟨le_max_right _ _, ?_, ?_, le_max_right _ _, trivial, ?_⟩
  · rintro rfl
    refine ⟨le_min (le_max_right _ _) (by norm_num), min_le_right _ _, ?_⟩
    exact lt_of_le_of_lt (min_le_right _ _) (by norm_num)
  · rintro g rfl; rfl
  · intro h
    exact mul_pos (lt_of_lt_of_le (by norm_num) (le_max_right _ _)) h

/-- errors switched off: the mean values (and the requested slope) -/
theorem draw_noError_PL (c : ImgCfg ℝ) (gpl : Option ℝ) (r : Raw ℝ) :
    drawLensPL c gpl true r =
      { thetaE := c.thetaE, gamma := gpl.getD c.gamma, rEff := c.rEff, delta := 1 } := by
  simp [drawLensPL, lit_one]

/-- inside the range the draw is the value the generator returned (no hidden distortion) -/
theorem draw_unclipped_PL (c : ImgCfg ℝ) (r : Raw ℝ) (h0 : 0 ≤ r.tE) (h1 : 1 ≤ r.gam)
    (h2 : r.gam ≤ 2.999) (h3 : 0.001 ≤ r.del) :
    drawLensPL c none false r =
      { thetaE := r.tE, gamma := r.gam, rEff := r.del * c.rEff, delta := r.del } := by
  simp only [drawLensPL, Bool.false_eq_true, if_false, maxA_eq, minA_eq, lit_zero, lit_one] at *
  rw [max_eq_left h0, max_eq_left h1, min_eq_left h2, max_eq_left h3]

example : (drawLensPL (⟨1, 2, 2, 1, 0.8, 1⟩ : ImgCfg ℝ) none false ⟨-3, 3.7, -0.2⟩).gamma = 2.999 := by
  simp only [drawLensPL, Bool.false_eq_true, if_false, maxA_eq, minA_eq, lit_one, lit_2999]
  norm_num

/-- composite class: joint sample `idx` of (halo normalisation, r_s, log M/L), δ ≥ 0.001,
    r_eff = δ·r_eff > 0 -/
theorem draw_ranges_C (c : CompInput ℝ) (norm rsA : List ℝ) (idx : ℕ) (del : ℝ) :
    let d := drawLensC c norm rsA false idx del
    d.norm = norm.getD idx 0 ∧ d.rs = rsA.getD idx 0 ∧ d.logM2l = c.logM2lArr.getD idx 0 ∧
    0.001 ≤ d.delta ∧ d.rEff = d.delta * c.img.rEff ∧ (0 < c.img.rEff → 0 < d.rEff) := by
  simp only [drawLensC, Bool.false_eq_true, if_false, maxA_eq, lit_zero, lit_milli]
  refine ⟨trivial, trivial, trivial, le_max_right _ _, trivial, fun h => ?_⟩
  exact mul_pos (lt_of_lt_of_le (by norm_num) (le_max_right _ _)) h

theorem draw_noError_C (c : CompInput ℝ) (norm rsA : List ℝ) (idx : ℕ) (del : ℝ) :
    drawLensC c norm rsA true idx del =
      { norm := norm.sum / norm.length, rs := rsA.sum / rsA.length,
        logM2l := c.logM2lArr.sum / c.logM2lArr.length, rEff := c.img.rEff, delta := 1 } := by
  simp [drawLensC, meanL_eq, lit_one]

/-! ## 6. every quantity reaches the engine with its documented meaning -/

/-- sizes of a supplied light profile scaled with δ_r_eff -/
noncomputable def scaleSizes (δ : ℝ) (kw : Dict ℝ) : Dict ℝ :=
  kw.map fun kv => if kv.1 = "Rs" ∨ kv.1 = "R_sersic" then (kv.1, kv.2 * δ) else kv

/-- documented anisotropy keywords for anisotropy parameters (a_ani, β_inf) -/
noncomputable def aniDoc (m : String) (rEff a b : ℝ) : Dict ℝ :=
  if m = "OM" then [("r_ani", a * rEff)]
  else if m = "GOM" then [("r_ani", a * rEff), ("beta_inf", b)]
  else [("beta", a)]

/-- `j_kin_draw` (power-law classes), any draw: Einstein radius, slope, half-light radius of the
    draw; Hernquist `Rs = 0.551·r_eff` or the supplied sizes × δ; anisotropy passed unchanged -/
theorem engine_args_PL (c : ImgCfg ℝ) (light : Option (List (Dict ℝ))) (ani : Dict ℝ)
    (gpl : Option ℝ) (noErr : Bool) (r : Raw ℝ) :
    let d := drawLensPL c gpl noErr r
    let a := argsPL c light ani gpl noErr r
    a.lens = [[("theta_E", d.thetaE), ("gamma", d.gamma), ("center_x", 0), ("center_y", 0)]] ∧
    a.light = (match light with
      | none => [[("Rs", 0.551 * d.rEff), ("amp", 1)]]
      | some l => l.map (scaleSizes d.delta)) ∧
    a.ani = ani ∧ a.rEff = d.rEff ∧ a.thetaE = d.thetaE ∧ a.gamma = d.gamma := by
  refine ⟨by simp [argsPL, lit_zero], ?_, rfl, rfl, rfl, rfl⟩
  cases light with
  | none => simp [argsPL, lightPL, lit_one, mul_comm]
  | some l =>
    simp only [argsPL, lightPL]
    apply List.map_congr_left
    intro kw _
    apply List.map_congr_left
    rintro ⟨k, v⟩ _
    rfl

/-- scaling by δ = 1 leaves the supplied profiles untouched (errors off) -/
theorem scaleSizes_one (kw : Dict ℝ) : scaleSizes 1 kw = kw := by
  unfold scaleSizes
  conv_rhs => rw [← List.map_id kw]
  apply List.map_congr_left
  rintro ⟨k, v⟩ _
  simp

/-- anisotropy keywords at a grid node: `r_ani = a_ani·r_eff`, `beta_inf`, `beta = a_ani`, with
    a_ani / beta_inf the node's coordinates on the axes of these names -/
theorem engine_ani_at_node {m : String} {gIn m2l gPl : Option (List ℝ)} {names : List String}
    {axes : List (List ℝ)} (h : scalingInit m gIn m2l gPl = .ok (names, some axes)) (rEff : ℝ)
    (p : List ℝ) (hp : names.length = p.length) :
    aniKwargs m rEff (paramArray2kwargs names p).1 =
      aniDoc m rEff (coord names p "a_ani") (coord names p "beta_inf") := by
  have hnd := scalingInit_nodup h
  obtain ⟨an, aax, ha, hn, _⟩ := scalingInit_some h
  have ha_mem : "a_ani" ∈ names := by
    rw [hn]; rcases aniPart_some ha with ⟨_, rfl, _⟩ | ⟨_, rfl, _⟩ | ⟨_, rfl, _⟩ <;> simp
  have h1 := decode_coord names p hnd hp "a_ani" ha_mem
  simp only [isLensParam, show ¬ ("a_ani" = "gamma_in") by decide,
    show ¬ ("a_ani" = "gamma_pl") by decide, show ¬ ("a_ani" = "log_m2l") by decide,
    decide_false, Bool.or_self, Bool.false_eq_true, if_false] at h1
  rcases aniPart_some ha with ⟨hm, _, _⟩ | ⟨hm, han, _⟩ | ⟨hm, _, _⟩
  · simp [aniKwargs, aniDoc, hm, h1]
  · have hb_mem : "beta_inf" ∈ names := by rw [hn, han]; simp
    have h2 := decode_coord names p hnd hp "beta_inf" hb_mem
    simp only [isLensParam, show ¬ ("beta_inf" = "gamma_in") by decide,
      show ¬ ("beta_inf" = "gamma_pl") by decide, show ¬ ("beta_inf" = "log_m2l") by decide,
      decide_false, Bool.or_self, Bool.false_eq_true, if_false] at h2
    simp [aniKwargs, aniDoc, hm, h1, h2]
  · simp [aniKwargs, aniDoc, hm, h1]

/-- lens keyword `name` (gamma_pl / gamma_in / log_m2l) at a node: the node's coordinate on the
    axis of that name if it is an axis, absent otherwise -/
theorem engine_lens_at_node {m : String} {gIn m2l gPl : Option (List ℝ)} {names : List String}
    {axes : List (List ℝ)} (h : scalingInit m gIn m2l gPl = .ok (names, some axes))
    (p : List ℝ) (hp : names.length = p.length) (name : String) (hl : isLensParam name = true) :
    (paramArray2kwargs names p).2.get? name =
      if name ∈ names then some (coord names p name) else none := by
  by_cases hmem : name ∈ names
  · have := decode_coord names p (scalingInit_nodup h) hp name hmem
    simpa [hl, hmem] using this
  · simp [hmem, (decode_absent names p name hmem).2]

/-- **power-law classes, grid node**: all engine arguments in terms of the node's coordinates -/
theorem engine_args_node_PL (inp : PLInput ℝ) {names : List String} {axes : List (List ℝ)}
    (h : scalingInit inp.aniModel inp.gammaIn inp.logM2l inp.gammaPl = .ok (names, some axes))
    (p : List ℝ) (hp : names.length = p.length) :
    let a := argsAtNodePL inp names p
    let γ := if "gamma_pl" ∈ names then coord names p "gamma_pl" else inp.img.gamma
    a.lens = [[("theta_E", inp.img.thetaE), ("gamma", γ), ("center_x", 0), ("center_y", 0)]] ∧
    a.light = (match inp.light with
      | none => [[("Rs", 0.551 * inp.img.rEff), ("amp", 1)]]
      | some l => l) ∧
    a.ani = aniDoc inp.aniModel inp.img.rEff (coord names p "a_ani") (coord names p "beta_inf") ∧
    a.rEff = inp.img.rEff ∧ a.thetaE = inp.img.thetaE ∧ a.gamma = γ := by
  intro a γ
  have hani := engine_ani_at_node h inp.img.rEff p hp
  have hg := engine_lens_at_node h p hp "gamma_pl" (by decide)
  have hd : drawLensPL inp.img ((paramArray2kwargs names p).2.get? "gamma_pl") true
      { tE := 0.0, gam := 0.0, del := 0.0 } =
      { thetaE := inp.img.thetaE, gamma := γ, rEff := inp.img.rEff, delta := 1 } := by
    rw [draw_noError_PL, hg]
    by_cases hm : "gamma_pl" ∈ names <;> simp [hm, γ]
  have key := engine_args_PL inp.img inp.light
    (aniKwargs inp.aniModel inp.img.rEff (paramArray2kwargs names p).1)
    ((paramArray2kwargs names p).2.get? "gamma_pl") true { tE := 0.0, gam := 0.0, del := 0.0 }
  simp only [hd] at key
  obtain ⟨k1, k2, k3, k4, k5, k6⟩ := key
  refine ⟨k1, ?_, by rw [← hani]; exact k3, k4, k5, k6⟩
  show (argsAtNodePL inp names p).light = _
  unfold argsAtNodePL
  rw [k2]
  cases inp.light with
  | none => rfl
  | some l =>
    simp only
    conv_rhs => rw [← List.map_id l]
    exact List.map_congr_left fun kw _ => scaleSizes_one kw

/-- base anisotropy: a_ani = 1 (OM, GOM), β_inf = 1 (GOM), β = 0.1 (const) -/
theorem aniBase_is_doc {m : String} {rEff : ℝ} {ani0 : Dict ℝ} (h : aniBase m rEff = .ok ani0) :
    (m = "OM" ∨ m = "GOM" ∨ m = "const") ∧
    ani0 = aniDoc m rEff (if m = "const" then 0.1 else 1) 1 := by
  unfold aniBase at h
  split at h
  · rename_i hm; simp_all [aniDoc, lit_one]
  · split at h
    · rename_i hm; simp_all [aniDoc, lit_one]
    · split at h
      · rename_i hm; simp_all [aniDoc]
      · simp at h

/-- base value of the slope: the imaging mean, whether or not gamma_pl is an axis -/
theorem lensBase_gamma_pl (names : List String) (gIn m2l : Option (List ℝ)) (g : ℝ) :
    ((lensBase names gIn m2l g).get? "gamma_pl").getD g = g := by
  by_cases h1 : "gamma_in" ∈ names <;> by_cases h2 : "log_m2l" ∈ names <;>
    by_cases h3 : "gamma_pl" ∈ names <;> simp [lensBase, h1, h2, h3, Dict.get?]

/-- **power-law classes, base call**: mean Einstein radius, mean slope, mean half-light radius,
    base anisotropy -/
theorem engine_args_base_PL (inp : PLInput ℝ) (J : EngineArgs ℝ → ℕ → ℝ) (raws : List (Raw ℝ))
    (names : List String) (axes : List (List ℝ)) (ani0 : Dict ℝ) (ec : List (List ℝ)) :
    let a := (corePL inp J raws names axes ani0 ec).baseCall
    a.lens = [[("theta_E", inp.img.thetaE), ("gamma", inp.img.gamma), ("center_x", 0),
               ("center_y", 0)]] ∧
    a.light = (match inp.light with
      | none => [[("Rs", 0.551 * inp.img.rEff), ("amp", 1)]]
      | some l => l) ∧
    a.ani = ani0 ∧ a.rEff = inp.img.rEff ∧ a.thetaE = inp.img.thetaE ∧ a.gamma = inp.img.gamma := by
  intro a
  have key := engine_args_PL inp.img inp.light ani0
    ((lensBase names inp.gammaIn inp.logM2l inp.img.gamma).get? "gamma_pl") true
    { tE := 0.0, gam := 0.0, del := 0.0 }
  simp only [draw_noError_PL, lensBase_gamma_pl] at key
  obtain ⟨k1, k2, k3, k4, k5, k6⟩ := key
  refine ⟨k1, ?_, k3, k4, k5, k6⟩
  show (corePL inp J raws names axes ani0 ec).baseCall.light = _
  simp only [corePL]
  rw [k2]
  cases inp.light with
  | none => rfl
  | some l =>
    simp only
    conv_rhs => rw [← List.map_id l]
    exact List.map_congr_left fun kw _ => scaleSizes_one kw

/-- **power-law classes, lens-model draws**: every marginalisation call carries a draw inside the
    physical ranges, the base anisotropy and light sizes scaled with that draw -/
theorem engine_args_draws_PL (inp : PLInput ℝ) (J : EngineArgs ℝ → ℕ → ℝ) (raws : List (Raw ℝ))
    (names : List String) (axes : List (List ℝ)) (ani0 : Dict ℝ) (ec : List (List ℝ))
    (a : EngineArgs ℝ) (ha : a ∈ (corePL inp J raws names axes ani0 ec).margCalls) :
    ∃ δ : ℝ, 0.001 ≤ δ ∧ a.rEff = δ * inp.img.rEff ∧ (0 < inp.img.rEff → 0 < a.rEff) ∧
      0 ≤ a.thetaE ∧
      ("gamma_pl" ∉ names → 1 ≤ a.gamma ∧ a.gamma < 3) ∧ ("gamma_pl" ∈ names → a.gamma = inp.img.gamma) ∧
      a.lens = [[("theta_E", a.thetaE), ("gamma", a.gamma), ("center_x", 0), ("center_y", 0)]] ∧
      a.light = (match inp.light with
        | none => [[("Rs", 0.551 * a.rEff), ("amp", 1)]]
        | some l => l.map (scaleSizes δ)) ∧
      a.ani = ani0 := by
  simp only [corePL, List.mem_map] at ha
  obtain ⟨r, _, rfl⟩ := ha
  set gpl := (lensBase names inp.gammaIn inp.logM2l inp.img.gamma).get? "gamma_pl" with hgpl
  have hr := draw_ranges_PL inp.img gpl r
  have he := engine_args_PL inp.img inp.light ani0 gpl false r
  simp only at hr he
  obtain ⟨r1, r2, r3, r4, r5, r6⟩ := hr
  obtain ⟨e1, e2, e3, e4, e5, e6⟩ := he
  have hcases : ("gamma_pl" ∉ names → gpl = none) ∧ ("gamma_pl" ∈ names → gpl = some inp.img.gamma) := by
    rw [hgpl]
    constructor <;> intro hm <;>
    by_cases h1 : "gamma_in" ∈ names <;> by_cases h2 : "log_m2l" ∈ names <;>
      simp [lensBase, h1, h2, hm, Dict.get?]
  refine ⟨(drawLensPL inp.img gpl false r).delta, r4, by rw [e4]; exact r5, by rw [e4]; exact r6,
    by rw [e5]; exact r1, ?_, ?_, by rw [e1, e5, e6], by rw [e2, e4], e3⟩
  · intro hm
    obtain ⟨g1, _, g3⟩ := r2 (hcases.1 hm)
    rw [e6]; exact ⟨g1, g3⟩
  · intro hm
    rw [e6]; exact r3 _ (hcases.2 hm)

/-! ### composite class -/

/-- **halo-normalisation input modes** (`__init__` ladder + `get_kappa_s_r_s_angle`) -/
theorem halo_mode_alpha (c : CompInput ℝ) (h : checkArrays c.alphaRs c.rsAngle = true) :
    haloArrays c = .ok (c.alphaRs.getD [], true, c.rsAngle.getD []) := by
  simp [haloArrays, h]

theorem halo_mode_kappa (c : CompInput ℝ) (h0 : checkArrays c.alphaRs c.rsAngle = false)
    (h : checkArrays c.kappaS c.rsAngle = true) :
    haloArrays c = .ok (c.kappaS.getD [], false, c.rsAngle.getD []) := by
  simp [haloArrays, h0, h]

/-- (ρ0, r_s) input: κ_s = ρ0·r_s/Σ_crit, r_s in arc seconds = r_s/D_d/arcsec, sample by sample -/
theorem halo_mode_rho (c : CompInput ℝ) (h0 : checkArrays c.alphaRs c.rsAngle = false)
    (h1 : checkArrays c.kappaS c.rsAngle = false) (rho0 rs : List ℝ) (hr : c.rho0 = some rho0)
    (hs : c.rs = some rs) (h : checkArrays c.rho0 c.rs = true) :
    haloArrays c = .ok (List.zipWith (fun ρ r => ρ * r / c.sigCrit) rho0 rs, false,
                        rs.map fun r => r / c.dd / c.arcsec) := by
  rw [hr, hs] at h
  simp [haloArrays, h0, h1, h, hr, hs]

/-- **composite class, any draw**: scale radius and inner slope; `alpha_Rs` = the drawn deflection
    (alpha_Rs input) or `K(κ_s, r_s, γ_in)` (κ_s / ρ0 input); stellar amplitude
    `amp·factor/Σ_crit`; every Gaussian width × δ_r_eff; light amplitudes untouched; θ_E and γ
    the imaging means -/
theorem engine_args_C (c : CompInput ℝ) (K : ℝ → ℝ → ℝ → ℝ) (isAlpha : Bool) (l0 : List ℝ × List ℝ)
    (ani : Dict ℝ) (gIn f : ℝ) (d : DrawC ℝ) :
    let a := argsC c K isAlpha l0 ani gIn f d
    a.rs = d.rs ∧ a.gammaIn = gIn ∧ a.alphaRs = (if isAlpha then d.norm else K d.norm d.rs gIn) ∧
    a.cx = 0 ∧ a.cy = 0 ∧
    a.starsAmp = l0.1.map (fun amp => amp * f / c.sigCritAngle) ∧
    a.starsSigma = l0.2.map (fun σ => σ * d.delta) ∧
    a.light = c.light.map (fun l => (l.1, l.2.map fun σ => σ * d.delta)) ∧
    a.ani = ani ∧ a.rEff = d.rEff ∧ a.thetaE = c.img.thetaE ∧ a.gamma = c.img.gamma := by
  refine ⟨rfl, rfl, rfl, by simp [argsC, lit_zero], by simp [argsC, lit_zero], ?_, rfl, rfl, rfl,
    rfl, rfl, rfl⟩
  simp only [argsC]
  exact List.map_congr_left fun a _ => (mul_div_assoc _ _ _).symm

/-- population-level M/L: the factor is `10^(log_m2l)` of the node / base value -/
theorem m2l_factor_population (c : CompInput ℝ) (fac : ℝ → ℝ) (x : ℝ) (d : DrawC ℝ)
    (h : c.popLevel = true) : m2lFactorOf c fac x d = (10 : ℝ) ^ x := by
  simp [m2lFactorOf, h, Trans.pow10]

/-- per-lens M/L: the factor is `fac` of the drawn (or mean) log M/L -/
theorem m2l_factor_per_lens (c : CompInput ℝ) (fac : ℝ → ℝ) (x : ℝ) (d : DrawC ℝ)
    (h : c.popLevel = false) : m2lFactorOf c fac x d = fac d.logM2l := by
  simp [m2lFactorOf, h]

/-- **composite class, grid node** -/
theorem engine_args_node_C (c : CompInput ℝ) (K : ℝ → ℝ → ℝ → ℝ) (fac : ℝ → ℝ) (norm rsA : List ℝ)
    (isAlpha : Bool) (l0 : List ℝ × List ℝ) {names : List String} {axes : List (List ℝ)}
    (h : scalingInit c.aniModel (some c.gammaInArr) (if c.popLevel then some c.logM2lArr else none)
      none = .ok (names, some axes))
    (p : List ℝ) (hp : names.length = p.length) :
    let a := argsAtNodeC c K fac norm rsA isAlpha l0 names p
    let nrm := norm.sum / norm.length
    let rs := rsA.sum / rsA.length
    let gIn := coord names p "gamma_in"
    a.rs = rs ∧ a.gammaIn = gIn ∧ a.alphaRs = (if isAlpha then nrm else K nrm rs gIn) ∧
    a.starsAmp = l0.1.map (fun amp => amp *
      (if c.popLevel then (10 : ℝ) ^ coord names p "log_m2l"
       else fac (c.logM2lArr.sum / c.logM2lArr.length)) / c.sigCritAngle) ∧
    a.starsSigma = l0.2 ∧ a.light = c.light ∧
    a.ani = aniDoc c.aniModel c.img.rEff (coord names p "a_ani") (coord names p "beta_inf") ∧
    a.rEff = c.img.rEff ∧ a.thetaE = c.img.thetaE ∧ a.gamma = c.img.gamma := by
  have hani := engine_ani_at_node h c.img.rEff p hp
  have hnames : "gamma_in" ∈ names ∧ (c.popLevel = true → "log_m2l" ∈ names) := by
    obtain ⟨an, aax, _, hn, _⟩ := scalingInit_some h
    rw [hn]
    cases hpop : c.popLevel <;> simp [optPart]
  have hg := engine_lens_at_node h p hp "gamma_in" (by decide)
  have hm := engine_lens_at_node h p hp "log_m2l" (by decide)
  rw [if_pos hnames.1] at hg
  have hd := draw_noError_C c norm rsA 0 0.0
  have hfac : m2lFactorOf c fac (((paramArray2kwargs names p).2.get? "log_m2l").getD 0.0)
      { norm := norm.sum / norm.length, rs := rsA.sum / rsA.length,
        logM2l := c.logM2lArr.sum / c.logM2lArr.length, rEff := c.img.rEff, delta := 1 } =
      (if c.popLevel then (10 : ℝ) ^ coord names p "log_m2l"
       else fac (c.logM2lArr.sum / c.logM2lArr.length)) := by
    cases hpop : c.popLevel
    · simp [m2lFactorOf, hpop]
    · rw [hm, if_pos (hnames.2 hpop)]
      simp [m2lFactorOf, hpop, Trans.pow10]
  have ha : argsAtNodeC c K fac norm rsA isAlpha l0 names p =
      argsC c K isAlpha l0
        (aniDoc c.aniModel c.img.rEff (coord names p "a_ani") (coord names p "beta_inf"))
        (coord names p "gamma_in")
        (if c.popLevel then (10 : ℝ) ^ coord names p "log_m2l"
         else fac (c.logM2lArr.sum / c.logM2lArr.length))
        { norm := norm.sum / norm.length, rs := rsA.sum / rsA.length,
          logM2l := c.logM2lArr.sum / c.logM2lArr.length, rEff := c.img.rEff, delta := 1 } := by
    unfold argsAtNodeC
    simp only [hd, hg, Option.getD_some, hani, hfac]
  simp only [ha]
  obtain ⟨k1, k2, k3, _, _, k6, k7, k8, k9, k10, k11, k12⟩ := engine_args_C c K isAlpha l0
    (aniDoc c.aniModel c.img.rEff (coord names p "a_ani") (coord names p "beta_inf"))
    (coord names p "gamma_in")
    (if c.popLevel then (10 : ℝ) ^ coord names p "log_m2l"
     else fac (c.logM2lArr.sum / c.logM2lArr.length))
    { norm := norm.sum / norm.length, rs := rsA.sum / rsA.length,
      logM2l := c.logM2lArr.sum / c.logM2lArr.length, rEff := c.img.rEff, delta := 1 }
  refine ⟨k1, k2, k3, k6, ?_, ?_, k9, k10, k11, k12⟩
  · rw [k7]; simp
  · rw [k8]; simp

/-! ### the per-lens mass-to-light amplitude (finding F5) -/

/-- the stellar amplitude has its documented value `amp·10^x/Σ_crit` iff the factor is `10^x` -/
theorem per_lens_amp_documented_iff (fac : ℝ → ℝ) (amp sig x : ℝ) (ha : amp ≠ 0) (hs : sig ≠ 0) :
    amp * (fac x / sig) = amp * ((10 : ℝ) ^ x / sig) ↔ fac x = (10 : ℝ) ^ x := by
  constructor
  · intro h
    have h1 := mul_left_cancel₀ ha h
    field_simp at h1
    exact h1
  · intro h; rw [h]

/-- `x < 10^x` for every real `x` -/
theorem lt_ten_rpow (x : ℝ) : x < (10 : ℝ) ^ x := by
  rcases le_or_gt x 0 with h | h
  · exact lt_of_le_of_lt h (Real.rpow_pos_of_pos (by norm_num) x)
  · have h1 : Real.exp 1 < 10 := lt_trans Real.exp_one_lt_d9 (by norm_num)
    have h2 : (1 : ℝ) < Real.log 10 := by
      rw [Real.lt_log_iff_exp_lt (by norm_num)]; exact h1
    have h3 : (10 : ℝ) ^ x = Real.exp (Real.log 10 * x) := by
      rw [Real.rpow_def_of_pos (by norm_num)]
    rw [h3]
    have h4 : Real.log 10 * x + 1 ≤ Real.exp (Real.log 10 * x) := Real.add_one_le_exp _
    nlinarith

/-- **F5**: with the identity factor (the unchanged `j_kin_draw_composite_m2l` multiplies by
    `log_m2l_draw` itself) the stellar amplitude is NEVER the documented `amp·10^x/Σ_crit`,
    whatever the drawn log M/L, for any non-zero light amplitude. -/
theorem per_lens_identity_factor_never_documented (amp sig x : ℝ) (ha : amp ≠ 0) (hs : sig ≠ 0) :
    amp * (id x / sig) ≠ amp * ((10 : ℝ) ^ x / sig) := by
  intro h
  exact (ne_of_lt (lt_ten_rpow x)) ((per_lens_amp_documented_iff id amp sig x ha hs).mp h)

/-- the same on the emitted engine arguments: per-lens mode, identity factor, base call of a
    concrete configuration (amp 1, Σ_crit 1, log M/L samples 0 and 2: 1 reaches the engine, 10 is
    documented). -/
theorem per_lens_identity_factor_counterexample :
    ∃ (c : CompInput ℝ) (l0 : List ℝ × List ℝ) (d : DrawC ℝ),
      c.popLevel = false ∧ d = drawLensC c [1, 1] [5, 5] true 0 0 ∧
      (argsC c (fun k _ _ => k) true l0 [] 1 (m2lFactorOf c id 0 d) d).starsAmp = [1] ∧
      (argsC c (fun k _ _ => k) true l0 [] 1 (m2lFactorOf c Trans.pow10 0 d) d).starsAmp = [10] := by
  refine ⟨{ img := ⟨1, 0, 2, 0, 1, 0⟩, aniModel := "OM", gammaInArr := [1], logM2lArr := [0, 2],
            alphaRs := some [1, 1], rsAngle := some [5, 5], kappaS := none, rho0 := none,
            rs := none, popLevel := false, light := [([1], [1])], priorMean := none,
            priorStd := none, sigCritAngle := 1, sigCrit := 1, dd := 1, arcsec := 1,
            supplied := none, ind := none, cov := none, nData := 1 }, ([1], [1]), _, rfl, rfl, ?_, ?_⟩
  · simp [argsC, m2lFactorOf, drawLensC, meanL_eq]
  · simp [argsC, m2lFactorOf, drawLensC, meanL_eq, Trans.pow10]

/-- **composite class, lens-model draws**: every marginalisation call carries ONE joint sample
    `idx` of (halo normalisation, r_s[, log M/L]), base anisotropy, mean inner slope, widths × δ -/
theorem engine_args_draws_C (c : CompInput ℝ) (K : ℝ → ℝ → ℝ → ℝ) (fac : ℝ → ℝ)
    (J : EngineArgsC ℝ → ℕ → ℝ) (raws : List (ℕ × ℝ)) (names : List String)
    (axes : List (List ℝ)) (norm rsA : List ℝ) (isAlpha : Bool) (l0 : List ℝ × List ℝ)
    (ani0 : Dict ℝ) (ec : List (List ℝ)) (a : EngineArgsC ℝ)
    (ha : a ∈ (coreC c K fac J raws names axes norm rsA isAlpha l0 ani0 ec).margCalls) :
    ∃ (idx : ℕ) (δ : ℝ), 0.001 ≤ δ ∧ a.rEff = δ * c.img.rEff ∧ (0 < c.img.rEff → 0 < a.rEff) ∧
      a.rs = rsA.getD idx 0 ∧ a.gammaIn = c.gammaInArr.sum / c.gammaInArr.length ∧
      a.alphaRs = (if isAlpha then norm.getD idx 0
                   else K (norm.getD idx 0) (rsA.getD idx 0) (c.gammaInArr.sum / c.gammaInArr.length)) ∧
      a.starsAmp = l0.1.map (fun amp => amp *
        (if c.popLevel then (10 : ℝ) ^ (c.logM2lArr.sum / c.logM2lArr.length)
         else fac (c.logM2lArr.getD idx 0)) / c.sigCritAngle) ∧
      a.starsSigma = l0.2.map (fun σ => σ * δ) ∧
      a.light = c.light.map (fun l => (l.1, l.2.map fun σ => σ * δ)) ∧
      a.ani = ani0 ∧ a.thetaE = c.img.thetaE ∧ a.gamma = c.img.gamma := by
  simp only [coreC, List.mem_map] at ha
  obtain ⟨⟨idx, del⟩, _, rfl⟩ := ha
  obtain ⟨r1, r2, r3, r4, r5, r6⟩ := draw_ranges_C c norm rsA idx del
  obtain ⟨k1, k2, k3, _, _, k6, k7, k8, k9, k10, k11, k12⟩ := engine_args_C c K isAlpha l0 ani0
    (meanL c.gammaInArr)
    (m2lFactorOf c fac (meanL c.logM2lArr) (drawLensC c norm rsA false idx del))
    (drawLensC c norm rsA false idx del)
  refine ⟨idx, (drawLensC c norm rsA false idx del).delta, r4, by rw [k10]; exact r5,
    by rw [k10]; exact r6, by rw [k1, r2], by rw [k2, meanL_eq], ?_, ?_, k7, k8, k9, k11, k12⟩
  · rw [k3, r1, r2, meanL_eq]
  · rw [k6]
    cases hpop : c.popLevel
    · simp [m2lFactorOf, hpop, r3]
    · simp [m2lFactorOf, hpop, Trans.pow10, meanL_eq]

/-- **composite class, base call**: means of the halo samples, mean inner slope, mean log M/L -/
theorem engine_args_base_C (c : CompInput ℝ) (K : ℝ → ℝ → ℝ → ℝ) (fac : ℝ → ℝ)
    (J : EngineArgsC ℝ → ℕ → ℝ) (raws : List (ℕ × ℝ)) (names : List String)
    (axes : List (List ℝ)) (norm rsA : List ℝ) (isAlpha : Bool) (l0 : List ℝ × List ℝ)
    (ani0 : Dict ℝ) (ec : List (List ℝ)) :
    let a := (coreC c K fac J raws names axes norm rsA isAlpha l0 ani0 ec).baseCall
    let nrm := norm.sum / norm.length
    let rs := rsA.sum / rsA.length
    let gIn := c.gammaInArr.sum / c.gammaInArr.length
    let m2l := c.logM2lArr.sum / c.logM2lArr.length
    a.rs = rs ∧ a.gammaIn = gIn ∧ a.alphaRs = (if isAlpha then nrm else K nrm rs gIn) ∧
    a.starsAmp = l0.1.map (fun amp => amp *
      (if c.popLevel then (10 : ℝ) ^ m2l else fac m2l) / c.sigCritAngle) ∧
    a.starsSigma = l0.2 ∧ a.light = c.light ∧ a.ani = ani0 ∧
    a.rEff = c.img.rEff ∧ a.thetaE = c.img.thetaE ∧ a.gamma = c.img.gamma := by
  have hd := draw_noError_C c norm rsA 0 0.0
  have hb : (coreC c K fac J raws names axes norm rsA isAlpha l0 ani0 ec).baseCall =
      argsC c K isAlpha l0 ani0 (c.gammaInArr.sum / c.gammaInArr.length)
        (if c.popLevel then (10 : ℝ) ^ (c.logM2lArr.sum / c.logM2lArr.length)
         else fac (c.logM2lArr.sum / c.logM2lArr.length))
        { norm := norm.sum / norm.length, rs := rsA.sum / rsA.length,
          logM2l := c.logM2lArr.sum / c.logM2lArr.length, rEff := c.img.rEff, delta := 1 } := by
    simp only [coreC, hd, meanL_eq]
    cases hpop : c.popLevel <;> simp [m2lFactorOf, hpop, Trans.pow10]
  simp only [hb]
  obtain ⟨k1, k2, k3, _, _, k6, k7, k8, k9, k10, k11, k12⟩ := engine_args_C c K isAlpha l0 ani0
    (c.gammaInArr.sum / c.gammaInArr.length)
    (if c.popLevel then (10 : ℝ) ^ (c.logM2lArr.sum / c.logM2lArr.length)
     else fac (c.logM2lArr.sum / c.logM2lArr.length))
    { norm := norm.sum / norm.length, rs := rsA.sum / rsA.length,
      logM2l := c.logM2lArr.sum / c.logM2lArr.length, rEff := c.img.rEff, delta := 1 }
  refine ⟨k1, k2, k3, k6, ?_, ?_, k9, k10, k11, k12⟩
  · rw [k7]; simp
  · rw [k8]; simp

/-! ## 7. the configuration as emitted (`hierarchy_configuration` returned without error) -/

/-- coordinate of the node with multi-index `idx` on the axis called `name` = the `idx`-th value of
    that axis -/
theorem coord_nodeAt (names : List String) (axes : List (List ℝ)) (idx : List ℕ) (name : String)
    (hlen : names.length = axes.length) (hv : ValidIdx (axes.map List.length) idx)
    (hmem : name ∈ names) :
    coord names (nodeAt axes idx) name =
      (axes.getD (names.idxOf name) []).getD (idx.getD (names.idxOf name) 0) 0 := by
  unfold coord
  exact nodeAt_coord axes idx _ hv (hlen ▸ List.idxOf_lt_length_of_mem hmem)

/-- **C16 for the power-law classes** (KinConstraints, DdtKinConstraints, DdtGaussKinConstraints):
    measurement covariance, names/axes, and every grid node as the ratio of the engine at the
    documented node arguments over the engine at the base call. -/
theorem hierarchyPL_emits {inp : PLInput ℝ} {J : EngineArgs ℝ → ℕ → ℝ} {raws : List (Raw ℝ)}
    {out : Out ℝ (EngineArgs ℝ)} (h : hierarchyPL inp J raws = .ok out) :
    errorCovMeasurement inp.supplied inp.ind inp.cov = .ok out.errCov ∧
    scalingInit inp.aniModel inp.gammaIn inp.logM2l inp.gammaPl = .ok (out.names, some out.axes) ∧
    out.names.length = out.axes.length ∧
    out.grids.length = inp.nData ∧
    (∀ g ∈ out.grids, g.length = prodL (out.axes.map List.length)) ∧
    ∀ s, s < inp.nData → ∀ idx, ValidIdx (out.axes.map List.length) idx →
      (nodeAt out.axes idx).length = out.names.length ∧
      (out.grids.getD s [])[flatIdx (out.axes.map List.length) idx]? =
        some (J (argsAtNodePL inp out.names (nodeAt out.axes idx)) s / J out.baseCall s) := by
  obtain ⟨names, axes, ani0, ec, hsc, hani, hec, hany, rfl⟩ := hierarchyPL_ok h
  have hlen := scalingInit_length hsc
  have hshape := corePL_grid_shape inp J raws names axes ani0 ec
  refine ⟨hec, hsc, hlen, hshape.1, hshape.2, ?_⟩
  intro s hs idx hv
  exact ⟨(nodeAt_length axes idx hv).trans hlen.symm,
    corePL_grid_node inp J raws names axes ani0 ec s hs idx hv⟩

/-- mean / covariance part of the emitted configuration -/
theorem hierarchyPL_marginalisation {inp : PLInput ℝ} {J : EngineArgs ℝ → ℕ → ℝ}
    {raws : List (Raw ℝ)} {out : Out ℝ (EngineArgs ℝ)} (h : hierarchyPL inp J raws = .ok out)
    (s t : ℕ) (hs : s < inp.nData) (ht : t < inp.nData) :
    let jm : ℕ → ℕ → ℝ := fun i s => J (out.margCalls.getD i EngineArgs.empty) s
    out.margCalls.length = raws.length ∧
    out.jModel.getD s 0 = (∑ i ∈ range raws.length, jm i s) / raws.length ∧
    (out.covJ.getD s []).getD t 0 =
      (∑ i ∈ range raws.length, (√(jm i s) - sqrtMean jm raws.length s)
          * (√(jm i t) - sqrtMean jm raws.length t)) / (raws.length - 1) := by
  obtain ⟨names, axes, ani0, ec, _, _, _, _, rfl⟩ := hierarchyPL_ok h
  exact corePL_marginalisation inp J raws names axes ani0 ec s t hs ht

/-- the prior list emitted for the sampling of gamma_pl (also used by C20): centred on the imaging
    slope with its error iff gamma_pl is a grid axis; DdtGaussKinConstraints emits no key -/
theorem hierarchyPL_prior {inp : PLInput ℝ} {J : EngineArgs ℝ → ℕ → ℝ}
    {raws : List (Raw ℝ)} {out : Out ℝ (EngineArgs ℝ)} (h : hierarchyPL inp J raws = .ok out) :
    out.prior = some (if "gamma_pl" ∈ out.names then [("gamma_pl", inp.img.gamma, inp.img.gammaErr)]
                      else []) ∧
    out.hasPrior = (inp.kind != "ddtgauss") ∧ out.likelihoodType = likelihoodTypeOf inp.kind := by
  obtain ⟨names, axes, ani0, ec, _, _, _, _, rfl⟩ := hierarchyPL_ok h
  refine ⟨?_, rfl, rfl⟩
  simp only [corePL]
  by_cases hm : "gamma_pl" ∈ names <;> simp [hm]

/-- **C16 for the composite class** -/
theorem hierarchyC_emits {c : CompInput ℝ} {K : ℝ → ℝ → ℝ → ℝ} {fac : ℝ → ℝ}
    {J : EngineArgsC ℝ → ℕ → ℝ} {raws : List (ℕ × ℝ)} {out : Out ℝ (EngineArgsC ℝ)}
    (h : hierarchyC c K fac J raws = .ok out) :
    ∃ norm isAlpha rsA l0, haloArrays c = .ok (norm, isAlpha, rsA) ∧ c.light.head? = some l0 ∧
    errorCovMeasurement c.supplied c.ind c.cov = .ok out.errCov ∧
    scalingInit c.aniModel (some c.gammaInArr) (if c.popLevel then some c.logM2lArr else none) none
      = .ok (out.names, some out.axes) ∧
    out.names.length = out.axes.length ∧
    ∀ s, s < c.nData → ∀ idx, ValidIdx (out.axes.map List.length) idx →
      (nodeAt out.axes idx).length = out.names.length ∧
      (out.grids.getD s [])[flatIdx (out.axes.map List.length) idx]? =
        some (J (argsAtNodeC c K fac norm rsA isAlpha l0 out.names (nodeAt out.axes idx)) s
              / J out.baseCall s) := by
  obtain ⟨names, axes, norm, isAlpha, rsA, ani0, l0, ec, hsc, hhalo, hani, hl0, hec, rfl⟩ :=
    hierarchyC_ok h
  have hlen := scalingInit_length hsc
  refine ⟨norm, isAlpha, rsA, l0, hhalo, hl0, hec, hsc, hlen, ?_⟩
  intro s hs idx hv
  exact ⟨(nodeAt_length axes idx hv).trans hlen.symm,
    coreC_grid_node c K fac J raws names axes norm rsA isAlpha l0 ani0 ec s hs idx hv⟩

theorem hierarchyC_marginalisation {c : CompInput ℝ} {K : ℝ → ℝ → ℝ → ℝ} {fac : ℝ → ℝ}
    {J : EngineArgsC ℝ → ℕ → ℝ} {raws : List (ℕ × ℝ)} {out : Out ℝ (EngineArgsC ℝ)}
    (h : hierarchyC c K fac J raws = .ok out) (s t : ℕ) (hs : s < c.nData) (ht : t < c.nData) :
    let jm : ℕ → ℕ → ℝ := fun i s => J (out.margCalls.getD i EngineArgsC.empty) s
    out.margCalls.length = raws.length ∧
    out.jModel.getD s 0 = (∑ i ∈ range raws.length, jm i s) / raws.length ∧
    (out.covJ.getD s []).getD t 0 =
      (∑ i ∈ range raws.length, (√(jm i s) - sqrtMean jm raws.length s)
          * (√(jm i t) - sqrtMean jm raws.length t)) / (raws.length - 1) := by
  obtain ⟨names, axes, norm, isAlpha, rsA, ani0, l0, ec, _, _, _, _, _, rfl⟩ := hierarchyC_ok h
  exact coreC_marginalisation c K fac J raws names axes norm rsA isAlpha l0 ani0 ec s t hs ht

/-- non-vacuity of the `hierarchy*` hypotheses: a concrete input on which the model returns a
    configuration (OM, gamma_pl axis, two bins, one draw) -/
example : ∃ out, hierarchyPL (α := ℝ)
    { kind := "kin", img := ⟨1, 0.05, 2, 0.1, 0.8, 0.05⟩, aniModel := "OM", light := none,
      gammaIn := none, logM2l := none, gammaPl := some [1.8, 2.2], supplied := none,
      ind := some [10, 11], cov := some 3, nData := 2 }
    (fun a s => 1 + a.gamma + s) [⟨1.01, 2.05, 0.99⟩] = .ok out := by
  simp [hierarchyPL, scalingInit, aniPart, optPart, aniBase, lensBase, errorCovMeasurement]

/-! ## 8. …so that the likelihood's kinematic scaling at a node returns that ratio -/

/-- For ANY interpolation scheme `I(axes, flattened grid, point)` that reproduces the grid values at
    the grid nodes (scipy's `interp1d` / `RegularGridInterpolator` used by `KinScaling`; their
    node-exactness is theorem `node_exact` of C10), the scaling evaluated at a node of the emitted
    grid is `F(node) / F0` — for any number of axes. -/
theorem kin_scaling_at_node (I : List (List ℝ) → List ℝ → List ℝ → ℝ)
    (hI : ∀ (axes : List (List ℝ)) (grid : List ℝ) (idx : List ℕ),
      ValidIdx (axes.map List.length) idx → grid.length = prodL (axes.map List.length) →
      I axes grid (nodeAt axes idx) = grid.getD (flatIdx (axes.map List.length) idx) 0)
    (F : List ℝ → ℝ) (F0 : ℝ) (axes : List (List ℝ)) (idx : List ℕ)
    (hv : ValidIdx (axes.map List.length) idx) :
    I axes (gridFlat F F0 axes) (nodeAt axes idx) = F (nodeAt axes idx) / F0 := by
  rw [hI axes _ idx hv (gridFlat_length F F0 axes), List.getD_eq_getElem?_getD,
    grid_node_is_ratio F F0 axes idx hv]
  rfl

/-- piecewise-linear interpolation with linear extrapolation on a 1-d axis (what
    `interp1d(kind="linear", fill_value="extrapolate")` computes) -/
noncomputable def interp1 : List ℝ → List ℝ → ℝ → ℝ
  | x0 :: x1 :: xs, y0 :: y1 :: ys, x =>
    if x ≤ x1 ∨ xs = [] then y0 + (x - x0) * (y1 - y0) / (x1 - x0)
    else interp1 (x1 :: xs) (y1 :: ys) x
  | _, _, _ => 0

/-- node-exactness of `interp1` on a strictly increasing axis with at least two nodes -/
theorem interp1_node_exact : ∀ (xs ys : List ℝ) (i : ℕ), xs.Pairwise (· < ·) → 2 ≤ xs.length →
    xs.length = ys.length → i < xs.length → interp1 xs ys (xs.getD i 0) = ys.getD i 0
  | [], _, _, _, h2, _, _ => by simp at h2
  | [_], _, _, _, h2, _, _ => by simp at h2
  | _ :: _ :: _, [], _, _, _, hl, _ => by simp at hl
  | _ :: _ :: _, [_], _, _, _, hl, _ => by simp at hl
  | x0 :: x1 :: xs, y0 :: y1 :: ys, i, hp, _, hl, hi => by
    have h01 : x0 < x1 := by
      have := List.pairwise_cons.mp hp
      exact this.1 x1 (by simp)
    have hne : x1 - x0 ≠ 0 := by linarith
    cases i with
    | zero =>
      simp only [List.getD_cons_zero, interp1]
      rw [if_pos (Or.inl h01.le)]
      simp
    | succ i =>
      cases i with
      | zero =>
        simp only [List.getD_cons_succ, List.getD_cons_zero, interp1]
        rw [if_pos (Or.inl le_rfl)]
        field_simp
        ring
      | succ i =>
        have hp' : (x1 :: xs).Pairwise (· < ·) := (List.pairwise_cons.mp hp).2
        have hxs : xs ≠ [] := by
          intro e; subst e; simp at hi
        have hi' : i < xs.length := by simpa using hi
        have hgt : x1 < xs.getD i 0 := by
          have := (List.pairwise_cons.mp hp').1 (xs.getD i 0)
            (by rw [List.getD_eq_getElem?_getD, List.getElem?_eq_getElem hi']; simp)
          exact this
        have ih := interp1_node_exact (x1 :: xs) (y1 :: ys) (i + 1) hp'
          (by
            cases xs with
            | nil => exact absurd rfl hxs
            | cons _ _ => simp)
          (by simpa using hl) (by simpa using hi)
        simp only [List.getD_cons_succ] at ih ⊢
        rw [interp1, if_neg (not_or.mpr ⟨not_le.mpr hgt, hxs⟩)]
        exact ih

/-- 1-axis configurations (OM / const without optional axes): the linear interpolator of the
    likelihood returns J(node)/J(base) at every node of the emitted grid -/
theorem kin_scaling_at_node_1d (F : List ℝ → ℝ) (F0 : ℝ) (ax : List ℝ) (hp : ax.Pairwise (· < ·))
    (h2 : 2 ≤ ax.length) (i : ℕ) (hi : i < ax.length) :
    interp1 ax (gridFlat F F0 [ax]) (ax.getD i 0) = F [ax.getD i 0] / F0 := by
  have hlen : (gridFlat F F0 [ax]).length = ax.length := by
    simp [gridFlat_length, prodL]
  rw [interp1_node_exact ax _ i hp h2 hlen.symm hi]
  have := grid_node_is_ratio F F0 [ax] [i] (by simp [ValidIdx, hi])
  simp only [List.map_cons, List.map_nil, flatIdx, prodL, Nat.mul_one, Nat.add_zero, nodeAt] at this
  rw [List.getD_eq_getElem?_getD, this]
  simp [lit_zero]

example : (omAxis (α := ℝ)).Pairwise (· < ·) ∧ 2 ≤ (omAxis (α := ℝ)).length := by
  constructor
  · simp only [omAxis, List.pairwise_cons, List.mem_cons, List.not_mem_nil, or_false]
    norm_num
  · simp [omAxis]

/-- multilinear interpolation on a product grid (flattened row-major) as successive linear
    interpolation along the axes — the tensor-product scheme of `RegularGridInterpolator(method=
    "linear")`; stated locally so that the composition below has no open hypothesis -/
noncomputable def interpN : List (List ℝ) → List ℝ → List ℝ → ℝ
  | [], g, _ => g.getD 0 0
  | ax :: rest, g, x :: xs =>
    interp1 ax ((List.range ax.length).map fun k =>
      interpN rest ((g.drop (k * prodL (rest.map List.length))).take (prodL (rest.map List.length))) xs) x
  | _ :: _, _, [] => 0

/-- all axes strictly increasing with at least two nodes -/
def GoodAxes (axes : List (List ℝ)) : Prop := ∀ ax ∈ axes, ax.Pairwise (· < ·) ∧ 2 ≤ ax.length

theorem interpN_node_exact : ∀ (axes : List (List ℝ)) (grid : List ℝ) (idx : List ℕ),
    GoodAxes axes → ValidIdx (axes.map List.length) idx →
    grid.length = prodL (axes.map List.length) →
    interpN axes grid (nodeAt axes idx) = grid.getD (flatIdx (axes.map List.length) idx) 0
  | [], g, [], _, _, _ => by simp [interpN, flatIdx]
  | ax :: rest, g, i :: is, hg, hv, hl => by
    obtain ⟨hi, hr⟩ := hv
    have hax := hg ax (by simp)
    have hrest : GoodAxes rest := fun a ha => hg a (by simp [ha])
    simp only [List.map_cons, prodL] at hl
    set m := prodL (rest.map List.length) with hm
    have hj := flatIdx_lt _ _ hr
    simp only [nodeAt, interpN, List.map_cons, flatIdx]
    rw [lit_zero, interp1_node_exact ax _ i hax.1 hax.2 (by simp) hi]
    rw [range_map_getD _ _ _ hi]
    have hslice : ((g.drop (i * m)).take m).length = m := by
      rw [List.length_take, List.length_drop, hl]
      have : (i + 1) * m ≤ ax.length * m := Nat.mul_le_mul_right _ hi
      have : i * m + m ≤ ax.length * m := by linarith [Nat.succ_mul i m]
      omega
    rw [interpN_node_exact rest _ is hrest hr hslice]
    rw [List.getD_eq_getElem?_getD, List.getD_eq_getElem?_getD, List.getElem?_take_of_lt (hm ▸ hj),
      List.getElem?_drop]
  | [], _, _ :: _, _, hv, _ => by simp [ValidIdx] at hv
  | _ :: _, _, [], _, hv, _ => by simp [ValidIdx] at hv

/-- **kin_scaling at a node, any number of axes**: multilinear interpolation of the emitted grid at
    the node with multi-index `idx` returns `F(node)/F0 = J(parameters at the node)/J(base)`. -/
theorem kin_scaling_at_node_multilinear (F : List ℝ → ℝ) (F0 : ℝ) (axes : List (List ℝ))
    (hg : GoodAxes axes) (idx : List ℕ) (hv : ValidIdx (axes.map List.length) idx) :
    interpN axes (gridFlat F F0 axes) (nodeAt axes idx) = F (nodeAt axes idx) / F0 := by
  rw [interpN_node_exact axes _ idx hg hv (gridFlat_length F F0 axes), List.getD_eq_getElem?_getD,
    grid_node_is_ratio F F0 axes idx hv]
  rfl

example : GoodAxes [omAxis, betaInfAxis, [1.8, 2.0, 2.2]] := by
  intro ax hax
  simp only [List.mem_cons, List.not_mem_nil, or_false] at hax
  rcases hax with rfl | rfl | rfl
  · simp only [omAxis, List.pairwise_cons, List.mem_cons, List.not_mem_nil, or_false]
    norm_num
  · simp only [betaInfAxis, List.pairwise_cons, List.mem_cons, List.not_mem_nil, or_false]
    norm_num
  · simp only [List.pairwise_cons, List.mem_cons, List.not_mem_nil, or_false]
    norm_num

/-- non-vacuity of the composite hypotheses: per-lens M/L, κ_s input, one Gaussian, one draw -/
example : ∃ out, hierarchyC (α := ℝ)
    { img := ⟨1, 0.05, 2, 0.1, 0.8, 0.05⟩, aniModel := "GOM", gammaInArr := [0.5, 1.5],
      logM2lArr := [0.1, 0.3], alphaRs := none, rsAngle := some [5, 6], kappaS := some [0.05, 0.07],
      rho0 := none, rs := none, popLevel := false, light := [([1], [0.5])], priorMean := some 1,
      priorStd := some 0.2, sigCritAngle := 2, sigCrit := 3, dd := 4, arcsec := 5, supplied := none,
      ind := some [10], cov := some 3, nData := 1 }
    (fun k r g => k * r * g) Trans.pow10 (fun a _ => 1 + a.alphaRs) [(1, 0.98)] = .ok out := by
  simp [hierarchyC, scalingInit, aniPart, optPart, aniBase, haloArrays, checkArrays,
    errorCovMeasurement]

end HierArc.Posterior
