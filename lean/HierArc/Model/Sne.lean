/-
  HierArc.Model.Sne — model of the supernova likelihoods and of the lens-side distance-modulus
  offset (property C11).

  Sources modelled
    hierarc/Likelihood/SneLikelihood/sne_likelihood.py            SneLikelihood.log_likelihood
    hierarc/Likelihood/SneLikelihood/sne_likelihood_custom.py     CustomSneLikelihood
    hierarc/Likelihood/SneLikelihood/sne_likelihood_from_file.py  SneLikelihoodFromFile
    hierarc/Likelihood/hierarchy_likelihood.py                    LensLikelihood.luminosity_distance_modulus,
                                                                  LensLikelihood.draw_source (σ = 0)

  Vectors are `Fin n → α`, matrices `Fin n → Fin n → α`.  The linear-algebra engines
  (`numpy.linalg.inv`, `numpy.linalg.slogdet`) are parameters `inv`, `logdet` of the model; the
  distances delivered by the cosmology object (`cosmo.angular_diameter_distance(z).value`) are
  arguments (`dsn i` = D_A(zcmb i), `da` = D_A(z_anchor)).  No Mathlib import.
-/
import HierArc.Model.Basic
namespace HierArc.Sne
open HierArc

/-- the constant `numpy.pi` (not part of the shared `Trans` record) -/
class HasPi (α : Type) where
  pi : α

instance : HasPi Float := ⟨3.141592653589793⟩

abbrev Vec (α : Type) (n : Nat) := Fin n → α
abbrev Mat (α : Type) (n : Nat) := Fin n → Fin n → α

section
variable {α : Type} [Add α] [Sub α] [Mul α] [Div α] [Neg α] [LT α] [DecidableLT α]
  [OfScientific α] [Trans α] [HasPi α]

/-- `numpy.sum` of a 1-d array (left to right, starting at 0). -/
def sumFin : (n : Nat) → (Fin n → α) → α
  | 0, _ => 0.0
  | n + 1, f => sumFin n (fun i => f i.castSucc) + f (Fin.last n)

/-- the integer `n` as an element of the carrier (`self.num_sne * np.log(...)`). -/
def natA (n : Nat) : α := sumFin n (fun _ => (1.0 : α))

/-- `5 * np.log10((1 + zhel) * (1 + zcmb) * D_A)` -/
def modulus (zhel zcmb d : α) : α := 5.0 * Trans.log10 ((1.0 + zhel) * (1.0 + zcmb) * d)

/-- `5 * np.log10((1 + z_anchor) * (1 + z_anchor) * D_A(z_anchor))` -/
def anchorModulus (za da : α) : α := modulus za za da

/-- `lum_dists - lum_dist_anchor` of `SneLikelihood.log_likelihood`. -/
def relModuli {n : Nat} (zhel zcmb dsn : Vec α n) (za da : α) : Vec α n :=
  fun i => modulus (zhel i) (zcmb i) (dsn i) - anchorModulus za da

def diag {n : Nat} (c : Mat α n) : Vec α n := fun i => c i i

/-- `self._cov_mag + np.diag(np.ones(n) * sigma_m_z**2)` — a NEW matrix. -/
def addScatter {n : Nat} (c : Mat α n) (s : α) : Mat α n :=
  fun i j => c i j + (if i = j then s * s else 0.0)

/-- first return value of `CustomSneLikelihood._inverse_covariance_matrix(sigma_m_z)`:
    the stored matrix when `sigma_m_z is None or no_intrinsic_scatter`. -/
def covUsed {n : Nat} (c : Mat α n) (noScatter : Bool) : Option α → Mat α n
  | none => c
  | some s => if noScatter then c else addScatter c s

/-- inverse-variance weighted estimate of the magnitude normalisation. -/
def estNorm {n : Nat} (mag lum var : Vec α n) : α :=
  sumFin n (fun i => (mag i - lum i) * (1.0 / var i)) / sumFin n (fun i => 1.0 / var i)

/-- `diffmag = self.mag - lum_dists - estimated_scriptm` -/
def resid {n : Nat} (mag lum : Vec α n) (m : α) : Vec α n := fun i => mag i - lum i - m

/-- `d.dot(a.dot(d))` -/
def quadForm {n : Nat} (a : Mat α n) (d : Vec α n) : α :=
  sumFin n (fun i => d i * sumFin n (fun j => a i j * d j))

/-- stored data of a `CustomSneLikelihood` instance -/
structure Custom (α : Type) (n : Nat) where
  mag : Vec α n
  cov : Mat α n
  zhel : Vec α n
  zcmb : Vec α n
  noScatter : Bool

/-- the normalisation used: the given one, or the estimate -/
def normUsed {n : Nat} (mag lum var : Vec α n) : Option α → α
  | some m => m
  | none => estNorm mag lum var

/-- `CustomSneLikelihood.log_likelihood_lum_dist(lum_dists, estimated_scriptm, sigma_m_z)` -/
def customLogL {n : Nat} (inv : Mat α n → Mat α n) (logdet : Mat α n → α) (S : Custom α n)
    (lum : Vec α n) (m σ : Option α) : α :=
  let c := covUsed S.cov S.noScatter σ
  let ic := inv c
  let est := normUsed S.mag lum (diag c) m
  let d := resid S.mag lum est
  let q := quadForm ic d
  let lnl := -q / 2.0
  lnl - 1.0 / 2.0 * (natA n * Trans.log (2.0 * HasPi.pi) + logdet c)

/-- stored data of a `SneLikelihoodFromFile` instance (as read from the files) -/
structure FromFile (α : Type) (n : Nat) where
  mag : Vec α n
  covSys : Mat α n
  dmb : Vec α n
  zcmb : Vec α n
  zhel : Vec α n
  pecZ : α

/-- `zfacsq = 25.0 / np.log(10.0) ** 2` -/
def zfacsq : α := 25.0 / (Trans.log (10.0 : α) * Trans.log (10.0 : α))

/-- `self.diag_uncorr_errors` -/
def diagUncorr {n : Nat} (F : FromFile α n) : Vec α n := fun i =>
  let r := (1.0 + F.zcmb i) / (F.zcmb i * (1.0 + 0.5 * F.zcmb i))
  F.dmb i * F.dmb i + zfacsq * (F.pecZ * F.pecZ) * (r * r)

/-- the covariance that is inverted (`np.fill_diagonal(cov, cov.diagonal() + delta)`) -/
def fileCov {n : Nat} (F : FromFile α n) : Mat α n :=
  fun i j => if i = j then F.covSys i j + diagUncorr F i else F.covSys i j

/-- `SneLikelihoodFromFile.log_likelihood_lum_dist` (`sigma_m_z` is accepted and ignored) -/
def fileLogL {n : Nat} (inv : Mat α n → Mat α n) (F : FromFile α n)
    (lum : Vec α n) (m _σ : Option α) : α :=
  let ic := inv (fileCov F)
  let est := normUsed F.mag lum (diagUncorr F) m
  let d := resid F.mag lum est
  let a := quadForm ic d
  let e := sumFin n (fun i => sumFin n (fun j => ic i j))
  let chi2 := a + Trans.log (e / (2.0 * HasPi.pi))
  let r := -chi2 / 2.0
  r

/-- `SneLikelihood.log_likelihood(cosmo, apparent_m_z, sigma_m_z, z_anchor)` for an inner
    likelihood `L = log_likelihood_lum_dist`. -/
def sneLogL {n : Nat} (L : Vec α n → Option α → Option α → α) (zhel zcmb dsn : Vec α n)
    (za da : α) (m σ : Option α) : α :=
  L (relModuli zhel zcmb dsn za da) m σ

/-! ### lens side -/

/-- `np.maximum(np.nan_to_num(d), 0.00001)` (NaN ↦ 1e-5 as in numpy) -/
def floorDist (d : α) : α := if 1e-5 < d then d else 1e-5

def magTypes : List String := ["Mag", "TDMag", "TDMagMagnitude"]

/-- `LensLikelihood.luminosity_distance_modulus(cosmo, z_apparent_m_anchor)` with
    `ds = D_A(z_source)`, `da = D_A(z_anchor)`. -/
def lensModulus (ltype : String) (zs ds za da : α) : α :=
  if magTypes.contains ltype then
    modulus zs zs (floorDist ds) - modulus za za (floorDist da)
  else 0.0

/-- `LensLikelihood.draw_source(mu_sne, sigma_sne = 0, lum_dist)` -/
def drawSourceSharp (mu lumDist : α) : α := mu + lumDist

/-! ### call histories on one `CustomSneLikelihood` instance -/

structure Call (α : Type) (n : Nat) where
  lum : Vec α n
  m : Option α
  σ : Option α

/-- one call: (instance after the call, returned value).  The code builds a NEW matrix for the
    scatter, so the instance is returned as it was. -/
def step {n : Nat} (inv : Mat α n → Mat α n) (logdet : Mat α n → α) (S : Custom α n)
    (c : Call α n) : Custom α n × α :=
  (S, customLogL inv logdet S c.lum c.m c.σ)

/-- a sequence of calls on one instance -/
def runCalls {n : Nat} (inv : Mat α n → Mat α n) (logdet : Mat α n → α) :
    Custom α n → List (Call α n) → Custom α n × List α
  | S, [] => (S, [])
  | S, c :: cs =>
    let r := step inv logdet S c
    let rs := runCalls inv logdet r.1 cs
    (rs.1, r.2 :: rs.2)

/-- CONTRAST (not the code): the commented-out in-place variant
    `np.fill_diagonal(self._cov_mag, cov_mag_diag + sigma_m_z**2)`. -/
def stepInPlace {n : Nat} (inv : Mat α n → Mat α n) (logdet : Mat α n → α) (S : Custom α n)
    (c : Call α n) : Custom α n × α :=
  let S' : Custom α n := { S with cov := covUsed S.cov S.noScatter c.σ }
  (S', customLogL inv logdet S c.lum c.m c.σ)

end

end HierArc.Sne
