"""C04 — population scatter is marginalised by an N-draw mean of the likelihood."""
import math

import numpy as np

from harness.common import run_driver, f2b, b2f, close, err_enum
from harness import lens_common as lc
from harness.props import c03

ID = "C04"
LEAN_MODULES = ["HierArc.Props.C04"]
TRANSLATE = ["tables"]
# when the translator cannot follow a rewritten source, the last generated model is run against the implementation instead
TRANSLATOR_FALLBACK = True
RULE = ("scenario grid: every scatter parameter (lambda_mst, lambda_ifu, a_ani, beta_inf, gamma_in, log_m2l, "
        "global gamma_pl, sigma_sne, LOS Gaussian/GEV) x lens flagging that makes it applicable or not (IFU flag, "
        "sampling switches, interpolated axes, LOS assignment, likelihood type) x N in {2,3,5,8}; exactly one "
        "scatter non-zero per case (plus all-zero, several-non-zero and re-draw cases: IFU lambda + truncated gamma_in / "
        "log_m2l near a grid edge); distinct = (scenario, N, applicable)")
ASSUMPTIONS = [
    "numpy's generator realises the declared laws (law of np.random.normal / genextreme.rvs is not modelled; C09)",
    "exp underflow/overflow is float behaviour outside the ℝ theorems (finite/positive filter is modelled and compared)",
    "i.i.d. draws: successive calls of the global generator are independent and identically distributed",
]
TRUSTED = ["hand-written model HierArc/Model/Lens.lean (checkDist, logMeanExp, draw monad) tied by differential execution"]
LEVEL_TEXT = ("Lean theorems over ℝ: the marginalised value is log((Σ exp lᵢ)/N) — mean of L, not of log L (with a witness "
              "that they differ); a draw without a finite log-likelihood counts as a draw of likelihood zero — the divisor stays the configured N (marg_dropped_draws_count, marg_is_mean_over_all_draws, with a witness that dividing by the number of finite draws differs); exactly one evaluation when sharp and exactly N otherwise; N identical draws return the "
              "sharp value; SOUNDNESS of the sharp decision: if check_dist says sharp, any two generator states give the "
              "same arguments to the data likelihood and the same prior term (determinism of the whole draw monad under "
              "zero applicable scatter, for all configurations); on an abstract probability space the N-draw mean is "
              "unbiased for the population integral and its variance is Var[L]/N for pairwise independent identically "
              "distributed draws; every np.random.normal request of every evaluation, re-draws of truncated populations "
              "included and for every recursion depth, has (loc, scale) among the declared populations of this lens "
              "(draws_from_declared: induction over the re-draw recursion and over the N evaluations).  The model is run against the real code for every scatter x flagging scenario; the "
              "statement (N evaluations and seed-dependence iff an applicable scatter is non-zero; value = log-mean-exp of "
              "the recorded single-draw values; every recorded request is from a declared population) is evaluated on "
              "LensLikelihood.hyper_param_likelihood.")
LEVEL_NOTE = ("partial: that numpy draws follow the declared laws and are independent is assumed; the converse of soundness "
              "(non-sharp ⇒ value depends on the stream) and convergence are validated by the oracle only; float underflow "
              "outside ℝ")
TECHNIQUE = "Lean 4 proof (determinism of the draw monad, real analysis of log-mean-exp, Mathlib probability for the estimator) + correspondence"


def base_cfg(rng, ltype):
    cfg = dict(z_lens=0.5, z_source=1.5, name="L", lambda_scaling_property=rng.choice([0.0, 0.4]),
               lambda_scaling_property_beta=0.0, num_distribution_draws=rng.choice([2, 3, 5, 8]))
    if rng.random() < 0.4:
        # the sampler-side switch for log10-sampled scatters reaches every lens through the global model settings; the
        # hyper-parameter dictionaries a lens receives are linear in either case
        cfg["log_scatter"] = True
    h = dict(kwargs_lens=dict(lambda_mst=rng.uniform(0.9, 1.1), gamma_ppn=1.0), kwargs_kin={}, kwargs_source={}, kwargs_los=None)
    return cfg, h


SCENARIOS = []


def scen(name):
    def deco(f):
        SCENARIOS.append((name, f))
        return f
    return deco


def kin_grid(rng, cfg, names, axes, nbin):
    cfg["kin_scaling_param_list"] = names
    cfg["j_kin_scaling_param_axes"] = axes if len(axes) > 1 else axes[0]
    shape = tuple(len(a) for a in axes)
    cfg["j_kin_scaling_grid_list"] = [np.array([rng.uniform(0.7, 1.4) for _ in range(int(np.prod(shape)))]).reshape(shape) for _ in range(nbin)]


@scen("lambda_mst/nonIFU")
def s1(rng):
    cfg, h = base_cfg(rng, "DdtGaussian")
    cfg.update(lambda_mst_distribution="GAUSSIAN", mst_ifu=False)
    h["kwargs_lens"].update(lambda_mst_sigma=0.05, lambda_ifu=1.0, lambda_ifu_sigma=0.0)
    return "DdtGaussian", cfg, h, True


@scen("lambda_ifu/IFU")
def s2(rng):
    cfg, h = base_cfg(rng, "DdtGaussian")
    cfg.update(lambda_mst_distribution="GAUSSIAN", mst_ifu=True)
    h["kwargs_lens"].update(lambda_mst_sigma=0.0, lambda_ifu=1.02, lambda_ifu_sigma=0.05)
    return "DdtGaussian", cfg, h, True


@scen("lambda_ifu/nonIFU")
def s3(rng):
    cfg, h = base_cfg(rng, "DdtGaussian")
    cfg.update(lambda_mst_distribution="GAUSSIAN", mst_ifu=False)
    h["kwargs_lens"].update(lambda_mst_sigma=0.0, lambda_ifu=1.02, lambda_ifu_sigma=0.05)
    return "DdtGaussian", cfg, h, False


@scen("lambda_mst/IFU")
def s4(rng):
    cfg, h = base_cfg(rng, "DdtGaussian")
    cfg.update(lambda_mst_distribution="GAUSSIAN", mst_ifu=True)
    h["kwargs_lens"].update(lambda_mst_sigma=0.05, lambda_ifu=1.02, lambda_ifu_sigma=0.0)
    return "DdtGaussian", cfg, h, False


@scen("lambda_ifu/IFU flag written as numpy.bool_ / 1 (invariant only)")
def s34(rng):
    # a flag read from a boolean table column: whichever way the library reads it, "one evaluation" must go together with
    # "no randomness" and "N evaluations" with the mean over N draws
    cfg, h = base_cfg(rng, "DdtGaussian")
    cfg.update(lambda_mst_distribution="GAUSSIAN", mst_ifu=True, _ifu_flag_as=rng.choice(["numpy_bool", "int"]))
    if rng.random() < 0.5:
        h["kwargs_lens"].update(lambda_mst_sigma=0.0, lambda_ifu=0.95, lambda_ifu_sigma=0.06)
    else:
        h["kwargs_lens"].update(lambda_mst_sigma=0.06, lambda_ifu=0.95, lambda_ifu_sigma=0.0)
    return "DdtGaussian", cfg, h, None


@scen("lambda_mst/distribution NONE")
def s5(rng):
    cfg, h = base_cfg(rng, "DdtGaussian")
    cfg.update(lambda_mst_distribution="NONE")
    h["kwargs_lens"].update(lambda_mst_sigma=0.05)
    return "DdtGaussian", cfg, h, False


@scen("a_ani/GAUSSIAN")
def s6(rng):
    cfg, h = base_cfg(rng, "IFUKinCov")
    cfg.update(anisotropy_model="OM", anisotropy_sampling=True, anisotropy_distribution=rng.choice(["GAUSSIAN", "GAUSSIAN_SCALED"]))
    cfg["_grid"] = (["a_ani"], [np.linspace(0.2, 5.0, 6)])
    h["kwargs_kin"].update(a_ani=2.0, a_ani_sigma=0.2)
    return "IFUKinCov", cfg, h, True


@scen("a_ani/GAUSSIAN_TAN_RAD")
def s30(rng):
    # tangential-to-radial parameterisation: the draw is 1 - N(a_ani, sigma)^2; its scatter alone makes the lens non-sharp
    lt = rng.choice(["IFUKinCov", "DdtGaussKin", "DdtDdGaussian"])
    cfg, h = base_cfg(rng, lt)
    cfg.update(anisotropy_model=rng.choice(["const", "OM"]), anisotropy_sampling=True, anisotropy_distribution="GAUSSIAN_TAN_RAD")
    cfg["_grid"] = (["a_ani"], [np.linspace(0.05, 1.2, 6)])
    h["kwargs_kin"].update(a_ani=rng.choice([0.8, 0.7]), a_ani_sigma=rng.choice([0.05, 0.1]))
    return lt, cfg, h, True


@scen("a_ani/GAUSSIAN_TAN_RAD of zero width, another population with scatter")
def s35(rng):
    # the degenerate tangential-to-radial population: every draw is 1 - a_ani^2 (the quantity the scaling is tabulated in),
    # while the mass-sheet population keeps the lens non-sharp
    lt = rng.choice(["IFUKinCov", "DdtGaussKin", "DdtDdGaussian"])
    cfg, h = base_cfg(rng, lt)
    cfg.update(anisotropy_model=rng.choice(["const", "OM"]), anisotropy_sampling=True, anisotropy_distribution="GAUSSIAN_TAN_RAD",
               lambda_mst_distribution="GAUSSIAN", mst_ifu=False)
    cfg["_grid"] = (["a_ani"], [np.linspace(0.05, 1.2, 6)])
    h["kwargs_kin"].update(a_ani=rng.choice([0.8, 0.7, 0.9]), a_ani_sigma=0.0)
    h["kwargs_lens"].update(lambda_mst_sigma=0.05)
    return lt, cfg, h, True


@scen("a_ani/GAUSSIAN_TAN_RAD of zero width, nothing else scattered")
def s36(rng):
    lt = rng.choice(["IFUKinCov", "DdtGaussKin", "DdtDdGaussian"])
    cfg, h = base_cfg(rng, lt)
    cfg.update(anisotropy_model=rng.choice(["const", "OM"]), anisotropy_sampling=True, anisotropy_distribution="GAUSSIAN_TAN_RAD")
    cfg["_grid"] = (["a_ani"], [np.linspace(0.05, 1.2, 6)])
    h["kwargs_kin"].update(a_ani=rng.choice([0.8, 0.7, 0.9]))
    if rng.random() < 0.5:
        h["kwargs_kin"]["a_ani_sigma"] = 0.0      # (omitted otherwise: the documented default is 0)
    return lt, cfg, h, False


@scen("re-draws: a_ani GAUSSIAN_SCALED near the grid edge")
def s31(rng):
    # every re-draw of a truncated population comes from the SAME declared population (mean a, spread sigma*a)
    lt = rng.choice(["IFUKinCov", "DdtGaussKin"])
    cfg, h = base_cfg(rng, lt)
    gom = rng.random() < 0.4
    cfg.update(anisotropy_model="GOM" if gom else "OM", anisotropy_sampling=True, anisotropy_distribution="GAUSSIAN_SCALED",
               num_distribution_draws=rng.choice([8, 12]))
    names, axes = ["a_ani"], [np.linspace(0.5, 5.0, 6)]
    h["kwargs_kin"].update(a_ani=rng.choice([0.6, 0.7, 4.5]), a_ani_sigma=rng.choice([0.5, 0.3]))
    if gom:
        names.append("beta_inf")
        axes.append(np.linspace(0.0, 1.0, 4))
        h["kwargs_kin"].update(beta_inf=rng.choice([0.9, 0.1]), beta_inf_sigma=0.3)
    cfg["_grid"] = (names, axes)
    return lt, cfg, h, True


@scen("a_ani/sampling off")
def s7(rng):
    cfg, h = base_cfg(rng, "DdtGaussian")
    cfg.update(anisotropy_model="OM", anisotropy_sampling=False, anisotropy_distribution="GAUSSIAN")
    h["kwargs_kin"].update(a_ani=2.0, a_ani_sigma=0.2)
    return "DdtGaussian", cfg, h, False


@scen("a_ani/distribution NONE")
def s8(rng):
    cfg, h = base_cfg(rng, "IFUKinCov")
    cfg.update(anisotropy_model="OM", anisotropy_sampling=True, anisotropy_distribution="NONE")
    cfg["_grid"] = (["a_ani"], [np.linspace(0.2, 5.0, 6)])
    h["kwargs_kin"].update(a_ani=2.0, a_ani_sigma=0.2)
    return "IFUKinCov", cfg, h, False


@scen("beta_inf/GOM")
def s9(rng):
    cfg, h = base_cfg(rng, "DdtGaussian")
    cfg.update(anisotropy_model="GOM", anisotropy_sampling=True, anisotropy_distribution="GAUSSIAN")
    h["kwargs_kin"].update(a_ani=2.0, a_ani_sigma=0.0, beta_inf=0.8, beta_inf_sigma=0.1)
    return "DdtGaussian", cfg, h, True


@scen("beta_inf/OM")
def s10(rng):
    cfg, h = base_cfg(rng, "DdtGaussian")
    cfg.update(anisotropy_model="OM", anisotropy_sampling=True, anisotropy_distribution="GAUSSIAN")
    h["kwargs_kin"].update(a_ani=2.0, a_ani_sigma=0.0, beta_inf=0.8, beta_inf_sigma=0.1)
    return "DdtGaussian", cfg, h, False


@scen("gamma_in/sampling")
def s11(rng):
    cfg, h = base_cfg(rng, "IFUKinCov")
    cfg.update(gamma_in_sampling=True, gamma_in_distribution=rng.choice(["GAUSSIAN", "NONE"]))
    cfg["_grid"] = (["gamma_in"], [np.linspace(0.1, 2.9, 7)])
    h["kwargs_lens"].update(gamma_in=1.5, gamma_in_sigma=0.2)
    return "IFUKinCov", cfg, h, True


@scen("gamma_in/no sampling")
def s12(rng):
    cfg, h = base_cfg(rng, "DdtGaussian")
    cfg.update(gamma_in_sampling=False, gamma_in_distribution="GAUSSIAN")
    h["kwargs_lens"].update(gamma_in=1.5, gamma_in_sigma=0.2)
    return "DdtGaussian", cfg, h, False


@scen("log_m2l/sampling")
def s13(rng):
    cfg, h = base_cfg(rng, "IFUKinCov")
    cfg.update(log_m2l_sampling=True, log_m2l_distribution="GAUSSIAN")
    cfg["_grid"] = (["log_m2l"], [np.linspace(-0.5, 1.5, 6)])
    h["kwargs_lens"].update(log_m2l=0.4, log_m2l_sigma=0.1)
    return "IFUKinCov", cfg, h, True


@scen("log_m2l/no sampling")
def s14(rng):
    cfg, h = base_cfg(rng, "DdtGaussian")
    h["kwargs_lens"].update(log_m2l=0.4, log_m2l_sigma=0.1)
    return "DdtGaussian", cfg, h, False


@scen("gamma_pl/global GAUSSIAN")
def s15(rng):
    cfg, h = base_cfg(rng, "DSPL")
    cfg.update(gamma_pl_global_sampling=True, gamma_pl_global_dist="GAUSSIAN")
    h["kwargs_lens"].update(gamma_pl_mean=2.05, gamma_pl_sigma=0.08)
    return "DSPL", cfg, h, True


@scen("gamma_pl/global GAUSSIAN, kinematic lens interpolated over the slope")
def s33(rng):
    # the global slope also enters a NON-double-source-plane lens whose kinematic scaling is interpolated over gamma_pl
    lt = rng.choice(["IFUKinCov", "DdtGaussKin", "DsDdsGaussian"])
    cfg, h = base_cfg(rng, lt)
    cfg.update(gamma_pl_global_sampling=True, gamma_pl_global_dist="GAUSSIAN")
    cfg["_grid"] = (["gamma_pl"], [np.linspace(1.5, 2.6, 6)])
    h["kwargs_lens"].update(gamma_pl_mean=2.05, gamma_pl_sigma=0.08)
    return lt, cfg, h, True


@scen("gamma_pl/global NONE")
def s16(rng):
    cfg, h = base_cfg(rng, "DSPL")
    cfg.update(gamma_pl_global_sampling=True, gamma_pl_global_dist="NONE")
    h["kwargs_lens"].update(gamma_pl_mean=2.05, gamma_pl_sigma=0.08)
    return "DSPL", cfg, h, False


@scen("gamma_pl/per-lens index")
def s17(rng):
    cfg, h = base_cfg(rng, "DSPL")
    cfg.update(gamma_pl_index=1, gamma_pl_global_sampling=False, gamma_pl_global_dist="GAUSSIAN")
    h["kwargs_lens"].update(gamma_pl_list=[2.0, 2.1], gamma_pl_mean=2.05, gamma_pl_sigma=0.08)
    return "DSPL", cfg, h, False


@scen("sigma_sne/Mag")
def s18(rng):
    lt = rng.choice(["Mag", "TDMag", "TDMagMagnitude"])
    cfg, h = base_cfg(rng, lt)
    h["kwargs_source"].update(mu_sne=21.0, sigma_sne=0.15, z_apparent_m_anchor=0.1)
    return lt, cfg, h, True


@scen("sigma_sne/non-magnification type")
def s19(rng):
    lt = rng.choice(["DdtGaussian", "IFUKinCov", "DSPL"])
    cfg, h = base_cfg(rng, lt)
    h["kwargs_source"].update(mu_sne=21.0, sigma_sne=0.15, z_apparent_m_anchor=0.1)
    return lt, cfg, h, False


@scen("los/global GAUSSIAN assigned")
def s20(rng):
    cfg, h = base_cfg(rng, "DdtGaussian")
    cfg.update(global_los_distribution=1, los_distributions=["GAUSSIAN", "GAUSSIAN"])
    h["kwargs_los"] = [dict(mean=0.0, sigma=0.0), dict(mean=0.02, sigma=0.03)]
    return "DdtGaussian", cfg, h, True


@scen("los/other population has scatter")
def s21(rng):
    cfg, h = base_cfg(rng, "DdtGaussian")
    cfg.update(global_los_distribution=0, los_distributions=["GAUSSIAN", "GAUSSIAN"])
    h["kwargs_los"] = [dict(mean=0.01, sigma=0.0), dict(mean=0.02, sigma=0.03)]
    return "DdtGaussian", cfg, h, False


@scen("los/not assigned")
def s22(rng):
    cfg, h = base_cfg(rng, "DdtGaussian")
    cfg.update(global_los_distribution=False, los_distributions=["GAUSSIAN"])
    h["kwargs_los"] = [dict(mean=0.02, sigma=0.03)]
    return "DdtGaussian", cfg, h, False


@scen("los/GEV assigned")
def s23(rng):
    cfg, h = base_cfg(rng, "DdtGaussian")
    cfg.update(global_los_distribution=0, los_distributions=["GEV"])
    h["kwargs_los"] = [dict(mean=0.0, sigma=0.02, xi=0.1)]
    return "DdtGaussian", cfg, h, True


@scen("los/individual GEV")
def s29(rng):
    cfg, h = base_cfg(rng, rng.choice(["DdtGaussian", "DdtGaussKin"]))
    lt = "DdtGaussian"
    cfg.update(global_los_distribution=False, los_distribution_individual="GEV",
               kwargs_los_individual=dict(xi=rng.choice([0.3, -0.2, 0.1, 0.0]), mean=rng.uniform(-0.02, 0.05), sigma=rng.uniform(0.01, 0.04)))
    return lt, cfg, h, True


@scen("los/individual tabulated PDF with empty bins")
def s32(rng):
    cfg, h = base_cfg(rng, rng.choice(["DdtGaussian", "DdtGaussKin"]))
    lt = "DdtGaussian"
    nb = rng.choice([8, 12, 20])
    edges = np.linspace(-0.1, 0.3, nb + 1)
    pdf = np.array([rng.uniform(0.2, 1.0) for _ in range(nb)])
    pdf[: rng.choice([1, 2, 3])] = 0.0                       # a PDF tabulated on a common grid: zero padding below the cut-off
    if rng.random() < 0.7:
        j = rng.randrange(nb // 2, nb - 2)                   # … and a gap between two modes
        pdf[j: j + rng.choice([1, 2])] = 0.0
    if rng.random() < 0.3:
        pdf[-1] = 0.0
    cfg.update(global_los_distribution=False, los_distribution_individual="PDF",
               kwargs_los_individual=dict(bin_edges=edges, pdf_array=pdf))
    return lt, cfg, h, True


@scen("lambda_mst/very unlikely data (log L << -745)")
def s26(rng):
    cfg, h = base_cfg(rng, "DdtGaussian")
    cfg.update(lambda_mst_distribution="GAUSSIAN", mst_ifu=False)
    cfg["_tiny_sigma"] = True
    h["kwargs_lens"].update(lambda_mst_sigma=0.02)
    return "DdtGaussian", cfg, h, True


@scen("lambda_mst/compact-support likelihood (some draws have L = 0)")
def s27(rng):
    cfg, h = base_cfg(rng, "DdtHistKDE")
    cfg.update(lambda_mst_distribution="GAUSSIAN", mst_ifu=False)
    cfg["num_distribution_draws"] = rng.choice([8, 12, 20])
    cfg["_compact"] = rng.choice(["tophat", "epanechnikov", "linear"])
    h["kwargs_lens"].update(lambda_mst_sigma=0.25)
    return "DdtHistKDE", cfg, h, True


@scen("all zero")
def s24(rng):
    cfg, h = base_cfg(rng, "DdtGaussKin")
    cfg.update(lambda_mst_distribution="GAUSSIAN", anisotropy_model="OM", anisotropy_sampling=True, anisotropy_distribution="GAUSSIAN")
    cfg["_grid"] = (["a_ani"], [np.linspace(0.2, 5.0, 6)])
    h["kwargs_lens"].update(lambda_mst_sigma=0.0)
    h["kwargs_kin"].update(a_ani=2.0, a_ani_sigma=0.0)
    return "DdtGaussKin", cfg, h, False


@scen("several non-zero")
def s25(rng):
    cfg, h = base_cfg(rng, "DdtGaussKin")
    cfg.update(lambda_mst_distribution="GAUSSIAN", anisotropy_model="OM", anisotropy_sampling=True, anisotropy_distribution="GAUSSIAN")
    cfg["_grid"] = (["a_ani"], [np.linspace(0.2, 5.0, 6)])
    h["kwargs_lens"].update(lambda_mst_sigma=0.04)
    h["kwargs_kin"].update(a_ani=2.0, a_ani_sigma=0.3)
    return "DdtGaussKin", cfg, h, True


@scen("re-draws: IFU lambda + truncated gamma_in / log_m2l")
def s28(rng):
    # the truncated populations (gamma_in / log_m2l outside the interpolation grid) are re-drawn; every re-draw must
    # again come from the lens' own declared populations (IFU lambda scatter, not the sample-wide one)
    lt = rng.choice(["DdtGaussKin", "IFUKinCov", "DdtGaussian"])
    cfg, h = base_cfg(rng, lt)
    ifu = rng.random() < 0.7
    cfg.update(mst_ifu=ifu, lambda_mst_distribution="GAUSSIAN", gamma_in_sampling=True, gamma_in_distribution="GAUSSIAN",
               alpha_gamma_in_sampling=True, log_m2l_sampling=rng.random() < 0.5, num_distribution_draws=rng.choice([8, 12]))
    names, axes = ["gamma_in"], [np.linspace(0.5, 1.5, 5)]
    if cfg["log_m2l_sampling"]:
        names.append("log_m2l")
        axes.append(np.linspace(0.0, 1.0, 4))
    cfg["_grid"] = (names, axes)
    h["kwargs_lens"].update(lambda_ifu=rng.uniform(0.9, 1.1), lambda_ifu_sigma=rng.choice([0.05, 0.0, 0.02]),
                            lambda_mst_sigma=rng.choice([0.0, 0.03, 0.08]),
                            gamma_in=rng.choice([1.4, 0.6, 1.0]), gamma_in_sigma=0.3, alpha_gamma_in=rng.choice([0.0, 0.1]))
    if cfg["log_m2l_sampling"]:
        h["kwargs_lens"].update(log_m2l=rng.choice([0.9, 0.1, 0.5]), log_m2l_sigma=0.25, alpha_log_m2l=rng.choice([0.0, 0.1]))
    return lt, cfg, h, True


def gen_case(rng, k):
    name, f = SCENARIOS[k % len(SCENARIOS)]
    lt, cfg, h, applicable = f(rng)
    data = lc.data_kwargs(rng, lt)
    kern = cfg.pop("_compact", None)
    if kern:
        data["kde_kernel"] = kern
        data["bandwidth"] = 30
    if cfg.pop("_tiny_sigma", False):
        data["ddt_sigma"] = 5.0     # the model Ddt is hundreds of sigma away: every exp(l_i) underflows
    g = cfg.pop("_grid", None)
    if g:
        nbin = len(data["sigma_v_measurement"]) if lt in lc.KIN_TYPES else 1
        kin_grid(rng, cfg, g[0], g[1], nbin)
    return dict(scenario=name, ltype=lt, cfg=cfg, hyper=h, data=data, ddt=rng.uniform(4000, 6000), dd=rng.uniform(900, 1300),
                dlum=rng.uniform(-1, 1) if lt in lc.MAG_TYPES else 0.0, beta=rng.uniform(0.5, 0.9) if lt == "DSPL" else None,
                applicable=applicable, stream="main")


def gev_declared(case):
    cfg, h = case["cfg"], case["hyper"]
    if cfg.get("los_distribution_individual") == "GEV" and cfg.get("global_los_distribution", False) is False:
        return dict(cfg["kwargs_los_individual"])
    g = cfg.get("global_los_distribution", False)
    if g is not False and g is not None and (cfg.get("los_distributions") or [None])[g] == "GEV":
        return dict(h["kwargs_los"][g])
    return None


def gev_ks_distance(case, gev):
    from scipy.stats import genextreme, kstest
    from hierarc.Sampling.Distributions.los_distributions import LOSDistribution
    cfg = case["cfg"]
    los = LOSDistribution(global_los_distribution=cfg.get("global_los_distribution", False),
                          los_distributions=cfg.get("los_distributions"),
                          individual_distribution=cfg.get("los_distribution_individual"),
                          kwargs_individual=cfg.get("kwargs_los_individual"))
    np.random.seed(20260930)
    draws = np.array([float(np.squeeze(los.draw_los(case["hyper"]["kwargs_los"]))) for _ in range(4000)])
    return float(kstest(draws, genextreme(c=gev["xi"], loc=gev["mean"], scale=gev["sigma"]).cdf).statistic)


def pdf_declared(case):
    cfg = case["cfg"]
    if cfg.get("los_distribution_individual") == "PDF" and cfg.get("global_los_distribution", False) is False:
        return cfg["kwargs_los_individual"]
    return None


def pdf_check(case, tab):
    """draws of a tabulated line-of-sight population come from the declared histogram: none inside a bin of zero
    probability (probability 0 under the declared law), bin frequencies within 6 sigma of the declared probabilities"""
    from hierarc.Sampling.Distributions.los_distributions import LOSDistribution
    cfg = case["cfg"]
    los = LOSDistribution(global_los_distribution=False, los_distributions=cfg.get("los_distributions"),
                          individual_distribution="PDF", kwargs_individual=cfg.get("kwargs_los_individual"))
    np.random.seed(20261001)
    n = 4000
    draws = np.array([float(np.squeeze(los.draw_los(case["hyper"]["kwargs_los"]))) for _ in range(n)])
    e = np.asarray(tab["bin_edges"], dtype=float)
    p = np.asarray(tab["pdf_array"], dtype=float)
    p = p / p.sum()
    out = []
    idx = np.clip(np.searchsorted(e, draws, side="right") - 1, 0, len(p) - 1)
    eps = 1e-9 * (e[-1] - e[0])
    inside_empty = [(float(x), int(j)) for x, j in zip(draws, idx) if p[j] == 0 and e[j] + eps < x < e[j + 1] - eps]
    if inside_empty:
        out.append("%d of %d draws of the tabulated line-of-sight population lie inside bins of zero probability (e.g. %r in bin %d)"
                   % (len(inside_empty), n, inside_empty[0][0], inside_empty[0][1]))
    cnt = np.bincount(idx, minlength=len(p)) / n
    for j in range(len(p)):
        if p[j] > 0 and abs(cnt[j] - p[j]) > 6 * math.sqrt(p[j] * (1 - p[j]) / n) + 1e-12:
            out.append("bin %d of the tabulated line-of-sight population drawn with frequency %.4f, declared probability %.4f" % (j, cnt[j], p[j]))
            break
    return out


def scatter_keys(h):
    """(block, index, key) of every non-zero scatter hyper-parameter of a case"""
    out = []
    for blk in ("kwargs_lens", "kwargs_kin", "kwargs_source"):
        for k, v in (h.get(blk) or {}).items():
            if (k.endswith("_sigma") or k == "sigma_sne") and isinstance(v, (int, float)) and v != 0:
                out.append((blk, None, k))
    for i, d in enumerate(h.get("kwargs_los") or []):
        if isinstance(d, dict) and d.get("sigma", 0) != 0:
            out.append(("kwargs_los", i, "sigma"))
    return out


def with_zero(h, which):
    blk, i, k = which
    h2 = {b: (dict(v) if isinstance(v, dict) else (None if v is None else [dict(x) for x in v])) for b, v in h.items()}
    if i is None:
        h2[blk][k] = 0.0
    else:
        h2[blk][i][k] = 0.0
    return h2


def eval_on(lens, case, h, seed):
    rec = lc.Recorder(lens)
    np.random.seed(seed)
    out = {}
    with rec.on():
        try:
            out["value"] = float(np.real(np.squeeze(lens.hyper_param_likelihood(case["ddt"], case["dd"], case["dlum"], beta_dsp=case["beta"], **h))))
        except Exception as e:  # noqa
            out["err"] = c03.err_enum(e)
    return out, len(rec.data)


def history_oracle(case, seed):
    """The sharp-or-N decision belongs to the CALL: one lens object evaluated along a path on which one scatter at a time is
    switched off and on again makes, at every step, as many data-likelihood evaluations as a fresh object does at that
    point (and returns the fresh value where that is a single evaluation)."""
    fails = []
    h = case["hyper"]
    for which in scatter_keys(h)[:3]:
        h0 = with_zero(h, which)
        fresh = {}
        for tag, hh in (("off", h0), ("on", h)):
            fresh[tag] = eval_on(lc.make_lens(case["ltype"], case["cfg"], case["data"]), case, hh, seed)
        for path in (("off", "on", "off"), ("on", "off", "on")):
            lens = lc.make_lens(case["ltype"], case["cfg"], case["data"])
            for step, tag in enumerate(path):
                o, n = eval_on(lens, case, h0 if tag == "off" else h, seed)
                fo, fn = fresh[tag]
                if ("err" in o) != ("err" in fo):
                    fails.append("history %s, step %d (%s=%s): %s, a fresh object: %s" % ("-".join(path), step, which[2], tag, o, fo))
                elif n != fn:
                    fails.append("history %s of %s, step %d: %d data-likelihood evaluations on the re-used lens object, %d on a fresh one at the "
                                 "same hyper-parameters (the sharp-or-N decision was carried over from the previous call)"
                                 % ("-".join(path), which[2], step, n, fn))
                elif n == 1 and fn == 1 and "value" in o and not (o["value"] == fo["value"] or (math.isnan(o["value"]) and math.isnan(fo["value"]))):
                    fails.append("history %s of %s, step %d: single evaluation %r on the re-used object, %r on a fresh one"
                                 % ("-".join(path), which[2], step, o["value"], fo["value"]))
                if fails:
                    return fails
    return fails


def oracle(case, runs):
    """runs: two (out, rec) evaluations under different seeds"""
    fails = []
    (o1, r1), (o2, r2) = runs
    n = case["cfg"]["num_distribution_draws"]
    if "err" in o1 or "err" in o2:
        return ["raised %s" % (o1.get("err") or o2.get("err"))]
    cfg_, h_ = case["cfg"], case["hyper"]
    if cfg_.get("anisotropy_distribution") == "GAUSSIAN_TAN_RAD" and "a_ani" in (cfg_.get("kin_scaling_param_list") or []):
        # the anisotropy handed to the kinematic scaling is 1 - z^2 with z a draw of the declared N(a_ani, a_ani_sigma) —
        # for a population of zero width: 1 - a_ani^2 itself (the limit of the draws, not the raw ratio)
        mean, sg = h_["kwargs_kin"]["a_ani"], h_["kwargs_kin"].get("a_ani_sigma", 0.0)
        zs = [z for (loc, sc, z) in r1.normals if loc == mean and sc == sg]
        for kwp, _ in r1.kin:
            v = float(np.squeeze(kwp["a_ani"]))
            if not (any(close(v, 1 - z * z, 1e-12) for z in zs) or (sg == 0 and close(v, 1 - mean * mean, 1e-12))):
                fails.append("tangential-to-radial anisotropy: the scaling was evaluated at a_ani = %r, which is not 1 - z^2 for a draw z of "
                             "N(%r, %r)%s" % (v, mean, sg, " (zero width: 1 - a_ani^2 = %r)" % (1 - mean * mean) if sg == 0 else ""))
                break
    if case["applicable"] is None:
        # no expectation about WHICH branch is taken; the two branches themselves must be what they claim to be
        if len(r1.data) == 1 and o1["value"] != o2["value"]:
            fails.append("one evaluation (treated as sharp) but the value depends on the random state: %r vs %r — a single noisy draw"
                         % (o1["value"], o2["value"]))
        elif len(r1.data) not in (1, n):
            fails.append("%d data-likelihood evaluations: neither 1 nor N=%d" % (len(r1.data), n))
        elif len(r1.data) == n and n > 1:
            fin = [l for l in r1.singles if math.isfinite(l)]
            if fin:
                mx = max(fin)
                want = mx + math.log(sum(math.exp(l - mx) for l in fin) / n)
                if not close(o1["value"], want, 1e-10):
                    fails.append("value %r is not log(mean(exp l_i)) = %r" % (o1["value"], want))
            if len(set(r1.singles)) == 1 and len(r2.singles) == n and r1.singles[0] == r2.singles[0]:
                fails.append("N=%d evaluations of a deterministic value (no applicable scatter, yet marginalised)" % n)
        return fails
    if case["applicable"]:
        if len(r1.data) != n:
            fails.append("applicable scatter non-zero but %d data-likelihood evaluations instead of N=%d" % (len(r1.data), n))
        if o1["value"] == o2["value"] and len(r1.data) == 1:
            fails.append("single noisy draw: value does not average over draws")
        ls = r1.singles
        if len(ls) == n:
            # log of the arithmetic mean of L, computed stably (the property is about real numbers)
            fin = [l for l in ls if math.isfinite(l)]
            if fin:
                mx = max(fin)
                want = mx + math.log(sum(math.exp(l - mx) for l in fin) / n)
            else:
                want = -math.inf
            if not close(o1["value"], want, 1e-10):
                fails.append("value %r is not log(mean(exp l_i)) = %r" % (o1["value"], want))
        # the generalised-extreme-value line-of-sight population (global or individual) is the declared one:
        # Kolmogorov-Smirnov distance of 4000 draws to genextreme(c=xi, loc=mean, scale=sigma) (fixed seed;
        # D > 0.06 has probability < 1e-12 under the declared law)
        gev = gev_declared(case)
        if gev is not None:
            d = gev_ks_distance(case, gev)
            if d > 0.06:
                fails.append("draws of the GEV line-of-sight population are not from the declared genextreme(c=xi=%r, loc=%r, scale=%r): "
                             "KS distance %.3f over 4000 draws" % (gev["xi"], gev["mean"], gev["sigma"], d))
        tab = pdf_declared(case)
        if tab is not None:
            fails.extend(pdf_check(case, tab))
        # every draw of every evaluation (re-draws of truncated populations included) comes from a declared population
        bad = lc.undeclared_requests(case["cfg"], case["hyper"], r1)
        if bad:
            fails.append("draw request not from a declared population: np.random.normal(loc=%r, scale=%r) (request %d of %d); declared: %s"
                         % (bad[0][1], bad[0][2], bad[0][0], len(r1.normals), lc.declared_pairs(case["cfg"], case["hyper"])))
    else:
        if len(r1.data) != 1:
            fails.append("all applicable scatters are zero but %d evaluations instead of 1" % len(r1.data))
        if o1["value"] != o2["value"]:
            fails.append("all applicable scatters are zero but the value depends on the random state: %r vs %r" % (o1["value"], o2["value"]))
    return fails


def run(ctx, res):
    rng = ctx.rng
    n = ctx.n(len(SCENARIOS) * 6, len(SCENARIOS) * 120)
    cases = [gen_case(rng, k) for k in range(n)]
    lines, meta = [], []
    for case in cases:
        try:
            runs = [c03.evaluate(case, ctx.np_seed()), c03.evaluate(case, ctx.np_seed())]
        except Exception as e:  # noqa
            res.notes.append("construction failed for %s: %r" % (case["scenario"], e))
            res.count("ctor_fail=" + case["scenario"])
            continue
        runs2 = [(o, r) for o, r, _ in runs]
        lens = runs[0][2]
        res.evaluations += 1
        res.count("scenario=" + case["scenario"])
        res.signatures.add((case["scenario"], case["cfg"]["num_distribution_draws"], case["applicable"], case["ltype"]))
        for f in oracle(case, runs2):
            res.violation("check_dist[%s]:%s" % (case["scenario"], " ".join(f.split(" ")[:4])), f, c03.to_json(case))
        o1, r1 = runs2[0]
        if "err" not in o1 and case["applicable"] is not None:
            res.count("history_keys=%d" % min(3, len(scatter_keys(case["hyper"]))))
            for f in history_oracle(case, ctx.np_seed()):
                res.violation("check_dist-history[%s]:%s" % (case["scenario"], " ".join(f.split(" ")[:4])), f, c03.to_json(case))
        if len(res.samples) < 3 and case["applicable"] and "err" not in o1:
            res.sample({"scenario": case["scenario"], "N": case["cfg"]["num_distribution_draws"], "singles": r1.singles, "value": o1["value"]})
        if "err" in o1:
            continue
        lines.append({"op": "Lens.hyper", "cfg": lc.encode_cfg(lens, case["ltype"], case["cfg"]), "hyper": lc.encode_hyper(case["hyper"]),
                      "singles": [f2b(x) for x in r1.singles]})
        meta.append(("hyper", case, o1, r1))
        # the model's declared populations (theorem draws_from_declared) vs. the harness' statement of them and vs.
        # every request the implementation made
        if "_ifu_flag_as" not in case["cfg"]:     # (no independent statement of WHICH population applies for a flag that is not the bool True)
            lines.append({"op": "Lens.declared", "cfg": lc.encode_cfg(lens, case["ltype"], case["cfg"]), "hyper": lc.encode_hyper(case["hyper"])})
            meta.append(("declared", case, o1, r1))
        # first single evaluation: requests (loc, scale) and routed arguments under scatter
        for si, (n0, n1, g0, g1, k0, d0) in enumerate(r1.spans[:ctx.n(3, 12)]):
            lines.append({"op": "Lens.single", "cfg": lc.encode_cfg(lens, case["ltype"], case["cfg"]), "hyper": lc.encode_hyper(case["hyper"]),
                          "ddt": f2b(case["ddt"]), "dd": f2b(case["dd"]), "dLum": f2b(case["dlum"]), "beta": lc.opt(case["beta"]),
                          "ext": {"losDraw": (f2b(r1.gev[g0]) if g1 > g0 else None),
                                  "kinScaling": [f2b(x) for x in (r1.kin[k0][1] if len(r1.kin) > k0 else [])]},
                          "stream": [f2b(r) for _, _, r in r1.normals[n0:n1]], "fuel": 200})
            meta.append(("single%d" % si, case, o1, r1))
    if ctx.search_mode:
        return
    outs = run_driver(lines)
    for (kind, case, o1, r1), o in zip(meta, outs):
        res.traces += 1
        cj = c03.to_json(case)
        if "err" in o:
            res.disagree("%s: model error %s, implementation returned %r" % (kind, o["err"], o1.get("value")), cj)
            continue
        m = o["ok"]
        if kind == "declared":
            mp = [(b2f(a), b2f(b)) for a, b in m["pairs"]]
            hp = [(l, sg) for _, l, sg in lc.declared_pairs(case["cfg"], case["hyper"])]

            def inside(p, ps):
                return any(close(p[0], q[0], 1e-12) and close(p[1], q[1], 1e-12) for q in ps)
            if not all(inside(p, hp) for p in mp) or not all(inside(p, mp) for p in hp):
                res.disagree("declared populations: model %s, harness statement %s" % (mp, hp), cj)
            elif not all(inside((a, b), mp) for a, b, _ in r1.normals):
                res.disagree("a request of the implementation is not among the model's declared populations %s" % (mp,), cj)
            continue
        if kind == "hyper":
            n = case["cfg"]["num_distribution_draws"]
            impl_sharp = len(r1.singles) == 1 and n != 1
            if m["sharp"] != impl_sharp and n != 1:
                res.disagree("check_dist: model sharp=%s, implementation made %d evaluations (N=%d)" % (m["sharp"], len(r1.singles), n), cj)
                continue
            if not impl_sharp:
                want = -math.inf if m["lme"] == "-inf" else b2f(m["lme"])
                if not close(want, o1["value"], 1e-12):
                    res.disagree("log-mean-exp: model %r implementation %r" % (want, o1["value"]), cj)
        else:
            n0, n1, g0, g1, k0, d0 = r1.spans[int(kind[6:])]
            reqs = [(b2f(a), b2f(b)) for a, b in m["reqs"]]
            got = [(a, b) for a, b, _ in r1.normals[n0:n1]]
            if m["left"] != 0 or len(reqs) != len(got) or not all(close(x[0], y[0], 1e-12) and close(x[1], y[1], 1e-12) for x, y in zip(reqs, got)):
                res.disagree("np.random.normal requests of one draw: model %s (left %s) impl %s" % (reqs, m["left"], got), cj)
                continue
            want = lc.canon_data_call(*r1.data[d0][:2])
            have = lc.decode_vals(m["routed"])
            if set(have) != set(want) or any(not c03.same_val(have[k], want[k]) for k in want):
                res.disagree("routed arguments of one draw: model %s impl %s" % (have, want), cj)


def replay(ctx, data):
    case = c03.from_json(data["input"])
    runs = [c03.evaluate(case, 11)[:2], c03.evaluate(case, 12)[:2]]
    fails = oracle(case, runs)
    return bool(fails), "oracle on the implementation: %s" % (fails or "holds")
