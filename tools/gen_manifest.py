#!/venv/bin/python
"""Regenerates /verif/MANIFEST.json from the per-property harness modules (single source of truth:
harness/props/cXX.py : LEVEL_TEXT, LEVEL_NOTE, TECHNIQUE, DESIGN_REF)."""
import importlib
import json
import os
import sys

HERE = os.path.dirname(os.path.dirname(os.path.abspath(__file__)))
sys.path.insert(0, HERE)
props = [json.loads(l) for l in open(os.path.join(HERE, "properties.jsonl"))]
NOT_YET = json.load(open(os.path.join(HERE, "tools", "not_applicable.json")))

checks = []
na = []
for p in props:
    pid = p["id"]
    path = os.path.join(HERE, "harness", "props", pid.lower() + ".py")
    if not os.path.exists(path):
        na.append({"property_id": pid, "reason": NOT_YET.get(pid, "check not built yet (see DESIGN.md §5 for the plan)")})
        continue
    mod = importlib.import_module("harness.props." + pid.lower())
    checks.append({
        "property_id": pid,
        "quick_cmd": "./check %s --tier quick" % pid,
        "thorough_cmd": "./check %s --tier thorough" % pid,
        "evidence_file": "evidence/%s.json" % pid,
        "replay_cmd_template": "./check %s --replay {path}" % pid,
        "engine": "lean4-proof+correspondence",
        "level_claimed": {
            "category": "proof",
            "text": mod.LEVEL_TEXT,
            "design_ref": getattr(mod, "DESIGN_REF", "DESIGN.md §5 " + pid),
        },
        "level_note": mod.LEVEL_NOTE,
        "technique": mod.TECHNIQUE,
    })

man = {
    "version": 1,
    "setup_cmd": "python3 tools/gen_lean_index.py && cd lean && lake build && cd .. && /venv/bin/python -c \"import hierarc, numpy\"",
    "hooks": {
        "guard": "HIERARC_VERIF",
        "enable": "no source hooks: all observation is done by harness-side wrappers installed in the harness process; hierarc is imported from the editable install of /repo (current working tree)",
        "baseline_off_cmd": "cd /repo && /venv/bin/python -m pytest -ra -q -p no:cacheprovider --timeout=900 --continue-on-collection-errors",
        "source_commits": [],
        "add_only": True,
    },
    "engines": [{
        "name": "lean4-proof+correspondence",
        "path": "check",
        "serves_properties": [c["property_id"] for c in checks],
        "kind_free_text": "Lean 4 theorems about a carrier-polymorphic model (lean/HierArc), regenerated tables from the Python AST (translator/), and a differential correspondence harness (harness/) that runs the model's executable definitions (lean --run Driver.lean) against the real code",
    }],
    "checks": checks,
    "not_applicable": na,
    "notes": "See DESIGN.md. ./check <id> --tier quick|thorough ; VERIF_SEED selects the random stream.",
}
json.dump(man, open(os.path.join(HERE, "MANIFEST.json"), "w"), indent=1)
print("claimed:", [c["property_id"] for c in checks])
print("not claimed:", [n["property_id"] for n in na])
