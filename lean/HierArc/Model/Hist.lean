/-
  HierArc.Model.Hist — model of the sample-based Ddt likelihoods
    hierarc/Likelihood/LensLikelihood/ddt_hist_likelihood.py : DdtHistLikelihood, DdtHistKDELikelihood
    hierarc/Likelihood/LensLikelihood/ddt_hist_kin_likelihood.py : DdtHistKinLikelihood

  A sample set is a list of (value, weight) pairs (`ddt_weights=None` = all weights 1).
  External engines are modelled by their documented formulas:
    numpy.histogram      equal-width bins on [min,max] (±0.5 when min = max), last bin closed,
                         `linspace` edges, weighted counts, `density=True` = v / width / Σv
    scipy gaussian_kde   Gaussian mixture on the normalised weights, h = factor · √(weighted unbiased
                         variance), factor = n_eff^(-1/5) | (3 n_eff/4)^(-1/5) | scalar,
                         n_eff = 1/Σ wn²
    sklearn KernelDensity (gaussian)  Gaussian mixture with the given bandwidth
  Errors raised by the real constructors are explicit (`Except String`).
  NO Mathlib import.
-/
import HierArc.Model.Basic
namespace HierArc.Hist
open HierArc

/-- constants / casts the carrier must supply in addition to `Trans` (own class of this model:
    `Model/Basic.lean` has neither π nor a cast from ℕ). -/
class HistNum (α : Type) where
  pi : α
  ofNat : Nat → α

instance : HistNum Float where
  pi := 3.141592653589793
  ofNat := Nat.toFloat

section
variable {α : Type} [Add α] [Sub α] [Mul α] [Div α] [Neg α] [LT α] [LE α] [DecidableLT α]
  [DecidableLE α] [OfScientific α] [Trans α] [HistNum α]

/-- samples with their weights -/
abbrev Samples (α : Type) := List (α × α)

def sumBy (f : α × α → α) (s : Samples α) : α := sumList 0.0 (s.map f)
def sumW (s : Samples α) : α := sumBy (fun p => p.2) s

def minL : List α → α
  | [] => 0.0
  | [x] => x
  | x :: y :: t => let m := minL (y :: t); if x < m then x else m

def maxL : List α → α
  | [] => 0.0
  | [x] => x
  | x :: y :: t => let m := maxL (y :: t); if m < x then x else m

/-! ### numpy.histogram (integer `bins`, automatic range) -/

/-- `_get_outer_edges`: (min, max), widened by ±0.5 when they coincide -/
def outerEdges (xs : List α) : α × α :=
  let lo := minL xs
  let hi := maxL xs
  if lo < hi then (lo, hi) else (lo - 0.5, hi + 0.5)

/-- `np.linspace(lo, hi, n+1)[k]` (last edge is `hi` exactly) -/
def edge (lo hi : α) (n k : Nat) : α :=
  if k = n then hi else lo + HistNum.ofNat k * ((hi - lo) / HistNum.ofNat n)

/-- index of the bin `[edge k, edge (k+1))` containing `x` (last bin right-closed): the number of
    interior edges `≤ x` -/
def binIdx (lo hi : α) (n : Nat) (x : α) : Nat :=
  ((List.range (n - 1)).filter (fun k => decide (edge lo hi n (k + 1) ≤ x))).length

/-- samples tagged with their bin -/
def tagged (lo hi : α) (n : Nat) (s : Samples α) : List (Nat × α) :=
  s.map (fun p => (binIdx lo hi n p.1, p.2))

/-- weighted counts per bin -/
def histVals (n : Nat) (t : List (Nat × α)) : List α :=
  (List.range n).map (fun k => sumList 0.0 (t.map (fun q => if q.1 = k then q.2 else 0.0)))

/-- bin centres `(edge k + edge (k+1)) / 2` -/
def centres (lo hi : α) (n : Nat) : List α :=
  (List.range n).map (fun k => (edge lo hi n k + edge lo hi n (k + 1)) / 2.0)

/-- `density=True`: v / width / Σv -/
def densVals (lo hi : α) (n : Nat) (vals : List α) : List α :=
  let tot := sumList 0.0 vals
  ((List.range n).zip vals).map
    (fun kv => kv.2 / (edge lo hi n (kv.1 + 1) - edge lo hi n kv.1) / tot)

/-- bin centres with strictly positive value (`[b for v, b in zip(vals, bins) if v > 0]`) -/
def posBins (cs vals : List α) : Samples α :=
  (cs.zip vals).filter (fun p => decide (0.0 < p.2))

/-- kernel points of `DdtHistLikelihood(binning_method=None)` -/
def binnedPts (n : Nat) (s : Samples α) : Samples α :=
  let e := outerEdges (s.map (·.1))
  posBins (centres e.1 e.2 n) (histVals n (tagged e.1 e.2 n s))

/-- kernel points of `DdtHistKDELikelihood` (histogram with `density=True`) -/
def binnedDensPts (n : Nat) (s : Samples α) : Samples α :=
  let e := outerEdges (s.map (·.1))
  posBins (centres e.1 e.2 n) (densVals e.1 e.2 n (histVals n (tagged e.1 e.2 n s)))

/-! ### Gaussian-mixture KDE -/

/-- weights divided by their sum -/
def normW (pts : Samples α) : Samples α :=
  let W := sumW pts
  pts.map (fun p => (p.1, p.2 / W))

/-- scipy `neff = 1 / Σ wn²` (normalised weights) -/
def neff (wn : Samples α) : α := 1.0 / sumBy (fun p => p.2 * p.2) wn

/-- `np.cov(data, bias=False, aweights=wn)` for normalised weights: Σ wn (x-m)² / (1 - Σ wn²) -/
def wcov (wn : Samples α) : α :=
  let m := sumBy (fun p => p.2 * p.1) wn
  sumBy (fun p => p.2 * ((p.1 - m) * (p.1 - m))) wn / (1.0 - sumBy (fun p => p.2 * p.2) wn)

inductive BwRule (α : Type) where
  | scott
  | silverman
  | scalar (f : α)

/-- scipy's bandwidth factor for 1-d data: `neff^(-1/5)`, `(neff·3/4)^(-1/5)`, or the scalar -/
def factor : BwRule α → α → α
  | .scott, ne => Trans.exp (-(Trans.log ne) / 5.0)
  | .silverman, ne => Trans.exp (-(Trans.log (ne * 3.0 / 4.0)) / 5.0)
  | .scalar f, _ => f

/-- kernel standard deviation `factor · √cov` -/
def bandwidth (r : BwRule α) (wn : Samples α) : α := factor r (neff wn) * Trans.sqrt (wcov wn)

/-- normal density of standard deviation `h` centred on `c` -/
def gauss (h c x : α) : α :=
  Trans.exp (-((x - c) * (x - c)) / (2.0 * (h * h))) / (h * Trans.sqrt (2.0 * HistNum.pi))

/-- mixture density for normalised weights -/
def mixPdf (wn : Samples α) (h x : α) : α := sumBy (fun p => p.2 * gauss h p.1 x) wn

/-! ### the parts shared by the three classes -/

/-- `np.std(ddt_samples)` (unweighted, population) -/
def popStd (xs : List α) : α :=
  let n : α := HistNum.ofNat xs.length
  let m := sumList 0.0 xs / n
  Trans.sqrt (sumList 0.0 (xs.map (fun x => (x - m) * (x - m))) / n)

/-- `_norm_factor`: 0 when normalised, `log(1/σ/√(2π))` otherwise -/
def normFactor (normalized : Bool) (s : Samples α) : α :=
  if normalized then 0.0
  else Trans.log (1.0 / popStd (s.map (·.1)) / Trans.sqrt (2.0 * HistNum.pi))

/-- `np.average(samples, weights)` -/
def wmean (s : Samples α) : α := sumBy (fun p => p.1 * p.2) s / sumW s

/-- `np.average((samples - mean)**2, weights)` -/
def wvar (s : Samples α) : α :=
  let m := wmean s
  sumBy (fun p => (p.1 - m) * (p.1 - m) * p.2) s / sumW s

/-- `ddt_measurement()` of all three classes -/
def measurement (s : Samples α) : α × α := (wmean s, Trans.sqrt (wvar s))

/-! ### the three likelihood classes -/

inductive HistRule (α : Type) where
  | binned (nbins : Nat)          -- binning_method=None
  | direct (r : BwRule α)         -- binning_method="scott" | "silverman" | scalar

/-- normalised kernel weights and bandwidth of `DdtHistLikelihood`, or the constructor's error -/
def histKernel (rule : HistRule α) (s : Samples α) : Except String (Samples α × α) :=
  match rule with
  | .binned n =>
    let pts := binnedPts n s
    if pts.length < 2 then .error "ValueError"       -- gaussian_kde: "should have multiple elements"
    else
      let wn := normW pts
      .ok (wn, bandwidth .scott wn)
  | .direct r =>
    if s.length < 2 then .error "ValueError"
    else
      let wn := normW s
      let c := wcov wn
      if 0.0 < c then .ok (wn, bandwidth r wn)
      else if c ≤ 0.0 then .error "LinAlg"             -- singular data covariance
      else .error "ValueError"                         -- NaN covariance (weights sum to 0, …)

/-- `DdtHistLikelihood(...).log_likelihood(x)` -/
def histLogL (rule : HistRule α) (normalized : Bool) (s : Samples α) (x : α) : Except String α :=
  (histKernel rule s).map (fun k => Trans.log (mixPdf k.1 k.2 x) - normFactor normalized s)

/-- kernel of `DdtHistKDELikelihood` (gaussian kernel, fixed bandwidth) -/
def kdeKernel (bw : α) (n : Nat) (s : Samples α) : Except String (Samples α × α) :=
  let pts := binnedDensPts n s
  if pts.isEmpty then .error "ValueError"              -- sklearn: empty array
  else if 0.0 < bw then .ok (normW pts, bw)
  else .error "ValueError"                             -- sklearn InvalidParameterError

/-- `DdtHistKDELikelihood(...).log_likelihood(x)` -/
def kdeLogL (bw : α) (n : Nat) (normalized : Bool) (s : Samples α) (x : α) : Except String α :=
  (kdeKernel bw n s).map (fun k => Trans.log (mixPdf k.1 k.2 x) - normFactor normalized s)

/-- `DdtHistKinLikelihood(..., normalized).log_likelihood(x, dd, …)`; `kin` is the value of the
    kinematic term (`KinLikelihood.log_likelihood`, an external of this model).  The `normalized`
    flag reaches the Ddt part (this is the behaviour the property demands; the unchanged tree drops
    the flag — finding F6 — which the harness reports as a violation). -/
def kinLogL (bw : α) (n : Nat) (normalized : Bool) (s : Samples α) (x kin : α) : Except String α :=
  (kdeLogL bw n normalized s x).map (fun v => v + kin)

end

end HierArc.Hist
