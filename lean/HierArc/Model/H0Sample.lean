/-
  H0Sample — a lens term evaluated END TO END from the sampled cosmology (C19):
  cosmology (H0, Ω) → FLRW distances (Model/Cosmo) → MST / κ / PPN displacement (Model/Lens) → data
  likelihood (Model/Gauss, Model/Hist), and the "measured distance scale divided by c" transformation of
  the data.  Polymorphic in the carrier: run at `Float` by `Drv/C19` (op `C19.lens`, compared with
  `LensLikelihood.lens_log_likelihood` of the real code at `(H0, data)` and `(c·H0, data/c)`), read at ℝ
  by the theorems of `Props/C19` (section E).

  NO Mathlib import.
-/
import HierArc.Model.Cosmo
import HierArc.Model.Lens
import HierArc.Model.Gauss
import HierArc.Model.Hist

namespace HierArc.H0Sample

/-- the lens-level parameters every term may depend on (besides the cosmology) -/
structure LensPar (α : Type) where
  γ : α
  lam : α
  κ : α

/-- time-delay lenses with a scalar term: Gaussian Ddt, Gaussian Ddt + Dd, log-normal Ddt,
    sample-based Ddt (weighted points `wn`, bandwidth `h`: histogram bins or KDE kernels, C12) -/
inductive TDLens (α : Type) where
  | gauss (zd zs mean sigma : α)
  | ddtdd (zd zs m1 s1 m2 s2 : α) (k0 : Option α)
  | lognorm (zd zs mu sigma : α)
  | hist (zd zs : α) (wn : Hist.Samples α) (h : α)

variable {α : Type} [Add α] [Sub α] [Mul α] [Div α] [Neg α] [LT α] [LE α] [DecidableLT α]
  [DecidableLE α] [OfScientific α] [NatCast α] [Trans α] [Gauss.TransX α] [Cosmo.Trig α] [Hist.HistNum α]

/-- the displaced `(Ddt, Dd)` of a lens at `(zd, zs)` in the cosmology `c` (C05 + C03) -/
def displaced (c : Cosmo.Params α) (I : α → α → α) (p : LensPar α) (zd zs : α) : α × α :=
  let x := Lens.displace
    (Cosmo.ddtRaw zd (Cosmo.dA c I zd) (Cosmo.dA c I zs) (Cosmo.dA12 c I zd zs)) (Cosmo.dA c I zd)
    p.γ p.lam p.κ 0.0
  (x.1, x.2.1)

/-- the measured distance scale divided by `c`: means and uncertainties (log-normal: the location
    parameter moves by `−ln c`; sample-based: every sample and the bandwidth) -/
def TDLens.rescale (c : α) : TDLens α → TDLens α
  | .gauss zd zs mean sigma => .gauss zd zs (mean / c) (sigma / c)
  | .ddtdd zd zs m1 s1 m2 s2 k0 => .ddtdd zd zs (m1 / c) (s1 / c) (m2 / c) (s2 / c) k0
  | .lognorm zd zs mu sigma => .lognorm zd zs (mu - Trans.log c) sigma
  | .hist zd zs wn h => .hist zd zs (wn.map (fun q => (q.1 / c, q.2))) (h / c)

/-- the constant by which the term changes: a function of the lens TYPE and of `c` only -/
def TDLens.const (c : α) : TDLens α → α
  | .gauss .. => 0.0
  | .ddtdd .. => 0.0
  | .lognorm .. => Trans.log c
  | .hist .. => Trans.log c

/-- the log-likelihood term of a time-delay lens in the cosmology `c` at the lens parameters `p` -/
def TDLens.eval (c : Cosmo.Params α) (I : α → α → α) (p : LensPar α) : TDLens α → α
  | .gauss zd zs mean sigma => Gauss.ddtGaussian mean sigma (displaced c I p zd zs).1
  | .ddtdd zd zs m1 s1 m2 s2 k0 =>
      Gauss.ddtDdGaussian m1 s1 m2 s2 (displaced c I p zd zs).1 (displaced c I p zd zs).2 k0
  | .lognorm zd zs mu sigma => Gauss.ddtLogNorm mu sigma (displaced c I p zd zs).1
  | .hist zd zs wn h => Trans.log (Hist.mixPdf wn h (displaced c I p zd zs).1)

/-- the `Ds/Dds` Gaussian term, end to end -/
def dsddsEval (c : Cosmo.Params α) (I : α → α → α) (p : LensPar α) (zd zs mean sigma : α)
    (k0 : Option α) : α :=
  Gauss.dsDdsGaussian zd mean sigma (displaced c I p zd zs).1 (displaced c I p zd zs).2 k0

end HierArc.H0Sample
