"""Regenerates lean/HierArc/Gen/*.lean from the current /repo sources."""
import hashlib
import os

from harness.common import LEAN, REPO


def write_if_changed(path, txt):
    os.makedirs(os.path.dirname(path), exist_ok=True)
    if os.path.exists(path) and open(path).read() == txt:
        return False
    open(path, "w").write(txt)
    return True


def regenerate(which):
    info = {}
    if "ladders" in which:
        from translator import ladders
        txt, inf = ladders.emit(REPO)
        changed = write_if_changed(os.path.join(LEAN, "HierArc", "Gen", "Ladders.lean"), txt)
        info["Ladders.lean"] = {"sha256": hashlib.sha256(txt.encode()).hexdigest()[:16], "changed": changed,
                                "leaves": {k: v for k, v in inf.items() if k != "manager"}}
    if "tables" in which:
        from translator import tables
        txt, inf = tables.emit(REPO)
        changed = write_if_changed(os.path.join(LEAN, "HierArc", "Gen", "Tables.lean"), txt)
        info["Tables.lean"] = {"sha256": hashlib.sha256(txt.encode()).hexdigest()[:16], "changed": changed, "info": inf}
    if "effects" in which:
        from translator import effects
        txt, inf = effects.emit(REPO)
        changed = write_if_changed(os.path.join(LEAN, "HierArc", "Gen", "Effects.lean"), txt)
        info["Effects.lean"] = {"sha256": hashlib.sha256(txt.encode()).hexdigest()[:16], "changed": changed, "info": inf}
    return info


GEN_FILES = {"ladders": "Ladders.lean", "tables": "Tables.lean", "effects": "Effects.lean"}
LAST_GOOD = os.path.join(os.path.dirname(os.path.abspath(__file__)), "last_good")


def restore_last_good(which):
    """the translator could not follow the source: put the last generated model (committed copy made by
    tools/update_last_good.py on a tree where the translation succeeded) back in place, so that the tie can still be
    checked the second way — by running that model against the current implementation (correspondence)"""
    out = {}
    for w in which:
        src = os.path.join(LAST_GOOD, GEN_FILES[w])
        txt = open(src).read()
        changed = write_if_changed(os.path.join(LEAN, "HierArc", "Gen", GEN_FILES[w]), txt)
        out[GEN_FILES[w]] = {"sha256": hashlib.sha256(txt.encode()).hexdigest()[:16], "restored_from": "translator/last_good", "changed": changed}
    return out
