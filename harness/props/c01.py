"""C01 — sampling vector <-> named hyper-parameters (ParamManager ladders)."""
import math

import numpy as np

from harness.common import run_driver, f2b, b2f, close, err_enum

ID = "C01"
LEAN_MODULES = ["HierArc.Props.C01"]
TRANSLATE = ["ladders"]
# when the translator cannot follow a rewritten source, the last generated model is run against the implementation instead
TRANSLATOR_FALLBACK = True
RULE = ("random ParamManager configurations (5 cosmologies, every sampling switch, every distribution "
        "name, random fixed-parameter subsets per block, log_scatter, gamma_pl_num 0..4, 0..3 LOS "
        "populations with per-population fixed dicts) x random vectors; plus a malformed stream (vector "
        "too short, bound dict without a key); distinct = distinct (switch/distribution/fixed-set) "
        "configuration signature; non-trivial = at least one free parameter")
ASSUMPTIONS = [
    "sampling switches are Booleans (`if self._x:` and `is True` coincide)",
    "translator/ladders.py emits the guarded leaves the source denotes (validated each run by running "
    "the Lean interpreters of the generated ladders against the real ParamManager)",
    "10**log10(x)=x holds over ℝ; in floats up to 1 ulp (tol 1e-12)",
]
TRUSTED = ["translator/ladders.py (Python ast -> guarded leaves)",
           "Lean interpreters concA/concK/concN/execA/execK (semantics of the Python subset)"]
LEVEL_TEXT = ("The three ladders of every parameter block are re-translated from the Python AST on every run; "
              "Lean decides (by `decide`, through a normaliser proved sound once for all programs) that they "
              "agree slot by slot, and the generic theorems then give, for every configuration, every list of "
              "block instances, every gamma_pl_num / number of LOS populations and every real vector: round "
              "trip, exact index bookkeeping and block concatenation, one name per slot, element-wise meaning of "
              "slot j (value, bounds, log10 exposure), fixed parameters excluded from the vector and injected "
              "into the dictionaries; kwargs2args (hence the bound vectors) is independent of the order in which the caller "
              "wrote the keys of the dictionaries (kwargs2args_key_order).  The generated ladders are executed against the real ParamManager on "
              "random configurations (correspondence) and the property statement itself is evaluated on the "
              "real code.")
LEVEL_NOTE = ("trusted: Lean kernel+Mathlib, the translator (syntax -> data, validated by correspondence), the "
              "semantics of the guarded-leaf language; Boolean switches; float rounding of 10**log10")
TECHNIQUE = "Lean 4 proof over a model regenerated from the source by a translator (verified normaliser + decide) + correspondence"

COSMOS = ["FLCDM", "FwCDM", "w0waCDM", "oLCDM", "NONE"]
DIST = ["NONE", "GAUSSIAN"]
LOSD = ["GEV", "GAUSSIAN", "NONE"]
FIXABLE = {
    "cosmo": ["h0", "om", "w", "w0", "wa", "ok", "gamma_ppn"],
    "lens": ["lambda_mst", "lambda_mst_sigma", "lambda_ifu", "lambda_ifu_sigma", "gamma_in", "gamma_in_sigma",
             "log_m2l", "log_m2l_sigma", "alpha_lambda", "beta_lambda", "alpha_gamma_in", "alpha_log_m2l",
             "gamma_pl_mean", "gamma_pl_sigma"],
    "kin": ["a_ani", "a_ani_sigma", "beta_inf", "beta_inf_sigma", "sigma_v_sys_error"],
    "source": ["mu_sne", "sigma_sne"],
}
ALLKEYS = {
    "cosmo": FIXABLE["cosmo"], "lens": FIXABLE["lens"], "kin": FIXABLE["kin"], "source": FIXABLE["source"],
}


def gen_config(rng):
    def b(p=0.5):
        return rng.random() < p
    k = {
        "cosmology": rng.choice(COSMOS),
        "ppn_sampling": b(),
        "lambda_mst_sampling": b(0.7), "lambda_mst_distribution": rng.choice(DIST),
        "anisotropy_sampling": b(0.7), "anisotropy_model": rng.choice(["OM", "GOM", "const", "NONE"]),
        "anisotropy_distribution": rng.choice(["NONE", "GAUSSIAN", "GAUSSIAN_SCALED"]),
        "gamma_in_sampling": b(), "gamma_in_distribution": rng.choice(DIST),
        "log_m2l_sampling": b(), "log_m2l_distribution": rng.choice(DIST),
        "lambda_ifu_sampling": b(), "lambda_ifu_distribution": rng.choice(DIST),
        "alpha_lambda_sampling": b(), "beta_lambda_sampling": b(),
        "alpha_gamma_in_sampling": b(), "alpha_log_m2l_sampling": b(),
        "gamma_pl_num": rng.choice([0, 0, 1, 2, 3, 4]),
        "gamma_pl_global_sampling": b(), "gamma_pl_global_dist": rng.choice(DIST),
        "sigma_v_systematics": b(),
        "sne_apparent_m_sampling": b(), "sne_distribution": rng.choice(["GAUSSIAN", "NONE"]),
        "z_apparent_m_anchor": rng.choice([0.1, 0.05, 1.0]),
        "log_scatter": b(),
        "los_sampling": b(0.6),
    }
    npop = rng.choice([0, 0, 1, 2, 3])
    k["los_distributions"] = [rng.choice(LOSD) for _ in range(npop)] if (npop or b()) else None
    for blk in ("cosmo", "lens", "kin", "source"):
        r = rng.random()
        if r < 0.3:
            fx = None
        else:
            # fixed values include exact zeros (int and float), negative values and ones: a parameter fixed at
            # 0 is as fixed as one fixed at 0.7
            fx = {key: (rng.uniform(0.1, 3.0) if rng.random() < 0.6 else rng.choice([0.0, 0, 1.0, -0.5]))
                  for key in FIXABLE[blk] if rng.random() < 0.25}
        k["kwargs_fixed_" + blk] = fx
    if k["los_distributions"] is not None and b(0.7):
        k["kwargs_fixed_los"] = [{key: (rng.uniform(0.01, 0.5) if rng.random() < 0.7 else 0.0) for key in ("mean", "sigma", "xi") if rng.random() < 0.3}
                                 for _ in k["los_distributions"]]
    else:
        k["kwargs_fixed_los"] = None
    return k


def bound_dicts(rng, cfg, scale):
    """full lower/upper dictionaries with a distinct positive value per key"""
    out = {}
    for blk in ("cosmo", "lens", "kin", "source"):
        # the order in which the caller happens to write the keys of a bound dictionary must not matter
        keys = list(ALLKEYS[blk])
        rng.shuffle(keys)
        wide = rng.random() < 0.2      # bounds many decades from unity (a log-space scatter bounded below by 1e-14)
        out[blk] = {key: scale * (10 ** rng.uniform(-15, 3) if wide and rng.random() < 0.5 else rng.uniform(0.1, 5.0)) for key in keys}
    out["lens"]["gamma_pl_list"] = [scale * rng.uniform(1.5, 2.5) for _ in range(cfg["gamma_pl_num"])]
    npop = len(cfg["los_distributions"] or [])
    out["los"] = [{key: scale * rng.uniform(0.01, 1.0) for key in ("mean", "sigma", "xi")} for _ in range(npop)]
    return out


def flatten(d):
    out = []
    for k, v in d.items():
        if isinstance(v, (list, tuple, np.ndarray)):
            out += [[k, j, f2b(x)] for j, x in enumerate(v)]
        else:
            out.append([k, None, f2b(v)])
    return out


def canon(flat):
    return sorted((k, -1 if j is None else j, v) for k, j, v in flat)


def make_pm(cfg, bounds):
    from hierarc.Sampling.ParamManager.param_manager import ParamManager
    kw = dict(cfg)
    lo, up = bounds
    for blk in ("cosmo", "lens", "kin", "source", "los"):
        kw["kwargs_lower_" + blk] = lo[blk]
        kw["kwargs_upper_" + blk] = up[blk]
    return ParamManager(**kw)


def inst_of(obj, block, fixed, loop_str="", loop_idx=0):
    flags, strs, nums, consts = [], [], [], []
    for a, v in vars(obj).items():
        if isinstance(v, (bool, np.bool_)):
            flags.append([a, bool(v)])
        elif isinstance(v, str):
            strs.append([a, v])
        elif isinstance(v, (int, np.integer)):
            nums.append([a, int(v)])
        elif isinstance(v, (float, np.floating)):
            consts.append([a, f2b(v)])
    return {"block": block, "flags": flags, "strs": strs, "nums": nums,
            "fixed": [[k, f2b(v)] for k, v in (fixed or {}).items()], "consts": consts,
            "loopStr": loop_str, "loopIdx": loop_idx}


def insts_of(pm):
    out = []
    for blk in ("cosmo", "lens", "kin", "source"):
        obj = getattr(pm, "_%s_param" % blk)
        out.append(inst_of(obj, blk, obj._kwargs_fixed))
    lp = pm._los_param
    for k, dist in enumerate(lp._los_distributions):
        out.append(inst_of(lp, "los", lp._kwargs_fixed[k], dist, k))
    return out


def dict_list(kw_tuple):
    c, l, k, s, los = kw_tuple
    return [c, l, k, s] + list(los)


def impl_eval(cfg, bounds, args):
    """everything observable of the real ParamManager for one configuration"""
    r = {}
    pm = make_pm(cfg, bounds)
    r["pm"] = pm
    r["names"] = pm.param_list(latex_style=False)
    r["latex"] = pm.param_list(latex_style=True)
    r["num"] = pm.num_param
    try:
        kw = pm.args2kwargs(list(args))
        r["kw"] = kw
        r["dicts"] = [flatten(d) for d in dict_list(kw)]
        try:
            r["back"] = [float(x) for x in pm.kwargs2args(*kw)]
        except Exception as e:  # noqa
            r["back"] = {"err": err_enum(e)}
        try:
            # the same dictionaries with their keys written in reversed order: dictionaries are addressed by name
            rev = [dict(reversed(list(d.items()))) for d in kw[:4]] + [[dict(reversed(list(d.items()))) for d in (kw[4] or [])]]
            r["back_rev"] = [float(x) for x in pm.kwargs2args(*rev)]
        except Exception as e:  # noqa
            r["back_rev"] = {"err": err_enum(e)}
    except Exception as e:  # noqa
        r["dicts"] = {"err": err_enum(e)}
    try:
        lo_b, up_b = pm.param_bounds
        r["lower"], r["upper"] = [float(x) for x in lo_b], [float(x) for x in up_b]
    except Exception as e:  # noqa  – the property evaluates lower then upper; one error for both
        r["lower"] = r["upper"] = {"err": err_enum(e)}
    return r


def oracle(cfg, bounds, args, r):
    """the property statement on the real code"""
    fails = []
    n = r["num"]
    if not (len(r["names"]) == len(r["latex"]) == n):
        fails.append("length: names %d latex %d num_param %d" % (len(r["names"]), len(r["latex"]), n))
    # every entry of a name list refers to ITS component: two components never carry the same plain or LaTeX name
    for which in ("names", "latex"):
        seen = {}
        for i, nm in enumerate(r[which]):
            if nm in seen:
                fails.append("%s name %r is attached to two vector components: %d (%s) and %d (%s)"
                             % ("LaTeX" if which == "latex" else "plain", nm, seen[nm], r["names"][seen[nm]], i, r["names"][i]))
                break
            seen[nm] = i
    if isinstance(r["lower"], dict) or isinstance(r["upper"], dict):
        fails.append("param_bounds raised %s" % (r["lower"] if isinstance(r["lower"], dict) else r["upper"]))
        return fails
    if len(r["lower"]) != n or len(r["upper"]) != n:
        fails.append("length: bounds %d/%d vs num_param %d" % (len(r["lower"]), len(r["upper"]), n))
    if len(args) != n:
        return fails
    if isinstance(r["dicts"], dict):
        fails.append("args2kwargs raised %s" % r["dicts"])
        return fails
    if isinstance(r["back"], dict):
        fails.append("kwargs2args raised %s" % r["back"])
        return fails
    if len(r["back"]) != n or not all(close(a, b, 1e-12) for a, b in zip(r["back"], args)):
        fails.append("round trip: %r -> %r" % (list(args), r["back"]))
        return fails
    br = r.get("back_rev")
    if br is not None and (isinstance(br, dict) or len(br) != n or not all(close(a, b, 1e-12) for a, b in zip(br, args))):
        fails.append("round trip through dictionaries whose keys are written in another order: %r -> %r" % (list(args), br))
        return fails
    pm = r["pm"]
    base = [canon(d) for d in r["dicts"]]
    lo, up = bounds
    lo_flat = [dict(((k, j), b2f(v)) for k, j, v in canon(flatten(d))) for d in dict_list((lo["cosmo"], lo["lens"], lo["kin"], lo["source"], lo["los"]))]
    up_flat = [dict(((k, j), b2f(v)) for k, j, v in canon(flatten(d))) for d in dict_list((up["cosmo"], up["lens"], up["kin"], up["source"], up["los"]))]
    for i in range(n):
        a2 = list(args)
        a2[i] = args[i] + 0.37
        d2 = [canon(flatten(d)) for d in dict_list(pm.args2kwargs(a2))]
        changed = [(bi, e[0], e[1]) for bi, (x, y) in enumerate(zip(base, d2)) for e, e2 in zip(x, y) if e != e2]
        if len(changed) != 1:
            fails.append("component %d changes %d dictionary entries" % (i, len(changed)))
            continue
        bi, key, j = changed[0]
        name = r["names"][i]
        if bi < 4:
            want = key if j < 0 else "%s_%d" % (key.replace("_list", ""), j)
        else:
            want = "%s_los_%d" % (key, bi - 4)
        if name != want:
            fails.append("name[%d]=%s but component %d drives %s" % (i, name, i, want))
        val = dict(((k, jj), b2f(v)) for k, jj, v in base[bi])[(key, j)]
        is_log = "log_{10}" in r["latex"][i]
        exp_val = 10 ** args[i] if is_log else args[i]
        if not close(val, exp_val, 1e-12):
            fails.append("dict[%s]=%r for args[%d]=%r (latex %s)" % (key, val, i, args[i], r["latex"][i]))
        for which, flat in (("lower", lo_flat), ("upper", up_flat)):
            bv = flat[bi][(key, j)]
            expb = math.log10(bv) if is_log else bv
            if not close(r[which][i], expb, 1e-12):
                fails.append("%s[%d]=%r is not the bound of %s (%r)" % (which, i, r[which][i], key, expb))
    # the mapping is a function of the VALUE of the vector: one buffer (ndarray / list) updated in place and
    # converted again on the same manager (finite-difference loops, coordinate scans), and dictionaries that the
    # caller edited after an earlier conversion
    for kind in ("ndarray", "list"):
        buf = np.array(args, dtype=float) if kind == "ndarray" else [float(a) for a in args]
        for i in range(min(n, 6)):
            buf[i] = buf[i] + 0.61
            try:
                kw_b = pm.args2kwargs(buf)
                back_b = [float(x) for x in pm.kwargs2args(*kw_b)]
            except Exception as e:  # noqa
                fails.append("%s buffer updated in place: %s" % (kind, err_enum(e)))
                break
            if len(back_b) != n or not all(close(a, float(b), 1e-12) for a, b in zip(back_b, buf)):
                fails.append("round trip of a %s updated in place (slot %d) on a re-used manager: %r -> %r"
                             % (kind, i, [float(b) for b in buf], back_b))
                break
    # the dictionaries of one vector stay the dictionaries of THAT vector when the same manager converts another vector
    # afterwards (a sampler keeps the dictionaries of the current point while it converts the proposal)
    try:
        kw_first = pm.args2kwargs(list(args))
        other = [float(a) + 0.37 * (i + 1) for i, a in enumerate(args)]
        pm.args2kwargs(other)
        back_first = [float(x) for x in pm.kwargs2args(*kw_first)]
        if len(back_first) != n or not all(close(a, float(b), 1e-12) for a, b in zip(back_first, args)):
            fails.append("the dictionaries of a vector no longer map back to it after the same manager converted ANOTHER vector: %r -> %r"
                         % ([float(a) for a in args], back_first))
    except Exception as e:  # noqa
        fails.append("dictionaries of an earlier vector used after a later conversion: %s" % err_enum(e))
    try:
        kw_e = pm.args2kwargs(list(args))
        for d in list(kw_e[:4]) + list(kw_e[4] or []):
            for k in list(d):
                d[k] = -123.5 if not isinstance(d[k], (list, tuple, np.ndarray)) else [-123.5 for _ in d[k]]
        again = [canon(flatten(d)) for d in dict_list(pm.args2kwargs(list(args)))]
        if [[(k, j, b2f(v)) for k, j, v in blk] for blk in again] != [[(k, j, b2f(v)) for k, j, v in blk] for blk in base]:
            fails.append("dictionaries of an equal vector differ after the caller edited the earlier result")
    except Exception as e:  # noqa
        fails.append("second conversion after the caller edited the result: %s" % err_enum(e))
    # fixed parameters
    fixed_by_block = [cfg.get("kwargs_fixed_" + b) or {} for b in ("cosmo", "lens", "kin", "source")] + \
        list(cfg.get("kwargs_fixed_los") or [{} for _ in (cfg["los_distributions"] or [])])
    for bi, fx in enumerate(fixed_by_block):
        present = dict(((k, j), b2f(v)) for k, j, v in base[bi]) if bi < len(base) else {}
        for k, v in fx.items():
            nm = k if bi < 4 else "%s_los_%d" % (k, bi - 4)
            if nm in r["names"]:
                fails.append("fixed parameter %s occupies a slot" % nm)
            if (k, -1) in present and present[(k, -1)] != v:
                fails.append("fixed parameter %s appears with value %r != %r" % (k, present[(k, -1)], v))
    return fails


def sig_of(cfg):
    items = []
    for k, v in sorted(cfg.items()):
        if isinstance(v, dict):
            v = tuple(sorted(v))
        elif isinstance(v, list):
            v = tuple(tuple(sorted(x)) if isinstance(x, dict) else x for x in v)
        items.append((k, v))
    return tuple(items)


def enc_case(cfg, bounds, args):
    return {"cfg": cfg, "bounds": bounds, "args": list(args)}


def run(ctx, res):
    rng = ctx.rng
    n = ctx.n(600, 12000)
    cases = []
    for t in range(n):
        cfg = gen_config(rng)
        bounds = (bound_dicts(rng, cfg, 1.0), bound_dicts(rng, cfg, 2.0))
        mal = rng.random() < 0.06
        cases.append((cfg, bounds, mal))
    lines = []
    impl = []
    for cfg, bounds, mal in cases:
        if mal == "never":
            continue
        try:
            pm0 = make_pm(cfg, bounds)
        except Exception as e:  # noqa – constructor rejected the configuration
            res.count("ctor_" + err_enum(e))
            impl.append(None)
            lines.append(None)
            continue
        nparam = pm0.num_param
        args = [rng.uniform(-1.5, 1.5) for _ in range(nparam)]
        if rng.random() < 0.25:
            # "all real-valued sampling vectors": components far from the origin too (log-space scatters of 1e-12, …)
            args = [rng.choice([-1.0, 1.0]) * 10 ** rng.uniform(-3, 2.3) if rng.random() < 0.6 else a for a in args]
        kind = "valid"
        if mal and nparam > 0:
            if rng.random() < 0.5:
                args = args[:rng.randrange(nparam)]
                kind = "short_vector"
            else:
                lo = bounds[0]
                blk = rng.choice(["cosmo", "lens", "kin", "source"])
                if lo[blk]:
                    lo[blk].pop(rng.choice(sorted(lo[blk])))
                kind = "bound_key_missing"
        r = impl_eval(cfg, bounds, args)
        res.evaluations += 1
        res.count("kind=" + kind)
        res.count("cosmology=" + cfg["cosmology"])
        res.count("nparam=%s" % ("0" if nparam == 0 else "1-5" if nparam <= 5 else "6-12" if nparam <= 12 else ">12"))
        res.count("los_pops=%d" % len(cfg["los_distributions"] or []))
        res.count("log_scatter=%s" % cfg["log_scatter"])
        if nparam > 0:
            res.signatures.add(sig_of(cfg))
        if kind == "valid":
            for f in oracle(cfg, bounds, args, r):
                res.violation("ParamManager:" + f.split(":")[0].split("[")[0].split("=")[0][:40], f, enc_case(cfg, bounds, args))
        if len(res.samples) < 2 and nparam > 3:
            res.sample({"config": {k: v for k, v in cfg.items() if v not in (False, None, "NONE")}, "names": r["names"], "args": args})
        impl.append((r, args, kind))
        lo, up = bounds
        lines.append({"op": "C01.all", "insts": insts_of(r["pm"]), "args": [f2b(x) for x in args],
                      "lower": [flatten(d) for d in dict_list((lo["cosmo"], lo["lens"], lo["kin"], lo["source"], lo["los"]))],
                      "upper": [flatten(d) for d in dict_list((up["cosmo"], up["lens"], up["kin"], up["source"], up["los"]))]})
    if ctx.search_mode:
        return
    idx = [i for i, l in enumerate(lines) if l is not None]
    outs = run_driver([lines[i] for i in idx])
    for i, o in zip(idx, outs):
        r, args, kind = impl[i]
        cfg, bounds, _ = cases[i]
        res.traces += 1
        case = enc_case(cfg, bounds, args)
        if "err" in o:
            res.disagree("driver error %s" % o["err"], case)
            continue
        m = o["ok"]
        if m["names"] != r["names"]:
            res.disagree("param_list: model %s impl %s" % (m["names"], r["names"]), case)
            continue
        if m["latex"] != r["latex"]:
            res.disagree("param_list(latex): model %s impl %s" % (m["latex"], r["latex"]), case)
            continue
        if isinstance(r["dicts"], dict) or isinstance(m["dicts"], dict):
            if not (isinstance(r["dicts"], dict) and isinstance(m["dicts"], dict) and r["dicts"]["err"] == m["dicts"]["err"]):
                res.disagree("args2kwargs error: model %s impl %s" % (m["dicts"], r["dicts"]), case)
            else:
                res.count("err=" + r["dicts"]["err"])
        else:
            md = [canon(d) for d in m["dicts"]]
            rd = [canon(d) for d in r["dicts"]]
            same = len(md) == len(rd) and all(
                len(x) == len(y) and all(a[:2] == b[:2] and close(b2f(a[2]), b2f(b[2]), 1e-12) for a, b in zip(x, y))
                for x, y in zip(md, rd))
            if not same:
                res.disagree("args2kwargs dictionaries differ", case)
                continue
            if m["i"] != len(args):
                # python does not expose i; a2k must consume the whole vector when len(args) == num_param
                if len(args) == r["num"]:
                    res.disagree("running index %s != %d" % (m["i"], len(args)), case)
            if isinstance(r["back"], dict) or isinstance(m["back"], dict):
                if not (isinstance(r["back"], dict) and isinstance(m["back"], dict)):
                    res.disagree("kwargs2args error: model %s impl %s" % (m["back"], r["back"]), case)
            elif not (len(m["back"]) == len(r["back"]) and all(close(b2f(a), b, 1e-12) for a, b in zip(m["back"], r["back"]))):
                res.disagree("kwargs2args(args2kwargs(args)) differs", case)
        # python computes lower then upper inside one property: the first error wins
        m_err = m["lower"] if isinstance(m["lower"], dict) else (m["upper"] if isinstance(m["upper"], dict) else None)
        if m_err is not None or isinstance(r["lower"], dict):
            if not (m_err is not None and isinstance(r["lower"], dict) and m_err["err"] == r["lower"]["err"]):
                res.disagree("param_bounds error: model %s impl %s" % (m_err, r["lower"]), case)
            else:
                res.count("err=" + m_err["err"])
            continue
        for which in ("lower", "upper"):
            a, b = m[which], r[which]
            if not (len(a) == len(b) and all(close(b2f(x), y, 1e-12) for x, y in zip(a, b))):
                res.disagree("param_bounds %s differ" % which, case)
    # MCMCSampler.param_names == ParamManager.param_list (dynamic side of `generated_mcmc_names`)
    try:
        import ast, inspect
        from hierarc.Sampling.mcmc_sampling import MCMCSampler

        class _P:
            def param_list(self, latex_style=False):
                return ["L"] if latex_style else ["P"]
        ms = MCMCSampler.__new__(MCMCSampler)
        ms.param = _P()
        if ms.param_names(latex_style=False) != ["P"] or ms.param_names(latex_style=True) != ["L"]:
            res.violation("MCMCSampler.param_names", "param_names does not forward param_list", {"mcmc": True})
    except Exception as e:  # noqa
        res.notes.append("MCMCSampler.param_names not checkable: %r" % e)


def replay(ctx, data):
    inp = data["input"]
    if inp.get("mcmc"):
        return True, "MCMCSampler.param_names"
    cfg, bounds, args = inp["cfg"], inp["bounds"], inp["args"]
    r = impl_eval(cfg, tuple(bounds), args)
    fails = oracle(cfg, tuple(bounds), args, r)
    return bool(fails), "oracle on the implementation: %s" % (fails or "holds")
