/-
  Lemmas about the per-lens pipeline model over ℝ.
-/
import HierArc.Model.Lens
import HierArc.Proofs.RealInst
import Mathlib.Tactic.FieldSimp
import Mathlib.Tactic.Ring
import Mathlib.Tactic.Linarith

namespace HierArc.Lens
open HierArc

theorem lit_1e4 : (0.0001 : ℝ) = 1 / 10000 := by norm_num

/-! ### generator model used by the theorems: `normal(loc, scale) = loc + scale·ξ` -/
def mkR (loc scale x : ℝ) : ℝ := loc + scale * x

theorem mkR_zero (loc x : ℝ) : mkR loc 0 x = loc := by simp [mkR]

/-! ### the stream monad -/
section
variable {β γ : Type}

theorem bindM_ok {m : M ℝ β} {f : β → M ℝ γ} {s s' : St ℝ} {c : γ}
    (h : bindM m f s = .ok (c, s')) : ∃ b s1, m s = .ok (b, s1) ∧ f b s1 = .ok (c, s') := by
  unfold bindM at h
  split at h
  · simp at h
  · rename_i b s1 hm; exact ⟨b, s1, hm, h⟩

theorem pureM_ok {b c : β} {s s' : St ℝ} (h : pureM b s = .ok (c, s')) : c = b ∧ s' = s := by
  simp only [pureM, Except.ok.injEq, Prod.mk.injEq] at h; exact ⟨h.1.symm, h.2.symm⟩

theorem errM_ok {e : String} {c : β} {s s' : St ℝ} (h : errM e s = .ok (c, s')) : False := by
  simp [errM] at h

theorem normal_ok {mk : ℝ → ℝ → ℝ → ℝ} {loc scale v : ℝ} {s s' : St ℝ}
    (h : normal mk loc scale s = .ok (v, s')) : ∃ x, v = mk loc scale x := by
  unfold normal at h
  split at h
  · simp at h
  · rename_i x t _
    simp only [Except.ok.injEq, Prod.mk.injEq] at h
    exact ⟨x, h.1.symm⟩
end

/-! ### dictionaries -/
theorem getD_cons_self (k : String) (v d : ℝ) (t : Dict ℝ) : getD ((k, v) :: t) k d = v := by
  simp [getD, Dict.get?]

theorem get?_append_left (d1 d2 : Dict ℝ) (k : String) (v : ℝ) (h : Dict.get? d1 k = some v) :
    Dict.get? (d1 ++ d2) k = some v := by
  induction d1 with
  | nil => simp [Dict.get?] at h
  | cons p t ih =>
    obtain ⟨k', v'⟩ := p
    simp only [Dict.get?, List.cons_append] at h ⊢
    by_cases hk : k' = k
    · simpa [hk] using h
    · simp only [hk, if_false] at h ⊢; exact ih h

/-! ### `draw_lens` -/

/-- the realised lambda is the lens' own mean, or a draw around it with the lens' own sigma -/
def LamOK (mk : ℝ → ℝ → ℝ → ℝ) (cfg : LensDist ℝ) (kw : Dict ℝ) (lam : ℝ) : Prop :=
  (cfg.lambdaSampling = false ∧ lam = lambdaLens cfg kw) ∨
  (cfg.lambdaSampling = true ∧ ∃ x, lam = mk (lambdaLens cfg kw) (lambdaSigma cfg kw) x)

theorem lensAttempt_spec {mk : ℝ → ℝ → ℝ → ℝ} {cfg : LensDist ℝ} {kw : Dict ℝ}
    {gpl : Option (List ℝ)} {s s' : St ℝ} {d : Dict ℝ}
    (h : lensAttempt mk cfg kw gpl s = .ok (some d, s')) :
    ∃ lam rest, d = [("lambda_mst", lam), ("gamma_ppn", getD kw "gamma_ppn" 1.0)] ++ rest
      ∧ LamOK mk cfg kw lam := by
  unfold lensAttempt at h
  obtain ⟨lam, s1, h1, h⟩ := bindM_ok h
  have hlam : LamOK mk cfg kw lam := by
    cases hs : cfg.lambdaSampling with
    | false =>
      simp only [hs] at h1
      exact Or.inl ⟨hs, (pureM_ok h1).1⟩
    | true =>
      simp only [hs, if_true] at h1
      exact Or.inr ⟨hs, normal_ok h1⟩
  obtain ⟨gi, s2, _, h⟩ := bindM_ok h
  cases gi with
  | none => simp only [pureM] at h; simp at h
  | some giE =>
    simp only at h
    obtain ⟨ml, s3, _, h⟩ := bindM_ok h
    cases ml with
    | none => simp only [pureM] at h; simp at h
    | some mlE =>
      simp only at h
      obtain ⟨gp, s4, _, h⟩ := bindM_ok h
      have := (pureM_ok h).1
      simp only [Option.some.injEq] at this
      exact ⟨lam, giE ++ mlE ++ gp, by rw [this]; simp, hlam⟩

theorem drawLens_spec {mk : ℝ → ℝ → ℝ → ℝ} {cfg : LensDist ℝ} {kw : Dict ℝ}
    {gpl : Option (List ℝ)} (fuel : ℕ) {s s' : St ℝ} {d : Dict ℝ}
    (h : drawLens mk cfg kw gpl fuel s = .ok (d, s')) :
    ∃ lam rest, d = [("lambda_mst", lam), ("gamma_ppn", getD kw "gamma_ppn" 1.0)] ++ rest
      ∧ LamOK mk cfg kw lam := by
  induction fuel generalizing s with
  | zero => simp [drawLens] at h
  | succ n ih =>
    unfold drawLens at h
    split at h
    · simp at h
    · rename_i d' s1 ha
      simp only [Except.ok.injEq, Prod.mk.injEq] at h
      obtain ⟨rfl, rfl⟩ := h
      exact lensAttempt_spec ha
    · exact ih h

/-- sharp: with zero lens-level scatter the realised lambda IS the lens' own mean
    `(lambda_mst | lambda_ifu) + alpha·x + beta·y` -/
theorem LamOK_sharp {cfg : LensDist ℝ} {kw : Dict ℝ} {lam : ℝ} (h : LamOK mkR cfg kw lam)
    (hs : lambdaSigma cfg kw = 0) : lam = lambdaLens cfg kw := by
  rcases h with ⟨_, h⟩ | ⟨_, x, h⟩
  · exact h
  · rw [h, hs, mkR_zero]

/-! ### `draw_los`, `draw_source`, the single evaluation -/

/-- the realised external convergence -/
def KappaOK (mk : ℝ → ℝ → ℝ → ℝ) (cfg : LosCfg) (los : List (Dict ℝ)) (ext : Option ℝ) (κ : ℝ) :
    Prop :=
  (cfg.individual = true ∧ ext = some κ) ∨
  (cfg.individual = false ∧ cfg.globalIdx = none ∧ κ = 0) ∨
  (cfg.individual = false ∧ ∃ i d, cfg.globalIdx = some i ∧ los[i]? = some d ∧
      ((cfg.dist = "GAUSSIAN" ∧ ∃ m sg x, Dict.get? d "mean" = some m ∧ Dict.get? d "sigma" = some sg
          ∧ κ = mk m sg x)
       ∨ (cfg.dist ≠ "GAUSSIAN" ∧ cfg.dist = "GEV" ∧ ext = some κ)))

theorem drawLos_spec {mk : ℝ → ℝ → ℝ → ℝ} {cfg : LosCfg} {los : List (Dict ℝ)} {ext : Option ℝ}
    {s s' : St ℝ} {κ : ℝ} (h : drawLos mk cfg los ext s = .ok (κ, s')) :
    KappaOK mk cfg los ext κ := by
  unfold drawLos at h
  cases hi : cfg.individual with
  | true =>
    simp only [hi, if_true] at h
    cases ext with
    | none => simp at h
    | some k =>
      simp only [Except.ok.injEq, Prod.mk.injEq] at h
      exact Or.inl ⟨hi, by rw [h.1]⟩
  | false =>
    simp only [hi, Bool.false_eq_true, if_false] at h
    cases hg : cfg.globalIdx with
    | none =>
      simp only [hg, Except.ok.injEq, Prod.mk.injEq] at h
      exact Or.inr (Or.inl ⟨hi, hg, by rw [← h.1]; exact lit_zero⟩)
    | some i =>
      simp only [hg] at h
      cases hl : los[i]? with
      | none => simp [hl] at h
      | some d =>
        simp only [hl] at h
        refine Or.inr (Or.inr ⟨hi, i, d, hg, hl, ?_⟩)
        by_cases hd : cfg.dist = "GAUSSIAN"
        · simp only [hd, if_true] at h
          cases hm : Dict.get? d "mean" <;> cases hsg : Dict.get? d "sigma" <;>
            simp only [hm, hsg] at h <;> try (simp at h)
          rename_i m sg
          obtain ⟨x, hx⟩ := normal_ok h
          exact Or.inl ⟨hd, m, sg, x, rfl, rfl, hx⟩
        · simp only [hd, if_false] at h
          by_cases hv : cfg.dist = "GEV"
          · simp only [hv, if_true] at h
            cases ext with
            | none => simp at h
            | some k =>
              simp only [Except.ok.injEq, Prod.mk.injEq] at h
              exact Or.inr ⟨hd, hv, by rw [h.1]⟩
          · simp [hv] at h

/-- sharp external convergence: 0 without LOS population, the population mean for a global
    Gaussian population of zero width -/
def kappaSharp (cfg : LosCfg) (los : List (Dict ℝ)) : ℝ :=
  match cfg.globalIdx with
  | none => 0
  | some i => match los[i]? with
    | some d => (Dict.get? d "mean").getD 0
    | none => 0

theorem KappaOK_sharp {cfg : LosCfg} {los : List (Dict ℝ)} {ext : Option ℝ} {κ : ℝ}
    (h : KappaOK mkR cfg los ext κ) (hind : cfg.individual = false)
    (hg : ∀ i, cfg.globalIdx = some i → cfg.dist = "GAUSSIAN" ∧
        ∀ d, los[i]? = some d → Dict.get? d "sigma" = some 0) :
    κ = kappaSharp cfg los := by
  rcases h with ⟨h, _⟩ | ⟨_, hn, hk⟩ | ⟨_, i, d, hi, hl, h⟩
  · simp [hind] at h
  · simp [kappaSharp, hn, hk]
  · obtain ⟨hd, hs⟩ := hg i hi
    rcases h with ⟨_, m, sg, x, hm, hsg, hk⟩ | ⟨hne, _⟩
    · have := hs d hl
      rw [hsg] at this
      simp only [Option.some.injEq] at this
      subst this
      simp [kappaSharp, hi, hl, hm, hk, mkR_zero]
    · exact absurd hd hne

/-- what `log_likelihood_single` hands to `LensLikelihoodBase.log_likelihood` -/
theorem singlePre_spec {mk : ℝ → ℝ → ℝ → ℝ} {cfg : LensCfg ℝ} {hy : Hyper ℝ}
    {ddt dd dLum : ℝ} {beta : Option ℝ} {ext : Ext ℝ} {fuel : ℕ} {s s' : St ℝ} {out : SingleOut ℝ}
    (h : singlePre mk cfg hy ddt dd dLum beta ext fuel s = .ok (out, s')) :
    ∃ lam κ x gpl,
      LamOK mk cfg.dist hy.lens lam ∧ KappaOK mk cfg.los hy.los ext.losDraw κ ∧
      out.lam = lam ∧ out.kappa = κ ∧ out.prior = priorLogL cfg.priors out.kwargsParam ∧
      (∃ ld kd sA sA' sB sB', drawLens mk cfg.dist hy.lens hy.gammaPlList fuel sA = .ok (ld, sA') ∧
        drawAniso mk cfg.aniso hy.kin fuel sB = .ok (kd, sB') ∧ out.kwargsParam = mergeDict ld kd ∧
        gpl = getD ld "gamma_pl" 2.0 ∧ lam = getD ld "lambda_mst" 1.0) ∧
      out.vals =
        (let mag := mk (getD hy.source "mu_sne" 1.0) (getD hy.source "sigma_sne" 0.0) x + dLum
         let dp := displace ddt dd (getD hy.lens "gamma_ppn" 1.0) lam κ mag
         [("ddt", .num dp.1), ("dd", .num dp.2.1),
          ("beta_dsp", optArg beta),
          ("kin_scaling", .vec ext.kinScaling),
          ("sigma_v_sys_error", optArg hy.sigmaVSys),
          ("mu_intrinsic", .num dp.2.2), ("gamma_pl", .num gpl), ("lambda_mst", .num lam)]) := by
  unfold singlePre at h
  split at h
  · simp at h
  · rename_i ld s1 hld
    obtain ⟨lam, rest, hd, hlam⟩ := drawLens_spec fuel hld
    have hl1 : getD ld "lambda_mst" 1.0 = lam := by rw [hd]; simp [getD, Dict.get?]
    have hl2 : getD ld "gamma_ppn" 1.0 = getD hy.lens "gamma_ppn" 1.0 := by
      rw [hd]; simp [getD, Dict.get?]
    split at h
    · simp at h
    · rename_i κ s2 hk
      have hkappa := drawLos_spec hk
      split at h
      · simp at h
      · rename_i magDraw s3 hm
        obtain ⟨x, hx⟩ := normal_ok hm
        split at h
        · simp at h
        · rename_i kd s4 hkd
          by_cases hany : (cfg.kinParams.any fun p => !(Dict.has (mergeDict ld kd) p)) = true
          · rw [if_pos hany] at h; simp at h
          · rw [if_neg hany] at h
            simp only [Except.ok.injEq, Prod.mk.injEq] at h
            obtain ⟨rfl, _⟩ := h
            refine ⟨lam, κ, x, getD ld "gamma_pl" 2.0, hlam, hkappa, hl1, rfl, rfl,
              ⟨ld, kd, _, _, _, _, hld, hkd, rfl, rfl, hl1.symm⟩, ?_⟩
            simp only [hl1, hl2, hx]

end HierArc.Lens
