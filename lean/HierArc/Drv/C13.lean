import HierArc.Drv.Proto
import HierArc.Model.Chain
namespace HierArc.Drv.C13
open Lean HierArc.Drv HierArc.Chain

/-- [[name, [bits…]], …] → ordered dict of columns -/
def paramsOf (j : Json) : R (List (String × List Float)) := do
  (← arr j).mapM fun p => do
    match (← arr p) with
    | [k, v] => pure (← k.getStr?, ← fls v)
    | _ => throw "pair expected"

def jparams (ps : List (String × List Float)) : Json :=
  Json.arr (ps.map fun (k, c) => Json.arr #[Json.str k, jfs c]).toArray

/-- [[name, maxbits, minbits], …] -/
def dicOf (j : Json) : R (HierArc.Dict (Float × Float)) := do
  (← arr j).mapM fun p => do
    match (← arr p) with
    | [k, a, b] => pure (← k.getStr?, (← fl a, ← fl b))
    | _ => throw "triple expected"

def jdic (d : HierArc.Dict (Float × Float)) : Json :=
  Json.arr (d.map fun (k, (a, b)) => Json.arr #[Json.str k, jf a, jf b]).toArray

def jchain (c : Chain Float) : List (String × Json) :=
  [("params", jparams c.params),
   ("dic", match c.dic with | some d => jdic d | none => Json.null),
   ("rescaled", Json.bool c.rescaled),
   ("list_params", jstrs (listParams c))]

def opOf (s : String) : R Op :=
  if s = "to" then pure Op.toU else if s = "from" then pure Op.fromU else throw "bad-op-name"

def getBool (j : Json) (k : String) : R Bool := do (← field j k).getBool?

/-- op `C13.run`: constructor + a history of rescale calls -/
def run (j : Json) : R Json := do
  let ps ← paramsOf (← field j "params")
  let rescale ← getBool j "rescale"
  let ops ← (← strs (← field j "ops")).mapM opOf
  match init ps rescale with
  | .error e => pure (Json.mkObj [("init", Json.str e)])
  | .ok c =>
    let (outs, c') := runOps c ops
    pure (Json.mkObj ([("init", Json.str "ok"), ("outcomes", jstrs outs)] ++ jchain c'))

/-- op `C13.fill`: constructor, a column added with `fill_default_array`, then a history of rescale calls -/
def fill (j : Json) : R Json := do
  let ps ← paramsOf (← field j "params")
  let rescale ← getBool j "rescale"
  let k ← (← field j "name").getStr?
  let v ← fls (← field j "values")
  let ops ← (← strs (← field j "ops")).mapM opOf
  match init ps rescale with
  | .error e => pure (Json.mkObj [("init", Json.str e)])
  | .ok c =>
    match fillArray c k v with
    | .error e => pure (Json.mkObj [("init", Json.str "ok"), ("fill", Json.str e)])
    | .ok c1 =>
      let (outs, c') := runOps c1 ops
      pure (Json.mkObj ([("init", Json.str "ok"), ("fill", Json.str "ok"), ("outcomes", jstrs outs)] ++ jchain c'))

/-- op `C13.vec`: the two vector helpers -/
def vec (j : Json) : R Json := do
  let cols ← flss (← field j "cols")
  let d ← dicOf (← field j "dic")
  let keys ← strs (← field j "keys")
  let dir ← (← field j "dir").getStr?
  let r := if dir = "to" then vecToUnity cols d keys else vecFromUnity cols d keys
  match r with
  | .ok c => pure (Json.mkObj [("cols", jfss c)])
  | .error e => throw e

/-- op `C13.point`: evaluation point of the KDE branch for the chain built by the constructor -/
def point (j : Json) : R Json := do
  let ps ← paramsOf (← field j "params")
  let rescale ← getBool j "rescale"
  let kw ← pairsF (← field j "kw")
  match init ps rescale with
  | .error e => pure (Json.mkObj [("init", Json.str e)])
  | .ok c =>
    match evalPoint kw c (listParams c) with
    | .ok pt => pure (Json.mkObj ([("init", Json.str "ok"), ("point", jfs pt)] ++ jchain c))
    | .error e => pure (Json.mkObj ([("init", Json.str "ok"), ("point_err", Json.str e)] ++ jchain c))

/-- op `C13.planck`: names-file scan + column selection + constructor -/
def planck (j : Json) : R Json := do
  let lines ← strs (← field j "lines")
  let params ← strs (← field j "params")
  let rows ← flss (← field j "rows")
  let rescale ← getBool j "rescale"
  let idx := params.map fun p =>
    Json.arr #[Json.str p, match paramIndex lines p with
      | some i => Json.num (JsonNumber.fromNat i) | none => Json.null]
  match importCols lines params rows with
  | .error e => pure (Json.mkObj [("index", Json.arr idx.toArray), ("import", Json.str e)])
  | .ok (ps, w, l) =>
    let base := [("index", Json.arr idx.toArray), ("import", Json.str "ok"),
                 ("raw", jparams ps), ("weights", jfs w), ("logl", jfs l)]
    match init ps rescale with
    | .error e => pure (Json.mkObj (base ++ [("init", Json.str e)]))
    | .ok c => pure (Json.mkObj (base ++ [("init", Json.str "ok")] ++ jchain c))

def ops : List (String × (Json → R Json)) :=
  [("C13.run", run), ("C13.fill", fill), ("C13.vec", vec), ("C13.point", point), ("C13.planck", planck)]

end HierArc.Drv.C13
