"""Translator: effect inventory of the likelihood-evaluation code  →  lean/HierArc/Gen/Effects.lean

For every function / method of the files on the evaluation path (not `__init__`), records
  * attribute writes   `self.X = …`, `self.X op= …`, `del self.X`
  * in-place operations (`.pop .append .extend .update .sort .fill .clear .insert .remove .setdefault`,
    `np.fill_diagonal`, augmented assignment, subscript / slice assignment, `del x[..]`)
together with the ORIGIN of the mutated object from an intra-procedural def-use pass:
  fresh     – bound in this function to a new object (literal, comprehension, deepcopy/np.array/zeros/…,
              arithmetic result, dict/list constructor)
  number    – bound to a numeric literal (augmented assignment just rebinds)
  call      – bound to the result of a call (a value produced for this function)
  param     – a parameter of the function, or an alias / element of one
  self      – an attribute of `self` (or an alias / element of one)
  global    – a module-level name
  unknown   – anything else
Deliberately dumb and syntactic; judged in Lean (Props/C08.lean).  Aliasing through calls is only
caught dynamically (harness)."""
import ast
import os

from translator.ladders import lstr

FILES = [
    "Likelihood/cosmo_likelihood.py",
    "Likelihood/hierarchy_likelihood.py",
    "Likelihood/lens_sample_likelihood.py",
    "Likelihood/transformed_cosmography.py",
    "Likelihood/prior_likelihood.py",
    "Likelihood/kin_scaling.py",
    "Likelihood/LensLikelihood/base_lens_likelihood.py",
    "Likelihood/LensLikelihood/ddt_gauss_likelihood.py",
    "Likelihood/LensLikelihood/ddt_lognorm_likelihood.py",
    "Likelihood/LensLikelihood/ddt_dd_gauss_likelihood.py",
    "Likelihood/LensLikelihood/ds_dds_gauss_likelihood.py",
    "Likelihood/LensLikelihood/kin_likelihood.py",
    "Likelihood/LensLikelihood/ddt_gauss_kin_likelihood.py",
    "Likelihood/LensLikelihood/ddt_hist_kin_likelihood.py",
    "Likelihood/LensLikelihood/ddt_hist_likelihood.py",
    "Likelihood/LensLikelihood/mag_likelihood.py",
    "Likelihood/LensLikelihood/td_mag_likelihood.py",
    "Likelihood/LensLikelihood/td_mag_magnitude_likelihood.py",
    "Likelihood/LensLikelihood/double_source_plane.py",
    "Likelihood/SneLikelihood/sne_likelihood.py",
    "Likelihood/SneLikelihood/sne_likelihood_custom.py",
    "Likelihood/SneLikelihood/sne_likelihood_from_file.py",
    "Likelihood/KDELikelihood/kde_likelihood.py",
    "Likelihood/KDELikelihood/chain.py",
    "Sampling/Distributions/lens_distribution.py",
    "Sampling/Distributions/anisotropy_distributions.py",
    "Sampling/Distributions/los_distributions.py",
    "Sampling/ParamManager/param_manager.py",
    "Sampling/ParamManager/cosmo_param.py",
    "Sampling/ParamManager/lens_param.py",
    "Sampling/ParamManager/kin_param.py",
    "Sampling/ParamManager/source_param.py",
    "Sampling/ParamManager/los_param.py",
    "Util/distribution_util.py",
    "Util/likelihood_util.py",
]

MUTATING_METHODS = {"pop", "append", "extend", "update", "sort", "fill", "clear", "insert", "remove", "setdefault",
                    "popitem", "reverse", "resize", "put", "itemset", "partition"}
FRESH_CALLS = {"copy.deepcopy", "deepcopy", "copy.copy", "np.array", "np.zeros", "np.zeros_like", "np.ones", "np.ones_like",
               "np.empty", "np.empty_like", "np.copy", "np.append", "np.linspace", "np.arange", "np.full", "np.diag",
               "np.outer", "np.sqrt", "np.maximum", "np.minimum", "np.nan_to_num", "np.exp", "np.log", "np.log10",
               "list", "dict", "np.concatenate", "np.vstack", "np.hstack", "np.meshgrid", "np.atleast_1d", "np.squeeze",
               "np.sum", "np.mean", "np.std", "np.dot", "np.matmul", "np.linalg.inv", "np.cov", "np.histogram",
               "np.asarray_chkfinite", "np.transpose", "np.diagflat", "np.eye", "np.identity", "np.random.normal",
               "np.random.uniform", "np.random.rand", "np.random.randn", "sorted", "range", "len", "float", "int", "str",
               "tuple", "set", "zip", "enumerate", "np.interp", "np.cumsum", "np.abs", "np.power", "np.tile", "np.repeat",
               "np.delete", "np.insert", "np.where", "np.isfinite", "np.max", "np.min", "np.median", "np.average",
               "np.genfromtxt", "np.loadtxt", "pd.read_csv", "np.load", "np.float64"}


def root_of(node):
    """root Name / self-attribute of an expression like a.b[c].d → ('name', 'a') | ('self', 'X') | None"""
    n = node
    while True:
        if isinstance(n, ast.Subscript):
            n = n.value
        elif isinstance(n, ast.Attribute):
            if isinstance(n.value, ast.Name) and n.value.id == "self":
                return ("self", n.attr)
            n = n.value
        elif isinstance(n, ast.Name):
            return ("name", n.id)
        elif isinstance(n, ast.Call):
            return ("call", ast.unparse(n.func))
        else:
            return None


# simple names of functions / methods defined in the analysed files ALL of whose definitions return, on every path, a
# value created inside the function (or a number): a call of such a function yields a fresh value whatever its
# arguments are.  Computed as a fixpoint by `fresh_returning` before the files are scanned.
FRESH_RETURNS = set()


class FuncScan(ast.NodeVisitor):
    def __init__(self, fn, module_names):
        self.fn = fn
        self.returns = []      # origin of every returned value, taken where the return statement stands
        self.params = {a.arg for a in fn.args.args + fn.args.kwonlyargs if a.arg != "self"}
        if fn.args.vararg:
            self.params.add(fn.args.vararg.arg)
        if fn.args.kwarg:
            self.params.add(fn.args.kwarg.arg)
        self.module_names = module_names
        self.origin = {p: "param" for p in self.params}
        # parameters with a numeric default (e.g. `i=0`) are numbers: augmented assignment rebinds them
        pos = fn.args.args
        for a, d in zip(pos[len(pos) - len(fn.args.defaults):], fn.args.defaults):
            if isinstance(d, ast.Constant) and isinstance(d.value, (int, float)) and not isinstance(d.value, bool):
                self.origin[a.arg] = "number"
        self.calls = []        # (callee simple name, [origin of each positional arg])
        self.depth = 0
        self.effects = []      # (kind, target_src, origin, lineno)
        self.attr_writes = []  # (attr, lineno)

    # ---- origin of an expression value
    def origin_of_expr(self, e):
        if isinstance(e, ast.Constant):
            return "number" if isinstance(e.value, (int, float, complex, bool)) and not isinstance(e.value, str) else "fresh"
        if isinstance(e, (ast.List, ast.Dict, ast.Set, ast.Tuple, ast.ListComp, ast.DictComp, ast.SetComp, ast.GeneratorExp,
                          ast.BinOp, ast.UnaryOp, ast.Compare, ast.BoolOp, ast.JoinedStr)):
            if isinstance(e, ast.Dict) and any(k is None for k in e.keys):
                return "fresh"   # {**a, **b} builds a new dict
            return "fresh"
        if isinstance(e, ast.Call):
            f = ast.unparse(e.func)
            if f in FRESH_CALLS or f.endswith(".copy") or f.endswith(".tolist") or f.endswith(".astype") or f.endswith(".flatten"):
                return "fresh"
            if f.split(".")[-1] in FRESH_RETURNS and (("." not in f) or f.startswith("self.")):
                return "fresh"
            # the result of an unknown call may alias its arguments (e.g. an identity helper such as
            # `_kwargs_init(kwargs)`): be conservative
            arg_orgs = [self.origin_of_expr(a) for a in e.args] + [self.origin_of_expr(k.value) for k in e.keywords]
            if any(o in ("param", "self", "global", "maybe_param") for o in arg_orgs) and not f.endswith(".get"):
                if any(o in ("param", "maybe_param") for o in arg_orgs):
                    return "maybe_param"
            return "call"
        if isinstance(e, ast.IfExp):
            a, b = self.origin_of_expr(e.body), self.origin_of_expr(e.orelse)
            return a if a == b else worst(a, b)
        r = root_of(e)
        if r is None:
            return "unknown"
        if r[0] == "self":
            return "self"
        if r[0] == "call":
            return "call"
        return self.origin.get(r[1], "global" if r[1] in self.module_names else "unknown")

    def bind(self, target, origin):
        if isinstance(target, ast.Name):
            if self.depth > 0 and target.id in self.origin:
                # assignment inside a conditional / loop body: the previous binding may survive
                origin = worst(self.origin[target.id], origin)
            self.origin[target.id] = origin
        elif isinstance(target, (ast.Tuple, ast.List)):
            for t in target.elts:
                self.bind(t, origin if origin in ("param", "self", "global") else ("call" if origin == "call" else origin))

    def record(self, kind, target, lineno):
        r = root_of(target)
        if r is None:
            org = "unknown"
        elif r[0] == "self":
            org = "self"
        elif r[0] == "call":
            org = "call"
        else:
            org = self.origin.get(r[1], "global" if r[1] in self.module_names else "unknown")
        self.effects.append((kind, ast.unparse(target), org, lineno))

    # ---- statements
    def visit_Assign(self, node):
        self.generic_visit(node)
        org = self.origin_of_expr(node.value)

        def assign_to(t):
            if isinstance(t, (ast.Tuple, ast.List)):        # a, self.b, c[0] = ...
                for e in t.elts:
                    assign_to(e.value if isinstance(e, ast.Starred) else e)
            elif isinstance(t, ast.Attribute) and isinstance(t.value, ast.Name) and t.value.id == "self":
                self.attr_writes.append((t.attr, node.lineno))
            elif isinstance(t, (ast.Subscript, ast.Attribute)):
                self.record("setitem", t, node.lineno)
            else:
                self.bind(t, org)
        for t in node.targets:
            assign_to(t)

    def visit_AnnAssign(self, node):
        self.generic_visit(node)
        if node.value is not None:
            self.bind(node.target, self.origin_of_expr(node.value))

    def visit_AugAssign(self, node):
        self.generic_visit(node)
        t = node.target
        if isinstance(t, ast.Attribute) and isinstance(t.value, ast.Name) and t.value.id == "self":
            self.attr_writes.append((t.attr, node.lineno))
        else:
            self.record("augassign", t, node.lineno)

    def visit_Delete(self, node):
        for t in node.targets:
            if isinstance(t, ast.Attribute) and isinstance(t.value, ast.Name) and t.value.id == "self":
                self.attr_writes.append((t.attr, node.lineno))
            elif isinstance(t, ast.Subscript):
                self.record("delitem", t, node.lineno)

    def visit_For(self, node):
        # loop variable: element of the iterated object
        org = self.origin_of_expr(node.iter)
        if isinstance(node.iter, ast.Call) and ast.unparse(node.iter.func) in ("enumerate", "zip") and node.iter.args:
            org = worst(*[self.origin_of_expr(a) for a in node.iter.args])
        if isinstance(node.iter, ast.Call) and ast.unparse(node.iter.func) == "range":
            org = "number"
        self.bind(node.target, org)
        self.generic_visit(node)

    def visit_If(self, node):
        self.visit(node.test)
        self.depth += 1
        for st in node.body + node.orelse:
            self.visit(st)
        self.depth -= 1

    def visit_While(self, node):
        self.depth += 1
        self.generic_visit(node)
        self.depth -= 1

    def visit_Try(self, node):
        self.depth += 1
        self.generic_visit(node)
        self.depth -= 1

    def visit_With(self, node):
        for it in node.items:
            if it.optional_vars is not None:
                self.bind(it.optional_vars, "call")
        self.generic_visit(node)

    def visit_Call(self, node):
        self.generic_visit(node)
        f = node.func
        if isinstance(f, ast.Attribute) and f.attr in MUTATING_METHODS:
            if not (isinstance(f.value, ast.Name) and f.value.id in ("np", "numpy", "os", "plt", "math")):
                self.record("call." + f.attr, f.value, node.lineno)
        fs = ast.unparse(f)
        simple = f.attr if isinstance(f, ast.Attribute) else (f.id if isinstance(f, ast.Name) else None)
        if simple is not None:
            # per positional argument: its origin and, when it is literally one of this function's parameters (still
            # bound to the caller's object), that parameter's name
            self.calls.append((simple, [self.origin_of_expr(a) for a in node.args],
                               [a.id if (isinstance(a, ast.Name) and self.origin.get(a.id) == "param") else None for a in node.args]))
        if fs in ("np.fill_diagonal", "numpy.fill_diagonal", "np.put", "np.place", "np.copyto", "random.shuffle", "np.random.shuffle") and node.args:
            self.record("call." + fs.split(".")[-1], node.args[0], node.lineno)
        if fs == "setattr" and node.args and isinstance(node.args[0], ast.Name) and node.args[0].id == "self":
            self.attr_writes.append((ast.unparse(node.args[1]), node.lineno))

    def visit_Return(self, node):
        self.generic_visit(node)
        v = node.value
        if isinstance(v, (ast.Tuple, ast.List)):
            # a returned tuple is destructured by the caller: its elements count
            org = worst("fresh", *[self.origin_of_expr(x) for x in v.elts]) if v.elts else "fresh"
        else:
            org = "number" if v is None else self.origin_of_expr(v)
        self.returns.append(org)

    def visit_FunctionDef(self, node):
        if node is self.fn:
            self.generic_visit(node)
        # nested functions are scanned separately


ORDER = ["number", "fresh", "call", "unknown", "global", "self", "maybe_param", "param"]


def worst(*os_):
    return max(os_, key=lambda o: ORDER.index(o) if o in ORDER else 3)


def scan_file(repo, rel):
    path = os.path.join(repo, "hierarc", rel)
    tree = ast.parse(open(path).read())
    module_names = set()
    for n in tree.body:
        if isinstance(n, ast.Assign):
            for t in n.targets:
                if isinstance(t, ast.Name):
                    module_names.add(t.id)
        elif isinstance(n, (ast.Import, ast.ImportFrom)):
            for a in n.names:
                module_names.add((a.asname or a.name).split(".")[0])
    out_eff, out_attr, out_calls, mutators = [], [], [], []

    def init_only(cls, name):
        """is method `name` of class node `cls` called (as self.name(...)) only from __init__ ?"""
        callers = set()
        for m in cls.body:
            if isinstance(m, ast.FunctionDef):
                for c in ast.walk(m):
                    if (isinstance(c, ast.Call) and isinstance(c.func, ast.Attribute) and c.func.attr == name
                            and isinstance(c.func.value, ast.Name) and c.func.value.id == "self"):
                        callers.add(m.name)
        return callers == {"__init__"} and name.startswith("_")

    def do(fn, owner, cls):
        if fn.name == "__init__":
            return
        sc = FuncScan(fn, module_names)
        sc.visit(fn)
        only_init = cls is not None and init_only(cls, fn.name)
        plist = [a.arg for a in fn.args.args if a.arg != "self"]
        for kind, tgt, org, ln in sc.effects:
            if org == "self" and only_init:
                org = "self_init"
            out_eff.append((rel, owner, fn.name, kind, tgt, org))
            if org == "param":
                r = root_of(ast.parse(tgt, mode="eval").body)
                if r and r[0] == "name" and r[1] in plist:
                    mutators.append((fn.name, plist.index(r[1])))
        for attr, ln in sc.attr_writes:
            out_attr.append((rel, owner, fn.name + ("[init-only]" if only_init else ""), attr))
        for callee, orgs, pnames in sc.calls:
            out_calls.append((rel, owner, fn.name, callee, orgs, pnames, plist))
        for sub in ast.walk(fn):
            if isinstance(sub, ast.FunctionDef) and sub is not fn:
                do(sub, owner, cls)

    for n in tree.body:
        if isinstance(n, ast.ClassDef):
            for m in n.body:
                if isinstance(m, ast.FunctionDef):
                    do(m, n.name, n)
        elif isinstance(n, ast.FunctionDef):
            do(n, "", None)
    return out_eff, out_attr, out_calls, mutators


def fresh_returning(repo):
    """fixpoint: names all of whose definitions in the analysed files return only fresh values / numbers"""
    defs = {}
    for rel in FILES:
        path = os.path.join(repo, "hierarc", rel)
        if not os.path.exists(path):
            continue
        tree = ast.parse(open(path).read())
        module_names = {t.id for n in tree.body if isinstance(n, ast.Assign) for t in n.targets if isinstance(t, ast.Name)}
        for n in ast.walk(tree):
            if isinstance(n, ast.FunctionDef) and n.name != "__init__":
                defs.setdefault(n.name, []).append((n, module_names))
    fresh = set()
    while True:
        FRESH_RETURNS.clear()
        FRESH_RETURNS.update(fresh)
        new = set()
        for name, lst in defs.items():
            ok = True
            for fn, module_names in lst:
                # generators and functions with nested definitions are left alone
                if any(isinstance(x, (ast.Yield, ast.YieldFrom)) for x in ast.walk(fn)):
                    ok = False
                    break
                sc = FuncScan(fn, module_names)
                for stmt in fn.body:
                    sc.visit(stmt)
                if not all(o in ("fresh", "number") for o in sc.returns):
                    ok = False
                    break
            if ok:
                new.add(name)
        if new == fresh:
            break
        # monotone: start from the empty set and only grow
        if not new >= fresh:
            new = new | fresh
        fresh = new
    FRESH_RETURNS.clear()
    FRESH_RETURNS.update(fresh)
    return sorted(fresh)


def emit(repo):
    fresh_names = fresh_returning(repo)
    effs, attrs, calls, mutators = [], [], [], []
    for rel in FILES:
        if not os.path.exists(os.path.join(repo, "hierarc", rel)):
            continue
        e, a, c, m = scan_file(repo, rel)
        effs += e
        attrs += a
        calls += c
        mutators += m
    mut = {}
    for name, idx in mutators:
        mut.setdefault(name, set()).add(idx)
    # transitive closure: a function that hands one of its own parameters to a function modifying that argument in
    # place modifies its parameter too
    changed = True
    while changed:
        changed = False
        for rel, owner, fn, callee, orgs, pnames, plist in calls:
            if callee in mut:
                for idx in sorted(mut[callee]):
                    p = pnames[idx] if idx < len(pnames) else None
                    if p is not None and p in plist and plist.index(p) not in mut.get(fn, set()):
                        mut.setdefault(fn, set()).add(plist.index(p))
                        changed = True
    mcalls = []
    for rel, owner, fn, callee, orgs, pnames, plist in calls:
        if callee in mut:
            for idx in sorted(mut[callee]):
                org = orgs[idx] if idx < len(orgs) else "unknown"
                mcalls.append((rel, owner, fn, callee, org))
    out = ["-- GENERATED by translator/effects.py — do not edit", "namespace HierArc.Gen", "",
           "/-- in-place operations outside `__init__`: (file, class, function, kind, target, origin) -/",
           "structure Effect where",
           "  file : String", "  cls : String", "  fn : String", "  kind : String", "  target : String", "  origin : String",
           "  deriving DecidableEq, Repr", "",
           "def effects : List Effect := ["]
    out.append(",\n".join("  ⟨%s, %s, %s, %s, %s, %s⟩" % tuple(lstr(x) for x in e) for e in effs))
    out.append("]")
    out.append("")
    out.append("/-- attribute writes outside `__init__`: (file, class, function, attribute) -/")
    out.append("def attrWrites : List (String × String × String × String) := [")
    out.append(",\n".join("  (%s, %s, %s, %s)" % tuple(lstr(x) for x in a) for a in attrs))
    out.append("]")
    out.append("")
    out.append("/-- functions that modify one of their parameters in place: (name, parameter position) -/")
    out.append("def paramMutators : List (String × Nat) := [%s]" % ", ".join("(%s, %d)" % (lstr(n), i) for n in sorted(mut) for i in sorted(mut[n])))
    out.append("/-- calls of such functions: (file, class, calling function, callee, origin of the modified argument) -/")
    out.append("def mutatingCalls : List (String × String × String × String × String) := [")
    out.append(",\n".join("  (%s, %s, %s, %s, %s)" % tuple(lstr(x) for x in c) for c in mcalls))
    out.append("]")
    out.append("")
    out.append("end HierArc.Gen")
    info = {"effects": len(effs), "attr_writes": len(attrs), "mutating_calls": len(mcalls), "fresh_returning": len(fresh_names),
            "by_origin": {o: sum(1 for e in effs if e[5] == o) for o in sorted(set(e[5] for e in effs))}}
    return "\n".join(out) + "\n", info
