"""Shared machinery of the hierArc verification checks.

Everything here runs under /venv/bin/python (hierarc is an editable install of /repo, so the
*current working tree* is what gets imported).
"""
import json
import math
import os
import random
import re
import struct
import subprocess
import sys
import time
import hashlib
import traceback

VERIF = os.path.dirname(os.path.dirname(os.path.abspath(__file__)))
LEAN = os.path.join(VERIF, "lean")
REPO = os.environ.get("HIERARC_REPO", "/repo")
ALLOWED_AXIOMS = {"propext", "Classical.choice", "Quot.sound"}
FORBIDDEN_RE = re.compile(
    r"sorry|admit|^\s*axiom |native_decide|bv_decide|implemented_by|unsafe |maxHeartbeats 0")


# --------------------------------------------------------------------------- floats
def f2b(x):
    """float -> IEEE-754 bit pattern (int)."""
    return struct.unpack("<Q", struct.pack("<d", float(x)))[0]


def b2f(n):
    return struct.unpack("<d", struct.pack("<Q", int(n)))[0]


def fl(xs):
    return [f2b(x) for x in xs]


def fll(xss):
    return [[f2b(x) for x in xs] for xs in xss]


def unfl(ns):
    return [b2f(n) for n in ns]


def unfll(nss):
    return [[b2f(n) for n in ns] for ns in nss]


def pairs(d):
    """dict -> ordered list of [key, bits] pairs."""
    return [[k, f2b(v)] for k, v in d.items()]


def fclass(x):
    if isinstance(x, float) or hasattr(x, "__float__"):
        x = float(x)
        if math.isnan(x):
            return "nan"
        if math.isinf(x):
            return "+inf" if x > 0 else "-inf"
        return "fin"
    return "other"


def close(a, b, tol=1e-9, atol=None):
    """class-first comparison of two floats."""
    a = float(a)
    b = float(b)
    ca, cb = fclass(a), fclass(b)
    if ca != cb:
        return False
    if ca != "fin":
        return True
    if atol is not None and abs(a - b) <= atol:
        return True
    return abs(a - b) <= tol * max(1.0, abs(a), abs(b))


def close_list(a, b, tol=1e-9, atol=None):
    return len(a) == len(b) and all(close(x, y, tol, atol) for x, y in zip(a, b))


def close_mat(a, b, tol=1e-9, atol=None):
    return len(a) == len(b) and all(close_list(x, y, tol, atol) for x, y in zip(a, b))


ERR_ENUM = {
    "ValueError": "ValueError", "KeyError": "KeyError", "TypeError": "TypeError",
    "IndexError": "IndexError", "RuntimeError": "RuntimeError", "LinAlgError": "LinAlg",
    "RecursionError": "Recursion", "NotImplementedError": "NotImplemented",
    "ZeroDivisionError": "ZeroDivision", "AttributeError": "AttributeError",
}


def err_enum(exc):
    for cls in type(exc).__mro__:
        if cls.__name__ in ERR_ENUM:
            return ERR_ENUM[cls.__name__]
    return "Other"


# --------------------------------------------------------------------------- lean side
def sh(cmd, cwd=None, timeout=3600, env=None):
    p = subprocess.run(cmd, cwd=cwd, shell=isinstance(cmd, str), capture_output=True, text=True,
                       timeout=timeout, env=env)
    return p.returncode, p.stdout, p.stderr


def lean_build(targets, clean=False):
    """lake build of the given modules.  Returns (ok, log)."""
    if clean:
        # clean only our own build products (Mathlib lives in the toolchain path)
        sh("rm -rf .lake/build", cwd=LEAN)
    rc, out, err = sh(["lake", "build"] + list(targets), cwd=LEAN, timeout=7200)
    log = out + err
    return rc == 0, log


def strip_comments(text):
    text = re.sub(r"/-.*?-/", "", text, flags=re.S)
    text = re.sub(r"--.*", "", text)
    return text


def lean_grep_forbidden(modules=None):
    """grep the Lean tree for forbidden constructs (comments discarded)."""
    hits = []
    for root, _, files in os.walk(LEAN):
        if ".lake" in root:
            continue
        for f in files:
            if not f.endswith(".lean"):
                continue
            p = os.path.join(root, f)
            txt = strip_comments(open(p).read())
            for i, line in enumerate(txt.splitlines(), 1):
                if FORBIDDEN_RE.search(line):
                    hits.append("%s: %s" % (os.path.relpath(p, LEAN), line.strip()))
    return hits


THM_RE = re.compile(r"^\s*(?:private\s+|protected\s+)?(?:noncomputable\s+)?theorem\s+([^\s:({\[]+)", re.M)
NS_RE = re.compile(r"^namespace\s+(\S+)", re.M)


def theorems_of(module):
    """(namespace-qualified) names of the theorems declared in a Props module."""
    path = os.path.join(LEAN, *module.split(".")) + ".lean"
    txt = strip_comments(open(path).read())
    names = []
    ns = []
    for line in txt.splitlines():
        m = re.match(r"^namespace\s+(\S+)", line)
        if m:
            ns.append(m.group(1))
            continue
        m = re.match(r"^end\s+(\S+)", line)
        if m and ns and ns[-1] == m.group(1):
            ns.pop()
            continue
        m = THM_RE.match(line)
        if m:
            nm = m.group(1)
            if nm.startswith("_root_."):
                names.append(nm[len("_root_."):])
            else:
                names.append(".".join(ns + [nm]))
    return names


def lean_audit(modules):
    """`#print axioms` for every theorem of the given Props modules.
    Returns (obligations, discharged, details, problems)."""
    thms = []
    for m in modules:
        thms += [(m, t) for t in theorems_of(m)]
    src = "".join("import %s\n" % m for m in modules)
    src += "".join("#print axioms %s\n" % t for _, t in thms)
    os.makedirs(os.path.join(LEAN, ".lake"), exist_ok=True)
    path = os.path.join(LEAN, ".lake", "audit_%d.lean" % os.getpid())
    open(path, "w").write(src)
    try:
        rc, out, err = sh(["lake", "env", "lean", path], cwd=LEAN, timeout=3600)
    finally:
        try:
            os.remove(path)
        except OSError:
            pass
    text = out + err
    details = {}
    problems = []
    # messages may wrap over several lines
    flat = re.sub(r"\s+", " ", text)
    for _, t in thms:
        m = re.search(r"'%s' depends on axioms: \[([^\]]*)\]" % re.escape(t), flat)
        if m:
            axs = [a.strip() for a in m.group(1).split(",") if a.strip()]
            details[t] = axs
            bad = [a for a in axs if a not in ALLOWED_AXIOMS]
            if bad:
                problems.append("%s uses axioms %s" % (t, bad))
        elif re.search(r"'%s' does not depend on any axioms" % re.escape(t), flat):
            details[t] = []
        else:
            problems.append("%s: no axiom report (does not elaborate?)" % t)
    if rc != 0 and not problems:
        problems.append("audit file failed: " + text[-400:])
    discharged = sum(1 for t in details
                     if all(a in ALLOWED_AXIOMS for a in details[t]))
    return len(thms), discharged, details, problems


def run_driver(cases, timeout=3600):
    """cases: list of dicts (each gets an 'id').  Returns list of replies (dict) in order."""
    if not cases:
        return []
    lines = []
    for i, c in enumerate(cases):
        c = dict(c)
        c["id"] = i
        lines.append(json.dumps(c))
    inp = "\n".join(lines) + "\n"
    p = subprocess.run(["lake", "env", "lean", "--run", "Driver.lean"], cwd=LEAN, input=inp,
                       capture_output=True, text=True, timeout=timeout)
    if p.returncode != 0:
        raise DriverError("driver exited %d: %s" % (p.returncode, (p.stderr or p.stdout)[-2000:]))
    outs = [json.loads(l) for l in p.stdout.splitlines() if l.strip()]
    if len(outs) != len(cases):
        raise DriverError("driver answered %d of %d lines: %s" % (len(outs), len(cases), p.stderr[-500:]))
    for i, o in enumerate(outs):
        if o.get("id") != i:
            raise DriverError("driver reply out of order at %d" % i)
    return outs


class DriverError(Exception):
    pass


# --------------------------------------------------------------------------- results
class Result:
    """What one property module reports back to `check`."""

    def __init__(self):
        self.evaluations = 0          # cases run on the implementation
        self.signatures = set()       # distinct non-trivial case signatures
        self.samples = []             # a few cases written out
        self.distribution = {}        # histogram of the generated inputs
        self.disagreements = []       # model != implementation  (list of dicts)
        self.violations = []          # property oracle failed on the implementation (dicts)
        self.known_hits = []          # violations matched by a known finding
        self.traces = 0               # cases compared model vs implementation
        self.notes = []
        self.exhaustive = False
        self.rule = ""
        self.extra = {}

    def count(self, key, n=1):
        self.distribution[key] = self.distribution.get(key, 0) + n

    def sample(self, s, limit=4):
        if len(self.samples) < limit:
            self.samples.append(s)

    def violation(self, signature, what, replay):
        """signature: short stable string identifying the failing input/call site."""
        self.violations.append({"signature": signature, "what": what, "replay": replay})

    def disagree(self, what, case):
        self.disagreements.append({"what": what, "case": case})


def jsonable(o):
    try:
        import numpy as np
        if isinstance(o, np.ndarray):
            return o.tolist()
        if isinstance(o, (np.floating,)):
            return float(o)
        if isinstance(o, (np.integer,)):
            return int(o)
        if isinstance(o, (np.bool_,)):
            return bool(o)
    except ImportError:
        pass
    if isinstance(o, (set, tuple)):
        return list(o)
    if isinstance(o, float):
        return o
    return repr(o)


def dumps(o, **kw):
    return json.dumps(o, default=jsonable, **kw)
