"""C03 — MST, kappa_ext and PPN are multiplicative distance rescalings."""
import math

import numpy as np

from harness.common import run_driver, f2b, b2f, close, err_enum
from harness import lens_common as lc

ID = "C03"
LEAN_MODULES = ["HierArc.Props.C03"]
TRANSLATE = ["tables"]
# when the translator cannot follow a rewritten source, the last generated model is run against the implementation instead
TRANSLATOR_FALLBACK = True
RULE = ("for each of the 14 likelihood types: random lens configuration (IFU flag, alpha/beta scaling "
        "properties, global Gaussian LOS population or none, 1-d kinematic scaling grid, lambda_mst "
        "distribution flag) x random sharp hyper-parameters x random distances; streams (incl. `signs`: product above the floor with one factor tiny or negative): above the 1e-4 "
        "floor (oracle + correspondence), neutral values, degenerate (lambda,kappa) pairs, below the floor "
        "(correspondence only); distinct = (type, mst_ifu, los, scaling, alpha, beta, lambda_sampling) "
        "signature x stream")
ASSUMPTIONS = [
    "the per-type data likelihoods are external functions of the routed arguments (C06 covers them)",
    "np.random.normal(loc, 0) returns loc (model: loc + 0*xi); kin_scaling result taken from the real call",
    "DdtDdKDE cannot be constructed in this environment (lenstronomy API drift): exercised through the "
    "generated dispatch table with a stub data likelihood",
    "lambda*(1-kappa) >= 1e-4 as in the property's quantifier (below the floor: correspondence only; lambda = 0 "
    "exactly is part of the floor stream since the repo fix for F15)",
]
TRUSTED = ["hand-written model HierArc/Model/Lens.lean tied by differential execution",
           "translator/tables.py (dispatch table of LensLikelihoodBase.log_likelihood)"]
LEVEL_TEXT = ("Lean theorems over ℝ: displace_prediction is the stated rescaling above the floor, "
              "neutral values, PPN/MST and λ/κ commutation and composition, (λ,κ)≡(λ(1−κ),0); for sharp "
              "hyper-parameters every successful single evaluation hands Ddt·λ(1−κ), Dd(1+γ)/2, μ+Δμ+5log10(λ(1−κ)), "
              "β, λ with λ=(λ_int|λ_ifu)+αx+βy to the dispatch, and (every evaluation) the SLOPE the configuration determines: "
              "the lens' own entry of the slope list, the global slope — its mean for the delta-function form and for the "
              "Gaussian form of zero width — or the isothermal 2 (lens_slope, lens_slope_global_sharp, lens_slope_own); "
              "the dispatch table is regenerated from the source and "
              "decided (each type exactly one branch; non-DSPL branches read only Ddt, Dd, scaling, σ_sys, magnitude; "
              "DSPL gets β, γ_pl, λ).  The model's own definitions are run against LensLikelihood.hyper_param_likelihood "
              "for all 14 types (arguments reaching the data likelihood, random-draw requests, realised parameters) and "
              "the property statement is evaluated on the real code.")
LEVEL_NOTE = ("trusted: Lean kernel+Mathlib; hand model of draw/displace/dispatch plumbing (validated by correspondence, "
              "tol 1e-12); data likelihoods, kin_scaling values and the RNG are parameters; floats vs ℝ")
TECHNIQUE = "Lean 4 proof (field arithmetic, case analysis of the draw monad, decide on the generated dispatch table) + correspondence"

TOL = 1e-9


def direct_data(lens, ltype, ddt, dd, ks, sv, mag, beta, gpl, lam):
    """the underlying data likelihood at given (already transformed) values, by the documented signature"""
    f = lens._lens_type.log_likelihood
    if ltype in ("DdtGaussian", "DdtLogNorm", "DdtHist", "DdtHistKDE"):
        return f(ddt, dd)
    if ltype in ("DdtDdKDE", "DdtDdGaussian", "DsDdsGaussian"):
        return f(ddt, dd, kin_scaling=ks)
    if ltype in lc.KIN_TYPES:
        return f(ddt, dd, kin_scaling=ks, sigma_v_sys_error=sv)
    if ltype == "Mag":
        return f(mu_intrinsic=mag)
    if ltype in ("TDMag", "TDMagMagnitude"):
        return f(ddt=ddt, mu_intrinsic=mag)
    if ltype == "DSPL":
        return f(beta_dsp=beta, gamma_pl=gpl, lambda_mst=lam)
    raise ValueError(ltype)


def lens_lambda(cfg, h):
    kl = h["kwargs_lens"]
    base = kl.get("lambda_ifu", 1) if cfg.get("mst_ifu") else kl.get("lambda_mst", 1)
    return base + kl.get("alpha_lambda", 0) * cfg["lambda_scaling_property"] + kl.get("beta_lambda", 0) * cfg["lambda_scaling_property_beta"]


def lens_kappa(cfg, h):
    if "global_los_distribution" in cfg:
        return h["kwargs_los"][cfg["global_los_distribution"]]["mean"]
    return 0.0


def gen_case(rng, ltype, stream):
    cfg, h = lc.gen_lens_cfg(rng, ltype, sharp=True,
                             with_los=(False if stream == "neutral" else True if stream == "signs" else None))
    data = {} if ltype == "DdtDdKDE" else lc.data_kwargs(rng, ltype)
    lc.finish_scaling(rng, cfg, data, ltype)
    if stream == "neutral":
        cfg["mst_ifu"] = False
        h["kwargs_lens"] = dict(lambda_mst=1.0, gamma_ppn=1.0, lambda_mst_sigma=0.0)
    if stream == "floor":
        # lambda_tot below 1e-4, including lambda = 0 exactly (Python float: F15 was a ZeroDivisionError there)
        key = "lambda_ifu" if cfg["mst_ifu"] else "lambda_mst"
        h["kwargs_lens"][key] = rng.choice([1e-5, -0.3, 5e-5, 0.0])
        h["kwargs_lens"].pop("alpha_lambda", None)
        h["kwargs_lens"].pop("beta_lambda", None)
    if stream == "signs":
        # the product lambda*(1-kappa) is above the floor although ONE factor alone is below it (tiny or negative):
        # the rescaling is by the product (displace_formula needs only the product above the floor)
        pairs = [(-0.5, 3.0), (-2.0, 1.4), (8e-5, -0.5), (9e-5, -1.0), (5e-5, -9.0), (3.0, 0.99997), (0.9, 0.99985)]
        if ltype == "DSPL":
            pairs = [p for p in pairs if p[0] > 0]      # a negative lambda makes the DSPL data likelihood complex
        lam, kap = rng.choice(pairs)
        key = "lambda_ifu" if cfg["mst_ifu"] else "lambda_mst"
        h["kwargs_lens"][key] = lam
        h["kwargs_lens"].pop("alpha_lambda", None)
        h["kwargs_lens"].pop("beta_lambda", None)
        idx = cfg["global_los_distribution"]
        cfg["los_distributions"][idx] = "GAUSSIAN"
        h["kwargs_los"][idx] = dict(mean=kap, sigma=0.0)
    if ltype == "DSPL":
        # the three routes by which a double-source-plane lens gets its slope: its own entry of the slope list, the global
        # slope as a delta function (the default distribution) or as a Gaussian of zero width; or none (isothermal)
        route = rng.choice(["own", "own", "global_none", "global_none", "global_gauss", "none"])
        if route == "own":
            h["kwargs_lens"]["gamma_pl_list"] = [rng.uniform(1.8, 2.2) for _ in range(3)]
            cfg["gamma_pl_index"] = rng.randrange(3)
        elif route.startswith("global"):
            cfg["gamma_pl_global_sampling"] = True
            cfg["gamma_pl_global_dist"] = "NONE" if route == "global_none" else "GAUSSIAN"
            h["kwargs_lens"]["gamma_pl_mean"] = rng.choice([rng.uniform(1.7, 2.3), 1.8, 2.15])
            h["kwargs_lens"]["gamma_pl_sigma"] = 0.0 if route == "global_gauss" else rng.choice([0.0, 0.1])
    ddt, dd = rng.uniform(3000, 7000), rng.uniform(800, 1500)
    dlum = rng.uniform(-3, 3) if ltype in lc.MAG_TYPES else 0.0
    beta = rng.uniform(0.5, 0.9) if ltype == "DSPL" else None
    return dict(ltype=ltype, cfg=cfg, hyper=h, data=data, ddt=ddt, dd=dd, dlum=dlum, beta=beta, stream=stream)


def to_json(case):
    def cv(o):
        if isinstance(o, np.ndarray):
            return o.tolist()
        if isinstance(o, dict):
            return {k: cv(v) for k, v in o.items()}
        if isinstance(o, (list, tuple)):
            return [cv(v) for v in o]
        return o
    return cv(case)


def from_json(case):
    c = dict(case)
    cfg = dict(c["cfg"])
    for k in ("j_kin_scaling_param_axes",):
        if k in cfg:
            v = cfg[k]
            cfg[k] = [np.array(a) for a in v] if (len(v) and isinstance(v[0], (list, tuple))) else np.array(v)
    if "j_kin_scaling_grid_list" in cfg:
        cfg["j_kin_scaling_grid_list"] = [np.array(g) for g in cfg["j_kin_scaling_grid_list"]]
    c["cfg"] = cfg
    data = dict(c["data"])
    for k, v in data.items():
        if isinstance(v, list):
            data[k] = np.array(v)
    c["data"] = data
    return c


def evaluate(case, seed):
    """run the real code; returns (result dict, recorder, lens)"""
    lens = lc.make_lens(case["ltype"], case["cfg"], case["data"])
    rec = lc.Recorder(lens)
    np.random.seed(seed)
    out = {}
    with rec.on():
        try:
            v = np.squeeze(lens.hyper_param_likelihood(case["ddt"], case["dd"], case["dlum"], beta_dsp=case["beta"], **case["hyper"]))
            if np.iscomplexobj(v):
                # below the floor only (negative lambda handed to the DSPL data likelihood, an external function of the
                # routed arguments: (negative)**fraction is complex in Python); the value itself is not compared there
                out["complex"] = True
                v = v.real
            out["value"] = float(v)
        except Exception as e:  # noqa
            out["err"] = err_enum(e)
    return out, rec, lens


def oracle(case, out, rec, lens):
    fails = []
    if case["stream"] == "floor":
        return fails
    cfg, h, lt = case["cfg"], case["hyper"], case["ltype"]
    if "err" in out:
        return ["raised %s" % out["err"]]
    lam = lens_lambda(cfg, h)
    kap = lens_kappa(cfg, h)
    lt_tot = lam * (1 - kap)
    if lt_tot < 1e-4 or lam == 0:
        return fails
    gam = h["kwargs_lens"].get("gamma_ppn", 1)
    ks = rec.kin[-1][1] if rec.kin else None
    ks = np.array(ks) if ks is not None else None
    sv = h["kwargs_kin"].get("sigma_v_sys_error")
    mu = h["kwargs_source"].get("mu_sne", 1)
    gpl = 2
    if cfg.get("gamma_pl_index") is not None:
        gpl = h["kwargs_lens"]["gamma_pl_list"][cfg["gamma_pl_index"]]
    elif cfg.get("gamma_pl_global_sampling") is True:
        gpl = h["kwargs_lens"]["gamma_pl_mean"]
    want = direct_data(lens, lt, case["ddt"] * lt_tot, case["dd"] * (1 + gam) / 2, ks, sv,
                       mu + case["dlum"] + 5 * math.log10(lt_tot), case["beta"], gpl, lam)
    want = float(np.squeeze(want))
    if not close(out["value"], want, TOL):
        fails.append("lens log-likelihood %r != data likelihood at rescaled distances %r" % (out["value"], want))
    if len(rec.data) != 1:
        fails.append("sharp evaluation made %d data-likelihood calls" % len(rec.data))
    if case["stream"] == "main" and not out.get("complex"):
        # the hyper-parameters as a caller may hold them: numpy scalars in 0-d arrays (np.array(x), the result of np.squeeze, an
        # entry of a structured record).  Same value — also the second time the same dictionaries are handed over — and the
        # caller's arrays are left as they were
        h2 = {k: (dict(v) if isinstance(v, dict) else (None if v is None else [dict(x) for x in v])) for k, v in h.items()}
        for key in ("lambda_mst", "lambda_ifu", "alpha_lambda", "beta_lambda", "gamma_ppn"):
            if key in h2["kwargs_lens"]:
                h2["kwargs_lens"][key] = np.array(float(h2["kwargs_lens"][key]))
        before = {k: float(v) for k, v in h2["kwargs_lens"].items() if isinstance(v, np.ndarray)}
        lens2 = lc.make_lens(lt, cfg, case["data"])
        try:
            vals = []
            for _ in range(2):
                np.random.seed(1)
                v2 = np.squeeze(lens2.hyper_param_likelihood(case["ddt"], case["dd"], case["dlum"], beta_dsp=case["beta"], **h2))
                vals.append(float(v2.real if np.iscomplexobj(v2) else v2))
            after = {k: float(v) for k, v in h2["kwargs_lens"].items() if isinstance(v, np.ndarray)}
            if after != before:
                fails.append("hyper-parameters held in 0-d arrays were modified by the evaluation: %r -> %r" % (before, after))
            if not (close(vals[0], out["value"], 1e-9) and close(vals[1], out["value"], 1e-9)):
                fails.append("hyper-parameters held in 0-d arrays: values %r (two evaluations with the same dictionaries), with plain floats %r"
                             % (vals, out["value"]))
        except Exception as e:  # noqa
            fails.append("hyper-parameters held in 0-d arrays raised %s" % err_enum(e))
    if case["stream"] == "neutral":
        bare = float(np.squeeze(direct_data(lens, lt, case["ddt"], case["dd"], ks, sv, mu + case["dlum"], case["beta"], gpl, 1.0)))
        if not close(out["value"], bare, TOL):
            fails.append("neutral values change the prediction: %r vs %r" % (out["value"], bare))
    if case["stream"] == "degenerate" and lt != "DSPL":
        # (lambda, kappa) -> (lambda (1-kappa), 0)
        c2 = dict(case)
        h2 = {k: (dict(v) if isinstance(v, dict) else (None if v is None else [dict(x) for x in v])) for k, v in h.items()}
        key = "lambda_ifu" if cfg.get("mst_ifu") else "lambda_mst"
        base = h2["kwargs_lens"].get(key, 1)
        h2["kwargs_lens"][key] = base + (lt_tot - lam)
        if h2["kwargs_los"] is not None:
            h2["kwargs_los"][cfg["global_los_distribution"]]["mean"] = 0.0
        c2["hyper"] = h2
        o2, _, _ = evaluate(c2, 1)
        if "err" in o2 or not close(o2["value"], out["value"], 1e-8):
            fails.append("(lambda,kappa) and (lambda(1-kappa),0) differ: %r vs %r" % (out.get("value"), o2))
    return fails


def run(ctx, res):
    rng = ctx.rng
    per = ctx.n(36, 700)
    cases = []
    for lt in lc.TYPES:
        for t in range(per):
            stream = ["main", "main", "main", "degenerate", "neutral", "floor", "signs"][t % 7]
            cases.append(gen_case(rng, lt, stream))
    lines, impl = [], []
    for case in cases:
        try:
            out, rec, lens = evaluate(case, ctx.np_seed())
        except Exception as e:  # noqa – construction failed: harness problem, surface it
            res.notes.append("construction failed for %s: %r" % (case["ltype"], e))
            res.count("ctor_fail=" + case["ltype"])
            impl.append(None)
            lines.append(None)
            continue
        res.evaluations += 1
        res.count("type=" + case["ltype"])
        res.count("stream=" + case["stream"])
        cfg = case["cfg"]
        res.signatures.add((case["ltype"], case["stream"], cfg["mst_ifu"], "global_los_distribution" in cfg,
                            "kin_scaling_param_list" in cfg, cfg["alpha_lambda_sampling"], cfg["beta_lambda_sampling"],
                            cfg["lambda_mst_distribution"]))
        for f in oracle(case, out, rec, lens):
            res.violation("LensLikelihood.hyper_param_likelihood[%s]:%s" % (case["ltype"], f.split(" ")[0] + " " + f.split(" ")[1]),
                          f, to_json(case))
        if len(res.samples) < 3 and case["stream"] == "main" and case["ltype"] in ("IFUKinCov", "TDMag", "DSPL"):
            res.sample({"type": case["ltype"], "hyper": case["hyper"], "ddt": case["ddt"], "dd": case["dd"],
                        "value": out.get("value"), "data_call": lc.canon_data_call(*rec.data[0][:2]) if rec.data else None})
        impl.append((out, rec))
        lines.append({"op": "Lens.single", "cfg": lc.encode_cfg(lens, case["ltype"], case["cfg"]), "hyper": lc.encode_hyper(case["hyper"]),
                      "ddt": f2b(case["ddt"]), "dd": f2b(case["dd"]), "dLum": f2b(case["dlum"]), "beta": lc.opt(case["beta"]),
                      "ext": {"losDraw": (f2b(rec.gev[0]) if rec.gev else None),
                              "kinScaling": [f2b(x) for x in (rec.kin[0][1] if rec.kin else [])]},
                      "stream": [f2b(r) for _, _, r in rec.normals], "fuel": 50})
    if ctx.search_mode:
        return
    idx = [i for i, l in enumerate(lines) if l is not None]
    outs = run_driver([lines[i] for i in idx])
    for i, o in zip(idx, outs):
        out, rec = impl[i]
        case = cases[i]
        res.traces += 1
        cj = to_json(case)
        if "err" in o or "err" in out:
            if o.get("err") != out.get("err"):
                res.disagree("error: model %s impl %s" % (o.get("err"), out.get("err")), cj)
            else:
                res.count("err=" + o["err"])
            continue
        m = o["ok"]
        if m["left"] != 0:
            res.disagree("model consumed %d fewer draws than the implementation" % m["left"], cj)
            continue
        reqs = [(b2f(a), b2f(b)) for a, b in m["reqs"]]
        got = [(a, b) for a, b, _ in rec.normals]
        if len(reqs) != len(got) or not all(close(x[0], y[0], 1e-12) and close(x[1], y[1], 1e-12) for x, y in zip(reqs, got)):
            res.disagree("np.random.normal requests: model %s impl %s" % (reqs, got), cj)
            continue
        if not rec.data:
            res.disagree("implementation made no data-likelihood call", cj)
            continue
        want = lc.canon_data_call(*rec.data[0][:2])
        have = lc.decode_vals(m["routed"]) if m["routed"] is not None else None
        if have is None or set(have) != set(want):
            res.disagree("routed argument names: model %s impl %s" % (have and sorted(have), sorted(want)), cj)
            continue
        bad = [k for k in want if not same_val(have[k], want[k])]
        if bad:
            res.disagree("routed argument values differ at %s: model %s impl %s" % (bad, {k: have[k] for k in bad}, {k: want[k] for k in bad}), cj)
            continue
        if rec.kin:
            kp = rec.kin[0][0] or {}
            mp = {k: b2f(v) for k, v in m["kwargsParam"]}
            if set(kp) != set(mp) or not all(close(float(np.squeeze(kp[k])), mp[k], 1e-12) for k in kp):
                res.disagree("kwargs_param handed to kin_scaling: model %s impl %s" % (mp, kp), cj)


def same_val(a, b):
    if a is None or b is None:
        return a is None and b is None
    if isinstance(a, list) or isinstance(b, list):
        a = a if isinstance(a, list) else [a]
        b = b if isinstance(b, list) else [b]
        return len(a) == len(b) and all(close(x, y, 1e-12) for x, y in zip(a, b))
    return close(a, b, 1e-12)


def replay(ctx, data):
    case = from_json(data["input"])
    out, rec, lens = evaluate(case, 0)
    fails = oracle(case, out, rec, lens)
    return bool(fails), "oracle on the implementation: %s" % (fails or "holds")
