/-
  C15 — MCMC driver: samples in the prior box, log-probs match, interrupted runs resume.
  Property theorems about `HierArc.Mcmc` instantiated at ℝ.

  Reading guide (clause of the property → theorem):
  * "a run that does not ask to continue starts from an emptied store"
        → `fresh_resets_then_appends`, `fresh_independent_of_history`, `fresh_stopped_in_init_empty`,
          `history_fresh_last`
  * "a run stopped after any number of stored iterations and continued from its backend keeps all
     stored iterations bit-identical and appends exactly the requested new ones"
        → `continue_preserves_prefix` (every stop point of the continued run as well),
          `continue_ok_iff` (exactly when a continue goes through — the three side conditions are
          the findings F14 / unused in-memory allocation / shape),
          `continue_empty_store_fails`, `continue_unused_allocation_fails` (the code as it is),
          `continue_fixed_ok_iff`, `continue_fixed_empty_store` (the proposed repair),
          `history_continue_last`, `history_continues_prefix` (any sequence of runs)
  * "returns n_walkers*n_run samples whose dimension is the number of free parameters"
        → `returned_shape`, `returned_count_continue`
  * "each inside the prior box" → `in_box_if_start_in_box`, `history_in_box`,
          `in_box_needs_start_in_box_counterexample` (F8: the hypothesis cannot be dropped)
  * "stored log-probability equal to the likelihood re-evaluated at that sample"
        → `stored_logp_is_likelihood`, `returned_logp_is_likelihood`
  * "parameter names in vector order" → `names_in_vector_order` (from the generated ladders of
    `ParamManager` and the generated form of `MCMCSampler.param_names`, re-translated on every run;
    C01's theorems) — and evaluated on real samplers with every block populated (harness oracle).
-/
import HierArc.Model.Mcmc
import HierArc.Props.C01
import HierArc.Proofs.Mcmc
import HierArc.Proofs.RealInst
import Mathlib.Tactic.Linarith
import Mathlib.Tactic.NormNum

namespace HierArc.Mcmc
open HierArc

abbrev Lik := List ℝ → Option ℝ

/-! ### the box gate over ℝ -/

/-- componentwise `lo ≤ x ≤ hi` -/
def Inside : List ℝ → List ℝ → List ℝ → Prop
  | [], _, _ => True
  | x :: xs, l :: ls, h :: hs => (l ≤ x ∧ x ≤ h) ∧ Inside xs ls hs
  | _ :: _, _, _ => False

theorem inBox_iff_inside (x lo hi : List ℝ) : inBox x lo hi = true ↔ Inside x lo hi := by
  induction x generalizing lo hi with
  | nil => simp [inBox, Inside]
  | cons a t ih =>
    cases lo with
    | nil => simp [inBox, Inside]
    | cons l ls =>
      cases hi with
      | nil => simp [inBox, Inside]
      | cons h hs =>
        simp only [inBox, Inside]
        by_cases hout : a < l ∨ a > h
        · simp only [hout, if_true]
          constructor
          · intro hf; cases hf
          · rintro ⟨⟨h1, h2⟩, _⟩
            rcases hout with h' | h'
            · exact absurd h1 (not_le.mpr h')
            · exact absurd h2 (not_le.mpr h')
        · simp only [hout, if_false]
          rw [ih]
          have h1 : l ≤ a := not_lt.mp (fun h' => hout (Or.inl h'))
          have h2 : a ≤ h := not_lt.mp (fun h' => hout (Or.inr h'))
          exact ⟨fun hi' => ⟨⟨h1, h2⟩, hi'⟩, fun hi' => hi'.2⟩

/-- `Inside` is the pointwise statement -/
theorem inside_pointwise {x lo hi : List ℝ} (h : Inside x lo hi) (hl : x.length = lo.length)
    (hh : x.length = hi.length) (i : ℕ) (hi' : i < x.length) :
    lo[i]'(hl ▸ hi') ≤ x[i] ∧ x[i] ≤ hi[i]'(hh ▸ hi') := by
  induction x generalizing lo hi i with
  | nil => simp at hi'
  | cons a t ih =>
    cases lo with
    | nil => simp at hl
    | cons l ls =>
      cases hi with
      | nil => simp at hh
      | cons u us =>
        obtain ⟨hb, hrest⟩ := h
        cases i with
        | zero => simpa using hb
        | succ j =>
          simp only [List.getElem_cons_succ]
          exact ih hrest (by simpa using hl) (by simpa using hh) j (by simpa using hi')

/-- the −inf gate: a finite log-probability is only ever returned inside the box -/
theorem gatedLik_some_inside {lo hi : List ℝ} {L : Lik} {y : List ℝ} {l : ℝ}
    (h : gatedLik lo hi L y = some l) : Inside y lo hi := by
  unfold gatedLik at h
  split at h
  · rename_i hb; exact (inBox_iff_inside _ _ _).mp hb
  · cases h

/-! ### a run that does not ask to continue starts from an emptied store -/

/-- **fresh resets then appends**: whatever the backend held, after a fresh run it holds exactly
    the iterations of this run, one per executed step. -/
theorem fresh_resets_then_appends (lik : Lik) (b : Backend ℝ) (r : Req ℝ) (hc : r.cont = false)
    (hi : r.initCrash = false) :
    (runOp lik b r).1.iters = runSteps lik (initEns lik r.ball) (r.moves.take r.n) ∧
    (runOp lik b r).1.iters.length = min r.n r.moves.length ∧
    (runOp lik b r).1.nw = r.nw ∧ (runOp lik b r).1.nd = r.nd := by
  simp [runOp, runOpGen, startFromBall, hc, hi, Backend.reset, runSteps_length]

theorem fresh_independent_of_history (lik : Lik) (b b' : Backend ℝ) (r : Req ℝ)
    (hc : r.cont = false) : (runOp lik b r).1.iters = (runOp lik b' r).1.iters := by
  simp only [runOp, runOpGen, hc, Bool.false_eq_true, if_false, startFromBall, Backend.reset]
  split <;> simp

/-- a fresh run stopped while its start ensemble is evaluated leaves an *empty* store -/
theorem fresh_stopped_in_init_empty (lik : Lik) (b : Backend ℝ) (r : Req ℝ) (hc : r.cont = false)
    (hi : r.initCrash = true) :
    (runOp lik b r).1.iters = [] ∧ (runOp lik b r).2 = .stopped := by
  simp [runOp, runOpGen, startFromBall, hc, hi, Backend.reset]

example : (runOp (fun _ => some 0) ⟨false, 2, 1, 5, [[⟨[1], some 3⟩, ⟨[2], none⟩]]⟩
    ⟨false, 1, 1, 1, [[7]], false, [[some [8]]]⟩).1.iters = [[⟨[8], some 0⟩]] := by
  simp [runOp, runOpGen, startFromBall, Backend.reset, runSteps, initEns, step, stepWalker]

/-! ### continued runs -/

/-- **continue preserves prefix** — for every stop point of the continued run: the stored
    iterations stay in place (as a list prefix: same values, same order), a completed run appends
    exactly the `n = n_burn + n_run` requested iterations, a run stopped after `k < n` steps
    appends exactly `k`, a refused run changes nothing at all. -/
theorem continue_preserves_prefix (fb : Bool) (lik : Lik) (b : Backend ℝ) (r : Req ℝ)
    (hc : r.cont = true) :
    ∃ new, (runOpGen fb lik b r).1.iters = b.iters ++ new ∧
      ((runOpGen fb lik b r).2 = .ok → new.length = r.n) ∧
      ((runOpGen fb lik b r).2 = .stopped → new.length = r.moves.length ∧ new.length < r.n ∨
          r.initCrash = true ∧ new = []) ∧
      (∀ e, (runOpGen fb lik b r).2 = .err e → (runOpGen fb lik b r).1 = b) := by
  have hloop : ∀ (e0 : Ensemble ℝ),
      (loopOutcome r = .ok → (runSteps lik e0 (r.moves.take r.n)).length = r.n) ∧
      (loopOutcome r = .stopped →
        (runSteps lik e0 (r.moves.take r.n)).length = r.moves.length ∧
        (runSteps lik e0 (r.moves.take r.n)).length < r.n) := by
    intro e0
    rw [runSteps_length, List.length_take, loopOutcome_ok_iff, loopOutcome_stopped_iff]
    constructor <;> intro h <;> omega
  have hball : ∃ new, (startFromBall lik b r).1.iters = b.iters ++ new ∧
      ((startFromBall lik b r).2 = .ok → new.length = r.n) ∧
      ((startFromBall lik b r).2 = .stopped → new.length = r.moves.length ∧ new.length < r.n ∨
          r.initCrash = true ∧ new = []) ∧
      (∀ e, (startFromBall lik b r).2 = .err e → (startFromBall lik b r).1 = b) := by
    unfold startFromBall
    by_cases hi : r.initCrash = true
    · refine ⟨[], by simp [hi], by simp [hi], fun _ => Or.inr ⟨hi, rfl⟩, by simp [hi]⟩
    · have hi' : r.initCrash = false := by simpa using hi
      simp only [hi', Bool.false_eq_true, if_false]
      split
      · exact ⟨[], by simp, by simp, by simp, by simp⟩
      · refine ⟨runSteps lik (initEns lik r.ball) (r.moves.take r.n), rfl, (hloop _).1,
          fun h => Or.inl ((hloop _).2 h), ?_⟩
        intro e h
        exact absurd h (loopOutcome_ne_err r e)
  unfold runOpGen
  simp only [hc, if_true]
  split
  · exact ⟨[], by simp, by simp, by simp, by simp⟩
  · cases hl : b.iters.getLast? with
    | none =>
      cases fb with
      | false => exact ⟨[], by simp, by simp, by simp, by simp⟩
      | true => simpa using hball
    | some e =>
      simp only
      split
      · exact ⟨[], by simp, by simp, by simp, by simp⟩
      · refine ⟨runSteps lik e (r.moves.take r.n), rfl, (hloop e).1,
          fun h => Or.inl ((hloop e).2 h), ?_⟩
        intro e' h
        exact absurd h (loopOutcome_ne_err r e')

/-- **exactly when a continue goes through** (the code as it is): shapes agree, at least one
    iteration is stored (F14), an in-memory backend has no unused allocation beyond the request
    (emcee `Backend.grow`), and the run is not stopped. -/
theorem continue_ok_iff (lik : Lik) (b : Backend ℝ) (r : Req ℝ) (hc : r.cont = true) :
    (runOp lik b r).2 = .ok ↔
      (b.nw = r.nw ∧ b.nd = r.nd) ∧ b.iters ≠ [] ∧
      (b.hdf = true ∨ b.cap ≤ b.iters.length + r.n) ∧ r.n ≤ r.moves.length := by
  unfold runOp runOpGen
  simp only [hc, if_true]
  by_cases hs : b.nw ≠ r.nw ∨ b.nd ≠ r.nd
  · simp only [hs, if_true]
    constructor
    · intro h; cases h
    · rintro ⟨⟨h1, h2⟩, _⟩; rcases hs with h | h
      · exact absurd h1 h
      · exact absurd h2 h
  · simp only [hs, if_false]
    have hs' : b.nw = r.nw ∧ b.nd = r.nd := by
      constructor <;> by_contra h
      · exact hs (Or.inl h)
      · exact hs (Or.inr h)
    cases hl : b.iters.getLast? with
    | none =>
      have : b.iters = [] := getLast?_eq_none hl
      simp [this]
    | some e =>
      have hne : b.iters ≠ [] := by
        intro h; rw [h] at hl; simp at hl
      simp only
      by_cases hg : (!b.hdf && decide (b.iters.length + r.n < b.cap)) = true
      · simp only [hg, if_true]
        constructor
        · intro h; cases h
        · rintro ⟨_, _, h3, _⟩
          simp only [Bool.and_eq_true, Bool.not_eq_true', decide_eq_true_eq] at hg
          rcases h3 with h3 | h3
          · rw [hg.1] at h3; cases h3
          · omega
      · simp only [hg, Bool.false_eq_true, if_false]
        simp only [Bool.and_eq_true, Bool.not_eq_true', decide_eq_true_eq, not_and, not_lt] at hg
        show loopOutcome r = Outcome.ok ↔ _
        rw [loopOutcome_ok_iff]
        constructor
        · intro h
          refine ⟨hs', hne, ?_, h⟩
          cases hh : b.hdf with
          | true => exact Or.inl rfl
          | false => exact Or.inr (hg hh)
        · rintro ⟨_, _, _, h4⟩
          exact h4

/-- **F14 in the model**: a store with no iteration (run stopped before its first stored
    iteration) cannot be continued by the code as it is. -/
theorem continue_empty_store_fails (lik : Lik) (b : Backend ℝ) (r : Req ℝ) (hc : r.cont = true)
    (hs : b.nw = r.nw ∧ b.nd = r.nd) (he : b.iters = []) :
    runOp lik b r = (b, .err .attributeError) := by
  simp [runOp, runOpGen, hc, hs.1, hs.2, he]

/-- an in-memory backend whose stopped run left more unused allocation than the continued run
    requests refuses the run (emcee `np.empty` with a negative length) -/
theorem continue_unused_allocation_fails (lik : Lik) (b : Backend ℝ) (r : Req ℝ)
    (hc : r.cont = true) (hs : b.nw = r.nw ∧ b.nd = r.nd) (he : b.iters ≠ [])
    (hm : b.hdf = false) (hcap : b.iters.length + r.n < b.cap) :
    runOp lik b r = (b, .err .valueError) := by
  obtain ⟨e, hl⟩ : ∃ e, b.iters.getLast? = some e := by
    cases h : b.iters.getLast? with
    | none => exact absurd (getLast?_eq_none h) he
    | some e => exact ⟨e, rfl⟩
  simp [runOp, runOpGen, hc, hs.1, hs.2, hl, hm, hcap]

/-- after a run stopped after `k` steps of `n` requested, the in-memory allocation is `n` -/
theorem stopped_run_leaves_allocation (lik : Lik) (b : Backend ℝ) (r : Req ℝ)
    (hc : r.cont = false) (hi : r.initCrash = false) :
    (runOp lik b r).1.cap = r.n := by
  simp [runOp, runOpGen, startFromBall, hc, hi, Backend.reset]

/-- **the proposed repair** (start from the ball when nothing is stored): a continue goes
    through exactly when shapes agree, there is no unused in-memory allocation beyond the request,
    and the run is not stopped — the empty store is no longer excluded. -/
theorem continue_fixed_ok_iff (lik : Lik) (b : Backend ℝ) (r : Req ℝ) (hc : r.cont = true) :
    (runOpFixed lik b r).2 = .ok ↔
      (b.nw = r.nw ∧ b.nd = r.nd) ∧ (b.iters = [] → r.initCrash = false) ∧
      (b.hdf = true ∨ b.cap ≤ b.iters.length + r.n) ∧ r.n ≤ r.moves.length := by
  unfold runOpFixed runOpGen
  simp only [hc, if_true]
  by_cases hs : b.nw ≠ r.nw ∨ b.nd ≠ r.nd
  · simp only [hs, if_true]
    constructor
    · intro h; cases h
    · rintro ⟨⟨h1, h2⟩, _⟩; rcases hs with h | h
      · exact absurd h1 h
      · exact absurd h2 h
  · simp only [hs, if_false]
    have hs' : b.nw = r.nw ∧ b.nd = r.nd := by
      constructor <;> by_contra h
      · exact hs (Or.inl h)
      · exact hs (Or.inr h)
    have hslack : ∀ (res : Backend ℝ) (hne : b.iters = [] → r.initCrash = false),
        ((if (!b.hdf && decide (b.iters.length + r.n < b.cap)) = true
            then (b, Outcome.err Err.valueError) else (res, loopOutcome r)).2 = .ok ↔
          (b.nw = r.nw ∧ b.nd = r.nd) ∧ (b.iters = [] → r.initCrash = false) ∧
          (b.hdf = true ∨ b.cap ≤ b.iters.length + r.n) ∧ r.n ≤ r.moves.length) := by
      intro res hne
      by_cases hg : (!b.hdf && decide (b.iters.length + r.n < b.cap)) = true
      · simp only [hg, if_true]
        constructor
        · intro h; cases h
        · rintro ⟨_, _, h3, _⟩
          simp only [Bool.and_eq_true, Bool.not_eq_true', decide_eq_true_eq] at hg
          rcases h3 with h3 | h3
          · rw [hg.1] at h3; cases h3
          · omega
      · simp only [hg, Bool.false_eq_true, if_false]
        simp only [Bool.and_eq_true, Bool.not_eq_true', decide_eq_true_eq, not_and, not_lt] at hg
        rw [loopOutcome_ok_iff]
        constructor
        · intro h
          refine ⟨hs', hne, ?_, h⟩
          cases hh : b.hdf with
          | true => exact Or.inl rfl
          | false => exact Or.inr (hg hh)
        · rintro ⟨_, _, _, h4⟩
          exact h4
    cases hl : b.iters.getLast? with
    | none =>
      have hnil : b.iters = [] := getLast?_eq_none hl
      unfold startFromBall
      by_cases hi : r.initCrash = true
      · simp only [hi, if_true]
        constructor
        · intro h; cases h
        · rintro ⟨_, h2, _⟩
          have := h2 hnil
          cases this
      · have hi' : r.initCrash = false := by simpa using hi
        rw [if_neg hi]
        exact hslack _ (fun _ => hi')
    | some e =>
      have hne : b.iters ≠ [] := by
        intro h; rw [h] at hl; simp at hl
      exact hslack _ (fun h => absurd h hne)

/-- the repaired continue on an empty store behaves like a fresh run without the reset: it stores
    exactly the run's own iterations -/
theorem continue_fixed_empty_store (lik : Lik) (b : Backend ℝ) (r : Req ℝ) (hc : r.cont = true)
    (hs : b.nw = r.nw ∧ b.nd = r.nd) (he : b.iters = []) (hi : r.initCrash = false)
    (hcap : b.hdf = true ∨ b.cap ≤ r.n) :
    (runOpFixed lik b r).1.iters = runSteps lik (initEns lik r.ball) (r.moves.take r.n) := by
  have hg : ¬ (b.hdf = false ∧ r.n < b.cap) := by
    rintro ⟨h1, h2⟩
    rcases hcap with h | h
    · rw [h1] at h; cases h
    · omega
  simp [runOpFixed, runOpGen, startFromBall, hc, hs.1, hs.2, he, hi, hg]

/-! non-vacuity of the continue theorems: a stored iteration, an in-memory backend whose
    allocation (3) does not exceed stored + requested (1 + 2), two executed steps -/
example : (runOp (fun _ => some (0:ℝ)) ⟨false, 1, 1, 3, [[⟨[1], some 3⟩]]⟩
    ⟨true, 1, 1, 2, [[7]], false, [[some [8]], [none]]⟩).2 = .ok := by
  rw [continue_ok_iff _ _ _ rfl]; simp

/-- the same request on a store emptied by a run stopped in its first step: refused (F14) … -/
example : runOp (fun _ => some (0:ℝ)) ⟨true, 1, 1, 2, []⟩
    ⟨true, 1, 1, 2, [[7]], false, [[some [8]], [none]]⟩
    = (⟨true, 1, 1, 2, []⟩, .err .attributeError) :=
  continue_empty_store_fails _ _ _ rfl ⟨rfl, rfl⟩ rfl

/-- … and accepted by the repaired code, storing the two requested iterations -/
example : (runOpFixed (fun _ => some (0:ℝ)) ⟨true, 1, 1, 2, []⟩
    ⟨true, 1, 1, 2, [[7]], false, [[some [8]], [none]]⟩).2 = .ok := by
  rw [continue_fixed_ok_iff _ _ _ rfl]; simp

/-- in-memory store of a 6-step run stopped after 1 step, continued with 2 steps: refused -/
example : runOp (fun _ => some (0:ℝ)) ⟨false, 1, 1, 6, [[⟨[1], some 3⟩]]⟩
    ⟨true, 1, 1, 2, [[7]], false, [[some [8]], [none]]⟩
    = (⟨false, 1, 1, 6, [[⟨[1], some 3⟩]]⟩, .err .valueError) :=
  continue_unused_allocation_fails _ _ _ rfl ⟨rfl, rfl⟩ (by simp) rfl (by simp)

/-- a continued run stopped after 1 of 3 requested steps appends exactly 1 iteration -/
example : (runOp (fun _ => some (0:ℝ)) ⟨true, 1, 1, 1, [[⟨[1], some 3⟩]]⟩
    ⟨true, 1, 1, 3, [[7]], false, [[some [8]]]⟩).1.iters
    = [[⟨[1], some 3⟩]] ++ [[⟨[8], some 0⟩]] := by
  simp [runOp, runOpGen, runSteps, step, stepWalker]

/-! ### any sequence of fresh and continued runs on one backend -/

/-- after any history, one more continued run keeps everything stored so far -/
theorem history_continue_last (fb : Bool) (lik : Lik) (b : Backend ℝ) (rs : List (Req ℝ))
    (r : Req ℝ) (hc : r.cont = true) :
    ∃ new, (runHistoryGen fb lik b (rs ++ [r])).iters =
        (runHistoryGen fb lik b rs).iters ++ new ∧
      ((runOpGen fb lik (runHistoryGen fb lik b rs) r).2 = .ok → new.length = r.n) := by
  obtain ⟨new, h1, h2, _⟩ := continue_preserves_prefix fb lik (runHistoryGen fb lik b rs) r hc
  exact ⟨new, by rw [history_snoc]; exact h1, h2⟩

/-- after any history, one more fresh run leaves exactly its own iterations -/
theorem history_fresh_last (lik : Lik) (b : Backend ℝ) (rs : List (Req ℝ)) (r : Req ℝ)
    (hc : r.cont = false) (hi : r.initCrash = false) :
    (runHistory lik b (rs ++ [r])).iters =
      runSteps lik (initEns lik r.ball) (r.moves.take r.n) := by
  unfold runHistory
  rw [history_snoc]
  exact (fresh_resets_then_appends lik _ r hc hi).1

/-- any sequence of continued runs (completed, stopped at any point, refused) only appends -/
theorem history_continues_prefix (fb : Bool) (lik : Lik) (b : Backend ℝ) (rs : List (Req ℝ))
    (hc : ∀ r ∈ rs, r.cont = true) : b.iters <+: (runHistoryGen fb lik b rs).iters := by
  induction rs generalizing b with
  | nil => exact List.prefix_refl _
  | cons r rs ih =>
    obtain ⟨new, h1, _⟩ := continue_preserves_prefix fb lik b r (hc r (by simp))
    have := ih (runOpGen fb lik b r).1 (fun r' hr' => hc r' (by simp [hr']))
    rw [h1] at this
    exact (List.prefix_append _ _).trans this

/-! ### stored log-probability = likelihood at the stored sample -/

/-- the stored log-probability of a walker is the likelihood at its position -/
def LogpOK (lik : Lik) (w : Walker ℝ) : Prop := w.lp = lik w.x

/-- **stored logp is likelihood**: starting from a consistent (e.g. empty) store, after any
    history of fresh / continued / stopped runs every stored walker carries the likelihood of its
    own position.  Purity of the likelihood is what makes `lik` a function here. -/
theorem stored_logp_is_likelihood (fb : Bool) (lik : Lik) (b : Backend ℝ)
    (hb : StoreSat (LogpOK lik) b) (rs : List (Req ℝ)) :
    StoreSat (LogpOK lik) (runHistoryGen fb lik b rs) := by
  refine runHistoryGen_sat (Q := fun _ => True) ?_ hb (fun _ _ _ _ => rfl)
    (fun r _ => movesSat_true r.moves)
  intro y l _ h
  exact h.symm

/-- non-vacuity: a non-empty consistent store -/
example : StoreSat (LogpOK (fun x => some x.sum)) ⟨true, 1, 2, 1, [[⟨[1, 2], some 3⟩]]⟩ := by
  intro e he w hw
  simp at he; subst he; simp at hw; subst hw
  simp [LogpOK]; norm_num

theorem empty_store_sat (P : Walker ℝ → Prop) (hdf : Bool) : StoreSat P (Backend.empty hdf) := by
  intro e he; simp [Backend.empty] at he

/-! ### inside the box -/

/-- **in box if start in box**: with the −inf gate, if every start ball that is evaluated lies in
    the box (and the store did before), every stored walker of every iteration after any history
    lies in the box. -/
theorem history_in_box (fb : Bool) (lo hi : List ℝ) (L : Lik) (b : Backend ℝ)
    (hb : StoreSat (fun w => Inside w.x lo hi) b) (rs : List (Req ℝ))
    (hball : ∀ r ∈ rs, ∀ x ∈ r.ball, Inside x lo hi) :
    StoreSat (fun w => Inside w.x lo hi) (runHistoryGen fb (gatedLik lo hi L) b rs) := by
  refine runHistoryGen_sat (Q := fun _ => True) ?_ hb hball (fun r _ => movesSat_true r.moves)
  intro y l _ h
  exact gatedLik_some_inside h

/-- single fresh run, pointwise form: `lo[i] ≤ x[i] ≤ hi[i]` for every stored walker -/
theorem in_box_if_start_in_box (lo hi : List ℝ) (L : Lik) (b : Backend ℝ) (r : Req ℝ)
    (hc : r.cont = false) (hball : ∀ x ∈ r.ball, Inside x lo hi) :
    ∀ e ∈ (runOp (gatedLik lo hi L) b r).1.iters, ∀ w ∈ e, Inside w.x lo hi := by
  have h := runOpGen_sat (fb := false) (lik := gatedLik lo hi L) (Q := fun _ => True)
    (P := fun w => Inside w.x lo hi) (b := b.reset r.nw r.nd) (r := r)
    (fun y l _ h => gatedLik_some_inside h) (reset_sat _ b _ _) (fun _ => hball)
    (movesSat_true r.moves)
  have heq : runOp (gatedLik lo hi L) b r = runOpGen false (gatedLik lo hi L) (b.reset r.nw r.nd) r := by
    simp [runOp, runOpGen, hc, Backend.reset]
  rw [heq]; exact h

/-- **F8 in the model**: the hypothesis on the start ball cannot be dropped — a start walker
    outside the box is stored with log-probability −inf and stays there as long as no proposal is
    accepted. -/
theorem in_box_needs_start_in_box_counterexample :
    ∃ (lo hi : List ℝ) (L : Lik) (r : Req ℝ), r.cont = false ∧
      ∃ e ∈ (runOp (gatedLik lo hi L) (Backend.empty false) r).1.iters, ∃ w ∈ e,
        ¬ Inside w.x lo hi ∧ w.lp = none := by
  refine ⟨[60], [80], fun _ => some 0, ⟨false, 1, 1, 1, [[81]], false, [[none]]⟩, rfl, ?_⟩
  refine ⟨[⟨[81], none⟩], ?_, ⟨[81], none⟩, by simp, ?_, rfl⟩
  · have : inBox ([81] : List ℝ) [60] [80] = false := by
      simp only [inBox]; norm_num
    simp [runOp, runOpGen, startFromBall, Backend.reset, Backend.empty, runSteps, initEns, step,
      stepWalker, gatedLik, this]
  · simp only [Inside]; norm_num

example : Inside [70, 0.3] [50, 0.05] [100, 0.8] := by
  simp only [Inside]; norm_num

/-- non-vacuity of `history_in_box`: a fresh run followed by a continued run, balls in the box,
    a proposal outside the box is rejected by the gate -/
example : StoreSat (fun w => Inside w.x [60] [80])
    (runHistoryGen false (gatedLik [60] [80] (fun _ => some 0)) (Backend.empty true)
      [⟨false, 2, 1, 1, [[70], [75]], false, [[some [90], some [76]]]⟩,
       ⟨true, 2, 1, 1, [[61], [62]], false, [[none, some [59]]]⟩]) := by
  apply history_in_box _ _ _ _ _ (empty_store_sat _ true)
  intro r hr x hx
  simp at hr
  rcases hr with rfl | rfl <;> simp at hx <;> rcases hx with rfl | rfl <;>
    (simp only [Inside]; norm_num)

/-! ### what `mcmc_emcee` returns -/

theorem runOpGen_fresh_reset (fb : Bool) (lik : Lik) (b : Backend ℝ) (r : Req ℝ)
    (hc : r.cont = false) :
    runOpGen fb lik b r = runOpGen fb lik (b.reset r.nw r.nd) r := by
  simp [runOpGen, hc, Backend.reset]

/-- whatever is returned was stored -/
theorem returned_mem {b : Backend ℝ} {nburn : ℕ} {ws : List (Walker ℝ)}
    (h : returned b nburn = .ok ws) : ∀ w ∈ ws, ∃ e ∈ b.iters, w ∈ e := by
  unfold returned at h
  split at h
  · cases h
  · injection h with h
    subst h
    intro w hw
    obtain ⟨e, he, hwe⟩ := List.mem_flatten.mp hw
    exact ⟨e, List.mem_of_mem_drop he, hwe⟩

/-- number of returned samples of a non-empty store of uniform width -/
theorem returned_count {b : Backend ℝ} (hw : StoreWidth b) (hne : b.iters ≠ []) (nburn : ℕ) :
    ∃ ws, returned b nburn = .ok ws ∧ ws.length = (b.iters.length - nburn) * b.nw := by
  unfold returned
  have : b.iters.isEmpty = false := by
    cases h : b.iters with
    | nil => exact absurd h hne
    | cons _ _ => rfl
  simp only [this]
  refine ⟨_, rfl, ?_⟩
  rw [length_flatten_of_width _ b.nw (fun e he => hw e (List.mem_of_mem_drop he)),
    List.length_drop]

/-- **returned shape**: a completed fresh run with `n_walkers` start walkers of dimension
    `num_param`, `n = n_burn + n_run` steps (`n_run ≥ 1`) and proposals of that dimension returns
    exactly `n_run · n_walkers` samples, each of dimension `num_param` — whatever the backend held
    before. -/
theorem returned_shape (lik : Lik) (b : Backend ℝ) (r : Req ℝ) (nburn nrun : ℕ)
    (hc : r.cont = false) (hi : r.initCrash = false) (hn : r.n = nburn + nrun) (hrun : 0 < nrun)
    (hm : r.moves.length = r.n) (hw : r.ball.length = r.nw)
    (hd : ∀ x ∈ r.ball, x.length = r.nd) (hq : MovesSat (fun y => y.length = r.nd) r.moves) :
    ∃ ws, returned (runOp lik b r).1 nburn = .ok ws ∧ ws.length = nrun * r.nw ∧
      ∀ w ∈ ws, w.x.length = r.nd := by
  obtain ⟨_, hlen, hnw, _⟩ := fresh_resets_then_appends lik b r hc hi
  have hwidth : StoreWidth (runOp lik b r).1 := by
    unfold runOp
    rw [runOpGen_fresh_reset _ _ _ _ hc]
    exact runOpGen_width (by intro e he; simp [Backend.reset] at he) hw
  have hdim : StoreSat (fun w => w.x.length = r.nd) (runOp lik b r).1 := by
    unfold runOp
    rw [runOpGen_fresh_reset _ _ _ _ hc]
    exact runOpGen_sat (Q := fun y => y.length = r.nd) (fun y l hy _ => hy)
      (reset_sat _ b _ _) (fun _ => hd) hq
  have hlen' : (runOp lik b r).1.iters.length = nburn + nrun := by
    rw [hlen, hm, hn]; simp
  have hne : (runOp lik b r).1.iters ≠ [] := by
    intro h; rw [h] at hlen'; simp at hlen'; omega
  obtain ⟨ws, hret, hcount⟩ := returned_count hwidth hne nburn
  refine ⟨ws, hret, ?_, ?_⟩
  · rw [hcount, hlen', hnw]; congr 1; omega
  · intro w hw'
    obtain ⟨e, he, hwe⟩ := returned_mem hret w hw'
    exact hdim e he w hwe

/-- a completed continued run returns `(stored_before + n_burn + n_run − n_burn) · n_walkers`
    samples: the discard counts from the start of the *store* (the property fixes only the size of
    a fresh run; this is what the code does). -/
theorem returned_count_continue (fb : Bool) (lik : Lik) (b : Backend ℝ) (r : Req ℝ) (nburn : ℕ)
    (hc : r.cont = true) (hb : StoreWidth b) (hne : b.iters ≠ []) (hw : r.ball.length = r.nw)
    (hok : (runOpGen fb lik b r).2 = .ok) :
    ∃ ws, returned (runOpGen fb lik b r).1 nburn = .ok ws ∧
      ws.length = (b.iters.length + r.n - nburn) * r.nw := by
  obtain ⟨new, h1, h2, _⟩ := continue_preserves_prefix fb lik b r hc
  have hwidth : StoreWidth (runOpGen fb lik b r).1 := runOpGen_width hb hw
  have hne' : (runOpGen fb lik b r).1.iters ≠ [] := by
    rw [h1]; simp [hne]
  have hnw : (runOpGen fb lik b r).1.nw = r.nw := by
    unfold runOpGen at hok ⊢
    simp only [hc, if_true] at hok ⊢
    split
    · rename_i hs; simp [hs] at hok
    · rename_i hs
      have : b.nw = r.nw := by by_contra h; exact hs (Or.inl h)
      cases hl : b.iters.getLast? with
      | none => exact absurd (getLast?_eq_none hl) hne
      | some e =>
        simp only
        split <;> simp [this]
  obtain ⟨ws, hret, hcount⟩ := returned_count hwidth hne' nburn
  refine ⟨ws, hret, ?_⟩
  rw [hcount, hnw, h1, List.length_append, h2 hok]

/-- non-vacuity: 1 stored iteration of 2 walkers, continued by 2 steps, n_burn = 1 →
    (1 + 2 − 1)·2 = 4 samples -/
example : ∃ ws, returned (runOpGen false (fun _ => some (0:ℝ))
      ⟨true, 2, 1, 1, [[⟨[70], some 0⟩, ⟨[75], some 0⟩]]⟩
      ⟨true, 2, 1, 2, [[1], [2]], false, [[some [71], none], [none, none]]⟩).1 1 = .ok ws ∧
    ws.length = (1 + 2 - 1) * 2 := by
  apply returned_count_continue _ _ _ _ _ rfl
  · intro e he; simp at he; subst he; rfl
  · simp
  · rfl
  · exact (continue_ok_iff _ _ _ rfl).mpr (by simp)

/-- every returned sample carries the likelihood of its own position (any history from a
    consistent store, any `n_burn`) -/
theorem returned_logp_is_likelihood (fb : Bool) (lik : Lik) (b : Backend ℝ)
    (hb : StoreSat (LogpOK lik) b) (rs : List (Req ℝ)) (nburn : ℕ) (ws : List (Walker ℝ))
    (h : returned (runHistoryGen fb lik b rs) nburn = .ok ws) : ∀ w ∈ ws, w.lp = lik w.x := by
  intro w hw
  obtain ⟨e, he, hwe⟩ := returned_mem h w hw
  exact stored_logp_is_likelihood fb lik b hb rs e he w hwe

/-- every returned sample lies in the box if every evaluated start ball does -/
theorem returned_in_box (fb : Bool) (lo hi : List ℝ) (L : Lik) (hdf : Bool) (rs : List (Req ℝ))
    (hball : ∀ r ∈ rs, ∀ x ∈ r.ball, Inside x lo hi) (nburn : ℕ) (ws : List (Walker ℝ))
    (h : returned (runHistoryGen fb (gatedLik lo hi L) (Backend.empty hdf) rs) nburn = .ok ws) :
    ∀ w ∈ ws, Inside w.x lo hi := by
  intro w hw
  obtain ⟨e, he, hwe⟩ := returned_mem h w hw
  exact history_in_box fb lo hi L _ (empty_store_sat _ hdf) rs hball e he w hwe

/-! non-vacuity: a concrete 2-walker, 1-parameter fresh run with burn-in 1 and 1 kept step, one
    proposal rejected by the gate, satisfies every hypothesis of `returned_shape` -/
example : ∃ ws, returned (runOp (gatedLik [60] [80] (fun _ => some (0:ℝ))) (Backend.empty true)
      ⟨false, 2, 1, 2, [[70], [75]], false, [[some [71], none], [some [90], some [76]]]⟩).1 1
      = .ok ws ∧ ws.length = 1 * 2 ∧ ∀ w ∈ ws, w.x.length = 1 := by
  apply returned_shape _ _ _ 1 1 rfl rfl rfl (by norm_num) rfl rfl
  · intro x hx; simp at hx; rcases hx with rfl | rfl <;> rfl
  · intro m hm y hy
    simp at hm
    rcases hm with rfl | rfl <;> simp at hy <;> (try rcases hy with rfl | rfl) <;> simp_all

/-! ### parameter names in vector order -/

/-- **"parameter names in vector order"**: `MCMCSampler.param_names` forwards `ParamManager.param_list`
    (generated form of the method); `param_list`, `args2kwargs` and `kwargs2args` concatenate the blocks in one
    and the same order (generated); inside every block the plain name of a scalar slot is the dictionary key that
    slot is written to / read from (generated, decided), and for every list of block instances the name list has
    exactly one entry per vector slot while the j-th slot of a block receives the component `i + j` of the vector
    (C01 `names_count`, `ith_component`, for every configuration).  Hence the k-th name returned by the sampler
    names the k-th column of the stored / returned samples. -/
theorem names_in_vector_order :
    Gen.mcmcParamNames = "forwards param_list(latex_style)"
    ∧ (Gen.orderNames = Gen.orderA2K ∧ Gen.orderA2K = Gen.orderK2A ∧ Gen.orderNames = Gen.blockTable.map (·.name))
    ∧ Gen.blockTable.all C01.plainIsKey = true
    ∧ (∀ insts : List (Ladder.Inst ℝ), (∀ p ∈ insts, p.1 ∈ Gen.blockTable) →
        (Ladder.namesAll insts).length = Ladder.countAll insts)
    ∧ (∀ b ∈ Gen.blockTable, ∀ (c : Ladder.Cfg ℝ), Ladder.ConstsPresent c b →
        ∀ (args : List ℝ) (i : ℕ), i + Ladder.slotCount c b ≤ args.length →
        ∃ (L : List Ladder.CSlot) (d : Ladder.KDict ℝ), L.length = Ladder.slotCount c b
          ∧ (∀ (j : ℕ) (s : Ladder.CSlot), L[j]? = some s → Ladder.KDict.get? d s.key = (args[i + j]?).map s.tr.app)
          ∧ (Ladder.concN c b.names).length = L.length) := by
  refine ⟨C01.generated_mcmc_names, C01.generated_orders_agree, C01.generated_plain_names, C01.names_count, ?_⟩
  intro b hb c hc args i hlen
  obtain ⟨L, d, h1, _, h3, _, _, _, h7⟩ := C01.ith_component b hb c hc args i hlen
  exact ⟨L, d, h1, h3, h7⟩

end HierArc.Mcmc
