/-
  Helper lemmas for C09 (model `HierArc.Draws` at ℝ): ranges, one checked draw, the re-draw recursion,
  attempt-level specifications of `draw_anisotropy` / `draw_lens`.
-/
import HierArc.Model.Draws
import HierArc.Proofs.RealInst
import Mathlib.Tactic.Linarith
import Mathlib.Tactic.NormNum
import Mathlib.Data.List.Infix

namespace HierArc.Draws
open HierArc

/-! ### ranges -/

/-- `x` lies in the closed range (absent ends are unbounded) -/
def Rng.mem (r : Rng ℝ) (x : ℝ) : Prop :=
  (∀ l, r.lo = some l → l ≤ x) ∧ (∀ h, r.hi = some h → x ≤ h)

theorem Rng.out_eq_false (r : Rng ℝ) (x : ℝ) : r.out x = false ↔ r.mem x := by
  rcases r with ⟨lo, hi⟩
  cases lo <;> cases hi <;> simp [Rng.out, Rng.mem, not_lt]

theorem Rng.out_eq_true (r : Rng ℝ) (x : ℝ) : r.out x = true ↔ ¬ r.mem x := by
  rw [← Rng.out_eq_false]; simp

/-! ### one checked draw -/

theorem drawChecked_some {r : Rng ℝ} {pop loc sc : ℝ} {post : ℝ → ℝ} {s s' : List ℝ} {v : ℝ}
    (h : drawChecked r pop loc sc post s = .ok (some v, s')) :
    r.mem pop ∧ r.mem v ∧ 0 ≤ sc ∧ ∃ z, s = z :: s' ∧ v = post (loc + sc * z) := by
  unfold drawChecked at h
  split at h
  · cases h
  · rename_i hpop
    split at h
    · cases h
    · rename_i hsc
      cases s with
      | nil => cases h
      | cons z t =>
        simp only at h
        split at h
        · cases h
        · rename_i hv
          simp only [Except.ok.injEq, Prod.mk.injEq, Option.some.injEq] at h
          obtain ⟨rfl, rfl⟩ := h
          refine ⟨(Rng.out_eq_false _ _).mp (by simpa using hpop),
                  (Rng.out_eq_false _ _).mp (by simpa using hv), ?_, _, rfl, rfl⟩
          rw [lit_zero] at hsc; exact not_lt.mp hsc

theorem drawChecked_none {r : Rng ℝ} {pop loc sc : ℝ} {post : ℝ → ℝ} {s s' : List ℝ}
    (h : drawChecked r pop loc sc post s = .ok (none, s')) :
    ∃ z, s = z :: s' ∧ ¬ r.mem (post (loc + sc * z)) := by
  unfold drawChecked at h
  split at h
  · cases h
  · split at h
    · cases h
    · cases s with
      | nil => cases h
      | cons z t =>
        simp only at h
        split at h
        · rename_i hv
          simp only [Except.ok.injEq, Prod.mk.injEq, true_and] at h
          subst h
          exact ⟨z, rfl, (Rng.out_eq_true _ _).mp hv⟩
        · cases h

theorem drawChecked_popOut {r : Rng ℝ} {pop : ℝ} (h : ¬ r.mem pop) (loc sc : ℝ) (post : ℝ → ℝ)
    (s : List ℝ) : drawChecked r pop loc sc post s = .error .valueError := by
  unfold drawChecked
  rw [if_pos ((Rng.out_eq_true _ _).mpr h)]

/-- a checked draw whose every realisation is outside the range never accepts -/
theorem drawChecked_never {r : Rng ℝ} {pop loc sc : ℝ} {post : ℝ → ℝ}
    (hout : ∀ z, ¬ r.mem (post (loc + sc * z))) (s s' : List ℝ) (v : ℝ) :
    drawChecked r pop loc sc post s ≠ .ok (some v, s') := by
  intro h
  obtain ⟨_, hv, _, z, _, rfl⟩ := drawChecked_some h
  exact hout z hv

/-! ### the re-draw recursion -/

section Retry
variable {β : Type}

/-- `RejChain att s s₀ k`: starting on stream `s`, `k` successive attempts are rejected and leave `s₀` -/
inductive RejChain (att : List ℝ → Res ℝ (Option β)) : List ℝ → List ℝ → ℕ → Prop
  | refl (s : List ℝ) : RejChain att s s 0
  | step {s s1 s2 : List ℝ} {k : ℕ} : att s = .ok (none, s1) → RejChain att s1 s2 k →
      RejChain att s s2 (k + 1)

/-- **first accepted attempt**: `retry` returns `d` iff, after `k < fuel` rejected attempts, the next
    attempt returns `d`. -/
theorem retry_ok_iff (att : List ℝ → Res ℝ (Option β)) (fuel : ℕ) (s s' : List ℝ) (d : β) :
    retry att fuel s = .ok (d, s') ↔
      ∃ k s₀, k < fuel ∧ RejChain att s s₀ k ∧ att s₀ = .ok (some d, s') := by
  induction fuel generalizing s with
  | zero => simp [retry]
  | succ n ih =>
    unfold retry
    constructor
    · intro h
      split at h
      · cases h
      · rename_i d' s1 hatt
        simp only [Except.ok.injEq, Prod.mk.injEq] at h
        obtain ⟨rfl, rfl⟩ := h
        exact ⟨0, s, Nat.succ_pos _, RejChain.refl _, hatt⟩
      · rename_i s1 hatt
        obtain ⟨k, s₀, hk, hc, ha⟩ := (ih s1).mp h
        exact ⟨k + 1, s₀, Nat.succ_lt_succ hk, RejChain.step hatt hc, ha⟩
    · rintro ⟨k, s₀, hk, hc, ha⟩
      cases hc with
      | refl => rw [ha]
      | step h1 h2 =>
        rw [h1]
        exact (ih _).mpr ⟨_, s₀, Nat.lt_of_succ_lt_succ hk, h2, ha⟩

theorem RejChain.suffix {att : List ℝ → Res ℝ (Option β)}
    (hsuf : ∀ a b, att a = .ok (none, b) → b <:+ a) {s s₀ : List ℝ} {k : ℕ}
    (h : RejChain att s s₀ k) : s₀ <:+ s := by
  induction h with
  | refl => exact List.suffix_refl _
  | step h1 _ ih => exact ih.trans (hsuf _ _ h1)

/-- whatever holds of every accepted attempt on a suffix of the stream holds of the result of `retry` -/
theorem retry_ok_spec {att : List ℝ → Res ℝ (Option β)}
    (hsuf : ∀ a b, att a = .ok (none, b) → b <:+ a)
    {fuel : ℕ} {s s' : List ℝ} {d : β} (h : retry att fuel s = .ok (d, s')) :
    ∃ s₀, s₀ <:+ s ∧ att s₀ = .ok (some d, s') := by
  obtain ⟨k, s₀, _, hc, ha⟩ := (retry_ok_iff att fuel s s' d).mp h
  exact ⟨s₀, hc.suffix hsuf, ha⟩

/-- an attempt that raises on every stream makes `retry` raise the same error (fuel ≥ 1) -/
theorem retry_error {att : List ℝ → Res ℝ (Option β)} {e : Err} {s : List ℝ}
    (h : att s = .error e) (fuel : ℕ) : retry att (fuel + 1) s = .error e := by
  unfold retry; rw [h]

/-- an attempt that can never accept makes `retry` never return a value -/
theorem retry_never {att : List ℝ → Res ℝ (Option β)}
    (h : ∀ s d s', att s ≠ .ok (some d, s')) (fuel : ℕ) (s : List ℝ) (d : β) (s' : List ℝ) :
    retry att fuel s ≠ .ok (d, s') := by
  intro hr
  obtain ⟨_, s₀, _, _, ha⟩ := (retry_ok_iff att fuel s s' d).mp hr
  exact h _ _ _ ha

/-- … and if it can neither accept nor raise anything but `streamEnd`, the only outcomes are stack
    exhaustion and the end of the recorded stream -/
theorem retry_only_recursion {att : List ℝ → Res ℝ (Option β)}
    (h : ∀ s, att s = .error .streamEnd ∨ ∃ s', att s = .ok (none, s')) (fuel : ℕ) (s : List ℝ) :
    retry att fuel s = .error .recursion ∨ retry att fuel s = .error .streamEnd := by
  induction fuel generalizing s with
  | zero => left; rfl
  | succ n ih =>
    unfold retry
    rcases h s with he | ⟨s', hs'⟩
    · rw [he]; right; rfl
    · rw [hs']; exact ih s'

/-- termination, as far as it goes: if after `k` rejected attempts one attempt accepts, any fuel `> k`
    returns it -/
theorem retry_returns {att : List ℝ → Res ℝ (Option β)} {s s₀ s' : List ℝ} {k : ℕ} {d : β}
    (hc : RejChain att s s₀ k) (ha : att s₀ = .ok (some d, s')) {fuel : ℕ} (hf : k < fuel) :
    retry att fuel s = .ok (d, s') :=
  (retry_ok_iff att fuel s s' d).mpr ⟨k, s₀, hf, hc, ha⟩

end Retry

/-! ### attempt-level specification of `draw_anisotropy` -/

theorem aniStageA_some {c : AniCfg ℝ} {p : AniPar ℝ} {s s1 : List ℝ} {d : Dict ℝ}
    (h : aniStageA c p s = .ok (some d, s1)) :
    (c.model = .NONE ∧ d = [] ∧ s1 = s) ∨
    (c.model ≠ .NONE ∧ ∃ a v, p.a = some a ∧ d = [("a_ani", v)] ∧ c.aRng.mem a ∧ c.aRng.mem v ∧
      ((c.dist = .none ∧ v = a ∧ s1 = s) ∨
       (c.dist ≠ .none ∧ 0 ≤ aniScale c.dist a p.aSig ∧
          ∃ z, s = z :: s1 ∧ v = aniPost c.dist (a + aniScale c.dist a p.aSig * z)))) := by
  unfold aniStageA at h
  split at h
  · rename_i hm
    simp only [Except.ok.injEq, Prod.mk.injEq, Option.some.injEq] at h
    exact Or.inl ⟨hm, h.1.symm, h.2.symm⟩
  · rename_i hm
    right
    refine ⟨fun hx => hm hx, ?_⟩
    split at h
    · cases h
    · rename_i a ha
      split at h
      · rename_i hd
        split at h
        · cases h
        · rename_i hout
          simp only [Except.ok.injEq, Prod.mk.injEq, Option.some.injEq] at h
          have hmem := (Rng.out_eq_false _ _).mp (by simpa using hout)
          exact ⟨a, a, ha, h.1.symm, hmem, hmem, Or.inl ⟨hd, rfl, h.2.symm⟩⟩
      · rename_i hd
        split at h
        · cases h
        · cases h
        · rename_i v s' hdc
          simp only [Except.ok.injEq, Prod.mk.injEq, Option.some.injEq] at h
          obtain ⟨hpop, hv, hsc, z, hs, hvz⟩ := drawChecked_some hdc
          obtain ⟨rfl, rfl⟩ := h
          exact ⟨a, v, ha, rfl, hpop, hv, Or.inr ⟨fun hx => hd hx, hsc, z, hs, hvz⟩⟩

theorem aniStageA_none {c : AniCfg ℝ} {p : AniPar ℝ} {s s1 : List ℝ}
    (h : aniStageA c p s = .ok (none, s1)) : ∃ z, s = z :: s1 := by
  unfold aniStageA at h
  split at h
  · cases h
  · split at h
    · cases h
    · split at h
      · split at h <;> cases h
      · split at h
        · cases h
        · rename_i s' hdc
          simp only [Except.ok.injEq, Prod.mk.injEq, true_and] at h
          obtain ⟨z, hs, _⟩ := drawChecked_none hdc
          exact ⟨z, h ▸ hs⟩
        · cases h

theorem aniStageA_popOut {c : AniCfg ℝ} {p : AniPar ℝ} {a : ℝ} (hm : c.model ≠ .NONE)
    (ha : p.a = some a) (hout : ¬ c.aRng.mem a) (s : List ℝ) :
    aniStageA c p s = .error .valueError := by
  unfold aniStageA
  split
  · rename_i h; exact absurd h hm
  · rw [ha]
    simp only
    split
    · rw [if_pos ((Rng.out_eq_true _ _).mpr hout)]
    · rw [drawChecked_popOut hout]

theorem aniStageB_some {c : AniCfg ℝ} {p : AniPar ℝ} {s s1 : List ℝ} {d d' : Dict ℝ}
    (h : aniStageB c p d s = .ok (some d', s1)) :
    (c.model ≠ .GOM ∧ d' = d ∧ s1 = s) ∨
    (c.model = .GOM ∧ ∃ b v, p.b = some b ∧ d' = d ++ [("beta_inf", v)] ∧ c.bRng.mem b ∧ c.bRng.mem v ∧
      (((c.dist = .gaussian ∨ c.dist = .scaled) ∧ 0 ≤ p.bSig ∧ ∃ z, s = z :: s1 ∧ v = b + p.bSig * z) ∨
       (¬ (c.dist = .gaussian ∨ c.dist = .scaled) ∧ v = b ∧ s1 = s))) := by
  unfold aniStageB at h
  split at h
  · rename_i hm
    right
    refine ⟨hm, ?_⟩
    split at h
    · cases h
    · rename_i b hb
      split at h
      · -- gaussian
        rename_i hd
        split at h
        · cases h
        · cases h
        · rename_i v s' hdc
          simp only [Except.ok.injEq, Prod.mk.injEq, Option.some.injEq] at h
          obtain ⟨hpop, hv, hsc, z, hs, hvz⟩ := drawChecked_some hdc
          obtain ⟨rfl, rfl⟩ := h
          exact ⟨b, v, hb, rfl, hpop, hv, Or.inl ⟨Or.inl hd, hsc, z, hs, hvz⟩⟩
      · rename_i hd
        split at h
        · cases h
        · cases h
        · rename_i v s' hdc
          simp only [Except.ok.injEq, Prod.mk.injEq, Option.some.injEq] at h
          obtain ⟨hpop, hv, hsc, z, hs, hvz⟩ := drawChecked_some hdc
          obtain ⟨rfl, rfl⟩ := h
          exact ⟨b, v, hb, rfl, hpop, hv, Or.inl ⟨Or.inr hd, hsc, z, hs, hvz⟩⟩
      · rename_i hd1 hd2
        split at h
        · cases h
        · rename_i hout
          simp only [Except.ok.injEq, Prod.mk.injEq, Option.some.injEq] at h
          have hmem := (Rng.out_eq_false _ _).mp (by simpa using hout)
          exact ⟨b, b, hb, h.1.symm, hmem, hmem,
            Or.inr ⟨fun hx => hx.elim (fun h1 => hd1 h1) (fun h2 => hd2 h2), rfl, h.2.symm⟩⟩
  · rename_i hm
    simp only [Except.ok.injEq, Prod.mk.injEq, Option.some.injEq] at h
    exact Or.inl ⟨fun hx => hm hx, h.1.symm, h.2.symm⟩

theorem aniStageB_none {c : AniCfg ℝ} {p : AniPar ℝ} {s s1 : List ℝ} {d : Dict ℝ}
    (h : aniStageB c p d s = .ok (none, s1)) : ∃ z, s = z :: s1 := by
  unfold aniStageB at h
  split at h
  · split at h
    · cases h
    · split at h
      · split at h
        · cases h
        · rename_i s' hdc
          simp only [Except.ok.injEq, Prod.mk.injEq, true_and] at h
          obtain ⟨z, hs, _⟩ := drawChecked_none hdc
          exact ⟨z, h ▸ hs⟩
        · cases h
      · split at h
        · cases h
        · rename_i s' hdc
          simp only [Except.ok.injEq, Prod.mk.injEq, true_and] at h
          obtain ⟨z, hs, _⟩ := drawChecked_none hdc
          exact ⟨z, h ▸ hs⟩
        · cases h
      · split at h <;> cases h
  · cases h

theorem aniStageB_popOut {c : AniCfg ℝ} {p : AniPar ℝ} {b : ℝ} (hm : c.model = .GOM)
    (hb : p.b = some b) (hout : ¬ c.bRng.mem b) (d : Dict ℝ) (s : List ℝ) :
    aniStageB c p d s = .error .valueError := by
  unfold aniStageB
  rw [hm, hb]
  simp only
  split
  · rw [drawChecked_popOut hout]
  · rw [drawChecked_popOut hout]
  · rw [if_pos ((Rng.out_eq_true _ _).mpr hout)]

/-- what one accepted pass through `draw_anisotropy` (sampling on) guarantees about the returned
    dictionary `d`, in terms of the stream `s` it ran on -/
structure AniOk (c : AniCfg ℝ) (p : AniPar ℝ) (s : List ℝ) (d : Dict ℝ) : Prop where
  a_spec : ∀ v, d.get? "a_ani" = some v → ∃ a, p.a = some a ∧ c.aRng.mem a ∧ c.aRng.mem v ∧
      (c.dist = .none → v = a) ∧
      (c.dist ≠ .none → 0 ≤ aniScale c.dist a p.aSig ∧
        ∃ z ∈ s, v = aniPost c.dist (a + aniScale c.dist a p.aSig * z))
  b_spec : ∀ v, d.get? "beta_inf" = some v → ∃ b, p.b = some b ∧ c.bRng.mem b ∧ c.bRng.mem v ∧
      ((c.dist = .gaussian ∨ c.dist = .scaled) → 0 ≤ p.bSig ∧ ∃ z ∈ s, v = b + p.bSig * z) ∧
      (¬ (c.dist = .gaussian ∨ c.dist = .scaled) → v = b)
  a_key : c.model ≠ .NONE → ∃ v, d.get? "a_ani" = some v
  b_key : c.model = .GOM → ∃ v, d.get? "beta_inf" = some v

theorem AniOk.mono {c : AniCfg ℝ} {p : AniPar ℝ} {s₀ s : List ℝ} {d : Dict ℝ}
    (hs : s₀ <:+ s) (h : AniOk c p s₀ d) : AniOk c p s d := by
  refine ⟨?_, ?_, h.a_key, h.b_key⟩
  · intro v hv
    obtain ⟨a, h1, h2, h3, h4, h5⟩ := h.a_spec v hv
    refine ⟨a, h1, h2, h3, h4, fun hd => ?_⟩
    obtain ⟨h6, z, hz, h7⟩ := h5 hd
    exact ⟨h6, z, hs.subset hz, h7⟩
  · intro v hv
    obtain ⟨b, h1, h2, h3, h4, h5⟩ := h.b_spec v hv
    refine ⟨b, h1, h2, h3, fun hd => ?_, h5⟩
    obtain ⟨h6, z, hz, h7⟩ := h4 hd
    exact ⟨h6, z, hs.subset hz, h7⟩

theorem aniAttempt_none {c : AniCfg ℝ} {p : AniPar ℝ} {s s' : List ℝ}
    (h : aniAttempt c p s = .ok (none, s')) : s' <:+ s := by
  unfold aniAttempt at h
  split at h
  · cases h
  · split at h
    · cases h
    · rename_i s1 hA
      simp only [Except.ok.injEq, Prod.mk.injEq, true_and] at h
      obtain ⟨z, hz⟩ := aniStageA_none hA
      subst h; rw [hz]; exact List.suffix_cons _ _
    · rename_i d1 s1 hA
      obtain ⟨z, hz⟩ := aniStageB_none h
      have h1 : s' <:+ s1 := by rw [hz]; exact List.suffix_cons _ _
      rcases aniStageA_some hA with ⟨_, _, rfl⟩ | ⟨_, a, v, _, _, _, _, (⟨_, _, rfl⟩ | ⟨_, _, z', hz', _⟩)⟩
      · exact h1
      · exact h1
      · rw [hz']; exact h1.trans (List.suffix_cons _ _)

theorem aniAttempt_ok {c : AniCfg ℝ} {p : AniPar ℝ} {s s' : List ℝ} {d : Dict ℝ}
    (hs : c.sampling = true) (h : aniAttempt c p s = .ok (some d, s')) :
    AniOk c p s d ∧ s' <:+ s := by
  unfold aniAttempt at h
  rw [hs] at h
  simp only [Bool.not_true, Bool.false_eq_true, ↓reduceIte] at h
  split at h
  · cases h
  · cases h
  · rename_i d1 s1 hA
    rcases aniStageA_some hA with ⟨hmN, rfl, rfl⟩ | ⟨hmN, a, va, hpa, rfl, hma, hmva, hlawA⟩
    · -- model NONE: stage B is the identity
      rcases aniStageB_some h with ⟨_, rfl, rfl⟩ | ⟨hG, _⟩
      · refine ⟨⟨?_, ?_, fun hx => absurd hmN hx, fun hx => ?_⟩, List.suffix_refl _⟩
        · intro v hv; simp [Dict.get?] at hv
        · intro v hv; simp [Dict.get?] at hv
        · rw [hmN] at hx; cases hx
      · rw [hmN] at hG; cases hG
    · have hsuf1 : s1 <:+ s := by
        rcases hlawA with ⟨_, _, rfl⟩ | ⟨_, _, z, hz, _⟩
        · exact List.suffix_refl _
        · rw [hz]; exact List.suffix_cons _ _
      have aspec : ∀ v, v = va → ∃ a', p.a = some a' ∧ c.aRng.mem a' ∧ c.aRng.mem v ∧
          (c.dist = .none → v = a') ∧
          (c.dist ≠ .none → 0 ≤ aniScale c.dist a' p.aSig ∧
            ∃ z ∈ s, v = aniPost c.dist (a' + aniScale c.dist a' p.aSig * z)) := by
        rintro v rfl
        refine ⟨a, hpa, hma, hmva, ?_, ?_⟩
        · intro hd
          rcases hlawA with ⟨_, h1, _⟩ | ⟨h1, _⟩
          · exact h1
          · exact absurd hd h1
        · intro hd
          rcases hlawA with ⟨h1, _⟩ | ⟨_, hsc, z, hz, hv⟩
          · exact absurd h1 hd
          · exact ⟨hsc, z, by rw [hz]; exact List.mem_cons_self, hv⟩
      rcases aniStageB_some h with ⟨hnG, rfl, rfl⟩ | ⟨hG, b, vb, hpb, rfl, hmb, hmvb, hlawB⟩
      · refine ⟨⟨?_, ?_, fun _ => ⟨va, by simp [Dict.get?]⟩, fun hx => absurd hx hnG⟩, hsuf1⟩
        · intro v hv
          simp [Dict.get?] at hv
          exact aspec v hv.symm
        · intro v hv; simp [Dict.get?] at hv
      · have hsuf2 : s' <:+ s1 := by
          rcases hlawB with ⟨_, _, z, hz, _⟩ | ⟨_, _, rfl⟩
          · rw [hz]; exact List.suffix_cons _ _
          · exact List.suffix_refl _
        refine ⟨⟨?_, ?_, fun _ => ⟨va, by simp [Dict.get?]⟩, fun _ => ⟨vb, by simp [Dict.get?]⟩⟩,
          hsuf2.trans hsuf1⟩
        · intro v hv
          simp [Dict.get?] at hv
          exact aspec v hv.symm
        · intro v hv
          simp [Dict.get?] at hv
          subst hv
          refine ⟨b, hpb, hmb, hmvb, ?_, ?_⟩
          · intro hd
            rcases hlawB with ⟨_, hsc, z, hz, hv⟩ | ⟨h1, _⟩
            · exact ⟨hsc, z, hsuf1.subset (by rw [hz]; exact List.mem_cons_self), hv⟩
            · exact absurd hd h1
          · intro hd
            rcases hlawB with ⟨h1, _⟩ | ⟨_, hv, _⟩
            · exact absurd h1 hd
            · exact hv

/-! ### attempt-level specification of `draw_lens` -/

theorem get?_append_single (d : Dict ℝ) (k k' : String) (x : ℝ) :
    Dict.get? (d ++ [(k', x)]) k =
      match Dict.get? d k with
      | some v => some v
      | none => if k' = k then some x else none := by
  induction d with
  | nil => simp [Dict.get?]
  | cons hd t ih =>
    obtain ⟨k1, v1⟩ := hd
    simp only [List.cons_append, Dict.get?]
    split
    · rfl
    · exact ih

theorem get?_append_single_ne (d : Dict ℝ) {k k' : String} (x : ℝ) (h : k' ≠ k) :
    Dict.get? (d ++ [(k', x)]) k = Dict.get? d k := by
  rw [get?_append_single]
  cases Dict.get? d k <;> simp [h]

theorem drawPlain_ok {loc sc : ℝ} {s s' : List ℝ} {x : ℝ} (h : drawPlain loc sc s = .ok (x, s')) :
    0 ≤ sc ∧ ∃ z, s = z :: s' ∧ x = loc + sc * z := by
  unfold drawPlain at h
  split at h
  · cases h
  · rename_i hsc
    cases s with
    | nil => cases h
    | cons z t =>
      simp only [Except.ok.injEq, Prod.mk.injEq] at h
      obtain ⟨rfl, rfl⟩ := h
      rw [lit_zero] at hsc
      exact ⟨not_lt.mp hsc, z, rfl, rfl⟩

theorem lensStageLambda_ok {c : LensCfg ℝ} {p : LensPar ℝ} {s s0 : List ℝ} {d0 : Dict ℝ}
    (h : lensStageLambda c p s = .ok (d0, s0)) :
    ∃ x, d0 = [("lambda_mst", x), ("gamma_ppn", p.gammaPpn)] ∧
      ((c.lambdaGaussian = true ∧ 0 ≤ lambdaSigma c p ∧ ∃ z, s = z :: s0 ∧ x = lambdaLens c p + lambdaSigma c p * z) ∨
       (c.lambdaGaussian = false ∧ x = lambdaLens c p ∧ s0 = s)) := by
  unfold lensStageLambda at h
  split at h
  · rename_i hg
    split at h
    · cases h
    · rename_i x s' hd
      simp only [Except.ok.injEq, Prod.mk.injEq] at h
      obtain ⟨hsc, z, hz, hx⟩ := drawPlain_ok hd
      obtain ⟨rfl, rfl⟩ := h
      exact ⟨x, rfl, Or.inl ⟨hg, hsc, z, hz, hx⟩⟩
  · rename_i hg
    simp only [Except.ok.injEq, Prod.mk.injEq] at h
    exact ⟨_, h.1.symm, Or.inr ⟨by simpa using hg, rfl, h.2.symm⟩⟩

/-- shape of a checked stage (`gamma_in`, `log_m2l`): off, or one accepted checked draw appended -/
theorem lensStageGammaIn_some {c : LensCfg ℝ} {p : LensPar ℝ} {s s1 : List ℝ} {d d1 : Dict ℝ}
    (h : lensStageGammaIn c p d s = .ok (some d1, s1)) :
    (c.gammaInSampling = false ∧ d1 = d ∧ s1 = s) ∨
    (c.gammaInSampling = true ∧ ∃ v, d1 = d ++ [("gamma_in", v)] ∧ c.gRng.mem p.gammaIn ∧ c.gRng.mem v ∧
      0 ≤ p.gammaInSigma ∧ ∃ z, s = z :: s1 ∧ v = gammaInLens c p + p.gammaInSigma * z) := by
  unfold lensStageGammaIn at h
  split at h
  · rename_i hg
    split at h
    · cases h
    · cases h
    · rename_i v s' hdc
      simp only [Except.ok.injEq, Prod.mk.injEq, Option.some.injEq] at h
      obtain ⟨hpop, hv, hsc, z, hs, hvz⟩ := drawChecked_some hdc
      obtain ⟨rfl, rfl⟩ := h
      exact Or.inr ⟨hg, v, rfl, hpop, hv, hsc, z, hs, hvz⟩
  · rename_i hg
    simp only [Except.ok.injEq, Prod.mk.injEq, Option.some.injEq] at h
    exact Or.inl ⟨by simpa using hg, h.1.symm, h.2.symm⟩

theorem lensStageGammaIn_none {c : LensCfg ℝ} {p : LensPar ℝ} {s s1 : List ℝ} {d : Dict ℝ}
    (h : lensStageGammaIn c p d s = .ok (none, s1)) :
    ∃ z, s = z :: s1 ∧ ¬ c.gRng.mem (gammaInLens c p + p.gammaInSigma * z) := by
  unfold lensStageGammaIn at h
  split at h
  · split at h
    · cases h
    · rename_i s' hdc
      simp only [Except.ok.injEq, Prod.mk.injEq, true_and] at h
      obtain ⟨z, hs, hz⟩ := drawChecked_none hdc
      exact ⟨z, h ▸ hs, hz⟩
    · cases h
  · cases h

theorem lensStageLogM2l_some {c : LensCfg ℝ} {p : LensPar ℝ} {s s1 : List ℝ} {d d1 : Dict ℝ}
    (h : lensStageLogM2l c p d s = .ok (some d1, s1)) :
    (c.logM2lSampling = false ∧ d1 = d ∧ s1 = s) ∨
    (c.logM2lSampling = true ∧ ∃ v, d1 = d ++ [("log_m2l", v)] ∧ c.mRng.mem p.logM2l ∧ c.mRng.mem v ∧
      0 ≤ p.logM2lSigma ∧ ∃ z, s = z :: s1 ∧ v = logM2lLens c p + p.logM2lSigma * z) := by
  unfold lensStageLogM2l at h
  split at h
  · rename_i hg
    split at h
    · cases h
    · cases h
    · rename_i v s' hdc
      simp only [Except.ok.injEq, Prod.mk.injEq, Option.some.injEq] at h
      obtain ⟨hpop, hv, hsc, z, hs, hvz⟩ := drawChecked_some hdc
      obtain ⟨rfl, rfl⟩ := h
      exact Or.inr ⟨hg, v, rfl, hpop, hv, hsc, z, hs, hvz⟩
  · rename_i hg
    simp only [Except.ok.injEq, Prod.mk.injEq, Option.some.injEq] at h
    exact Or.inl ⟨by simpa using hg, h.1.symm, h.2.symm⟩

theorem lensStageLogM2l_none {c : LensCfg ℝ} {p : LensPar ℝ} {s s1 : List ℝ} {d : Dict ℝ}
    (h : lensStageLogM2l c p d s = .ok (none, s1)) :
    ∃ z, s = z :: s1 ∧ ¬ c.mRng.mem (logM2lLens c p + p.logM2lSigma * z) := by
  unfold lensStageLogM2l at h
  split at h
  · split at h
    · cases h
    · rename_i s' hdc
      simp only [Except.ok.injEq, Prod.mk.injEq, true_and] at h
      obtain ⟨z, hs, hz⟩ := drawChecked_none hdc
      exact ⟨z, h ▸ hs, hz⟩
    · cases h
  · cases h

/-- the `gamma_pl` stage never rejects and only appends a `gamma_pl` entry -/
theorem lensStageGammaPl_ok {c : LensCfg ℝ} {p : LensPar ℝ} {s s3 : List ℝ} {d : Dict ℝ}
    {o : Option (Dict ℝ)} (h : lensStageGammaPl c p d s = .ok (o, s3)) :
    s3 <:+ s ∧ ∃ d3, o = some d3 ∧ (d3 = d ∨ ∃ x, d3 = d ++ [("gamma_pl", x)]) := by
  unfold lensStageGammaPl at h
  split at h
  · split at h
    · cases h
    · split at h
      · cases h
      · simp only [Except.ok.injEq, Prod.mk.injEq] at h
        exact ⟨h.2 ▸ List.suffix_refl _, _, h.1.symm, Or.inr ⟨_, rfl⟩⟩
  · split at h
    · split at h
      · split at h
        · cases h
        · rename_i x s' hd
          simp only [Except.ok.injEq, Prod.mk.injEq] at h
          obtain ⟨_, z, hz, _⟩ := drawPlain_ok hd
          refine ⟨?_, _, h.1.symm, Or.inr ⟨_, rfl⟩⟩
          rw [← h.2, hz]; exact List.suffix_cons _ _
      · simp only [Except.ok.injEq, Prod.mk.injEq] at h
        exact ⟨h.2 ▸ List.suffix_refl _, _, h.1.symm, Or.inr ⟨_, rfl⟩⟩
    · simp only [Except.ok.injEq, Prod.mk.injEq] at h
      exact ⟨h.2 ▸ List.suffix_refl _, _, h.1.symm, Or.inl rfl⟩

/-- what one accepted pass through `draw_lens` guarantees about the returned dictionary -/
structure LensOk (c : LensCfg ℝ) (p : LensPar ℝ) (s : List ℝ) (d : Dict ℝ) : Prop where
  g_spec : ∀ v, d.get? "gamma_in" = some v → c.gammaInSampling = true ∧ c.gRng.mem p.gammaIn ∧
      c.gRng.mem v ∧ 0 ≤ p.gammaInSigma ∧ ∃ z ∈ s, v = gammaInLens c p + p.gammaInSigma * z
  m_spec : ∀ v, d.get? "log_m2l" = some v → c.logM2lSampling = true ∧ c.mRng.mem p.logM2l ∧
      c.mRng.mem v ∧ 0 ≤ p.logM2lSigma ∧ ∃ z ∈ s, v = logM2lLens c p + p.logM2lSigma * z
  l_spec : ∃ x, d.get? "lambda_mst" = some x ∧
      (c.lambdaGaussian = true → 0 ≤ lambdaSigma c p ∧ ∃ z ∈ s, x = lambdaLens c p + lambdaSigma c p * z) ∧
      (c.lambdaGaussian = false → x = lambdaLens c p)
  ppn : d.get? "gamma_ppn" = some p.gammaPpn
  g_key : c.gammaInSampling = true → ∃ v, d.get? "gamma_in" = some v
  m_key : c.logM2lSampling = true → ∃ v, d.get? "log_m2l" = some v

theorem LensOk.mono {c : LensCfg ℝ} {p : LensPar ℝ} {s₀ s : List ℝ} {d : Dict ℝ}
    (hs : s₀ <:+ s) (h : LensOk c p s₀ d) : LensOk c p s d := by
  refine ⟨?_, ?_, ?_, h.ppn, h.g_key, h.m_key⟩
  · intro v hv
    obtain ⟨h1, h2, h3, h4, z, hz, h5⟩ := h.g_spec v hv
    exact ⟨h1, h2, h3, h4, z, hs.subset hz, h5⟩
  · intro v hv
    obtain ⟨h1, h2, h3, h4, z, hz, h5⟩ := h.m_spec v hv
    exact ⟨h1, h2, h3, h4, z, hs.subset hz, h5⟩
  · obtain ⟨x, h1, h2, h3⟩ := h.l_spec
    refine ⟨x, h1, fun hg => ?_, h3⟩
    obtain ⟨h4, z, hz, h5⟩ := h2 hg
    exact ⟨h4, z, hs.subset hz, h5⟩

theorem lensAttempt_none {c : LensCfg ℝ} {p : LensPar ℝ} {s s' : List ℝ}
    (h : lensAttempt c p s = .ok (none, s')) : s' <:+ s := by
  unfold lensAttempt at h
  split at h
  · cases h
  · rename_i d0 s0 hL
    have hs0 : s0 <:+ s := by
      obtain ⟨x, _, (⟨_, _, z, hz, _⟩ | ⟨_, _, rfl⟩)⟩ := lensStageLambda_ok hL
      · rw [hz]; exact List.suffix_cons _ _
      · exact List.suffix_refl _
    split at h
    · cases h
    · rename_i s1 hG
      simp only [Except.ok.injEq, Prod.mk.injEq, true_and] at h
      obtain ⟨z, hz, _⟩ := lensStageGammaIn_none hG
      subst h
      exact (by rw [hz]; exact List.suffix_cons _ _ : s1 <:+ s0).trans hs0
    · rename_i d1 s1 hG
      have hs1 : s1 <:+ s0 := by
        rcases lensStageGammaIn_some hG with ⟨_, _, rfl⟩ | ⟨_, v, _, _, _, _, z, hz, _⟩
        · exact List.suffix_refl _
        · rw [hz]; exact List.suffix_cons _ _
      split at h
      · cases h
      · rename_i s2 hM
        simp only [Except.ok.injEq, Prod.mk.injEq, true_and] at h
        obtain ⟨z, hz, _⟩ := lensStageLogM2l_none hM
        subst h
        exact ((by rw [hz]; exact List.suffix_cons _ _ : s2 <:+ s1).trans hs1).trans hs0
      · obtain ⟨_, d3, hd3, _⟩ := lensStageGammaPl_ok h
        cases hd3

set_option linter.unusedSimpArgs false in
set_option linter.unusedTactic false in
set_option linter.unreachableTactic false in
theorem lensAttempt_ok {c : LensCfg ℝ} {p : LensPar ℝ} {s s' : List ℝ} {d : Dict ℝ}
    (h : lensAttempt c p s = .ok (some d, s')) : LensOk c p s d ∧ s' <:+ s := by
  unfold lensAttempt at h
  split at h
  · cases h
  · rename_i d0 s0 hL
    obtain ⟨x, rfl, hlam⟩ := lensStageLambda_ok hL
    have hs0 : s0 <:+ s := by
      rcases hlam with ⟨_, _, z, hz, _⟩ | ⟨_, _, rfl⟩
      · rw [hz]; exact List.suffix_cons _ _
      · exact List.suffix_refl _
    split at h
    · cases h
    · cases h
    · rename_i d1 s1 hG
      have hG' := lensStageGammaIn_some hG
      have hs1 : s1 <:+ s0 := by
        rcases hG' with ⟨_, _, rfl⟩ | ⟨_, v, _, _, _, _, z, hz, _⟩
        · exact List.suffix_refl _
        · rw [hz]; exact List.suffix_cons _ _
      split at h
      · cases h
      · cases h
      · rename_i d2 s2 hM
        have hM' := lensStageLogM2l_some hM
        have hs2 : s2 <:+ s1 := by
          rcases hM' with ⟨_, _, rfl⟩ | ⟨_, v, _, _, _, _, z, hz, _⟩
          · exact List.suffix_refl _
          · rw [hz]; exact List.suffix_cons _ _
        obtain ⟨hs3, d3, hd3, hshape⟩ := lensStageGammaPl_ok h
        cases hd3
        refine ⟨?_, ((hs3.trans hs2).trans hs1).trans hs0⟩
        -- lookups of the four keys are not affected by a trailing gamma_pl entry
        have hget : ∀ k, k ≠ "gamma_pl" → Dict.get? d k = Dict.get? d2 k := by
          intro k hk
          rcases hshape with rfl | ⟨y, rfl⟩
          · rfl
          · exact get?_append_single_ne _ _ (fun hx => hk hx.symm)
        have memS0 : ∀ z, z ∈ s0 → z ∈ s := fun z hz => hs0.subset hz
        have memS1 : ∀ z, z ∈ s1 → z ∈ s := fun z hz => memS0 z (hs1.subset hz)
        rcases hG' with ⟨hgoff, rfl, rfl⟩ | ⟨hgon, vg, rfl, hgpop, hgv, hgsc, zg, hzg, hvg⟩ <;>
        rcases hM' with ⟨hmoff, rfl, rfl⟩ | ⟨hmon, vm, rfl, hmpop, hmv, hmsc, zm, hzm, hvm⟩
        all_goals
          refine ⟨?_, ?_, ⟨x, ?_, ?_, ?_⟩, ?_, ?_, ?_⟩
        all_goals first
          | (intro v hv
             rw [hget _ (by decide)] at hv
             simp [Dict.get?, get?_append_single] at hv
             done)
          | (intro v hv
             rw [hget _ (by decide)] at hv
             simp [Dict.get?, get?_append_single] at hv
             subst hv
             first
               | exact ⟨hgon, hgpop, hgv, hgsc, zg, memS0 _ (by rw [hzg]; exact List.mem_cons_self), hvg⟩
               | exact ⟨hmon, hmpop, hmv, hmsc, zm, memS1 _ (by rw [hzm]; exact List.mem_cons_self), hvm⟩
               | exact ⟨hmon, hmpop, hmv, hmsc, zm, memS0 _ (by rw [hzm]; exact List.mem_cons_self), hvm⟩)
          | (rw [hget _ (by decide)]; simp [Dict.get?, get?_append_single]; done)
          | (intro hg
             rcases hlam with ⟨_, hsc, z, hz, hx⟩ | ⟨hoff, _, _⟩
             · exact ⟨hsc, z, by rw [hz]; exact List.mem_cons_self, hx⟩
             · rw [hoff] at hg; cases hg)
          | (intro hg
             rcases hlam with ⟨hon, _⟩ | ⟨_, hx, _⟩
             · rw [hon] at hg; cases hg
             · exact hx)
          | (intro hon; rw [hgoff] at hon; cases hon)
          | (intro hon; rw [hmoff] at hon; cases hon)
          | (intro _; rw [hget _ (by decide)]; exact ⟨vg, by simp [Dict.get?, get?_append_single]⟩)
          | (intro _; rw [hget _ (by decide)]; exact ⟨vm, by simp [Dict.get?, get?_append_single]⟩)

end HierArc.Draws
