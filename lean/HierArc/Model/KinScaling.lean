/-
  HierArc.Model.KinScaling — model of hierarc/Likelihood/kin_scaling.py
  (KinScalingParamManager.kwargs2param_array, ParameterScalingSingleMeasurement, KinScaling).

  * a parameter dictionary is an insertion-ordered association list (`Dict α`, unique keys);
  * an n-dimensional grid (numpy array, C order) is read through `gridOfFlat shape flat`, a function
    from index tuples to values; the interpolation itself works on any `Grid α = List Nat → α`;
  * the per-bin interpolator (scipy `interp1d(kind="linear")` for one axis,
    `RegularGridInterpolator(method="linear")` for several axes, formerly `interp2d` for two) is the
    multilinear interpolant, written by recursion on the list of (axis, coordinate) pairs;
  * axes are assumed strictly ascending with at least two nodes (what KinScalingConfig produces);
  * errors the real code raises are explicit (`Except Err`).

  No Mathlib import; polymorphic over the carrier.
-/
import HierArc.Model.Basic
namespace HierArc.KinScaling
open HierArc

/-- error classes of the real code -/
inductive Err where
  /-- `ValueError("key %s not in parameters …")` of `kwargs2param_array` -/
  | missingKey (k : String)
  /-- name list / axes / grid of inconsistent lengths (misconfiguration, IndexError / ValueError) -/
  | shape
  deriving Repr, DecidableEq

/-- sequential map that stops at the first error (a Python loop whose body may raise) -/
def mapE {β γ : Type} (f : β → Except Err γ) : List β → Except Err (List γ)
  | [] => .ok []
  | b :: t =>
    match f b with
    | .error e => .error e
    | .ok v =>
      match mapE f t with
      | .ok vs => .ok (v :: vs)
      | .error e => .error e

/-- `if param not in kwargs: raise ValueError(...)`, else `kwargs.get(param)` -/
def lookup {α : Type} (d : Dict α) (n : String) : Except Err α :=
  match d.get? n with
  | none => .error (.missingKey n)
  | some v => .ok v

/-- `KinScalingParamManager.kwargs2param_array`: the declared names are looked up one after the other
    in the declared order; the first missing name raises. -/
def kwargs2paramArray {α : Type} (names : List String) (d : Dict α) : Except Err (List α) :=
  mapE (lookup d) names

/-- an n-dimensional array read by index tuple -/
abbrev Grid (α : Type) := List Nat → α

/-- C-order (row-major) flat position of an index tuple in an array of the given shape -/
def flatIndex : List Nat → List Nat → Nat
  | _ :: shape, i :: idx => i * shape.foldr (· * ·) 1 + flatIndex shape idx
  | _, _ => 0

section Numeric
variable {α : Type} [Add α] [Sub α] [Mul α] [Div α] [LT α] [LE α] [DecidableLT α] [DecidableLE α]
  [OfScientific α]

/-- numpy array of the given shape, stored flat in C order, as a `Grid` -/
def gridOfFlat (shape : List Nat) (flat : List α) : Grid α :=
  fun idx => flat.getD (flatIndex shape idx) 0.0

/-- interval search on one ascending axis: index `i` of the cell `[ax[i], ax[i+1]]` used for `x`
    (first cell below the axis, last cell above it) and the normalised distance
    `t = (x - ax[i]) / (ax[i+1] - ax[i])`. -/
def locate : List α → α → Nat × α
  | a :: b :: c :: rest, x =>
    if x < b then (0, (x - a) / (b - a))
    else
      let r := locate (b :: c :: rest) x
      (r.1 + 1, r.2)
  | a :: b :: [], x => (0, (x - a) / (b - a))
  | _, _ => (0, 0.0)

/-- multilinear interpolation by recursion on the list of (axis, coordinate) pairs -/
def interp : List (List α × α) → Grid α → α
  | [], g => g []
  | (ax, x) :: r, g =>
    let p := locate ax x
    (1.0 - p.2) * interp r (fun idx => g (p.1 :: idx))
      + p.2 * interp r (fun idx => g ((p.1 + 1) :: idx))

/-- the 2ⁿ nodes surrounding a point with their multilinear weights -/
def cells : List (List α × α) → List (α × List Nat)
  | [] => [(1.0, [])]
  | (ax, x) :: r =>
    let p := locate ax x
    (cells r).map (fun wc => ((1.0 - p.2) * wc.1, p.1 :: wc.2))
      ++ (cells r).map (fun wc => (p.2 * wc.1, (p.1 + 1) :: wc.2))

/-- bounds test of `RegularGridInterpolator`: first node ≤ x ≤ last node -/
def inRange (ax : List α) (x : α) : Bool :=
  match ax.head?, ax.getLast? with
  | some a, some b => decide (a ≤ x) && decide (x ≤ b)
  | _, _ => false

/-- `ParameterScalingSingleMeasurement.j_scaling` of a configured instance -/
def jScaling (axes : List (List α)) (g : Grid α) (xs : List α) : Except Err α :=
  if xs.isEmpty then .ok 1.0
  else if axes.length ≠ xs.length then .error .shape
  -- (beyond the axes both interpolators extrapolate linearly from the outermost cell: `interp1d(fill_value="extrapolate")`,
  --  `RegularGridInterpolator(bounds_error=False, fill_value=None)` — `locate` returns the first / last cell there)
  else .ok (interp (axes.zip xs) g)

/-- python `min(array)` : keeps the first minimal element -/
def minList : List α → Option α
  | [] => none
  | a :: t => some (t.foldl (fun m x => if x < m then x else m) a)

/-- python `max(array)` -/
def maxList : List α → Option α
  | [] => none
  | a :: t => some (t.foldl (fun m x => if m < x then x else m) a)

/-- the `j_kin_scaling_param_axes` argument: a bare array or a list of arrays -/
inductive AxesArg (α : Type) where
  | bare (a : List α)
  | list (l : List (List α))

/-- constructor arguments of `KinScaling` (`none` = Python `None`) -/
structure Config (α : Type) where
  axes : Option (AxesArg α)
  grids : Option (List (Grid α))
  names : Option (List String)

/-- `self._param_list` -/
def Config.paramList (c : Config α) : List String := c.names.getD []

/-- `self._dim_scaling` -/
def Config.dimScaling (c : Config α) : Nat :=
  match c.axes with
  | some (.list l) => l.length
  | _ => 1

/-- the axes as a list of arrays (a bare array is wrapped) -/
def Config.axesList (c : Config α) : List (List α) :=
  match c.axes with
  | some (.list l) => l
  | some (.bare a) => [a]
  | none => []

/-- `self._evaluate_scaling` -/
def Config.evaluate (c : Config α) : Bool := c.axes.isSome && c.grids.isSome && c.names.isSome

def ones (n : Nat) : List α := List.replicate n 1.0

/-- `KinScaling.kin_scaling(kwargs_param)`; `kw = none` is `kwargs_param=None`. -/
def kinScaling (c : Config α) (kw : Option (Dict α)) : Except Err (List α) :=
  match kw with
  | none => .ok (ones c.dimScaling)
  | some d =>
    match kwargs2paramArray c.paramList d with
    | .error e => .error e
    | .ok xs =>
      if !c.evaluate || xs.isEmpty then .ok (ones c.dimScaling)
      else mapE (fun g => jScaling c.axesList g xs) (c.grids.getD [])

/-- loop of `param_bounds_interpol` -/
def boundsOf : List String → List (List α) → Except Err (Dict α × Dict α)
  | [], _ => .ok ([], [])
  | _ :: _, [] => .error .shape
  | k :: ks, ax :: axs =>
    match minList ax, maxList ax with
    | some lo, some hi =>
      match boundsOf ks axs with
      | .ok r => .ok ((k, lo) :: r.1, (k, hi) :: r.2)
      | .error e => .error e
    | _, _ => .error .shape

/-- `KinScaling.param_bounds_interpol()` → (kwargs_min, kwargs_max) -/
def paramBounds (c : Config α) : Except Err (Dict α × Dict α) :=
  if c.evaluate then boundsOf c.paramList c.axesList else .ok ([], [])

end Numeric

end HierArc.KinScaling
