"""C16 — posterior processing emits a self-consistent kinematic likelihood configuration
(hierarc/LensPosterior/*, Likelihood/kin_scaling.py).

The LensPosterior classes are built as harness subclasses whose kinematics engine
(`velocity_dispersion_map_dimension_less`) is a known polynomial of the *named* arguments it
receives and whose engine-settings validation (`kinematics_modeling_settings`, rejected by the
installed lenstronomy's jampy backend) is neutralised.  Everything else is the real code.
"""
import contextlib
import inspect
import itertools
import json
import math
import zlib

import numpy as np

from harness.common import run_driver, close, err_enum, f2b, b2f

ID = "C16"
LEAN_MODULES = ["HierArc.Props.C16"]
RULE = ("random configurations of KinConstraints / DdtKinConstraints / DdtGaussKinConstraints / "
        "KinConstraintsComposite: anisotropy model OM|GOM|const (rarely NONE / unsupported), optional "
        "gamma_pl axis (power-law classes), gamma_in axis and population-level or per-lens M/L "
        "(composite), halo input mode alpha_Rs | kappa_s | rho0 (rarely invalid / ambiguous), light "
        "Hernquist default or 1-3 supplied profiles (composite: 1-2 multi-Gaussian sets), measurement "
        "error independent+covariant | supplied matrix | incomplete, 1-4 measurement bins, 2-6 lens-model "
        "draws with small or clipping-size imaging errors, engine = random polynomial of the named "
        "arguments; plus direct draw_lens streams.  A case is non-trivial when hierarchy_configuration "
        "returned a configuration; distinct = distinct (class, anisotropy, axis names, halo mode, M/L "
        "mode, light kind, error kind, bins) signature")
ASSUMPTIONS = [
    "the kinematics engine is a deterministic function of the arguments it receives (theorems: arbitrary "
    "J; runs: polynomial stub), returning finite positive values (sqrt, division by J(base))",
    "numpy.random.normal / randint enter as the values they returned; their laws are not part of C16",
    "GNFW.kappa_s_to_alpha_Rs is an arbitrary function K of (kappa_s, r_s, gamma_in) (runs: polynomial stub "
    "patched onto the lenstronomy class), lensCosmo.{sigma_crit_angle, sigma_crit, dd} are numbers",
    "np.mean / np.cov = mean and unbiased sample covariance (tol 1e-9); IEEE rounding outside the theorems",
    "the likelihood's interpolators (scipy interp1d / RegularGridInterpolator) are modelled locally as "
    "successive piecewise-linear interpolation along strictly increasing axes with >= 2 nodes (interpN; "
    "node-exactness proved); that scipy computes this is C10's tie and is validated here on the real "
    "LensLikelihood at every node of every 1-, 3- and 4-axis configuration",
    "2-axis configurations cannot be built into a LensLikelihood with the installed SciPy (interp2d "
    "removed; finding F3 of C10): their acceptance part is skipped and counted, everything else is checked",
]
TRUSTED = ["hand-written model HierArc/Model/Posterior.lean tied by differential execution",
           "harness stub subclass (engine polynomial, settings validation neutralised, recorders on "
           "draw_lens / numpy.random)"]
TOL = 1e-9


# ----------------------------------------------------------------------------- engine stub
def _weight(salt, name, s):
    h = zlib.crc32(("%s|%s|%d" % (salt, name, s)).encode())
    u = (h % 10007) / 10007.0
    return (0.3 + 0.7 * u) * (1.0 if (h >> 16) & 1 else -1.0)


class Engine:
    """J_s(args) = c_s + (d_s + sum_k w_s(name_k) value_k)^2 over the flattened named arguments."""

    def __init__(self, salt, n):
        self.salt, self.n = salt, n
        self.c = [1.0 + 0.5 * s for s in range(n)]
        self.d = [0.7 + 0.1 * s for s in range(n)]
        self.w = {}

    def weights(self, name):
        if name not in self.w:
            self.w[name] = [_weight(self.salt, name, s) for s in range(self.n)]
        return self.w[name]

    def J(self, flat):
        out = []
        for s in range(self.n):
            lin = self.d[s]
            for k, v in flat:
                lin += self.weights(k)[s] * v
            out.append(self.c[s] + lin * lin)
        return out


def _flat_value(name, v, out):
    if isinstance(v, (list, tuple, np.ndarray)) and np.ndim(v) > 0:
        for i, x in enumerate(np.asarray(v, dtype=float).ravel()):
            out.append(("%s[%d]" % (name, i), float(x)))
    else:
        out.append((name, float(v)))


def flatten_args(kwargs_lens, kwargs_lens_light, kwargs_anisotropy, r_eff, theta_E, gamma):
    out = []
    for i, kw in enumerate(kwargs_lens):
        for k, v in kw.items():
            _flat_value("lens%d.%s" % (i, k), v, out)
    for i, kw in enumerate(kwargs_lens_light):
        for k, v in kw.items():
            _flat_value("light%d.%s" % (i, k), v, out)
    for k, v in kwargs_anisotropy.items():
        _flat_value("ani.%s" % k, v, out)
    _flat_value("r_eff", r_eff, out)
    _flat_value("theta_E", theta_E, out)
    _flat_value("gamma", gamma, out)
    return out


class Recorder:
    def __init__(self, engine):
        self.engine = engine
        self.calls = []        # engine calls: dict(flat, J, draw)
        self.draws = []        # draw_lens calls: dict(no_error, gamma_pl, out, normals, ints)
        self._cur = None
        self.loose_normals = []


REC = None   # the active recorder (one case at a time)


class _Stub(object):
    """mixin placed before the real class in the MRO"""

    def kinematics_modeling_settings(self, anisotropy_model, kwargs_numerics_galkin=None, **kw):
        self._c16_settings = (anisotropy_model, kwargs_numerics_galkin, kw)

    def velocity_dispersion_map_dimension_less(self, kwargs_lens, kwargs_lens_light, kwargs_anisotropy,
                                               inclination=90, r_eff=None, theta_E=None, gamma=None, **kw):
        flat = flatten_args(kwargs_lens, kwargs_lens_light, kwargs_anisotropy, r_eff, theta_E, gamma)
        j = REC.engine.J(flat)
        REC.calls.append({"flat": flat, "J": j, "draw": REC.draws[-1] if REC.draws else None})
        return np.array(j)

    def draw_lens(self, *a, **kw):
        real = super(_Stub, self).draw_lens
        bound = inspect.signature(real).bind(*a, **kw)
        d = {"kw": dict(bound.arguments), "normals": [], "ints": []}
        REC._cur = d
        try:
            out = real(*a, **kw)
        finally:
            REC._cur = None
        d["out"] = [float(x) for x in out]
        d["no_error"] = d["kw"].get("no_error", False) is True
        REC.draws.append(d)
        return out


_CLASSES = {}


def _cls(kind):
    if kind not in _CLASSES:
        from hierarc.LensPosterior.kin_constraints import KinConstraints
        from hierarc.LensPosterior.ddt_kin_constraints import DdtKinConstraints
        from hierarc.LensPosterior.ddt_kin_gauss_constraints import DdtGaussKinConstraints
        from hierarc.LensPosterior.kin_constraints_composite import KinConstraintsComposite
        real = {"kin": KinConstraints, "ddt": DdtKinConstraints, "ddtgauss": DdtGaussKinConstraints,
                "composite": KinConstraintsComposite}[kind]
        _CLASSES[kind] = type("C16_" + kind, (_Stub, real), {})
    return _CLASSES[kind]


def kpoly(q, k, r, g):
    return k * (q[0] + q[1] * r + q[2] * g + q[3] * r * g)


@contextlib.contextmanager
def patched(rec, q):
    """numpy.random recorders + polynomial stub of GNFW.kappa_s_to_alpha_Rs (class level)."""
    global REC
    from lenstronomy.LensModel.Profiles.gnfw import GNFW
    old_n, old_i, old_k, old_init = np.random.normal, np.random.randint, GNFW.kappa_s_to_alpha_Rs, GNFW.__init__
    prev = REC

    def normal(loc=0.0, scale=1.0, size=None):
        v = old_n(loc, scale, size)
        tgt = rec._cur["normals"] if rec._cur is not None else rec.loose_normals
        tgt.append((float(loc), float(scale), float(v)) if size is None else (loc, scale, v))
        return v

    def randint(low, high=None, size=None, dtype=int):
        v = old_i(low, high, size, dtype)
        if rec._cur is not None:
            rec._cur["ints"].append((int(low), None if high is None else int(high), int(v)))
        return v

    def k2a(self, kappa_s, Rs, gamma_in):
        return kpoly(q, kappa_s, Rs, gamma_in)

    def cheap_init(self, *a, **kw):
        # the real constructor tabulates ~300 numerical integrals (90 ms) and the code under test
        # builds a fresh GNFW() per engine call; the table is engine-side and never used here
        pass

    REC = rec
    np.random.normal, np.random.randint, GNFW.kappa_s_to_alpha_Rs = normal, randint, k2a
    GNFW.__init__ = cheap_init
    try:
        yield
    finally:
        np.random.normal, np.random.randint, GNFW.kappa_s_to_alpha_Rs = old_n, old_i, old_k
        GNFW.__init__ = old_init
        REC = prev


# ----------------------------------------------------------------------------- generator
_COSMO = {}


def lens_cosmo(zl, zs):
    key = (zl, zs)
    if key not in _COSMO:
        from lenstronomy.Cosmo.lens_cosmo import LensCosmo
        from lenstronomy.Util import constants as const
        lc = LensCosmo(zl, zs)
        _COSMO[key] = [float(lc.sigma_crit_angle), float(lc.sigma_crit), float(lc.dd), float(const.arcsec)]
    return _COSMO[key]


def _r(rng, a, b, nd=4):
    return round(rng.uniform(a, b), nd)


def gen_common(rng):
    c = {}
    c["z_lens"], c["z_source"] = rng.choice([(0.5, 1.5), (0.3, 2.0), (0.745, 1.789)])
    c["theta_E"] = _r(rng, 0.5, 2.0)
    c["theta_E_error"] = rng.choice([_r(rng, 0.01, 0.1), _r(rng, 0.01, 0.1), _r(rng, 0.8, 3.0)])
    c["gamma"] = _r(rng, 1.6, 2.4)
    c["gamma_error"] = rng.choice([_r(rng, 0.02, 0.2), _r(rng, 0.02, 0.2), _r(rng, 0.8, 2.0)])
    c["r_eff"] = _r(rng, 0.3, 2.0)
    c["r_eff_error"] = rng.choice([_r(rng, 0.01, 0.1), _r(rng, 0.01, 0.1), round(c["r_eff"] * _r(rng, 0.7, 2.0), 4)])
    n = rng.choice([1, 2, 2, 3, 4])
    c["n"] = n
    c["sigma_v"] = [_r(rng, 150, 350, 1) for _ in range(n)]
    r = rng.random()
    c["ind"] = [_r(rng, 5, 30, 2) for _ in range(n)]
    c["cov"] = rng.choice([0.0, _r(rng, 1, 10, 2)])
    # how the caller writes the independent errors: float array, or whole numbers as a plain list / integer array
    # (the covariant error then still has its fractional part)
    c["ind_form"] = "float"
    if rng.random() < 0.3:
        c["ind"] = [int(rng.randint(5, 30)) for _ in range(n)]
        c["ind_form"] = rng.choice(["int_list", "int_array"])
        c["cov"] = rng.choice([_r(rng, 1, 10, 2), rng.uniform(0.2, 0.95), 2.5])
    c["supplied"] = None
    if r < 0.25:
        a = np.array([[rng.uniform(-3, 3) for _ in range(n)] for _ in range(n)])
        m = a @ a.T + np.diag([rng.uniform(20, 200) for _ in range(n)])
        c["supplied"] = [[float(x) for x in row] for row in m]
        if rng.random() < 0.5:
            c["ind"], c["cov"] = None, None
    elif r < 0.29:
        c["cov"] = None
    elif r < 0.33:
        c["ind"] = None
    c["N"] = rng.choice([2, 3, 4, 5, 6])
    c["salt"] = rng.randrange(10 ** 6)
    c["np_seed"] = rng.randrange(2 ** 31)
    return c


def gen_pl(rng):
    c = gen_common(rng)
    c["family"] = "pl"
    c["kind"] = rng.choice(["kin", "kin", "ddt", "ddtgauss"])
    r = rng.random()
    c["ani"] = "NONE" if r < 0.03 else "bogus" if r < 0.05 else rng.choice(["OM", "GOM", "const"])
    c["light"] = None
    if rng.random() < 0.5:
        light = []
        for _ in range(rng.choice([1, 1, 2, 3])):
            t = rng.random()
            if t < 0.4:
                light.append({"Rs": _r(rng, 0.2, 2), "amp": _r(rng, 0.5, 3)})
            elif t < 0.8:
                light.append({"R_sersic": _r(rng, 0.2, 2), "n_sersic": _r(rng, 1, 4), "amp": _r(rng, 0.5, 3),
                              "center_x": _r(rng, -0.1, 0.1), "center_y": 0.0})
            else:
                light.append({"amp": _r(rng, 0.5, 3), "sigma": _r(rng, 0.2, 2)})
        c["light"] = light
    c["gamma_pl"] = c["gamma_in"] = c["log_m2l"] = None
    if c["kind"] != "ddtgauss" and rng.random() < 0.55:
        k = rng.choice([2, 3, 4, 5])
        c["gamma_pl"] = sorted(set(_r(rng, 1.5, 2.6, 3) for _ in range(k)))
        if len(c["gamma_pl"]) < 2:
            c["gamma_pl"] = [1.8, 2.2]
    if c["kind"] == "kin" and rng.random() < 0.04:      # the base class accepts but cannot use these
        c[rng.choice(["gamma_in", "log_m2l"])] = [0.5, 1.0, 1.5]
    return c


def gen_comp(rng):
    c = gen_common(rng)
    c["family"] = "composite"
    c["kind"] = "composite"
    r = rng.random()
    c["ani"] = "NONE" if r < 0.02 else "bogus" if r < 0.04 else rng.choice(["OM", "GOM", "const"])
    c["pop"] = rng.random() < 0.5
    cosmo = lens_cosmo(c["z_lens"], c["z_source"])
    lg = math.log10(cosmo[0])
    M = rng.choice([1, 3, 4, 6, 8])
    k = rng.choice([2, 3, 4])
    c["gamma_in_arr"] = sorted(set(_r(rng, 0.3, 1.8, 3) for _ in range(k)))
    if len(c["gamma_in_arr"]) < 2:
        c["gamma_in_arr"] = [0.5, 1.5]
    if c["pop"]:
        c["log_m2l_arr"] = sorted(set(round(lg + rng.uniform(-0.5, 0.5), 3) for _ in range(rng.choice([2, 3]))))
        if len(c["log_m2l_arr"]) < 2:
            c["log_m2l_arr"] = [round(lg - 0.2, 3), round(lg + 0.2, 3)]
    else:
        L = M if rng.random() < 0.93 else M + 1
        c["log_m2l_arr"] = [round(lg + rng.uniform(-0.5, 0.5), 3) for _ in range(L)]
    if rng.random() < 0.25:
        # axes supplied in DESCENDING order (a legitimate input: grid and axes must stay in the declared order)
        c["gamma_in_arr"] = c["gamma_in_arr"][::-1]
        if c["pop"]:
            c["log_m2l_arr"] = c["log_m2l_arr"][::-1]
    for key in ("alpha_rs", "rs_angle", "kappa_s", "rho0", "rs"):
        c[key] = None
    mode = rng.choice(["alpha", "kappa", "rho", "alpha", "kappa", "rho", "alpha+kappa", "kappa+rho", "none",
                       "mismatch"]) if rng.random() < 0.25 else rng.choice(["alpha", "kappa", "rho"])
    c["mode"] = mode
    if "alpha" in mode:
        c["alpha_rs"] = [_r(rng, 0.3, 1.5) for _ in range(M)]
    if "kappa" in mode:
        c["kappa_s"] = [_r(rng, 0.02, 0.3) for _ in range(M)]
    if mode in ("alpha", "kappa", "alpha+kappa", "kappa+rho"):
        c["rs_angle"] = [_r(rng, 3, 12) for _ in range(M)]
    if "rho" in mode:
        rs = [_r(rng, 0.02, 0.08, 5) for _ in range(M)]          # Mpc
        c["rs"] = rs
        c["rho0"] = [float("%.6g" % (rng.uniform(0.02, 0.3) * cosmo[1] / x)) for x in rs]
    if mode == "mismatch":
        c["alpha_rs"] = [_r(rng, 0.3, 1.5) for _ in range(M)]
        c["rs_angle"] = [_r(rng, 3, 12) for _ in range(M + 1)]
    light = []
    for _ in range(rng.choice([1, 1, 2])):
        g = rng.choice([1, 2, 3])
        light.append({"amp": [_r(rng, 0.3, 3) for _ in range(g)], "sigma": [_r(rng, 0.2, 3) for _ in range(g)]})
    c["light"] = light
    # two Gaussian sets declared as two light components (bulge + disk), each with its own model entry
    c["multi_models"] = bool(len(light) == 2 and rng.random() < 0.7)
    c["prior_mean"], c["prior_std"] = rng.choice([(None, None), (None, None), (1.0, 0.2), (_r(rng, 0.5, 1.5), None)])
    return c


FIXED = [
    # the repo's own test configuration shapes, one per class
    dict(family="pl", kind="kin", ani="OM", z_lens=0.5, z_source=1.5, theta_E=1.0, theta_E_error=0.05, gamma=2.0,
         gamma_error=0.1, r_eff=0.8, r_eff_error=0.05, n=2, sigma_v=[200.0, 210.0], ind=[10.0, 11.0], cov=3.0,
         supplied=None, N=3, salt=1, np_seed=1, light=None, gamma_pl=None, gamma_in=None, log_m2l=None),
    dict(family="pl", kind="ddt", ani="GOM", z_lens=0.5, z_source=1.5, theta_E=1.0, theta_E_error=0.05, gamma=2.0,
         gamma_error=0.1, r_eff=0.8, r_eff_error=0.05, n=1, sigma_v=[200.0], ind=[10.0], cov=0.0,
         supplied=None, N=3, salt=2, np_seed=2, light=[{"Rs": 0.4, "amp": 1.0}], gamma_pl=[1.8, 2.0, 2.2],
         gamma_in=None, log_m2l=None),
    dict(family="composite", kind="composite", ani="OM", pop=False, mode="kappa", z_lens=0.5, z_source=1.5,
         theta_E=1.0, theta_E_error=0.05, gamma=2.0, gamma_error=0.1, r_eff=0.8, r_eff_error=0.05, n=2,
         sigma_v=[200.0, 210.0], ind=[10.0, 11.0], cov=3.0, supplied=None, N=3, salt=3, np_seed=3,
         gamma_in_arr=[0.5, 1.0, 1.5], log_m2l_arr=[10.8, 11.0, 11.1, 10.9], alpha_rs=None,
         kappa_s=[0.05, 0.06, 0.07, 0.08], rs_angle=[5.0, 5.5, 6.0, 6.5], rho0=None, rs=None,
         light=[{"amp": [1.0, 2.0], "sigma": [0.5, 1.5]}], prior_mean=None, prior_std=None),
    dict(family="composite", kind="composite", ani="GOM", pop=False, mode="alpha", z_lens=0.5, z_source=1.5,
         theta_E=1.0, theta_E_error=0.05, gamma=2.0, gamma_error=0.1, r_eff=0.8, r_eff_error=0.05, n=2,
         sigma_v=[200.0, 210.0], ind=[10.0, 11.0], cov=3.0, supplied=None, N=3, salt=4, np_seed=4,
         gamma_in_arr=[0.5, 1.0, 1.5], log_m2l_arr=[10.8, 11.0, 11.1, 10.9], kappa_s=None,
         alpha_rs=[0.5, 0.6, 0.7, 0.8], rs_angle=[5.0, 5.5, 6.0, 6.5], rho0=None, rs=None,
         light=[{"amp": [1.0, 2.0], "sigma": [0.5, 1.5]}], prior_mean=1.0, prior_std=0.2),
    dict(family="composite", kind="composite", ani="const", pop=True, mode="rho", z_lens=0.5, z_source=1.5,
         theta_E=1.0, theta_E_error=0.05, gamma=2.0, gamma_error=0.1, r_eff=0.8, r_eff_error=0.05, n=1,
         sigma_v=[200.0], ind=[10.0], cov=3.0, supplied=None, N=2, salt=5, np_seed=5,
         gamma_in_arr=[0.5, 1.5], log_m2l_arr=[10.8, 11.1], kappa_s=None, alpha_rs=None, rs_angle=None,
         rho0=[2.0e15, 2.5e15, 3.0e15], rs=[0.03, 0.035, 0.04],
         light=[{"amp": [1.0], "sigma": [0.5]}], prior_mean=None, prior_std=None),
]


# ----------------------------------------------------------------------------- real-code call
def _arr(x):
    return None if x is None else np.array(x, dtype=float)


def _ind(case):
    form = case.get("ind_form", "float")
    if case["ind"] is None or form == "float":
        return _arr(case["ind"])
    ints = [int(v) for v in case["ind"]]
    return ints if form == "int_list" else np.array(ints)


def build(case):
    """construct the (stubbed-engine) object from the case; returns the instance"""
    K = _cls(case["kind"])
    kw = dict(z_lens=case["z_lens"], z_source=case["z_source"], theta_E=case["theta_E"],
              theta_E_error=case["theta_E_error"], gamma=case["gamma"], gamma_error=case["gamma_error"],
              r_eff=case["r_eff"], r_eff_error=case["r_eff_error"],
              sigma_v_measured=list(case["sigma_v"]), kwargs_aperture={}, kwargs_seeing={},
              kwargs_numerics_galkin={}, anisotropy_model=case["ani"],
              sigma_v_error_independent=_ind(case), sigma_v_error_covariant=case["cov"],
              sigma_v_error_cov_matrix=_arr(case["supplied"]))
    if case["family"] == "pl":
        kw["kwargs_lens_light"] = None if case["light"] is None else [dict(d) for d in case["light"]]
        if case["kind"] != "ddtgauss":
            kw["gamma_pl_scaling"] = case["gamma_pl"]
        if case["kind"] == "kin":
            kw["gamma_in_scaling"] = case["gamma_in"]
            kw["log_m2l_scaling"] = case["log_m2l"]
        if case["kind"] == "ddt":
            kw.update(ddt_samples=np.array([5000.0, 5100.0, 5200.0]), ddt_weights=None)
        if case["kind"] == "ddtgauss":
            kw.update(ddt_mean=5000.0, ddt_sigma=200.0)
    else:
        kw.update(gamma_in_array=_arr(case["gamma_in_arr"]), log_m2l_array=_arr(case["log_m2l_arr"]),
                  alpha_Rs_array=_arr(case["alpha_rs"]), r_s_angle_array=_arr(case["rs_angle"]),
                  kappa_s_array=_arr(case["kappa_s"]), rho0_array=_arr(case["rho0"]), r_s_array=_arr(case["rs"]),
                  is_m2l_population_level=case["pop"],
                  kwargs_lens_light=[dict({k: np.array(v, dtype=float) for k, v in d.items()},
                                          **({"center_x": 0.0, "center_y": 0.0} if case.get("multi_models") else {})) for d in case["light"]],
                  lens_light_model_list=["MULTI_GAUSSIAN"] * (len(case["light"]) if case.get("multi_models") else 1),
                  gamma_in_prior_mean=case["prior_mean"], gamma_in_prior_std=case["prior_std"])
    return K(**kw)


KPOLY = [1.3, 0.11, 0.7, 0.05]


def call_impl(case):
    """runs constructor + hierarchy_configuration on the real code; returns dict with the
    configuration, the recorder and (if raised) the error enum + stage."""
    rec = Recorder(Engine(case["salt"], case["n"]))
    out = {"rec": rec}
    np.random.seed(case["np_seed"])
    with patched(rec, KPOLY), np.errstate(all="ignore"):
        try:
            obj = build(case)
        except Exception as e:  # noqa
            out["err"], out["stage"], out["msg"] = err_enum(e), "init", "%s: %s" % (type(e).__name__, e)
            return out
        out["obj"] = obj
        try:
            out["config"] = obj.hierarchy_configuration(num_sample_model=case["N"])
        except Exception as e:  # noqa
            out["err"], out["stage"], out["msg"] = err_enum(e), "config", "%s: %s" % (type(e).__name__, e)
    return out


def reemit_oracle(case):
    """ "every node of each scaling grid equals J(node) / J(base)" holds for EVERY configuration the object emits, also the
    second one, asked for after the caller rescaled / clipped the grid arrays of the first one in place (a normalisation
    for a plot): the grid is deterministic (no lens-model errors enter it), so the second emission must carry the values of
    the first as it was emitted (those are held against J(node) / J(base) by the main oracle).  Only the grid arrays are
    edited: axes and name lists are left alone (the property says nothing about callers editing those)."""
    import copy
    rec = Recorder(Engine(case["salt"], case["n"]))
    np.random.seed(case["np_seed"])
    with patched(rec, KPOLY), np.errstate(all="ignore"):
        try:
            obj = build(case)
            c1 = obj.hierarchy_configuration(num_sample_model=case["N"])
        except Exception:  # noqa
            return []
        keep = copy.deepcopy(c1.get("j_kin_scaling_grid_list"))
        for g in c1.get("j_kin_scaling_grid_list") or []:
            if isinstance(g, np.ndarray) and g.flags.writeable:
                g *= 1.05
                np.clip(g, 0.9, 1.1, out=g)
        try:
            c2 = obj.hierarchy_configuration(num_sample_model=case["N"])
        except Exception as e:  # noqa
            return [("reemit:raised", "a second hierarchy_configuration() on the same object raised %s" % err_enum(e))]
    g2 = c2.get("j_kin_scaling_grid_list")
    ok = isinstance(g2, (list, tuple)) and isinstance(keep, (list, tuple)) and len(g2) == len(keep) and all(
        np.shape(a) == np.shape(b) and np.allclose(np.asarray(a, dtype=float), np.asarray(b, dtype=float), rtol=1e-12, atol=0, equal_nan=True)
        for a, b in zip(keep, g2))
    if not ok:
        return [("reemit:j_kin_scaling_grid_list", "the scaling grid of the second configuration emitted by the same object is not the grid of the first as "
                 "it was emitted (the caller rescaled the first one's arrays in place in between): first %s; second %s"
                 % (str(keep)[:120], str(g2)[:120]))]
    return []


# ----------------------------------------------------------------------------- specification (oracle)
def rel(a, b, tol=TOL):
    return close(a, b, tol)


def expected_err(case):
    """documented misuse → the error class the caller may expect (None = must work)."""
    if case["ani"] not in ("OM", "GOM", "const"):
        return "any"          # NONE / unsupported model: no kinematic scaling possible
    if case["supplied"] is None and (case["ind"] is None or case["cov"] is None):
        return "any"          # incomplete error specification
    if case["family"] == "pl":
        if case.get("gamma_in") is not None or case.get("log_m2l") is not None:
            return "any"      # inner slope / M/L axes have no meaning for the power-law classes
        return None
    mode = case["mode"]
    if mode in ("none", "mismatch"):
        return "any"
    M = len(halo_spec(case)[0])
    if not case["pop"] and len(case["log_m2l_arr"]) != M:
        return "any"
    return None


def halo_spec(case):
    """documented halo normalisation: (norm array, is_alpha, r_s in arcsec)"""
    cosmo = lens_cosmo(case["z_lens"], case["z_source"])

    def ok(a, b):
        return a is not None and b is not None and len(a) == len(b) and len(a) > 0
    if ok(case["alpha_rs"], case["rs_angle"]):
        return list(case["alpha_rs"]), True, list(case["rs_angle"])
    if ok(case["kappa_s"], case["rs_angle"]):
        return list(case["kappa_s"]), False, list(case["rs_angle"])
    if ok(case["rho0"], case["rs"]):
        return ([r0 * r / cosmo[1] for r0, r in zip(case["rho0"], case["rs"])], False,
                [r / cosmo[2] / cosmo[3] for r in case["rs"]])
    return [], False, []


ANI_NAMES = {"OM": ["a_ani"], "GOM": ["a_ani", "beta_inf"], "const": ["a_ani"]}


def spec_names(case):
    names = list(ANI_NAMES[case["ani"]])
    opt = []
    if case["family"] == "pl":
        if case["gamma_pl"] is not None:
            names.append("gamma_pl")
            opt.append(case["gamma_pl"])
    else:
        names.append("gamma_in")
        opt.append(case["gamma_in_arr"])
        if case["pop"]:
            names.append("log_m2l")
            opt.append(case["log_m2l_arr"])
    return names, opt


def spec_ani(case, a_ani, beta_inf):
    if case["ani"] == "OM":
        return {"ani.r_ani": a_ani * case["r_eff"]}
    if case["ani"] == "GOM":
        return {"ani.r_ani": a_ani * case["r_eff"], "ani.beta_inf": beta_inf}
    return {"ani.beta": a_ani}


BASE_ANI = {"OM": (1.0, None), "GOM": (1.0, 1.0), "const": (0.1, None)}


def spec_args_pl(case, params, draw):
    """documented engine arguments of the power-law classes; params: dict name->value (node or base),
    draw = (theta_E, gamma, r_eff, delta) as returned by draw_lens (or the means)."""
    tE, g, re, dl = draw
    d = {"lens0.theta_E": tE, "lens0.gamma": g, "lens0.center_x": 0.0, "lens0.center_y": 0.0}
    if case["light"] is None:
        d["light0.Rs"] = 0.551 * re
        d["light0.amp"] = 1.0
    else:
        for i, kw in enumerate(case["light"]):
            for k, v in kw.items():
                d["light%d.%s" % (i, k)] = v * dl if k in ("Rs", "R_sersic") else v
    d.update(spec_ani(case, params["a_ani"], params.get("beta_inf")))
    d["r_eff"], d["theta_E"], d["gamma"] = re, tE, g
    return d


_EFF_LIGHT = {}


def light_of(case):
    """the deflector light the composite class works with: the supplied Gaussian set, or — when the light is given as
    SEVERAL multi-Gaussian components (bulge + disk: `multi_models`) — the single set lenstronomy's multi-Gaussian
    decomposition merges them into (external engine, called here directly with the same arguments)"""
    if not case.get("multi_models"):
        return case["light"]
    key = json.dumps([case["light"], case["r_eff"]])
    if key not in _EFF_LIGHT:
        from lenstronomy.Analysis.light_profile import LightProfileAnalysis
        from lenstronomy.LightModel.light_model import LightModel
        lpa = LightProfileAnalysis(light_model=LightModel(light_model_list=["MULTI_GAUSSIAN"] * len(case["light"])))
        amps, sigmas, _, _ = lpa.multi_gaussian_decomposition(
            [dict({k: np.array(v, dtype=float) for k, v in d.items()}, center_x=0.0, center_y=0.0) for d in case["light"]], r_h=case["r_eff"])
        _EFF_LIGHT[key] = [{"amp": [float(a) for a in amps], "sigma": [float(x) for x in sigmas]}]
    return _EFF_LIGHT[key]


def spec_args_comp(case, params, draw):
    """documented engine arguments of the composite class; draw = (norm, r_s, log_m2l|None, r_eff, delta);
    params holds a_ani[, beta_inf], gamma_in[, log_m2l (population level)]."""
    cosmo = lens_cosmo(case["z_lens"], case["z_source"])
    norm, rs, m2l_draw, re, dl = draw
    _, is_alpha, _ = halo_spec(case)
    gin = params["gamma_in"]
    log_m2l = params["log_m2l"] if case["pop"] else m2l_draw
    d = {"lens0.Rs": rs, "lens0.gamma_in": gin,
         "lens0.alpha_Rs": norm if is_alpha else kpoly(KPOLY, norm, rs, gin),
         "lens0.center_x": 0.0, "lens0.center_y": 0.0}
    l0 = light_of(case)[0]
    for j, a in enumerate(l0["amp"]):
        d["lens1.amp[%d]" % j] = a * 10.0 ** log_m2l / cosmo[0]
    for j, s in enumerate(l0["sigma"]):
        d["lens1.sigma[%d]" % j] = s * dl
    for i, kw in enumerate(light_of(case)):
        for j, a in enumerate(kw["amp"]):
            d["light%d.amp[%d]" % (i, j)] = a
        for j, s in enumerate(kw["sigma"]):
            d["light%d.sigma[%d]" % (i, j)] = s * dl
    d.update(spec_ani(case, params["a_ani"], params.get("beta_inf")))
    d["r_eff"], d["theta_E"], d["gamma"] = re, case["theta_E"], case["gamma"]
    return d


def args_diff(flat, spec):
    """names whose value differs / is missing / is extra"""
    got = dict(flat)
    bad = []
    for k, v in spec.items():
        if k not in got:
            bad.append((k, "missing", v))
        elif not rel(got[k], v):
            bad.append((k, got[k], v))
    for k in got:
        if k not in spec:
            bad.append((k, got[k], "unexpected"))
    if len(got) != len(flat):
        bad.append(("<duplicate names>", len(flat), len(got)))
    return bad


def associate(specs, calls):
    """node k ↔ recorded call: in order if that fits, else any exact one-to-one match (a harmless
    re-ordering of the loops), else in order (and the mismatches are reported by the caller)."""
    if all(not args_diff(c["flat"], s) for s, c in zip(specs, calls)):
        return list(range(len(specs)))
    used, m = set(), []
    for s in specs:
        hit = next((j for j, c in enumerate(calls) if j not in used and not args_diff(c["flat"], s)), None)
        if hit is None:
            return list(range(len(specs)))
        used.add(hit)
        m.append(hit)
    return m


def mode_tag(case):
    if case["family"] == "pl":
        return case["kind"]
    return "composite_" + ("pop" if case["pop"] else "per_lens")


def oracle(case, r):
    """The property statement evaluated on the implementation.  Returns (fails, info) where fails is
    a list of (signature, text) and info carries what the correspondence needs."""
    fails = []
    info = {}
    tag = mode_tag(case)
    exp = expected_err(case)
    if "err" in r:
        if exp is None:
            fails.append(("raises:%s:%s:%s" % (tag, r["stage"], r["err"]),
                          "valid configuration raised at %s: %s" % (r["stage"], r["msg"][:200])))
        return fails, info
    if exp is not None:
        return fails, info      # misuse that happens to be tolerated: nothing is promised
    cfg, rec, obj = r["config"], r["rec"], r["obj"]
    n, N = case["n"], case["N"]

    # --- names / axes in the declared order
    names, opt = spec_names(case)
    if list(cfg["kin_scaling_param_list"]) != names:
        fails.append(("names:%s" % tag, "kin_scaling_param_list %r, declared order %r"
                      % (list(cfg["kin_scaling_param_list"]), names)))
        return fails, info
    axes = [np.asarray(a, dtype=float).tolist() for a in cfg["j_kin_scaling_param_axes"]]
    if len(axes) != len(names):
        fails.append(("axes:%s:count" % tag, "%d axes for %d names" % (len(axes), len(names))))
        return fails, info
    for a, o in zip(axes[len(axes) - len(opt):], opt):
        if len(a) != len(o) or not all(rel(x, y) for x, y in zip(a, o)):
            fails.append(("axes:%s:values" % tag, "optional axis %r differs from the supplied array %r" % (a, o)))
    info["names"], info["axes"] = names, axes
    shape = tuple(len(a) for a in axes)

    # --- measurement covariance
    ecm = np.atleast_2d(np.asarray(cfg["error_cov_measurement"], dtype=float))
    if case["supplied"] is not None:
        want = np.array(case["supplied"])
    else:
        want = np.diag(np.array(case["ind"]) ** 2) + case["cov"] ** 2
    if ecm.shape != want.shape or not all(rel(x, y) for x, y in zip(ecm.ravel(), want.ravel())):
        fails.append(("errcov:%s" % ("supplied" if case["supplied"] is not None else "formula"),
                      "error_cov_measurement %r, required %r" % (ecm.tolist(), want.tolist())))

    # --- engine calls: marginalisation draws / base / nodes
    marg = [c for c in rec.calls if c["draw"] is not None and not c["draw"]["no_error"]]
    det = [c for c in rec.calls if c["draw"] is not None and c["draw"]["no_error"]]
    if len(marg) != N or len(det) != 1 + int(np.prod(shape)):
        fails.append(("calls:%s" % tag, "%d engine calls on draws (num_sample_model %d), %d deterministic calls "
                      "(1 + %d nodes)" % (len(marg), N, len(det), int(np.prod(shape)))))
        return fails, info
    spec_args = spec_args_pl if case["family"] == "pl" else spec_args_comp
    base_params = {"a_ani": BASE_ANI[case["ani"]][0], "beta_inf": BASE_ANI[case["ani"]][1]}
    if case["family"] == "pl":
        if "gamma_pl" in names:
            base_params["gamma_pl"] = case["gamma"]
        mean_draw = (case["theta_E"], case["gamma"], case["r_eff"], 1.0)
    else:
        norm, is_alpha, rs_a = halo_spec(case)
        base_params["gamma_in"] = float(np.mean(case["gamma_in_arr"]))
        base_params["log_m2l"] = float(np.mean(case["log_m2l_arr"]))
        mean_draw = (float(np.mean(norm)), float(np.mean(rs_a)), float(np.mean(case["log_m2l_arr"])),
                     case["r_eff"], 1.0)

    def node_draw(params):
        if case["family"] == "pl" and "gamma_pl" in params:
            return (mean_draw[0], params["gamma_pl"], mean_draw[2], mean_draw[3])
        return mean_draw

    def report(kind, bad):
        for k, got, want_ in bad[:3]:
            fails.append(("engine_args:%s:%s" % (tag, k.split("[")[0]),
                          "%s call: argument %s reached the engine as %r, documented meaning %r"
                          % (kind, k, got, want_)))

    # draws: ranges, means, arguments
    for c in marg:
        d = c["draw"]
        o = d["out"]
        if case["family"] == "pl":
            tE, g, re, dl = o
            if not tE >= 0:
                fails.append(("draw_range:theta_E", "theta_E draw %r < 0" % tE))
            if d["kw"].get("gamma_pl") is None and not (1 <= g < 3):
                fails.append(("draw_range:gamma", "gamma draw %r outside [1, 3)" % g))
            if not re > 0:
                fails.append(("draw_range:r_eff", "r_eff draw %r <= 0" % re))
            if not rel(re, dl * case["r_eff"]):
                fails.append(("draw_range:delta", "r_eff draw %r is not delta %r times r_eff" % (re, dl)))
            report("draw", args_diff(c["flat"], spec_args(case, base_params, (tE, g, re, dl))))
        else:
            re, dl = o[-2], o[-1]
            if not re > 0:
                fails.append(("draw_range:r_eff", "r_eff draw %r <= 0" % re))
            if not rel(re, dl * case["r_eff"]):
                fails.append(("draw_range:delta", "r_eff draw %r is not delta %r times r_eff" % (re, dl)))
            idx = d["ints"][0][2] if d["ints"] else None
            m2l = o[2] if not case["pop"] else None
            if idx is not None:
                wantd = [norm[idx], rs_a[idx]] + ([] if case["pop"] else [case["log_m2l_arr"][idx]])
                if not all(rel(x, y) for x, y in zip(o[:len(wantd)], wantd)):
                    fails.append(("draw_joint:%s" % tag, "draw %r is not the joint sample %d: %r" % (o, idx, wantd)))
            report("draw", args_diff(c["flat"], spec_args(case, base_params, (o[0], o[1], m2l, re, dl))))
    for d in rec.draws:
        if d["no_error"]:
            want_o = list(mean_draw) if case["family"] == "pl" else (
                [mean_draw[0], mean_draw[1]] + ([] if case["pop"] else [mean_draw[2]]) + [case["r_eff"], 1.0])
            if case["family"] == "pl" and d["kw"].get("gamma_pl") is not None:
                want_o[1] = float(d["kw"]["gamma_pl"])
            if len(d["out"]) != len(want_o) or not all(rel(x, y) for x, y in zip(d["out"], want_o)):
                fails.append(("draw_mean:%s" % tag, "draw_lens(no_error=True) returned %r, means are %r"
                              % (d["out"], want_o)))
                break

    # base + nodes
    node_list = list(itertools.product(*axes))
    node_specs = []
    for p in node_list:
        params = dict(zip(names, p))
        node_specs.append(spec_args(case, params, node_draw(params)))
    base_spec = spec_args(case, base_params, node_draw(base_params))
    bi = next((j for j, c in enumerate(det) if not args_diff(c["flat"], base_spec)), 0)
    base_call = det[bi]
    report("base", args_diff(base_call["flat"], base_spec))
    node_calls = det[:bi] + det[bi + 1:]
    assoc = associate(node_specs, node_calls)
    nbad = 0
    for k, s in enumerate(node_specs):
        bad = args_diff(node_calls[assoc[k]]["flat"], s)
        if bad and nbad < 2:
            report("node", bad)
            nbad += 1
    info.update(marg=marg, base=base_call, nodes=[node_calls[j] for j in assoc], node_list=node_list)

    # --- J-model and sqrt(J) covariance over the draws
    jm = np.array([c["J"] for c in marg])          # N x n
    jmodel = np.asarray(cfg["j_model"], dtype=float).ravel()
    want = jm.sum(axis=0) / N
    if len(jmodel) != n or not all(rel(x, y) for x, y in zip(jmodel, want)):
        fails.append(("j_model:%s" % tag, "j_model %r, mean over the draws %r" % (jmodel.tolist(), want.tolist())))
    sq = np.sqrt(jm)
    dev = sq - sq.sum(axis=0) / N
    wantc = dev.T @ dev / (N - 1)
    covj = np.atleast_2d(np.asarray(cfg["error_cov_j_sqrt"], dtype=float))
    if covj.shape != (n, n) or not all(close(x, y, TOL, atol=1e-12) for x, y in zip(covj.ravel(), wantc.ravel())):
        fails.append(("cov_j_sqrt:%s" % tag, "error_cov_j_sqrt %r, sample covariance of sqrt(J) %r"
                      % (covj.tolist(), wantc.tolist())))

    # --- every node of every grid = J(node) / J(base)
    grids = [np.asarray(g, dtype=float) for g in cfg["j_kin_scaling_grid_list"]]
    if len(grids) != n or any(g.shape != shape for g in grids):
        fails.append(("grid_shape:%s" % tag, "grid shapes %r, axes lengths %r x %d bins"
                      % ([g.shape for g in grids], shape, n)))
        return fails, info
    ratio = np.array([[info["nodes"][k]["J"][s] / base_call["J"][s] for k in range(len(node_list))]
                      for s in range(n)])
    info["ratio"] = ratio
    for s in range(n):
        flat = grids[s].ravel()
        badk = [k for k in range(len(node_list)) if not rel(flat[k], ratio[s][k])]
        if badk:
            k = badk[0]
            fails.append(("grid_node:%s:%dd" % (tag, len(shape)),
                          "bin %d node %r: grid %r, J(node)/J(base) %r (%d of %d nodes differ)"
                          % (s, node_list[k], float(flat[k]), float(ratio[s][k]), len(badk), len(node_list))))
            break

    # --- accepted by the lens likelihood, whose kin_scaling returns the ratio at every node
    from hierarc.Likelihood.hierarchy_likelihood import LensLikelihood
    try:
        with np.errstate(all="ignore"):
            ll = LensLikelihood(**cfg)
    except NotImplementedError as e:
        if len(shape) == 2 and "interp2d" in str(e):
            info["accept"] = "skipped-F3"
            return fails, info
        fails.append(("accept:%s:NotImplemented" % tag, "LensLikelihood(**config): %s" % str(e)[:150]))
        return fails, info
    except Exception as e:  # noqa
        fails.append(("accept:%s:%s" % (tag, err_enum(e)), "LensLikelihood(**config) raised %s: %s"
                      % (type(e).__name__, str(e)[:150])))
        return fails, info
    info["accept"] = "ok"
    for k, p in enumerate(node_list):
        try:
            sc = np.asarray(ll.kin_scaling(dict(zip(names, p))), dtype=float).ravel()
        except Exception as e:  # noqa
            fails.append(("kin_scaling:%s:%s" % (tag, err_enum(e)), "kin_scaling at node %r raised %s" % (p, e)))
            break
        if len(sc) != n or not all(rel(sc[s], ratio[s][k]) for s in range(n)):
            fails.append(("kin_scaling:%s:%dd" % (tag, len(shape)),
                          "kin_scaling at node %r = %r, J(node)/J(base) = %r" % (p, sc.tolist(), ratio[:, k].tolist())))
            break
    # pass-through entries
    if list(np.asarray(cfg["sigma_v_measurement"], dtype=float)) != list(case["sigma_v"]) \
            or cfg["anisotropy_model"] != case["ani"] or cfg["z_lens"] != case["z_lens"] \
            or cfg["z_source"] != case["z_source"]:
        fails.append(("passthrough:%s" % tag, "data / redshifts / anisotropy model not passed through"))
    return fails, info


# ----------------------------------------------------------------------------- correspondence
def bits(x):
    return None if x is None else f2b(x)


def bl(x):
    return None if x is None else [f2b(v) for v in x]


def bll(x):
    return None if x is None else [[f2b(v) for v in row] for row in x]


def raws_of(case, rec):
    """the values numpy's generator returned, one entry per non-deterministic draw_lens call;
    None when the stream does not have the shape the model knows."""
    out = []
    for d in rec.draws:
        if d["no_error"]:
            continue
        v = [t[2] for t in d["normals"]]
        if case["family"] == "pl":
            if len(v) == 3:
                out.append([f2b(v[0]), f2b(v[1]), f2b(v[2])])
            elif len(v) == 2:
                out.append([f2b(v[0]), f2b(0.0), f2b(v[1])])
            else:
                return None
        else:
            if len(v) != 1 or len(d["ints"]) != 1:
                return None
            out.append([d["ints"][0][2], f2b(v[0])])
    return out


def driver_case(case, rec, raws, fac="pow10"):
    eng = rec.engine
    base = {"img": [f2b(case[k]) for k in ("theta_E", "theta_E_error", "gamma", "gamma_error", "r_eff", "r_eff_error")],
            "ani": case["ani"], "supplied": bll(case["supplied"]), "ind": bl(case["ind"]), "cov": bits(case["cov"]),
            "n": case["n"], "raws": raws, "jc": bl(eng.c), "jd": bl(eng.d),
            "w": [[k, bl(v)] for k, v in eng.w.items()]}
    if case["family"] == "pl":
        base.update(op="C16.pl", kind=case["kind"],
                    light=None if case["light"] is None else [[[k, f2b(v)] for k, v in d.items()] for d in case["light"]],
                    gamma_in=bl(case["gamma_in"]), log_m2l=bl(case["log_m2l"]), gamma_pl=bl(case["gamma_pl"]))
    else:
        base.update(op="C16.comp", gamma_in_arr=bl(case["gamma_in_arr"]), log_m2l_arr=bl(case["log_m2l_arr"]),
                    alpha_rs=bl(case["alpha_rs"]), rs_angle=bl(case["rs_angle"]), kappa_s=bl(case["kappa_s"]),
                    rho0=bl(case["rho0"]), rs=bl(case["rs"]), pop=case["pop"],
                    light=[[bl(d["amp"]), bl(d["sigma"])] for d in light_of(case)],
                    prior_mean=bits(case["prior_mean"]), prior_std=bits(case["prior_std"]),
                    cosmo=bl(lens_cosmo(case["z_lens"], case["z_source"])), kpoly=bl(KPOLY), fac=fac)
    return base


def cmp_flat(model_pairs, flat):
    m = {k: b2f(v) for k, v in model_pairs}
    g = dict(flat)
    if set(m) != set(g):
        return "argument names differ: model-only %s, code-only %s" % (sorted(set(m) - set(g)), sorted(set(g) - set(m)))
    for k in m:
        if not rel(m[k], g[k]):
            return "argument %s: model %r, code %r" % (k, m[k], g[k])
    return None


def cmp_vec(a, b, atol=None):
    a, b = list(a), list(b)
    return len(a) == len(b) and all(close(x, y, TOL, atol) for x, y in zip(a, b))


def compare(case, r, info, o):
    """model output `o` vs implementation; returns a text (first difference) or None"""
    if "err" in r or "err" in o:
        if r.get("err") != o.get("err"):
            return "error class: impl %s (%s) model %s" % (r.get("err"), r.get("stage"), o.get("err"))
        return None
    cfg, m = r["config"], o["ok"]
    if m["ltype"] != cfg["likelihood_type"]:
        return "likelihood_type"
    if m["names"] != list(cfg["kin_scaling_param_list"]):
        return "names: model %r code %r" % (m["names"], list(cfg["kin_scaling_param_list"]))
    axes = [np.asarray(a, dtype=float).tolist() for a in cfg["j_kin_scaling_param_axes"]]
    if len(axes) != len(m["axes"]) or not all(cmp_vec([b2f(x) for x in ma], a) for ma, a in zip(m["axes"], axes)):
        return "axes"
    if not cmp_vec([b2f(x) for x in m["jmodel"]], np.asarray(cfg["j_model"], dtype=float).ravel()):
        return "j_model"
    covj = np.atleast_2d(np.asarray(cfg["error_cov_j_sqrt"], dtype=float))
    if not cmp_vec([b2f(x) for row in m["covj"] for x in row], covj.ravel(), atol=1e-12):
        return "error_cov_j_sqrt"
    ecm = np.atleast_2d(np.asarray(cfg["error_cov_measurement"], dtype=float))
    if not cmp_vec([b2f(x) for row in m["errcov"] for x in row], ecm.ravel()):
        return "error_cov_measurement"
    grids = [np.asarray(g, dtype=float).ravel() for g in cfg["j_kin_scaling_grid_list"]]
    if len(grids) != len(m["grids"]) or not all(cmp_vec([b2f(x) for x in mg], g) for mg, g in zip(m["grids"], grids)):
        return "scaling grids"
    if m["has_prior"] != ("prior_list" in cfg):
        return "prior_list key"
    if m["has_prior"]:
        p = cfg["prior_list"]
        if (m["prior"] is None) != (p is None):
            return "prior_list None-ness"
        if p is not None:
            if len(p) != len(m["prior"]) or any(a[0] != b[0] or not rel(b2f(a[1]), b[1]) or not rel(b2f(a[2]), b[2])
                                                for a, b in zip(m["prior"], p)):
                return "prior_list entries"
    if "marg" not in info:
        return None        # the oracle could not identify the calls (it reported that itself)
    if len(m["marg"]) != len(info["marg"]) or len(m["nodes"]) != len(info["nodes"]):
        return "number of engine calls"
    for what, mp, calls in (("draw", m["marg"], info["marg"]), ("base", [m["base"]], [info["base"]]),
                            ("node", m["nodes"], info["nodes"])):
        for k, (a, c) in enumerate(zip(mp, calls)):
            t = cmp_flat(a, c["flat"])
            if t:
                return "engine call %s[%d]: %s" % (what, k, t)
    return None


# ----------------------------------------------------------------------------- direct draw_lens streams
def draw_stream_cases(rng, k):
    out = []
    for _ in range(k):
        c = gen_pl(rng) if rng.random() < 0.5 else gen_comp(rng)
        if expected_err(c) is not None:
            continue
        c["no_error"] = rng.random() < 0.15
        c["fixed_gamma"] = _r(rng, 1.2, 2.8) if (c["family"] == "pl" and rng.random() < 0.4) else None
        c["ndraw"] = 40
        out.append(c)
    return out


def run_draw_stream(case):
    """calls the public draw_lens repeatedly; returns (fails, driver-case, impl outputs)"""
    fails = []
    rec = Recorder(Engine(case["salt"], case["n"]))
    np.random.seed(case["np_seed"])
    tag = mode_tag(case)
    with patched(rec, KPOLY), np.errstate(all="ignore"):
        try:
            obj = build(case)
        except Exception as e:  # noqa  – a valid imaging / kinematic input must be accepted
            return [("raised:init:" + err_enum(e), "constructor raised %s: %s on a valid input (light: %d component(s)%s)"
                     % (type(e).__name__, str(e)[:120], len(case.get("light") or []), ", one model entry each" if case.get("multi_models") else ""))], None, []
        for _ in range(case["ndraw"]):
            if case["family"] == "pl":
                obj.draw_lens(gamma_pl=case["fixed_gamma"], no_error=case["no_error"])
            else:
                obj.draw_lens(no_error=case["no_error"])
    outs = [d["out"] for d in rec.draws]
    for d in rec.draws:
        o = d["out"]
        re, dl = o[-2], o[-1]
        if not re > 0:
            fails.append(("draw_range:r_eff", "r_eff draw %r <= 0" % re))
        if case["family"] == "pl":
            if not o[0] >= 0:
                fails.append(("draw_range:theta_E", "theta_E draw %r < 0" % o[0]))
            if case["fixed_gamma"] is None and not (1 <= o[1] < 3):
                fails.append(("draw_range:gamma", "gamma draw %r outside [1, 3)" % o[1]))
            if case["fixed_gamma"] is not None and o[1] != case["fixed_gamma"]:
                fails.append(("draw_range:gamma_fixed", "gamma %r although gamma_pl=%r was requested" % (o[1], case["fixed_gamma"])))
            if case["no_error"] and not (o[0] == case["theta_E"] and o[2] == case["r_eff"] and o[3] == 1
                                         and (case["fixed_gamma"] is not None or o[1] == case["gamma"])):
                fails.append(("draw_mean:%s" % tag, "no_error draw %r is not the mean" % o))
        else:
            norm, _, rs_a = halo_spec(case)
            if case["no_error"]:
                want = [np.mean(norm), np.mean(rs_a)] + ([] if case["pop"] else [np.mean(case["log_m2l_arr"])]) + [case["r_eff"], 1.0]
                if len(o) != len(want) or not all(rel(x, y) for x, y in zip(o, want)):
                    fails.append(("draw_mean:%s" % tag, "no_error draw %r is not the mean %r" % (o, want)))
            elif d["ints"]:
                idx = d["ints"][0][2]
                want = [norm[idx], rs_a[idx]] + ([] if case["pop"] else [case["log_m2l_arr"][idx]])
                if not all(rel(x, y) for x, y in zip(o, want)):
                    fails.append(("draw_joint:%s" % tag, "draw %r is not the joint sample %d" % (o, idx)))
        if fails:
            break
    # driver case
    dc = None
    if case["no_error"]:
        raws = [[f2b(0.0)] * 3 for _ in outs] if case["family"] == "pl" else [[0, f2b(0.0)] for _ in outs]
    else:
        raws = raws_of(case, rec)
    if raws is not None:
        dc = driver_case(case, rec, raws)
        dc["no_error"] = case["no_error"]
        if case["family"] == "pl":
            dc["op"] = "C16.draw"
            dc["gamma_pl"] = bits(case["fixed_gamma"])
        else:
            dc["op"] = "C16.drawc"
    return fails, dc, outs


def compare_draws(case, o, outs):
    if "err" in o:
        return "model error %s" % o["err"]
    md = [[b2f(x) for x in row] for row in o["ok"]["draws"]]
    if len(md) != len(outs):
        return "number of draws"
    for a, b in zip(md, outs):
        if case["family"] == "composite" and case["pop"]:
            a = a[:2] + a[3:]
        if not cmp_vec(a, b):
            return "draw: model %r code %r" % (a, b)
    return None


# ----------------------------------------------------------------------------- run / replay
def signature_of(case):
    light = "hernquist" if case["light"] is None else "profiles%d" % len(case["light"])
    err = "supplied" if case["supplied"] is not None else "formula"
    return (case["kind"], case["ani"], case.get("mode"), case.get("pop"), light, err, case["n"],
            case.get("gamma_pl") is not None)


def strip(case):
    return {k: v for k, v in case.items()}


def run(ctx, res):
    rng = ctx.rng
    n = ctx.n(400, 6000)
    cases = [dict(c) for c in FIXED]
    for _ in range(n):
        cases.append(gen_pl(rng) if rng.random() < 0.5 else gen_comp(rng))
    pend = []
    for c in cases:
        r = call_impl(c)
        fails, info = oracle(c, r)
        if "err" not in r and res.evaluations % 4 == 0:
            try:
                fails = list(fails) + reemit_oracle(c)
                res.count("second_emission_after_edit")
            except Exception as e:  # noqa
                res.notes.append("second-emission check failed to run: %r" % (e,))
        res.evaluations += 1
        res.count("class=" + c["kind"])
        res.count("ani=" + c["ani"])
        if c["family"] == "composite":
            res.count("halo=" + c["mode"])
            res.count("m2l=" + ("population" if c["pop"] else "per-lens"))
        res.count("light=" + ("hernquist" if c["light"] is None else "supplied"))
        res.count("errspec=" + ("matrix" if c["supplied"] is not None else "incomplete" if (c["ind"] is None or c["cov"] is None) else "ind+cov"))
        if "err" in r:
            res.count("raised=%s@%s" % (r["err"], r["stage"]))
        else:
            res.count("axes=%d" % len(r["config"]["kin_scaling_param_list"]))
            res.count("accept=" + str(info.get("accept", "not-reached")))
            res.signatures.add(signature_of(c))
            if len(res.samples) < 3 and c not in FIXED:
                res.sample({k: c[k] for k in ("kind", "ani", "theta_E", "gamma", "r_eff", "n", "N", "light")}
                           | {"names": r["config"]["kin_scaling_param_list"],
                              "grid_shape": list(np.shape(r["config"]["j_kin_scaling_grid_list"][0]))})
        seen = set()
        for sig, text in fails:
            if sig in seen:
                continue
            seen.add(sig)
            res.violation(sig, text, strip(c))
        pend.append((c, r, info, fails))
    # direct draw streams
    dcases = draw_stream_cases(rng, ctx.n(100, 1500))
    dpend = []
    for c in dcases:
        fails, dc, outs = run_draw_stream(c)
        res.evaluations += 1
        res.count("draw_stream=" + mode_tag(c) + ("/no_error" if c["no_error"] else ""))
        for sig, text in fails[:1]:
            res.violation(sig, text, strip(c))
        dpend.append((c, dc, outs))
    if any("F3" in str(i.get("accept")) for _, _, i, _ in pend):
        res.notes.append("2-axis configurations: LensLikelihood cannot be constructed with the installed SciPy "
                         "(interp2d removed, finding F3 / C10); acceptance + kin_scaling part skipped for them")
    if ctx.search_mode:
        return
    # ---- correspondence with the Lean model
    dcs, idx = [], []
    for i, (c, r, info, fails) in enumerate(pend):
        raws = raws_of(c, r["rec"])
        if raws is None:
            res.disagree("random stream consumed by draw_lens has an unknown shape", strip(c))
            continue
        dcs.append(driver_case(c, r["rec"], raws))
        idx.append(i)
    outs = run_driver(dcs)
    retry = []
    for i, o in zip(idx, outs):
        c, r, info, fails = pend[i]
        t = compare(c, r, info, o)
        if t and c["family"] == "composite" and not c["pop"]:
            retry.append((i, t))
            continue
        res.traces += 1
        if t:
            res.disagree(t, strip(c))
        elif "err" in r:
            res.count("err_agree=" + r["err"])
    if retry:
        # per-lens M/L mode: the model family has the amplitude factor `fac` as a parameter; the
        # documented one is 10**x (tried first); `fac = id` is finding F5 of the unchanged tree.
        outs2 = run_driver([driver_case(pend[i][0], pend[i][1]["rec"], raws_of(pend[i][0], pend[i][1]["rec"]), fac="id")
                            for i, _ in retry])
        for (i, t), o in zip(retry, outs2):
            c, r, info, fails = pend[i]
            res.traces += 1
            t2 = compare(c, r, info, o)
            if t2 is None and any(s.startswith("engine_args:composite_per_lens") for s, _ in fails):
                res.count("per_lens_factor=identity(F5)")
            else:
                res.disagree(t, strip(c))
    ddcs = [(c, dc, outs_) for c, dc, outs_ in dpend if dc is not None]
    for c, dc, _ in dpend:
        if dc is None:
            res.disagree("random stream consumed by draw_lens has an unknown shape", strip(c))
    douts = run_driver([dc for _, dc, _ in ddcs])
    for (c, dc, outs_), o in zip(ddcs, douts):
        res.traces += 1
        t = compare_draws(c, o, outs_)
        if t:
            res.disagree("draw_lens: " + t, strip(c))


def replay(ctx, data):
    c = data["input"]
    if "ndraw" in c:
        fails, _, _ = run_draw_stream(c)
    else:
        r = call_impl(c)
        fails, _ = oracle(c, r)
    want = data.get("signature")
    hit = [f for f in fails if want is None or f[0] == want] or fails
    return bool(fails), "oracle on the implementation: %s" % ([t for _, t in hit[:3]] or "holds")


LEVEL_TEXT = ("Lean 4 theorems over ℝ for the model of the LensPosterior classes with the kinematics engine an "
              "arbitrary function J: measurement covariance = diag(independent²)+covariant² or the supplied matrix "
              "(symmetric); J-model = mean and √J-covariance = unbiased sample covariance over the lens-model draws "
              "(symmetric, positive semi-definite); every node of every scaling grid = J(arguments at the node) / "
              "J(base arguments) for ANY number of axes (induction over the axis list, row-major index), names and "
              "axes aligned in the declared order, hence any interpolator that is exact at nodes — in particular "
              "multilinear interpolation on strictly increasing axes, node-exactness proved here for any number of "
              "axes — returns that ratio at every node; engine "
              "arguments at nodes/base/draws: r_ani = a_ani·r_eff, beta_inf, beta, slope, inner slope, halo "
              "normalisation per input mode, stellar amplitude 10^log(M/L)·amp/Σcrit at population level and — for the "
              "per-lens mode — amp·fac(log M/L)/Σcrit, which is the documented value iff fac = 10^x and NEVER for the "
              "identity factor realised by the unchanged tree (finding F5, proved: x ≠ 10^x for all real x); light "
              "sizes × δ_r_eff; draw ranges θ_E ≥ 0, 1 ≤ γ ≤ 2.999 < 3, r_eff > 0, means when errors are off.  The "
              "model is tied to the real classes (stubbed engine) by differential execution on every run, and the "
              "property statement is evaluated on the real code incl. LensLikelihood(**config).kin_scaling at every node")
LEVEL_NOTE = ("validated only (not a theorem): acceptance by the real LensLikelihood and scipy's interpolators at nodes "
              "(oracle on every 1-, 3-, 4-axis case; 2-axis blocked by F3/C10), numpy mean/cov, the laws of the random "
              "draws; trusted: Lean kernel + Mathlib, hand model tied by correspondence (tol 1e-9), harness engine stub; "
              "IEEE rounding outside the ℝ theorems")
TECHNIQUE = ("Lean 4 proof (induction over axis lists / draws, ordered-field and Finset-sum arithmetic) + "
             "model/implementation correspondence with a polynomial engine stub")
