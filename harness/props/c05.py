"""C05 — distances fed to the likelihoods are the FLRW distances of the sampled cosmology.

Real code exercised (in-process, current working tree):
  hierarc.Sampling.ParamManager.cosmo_param.CosmoParam.cosmo
  hierarc.Likelihood.cosmo_likelihood.CosmoLikelihood.cosmo_instance / likelihood
  hierarc.Likelihood.hierarchy_likelihood.LensLikelihood.angular_diameter_distances /
      luminosity_distance_modulus,  LensLikelihoodBase.beta_dsp
"""
import math
import warnings

import numpy as np

from harness.common import run_driver, f2b, b2f, fl, close, err_enum, fclass

ID = "C05"
LEAN_MODULES = ["HierArc.Props.C05"]

MODELS = ["FLCDM", "FwCDM", "w0waCDM", "oLCDM"]
MODES = ["sampledInterp", "sampledExact", "fixedInterp", "fixedExact", "tabulated"]
EXACT_MODES = ("sampledExact", "fixedExact")
LTYPES = ["DdtGaussian", "Mag", "DSPL", "TDMag", "TDMagMagnitude"]
MAGLIKE = ("Mag", "TDMag", "TDMagMagnitude")     # the types that carry a source brightness (lens-side distance modulus)
C_KMS = 299792.458

TOL_EXACT = 1e-6        # exact modes vs the Friedmann reference / the model (astropy = external engine)
# interpolated / tabulated modes vs the Friedmann reference: "to within the interpolation error" = the
# textbook bound h^2/8 max|f''| of linear interpolation, computed per case (interp_tolerances)
TOL_INTERP_MODEL = 1e-6  # model of CosmoInterp vs CosmoInterp (same algorithm, Simpson vs quad per panel)
TOL_TABLE_MODEL = 1e-8  # tabulated mode: no integral on either side
TOL_LOGL = 1e-9
DEPTH_EXACT = 8         # 2^8 Simpson panels per comoving integral
DEPTH_PANEL = 2         # 2^2 Simpson panels per interpolation panel

RULE = ("one case = (cosmological model of the four, parameter dict in the physical range "
        "[h0 30..120, om 0.05..0.95, ok -0.3..0.5 with Ode>0 and E^2>0 on the redshift range, w/w0 -2..-0.34, "
        "wa -1.5..1], redshifts 0.1<=z_d<z_s, second source and anchor redshift, likelihood type of "
        "DdtGaussian/Mag/DSPL, num_redshift_interp 100..300) evaluated in ALL five supply modes "
        "(sampled+interp, sampled exact, fixed+interp, fixed exact, tabulated with and without ok/K); plus "
        "a boundary stream (z_s<=z_d, z_d=0, equal redshifts, |ok|<1e-6, Einstein-de-Sitter, anchor beyond "
        "the interpolation range), a sanitisation stream (stub cosmologies returning nan/+-inf/0/negative/"
        "huge distances), a parameter-map stream (missing keys, extra keys, unknown model, NONE) and the "
        "exhaustive 40-entry mode-selection table; distinct = distinct (stream, model, likelihood type, "
        "curvature class, redshift-order class, tabulated-K variant); a case is non-trivial when at least one "
        "distance is computed (everything except the 'NONE'/error rows of the parameter-map stream)")
ASSUMPTIONS = [
    "astropy.cosmology integrates the Friedmann equation correctly for Ode0>0 (validated every run against "
    "an independent scipy.quad integration of the textbook E(z) to 1e-6, and against mpmath on a subset); "
    "for Ode0<0 astropy's closed-form LambdaCDM distance is NOT the Friedmann integral (observed; hierArc's "
    "oLCDM guard excludes that region, the generator too)",
    "lenstronomy.CosmoInterp / scipy interp1d behave as modelled (linear interpolation of the comoving "
    "distance on linspace(0, z_max, n+1); |Ok|<1e-6 treated as flat) — tied by correspondence at 1e-6",
    "the comoving integral is a parameter of the model: composite Simpson (256 panels) at Float, the interval "
    "integral over R (theorems Iint_addOn / Iint_posOn); IEEE rounding is outside the R theorems",
    "physical range: H0>0, 0<=Om, E(z)^2>0 on [0,z_max]; closed models nearer than the antipode",
    "interpolation error <= 1e-3 relative holds for z_d>=0.1 and panel width z_max/num_interp<=0.05 "
    "(generator range; measured maximum reported in the evidence); the proved bound is first order "
    "(ofCosmo_dCom_error: at most the comoving distance across one panel)",
]
TRUSTED = ["hand-written model HierArc/Model/Cosmo.lean tied by differential execution",
           "independent Friedmann reference in harness/props/c05.py (scipy.quad of the textbook E(z))"]


# ----------------------------------------------------------------------------------------------
# independent reference: the property statement written out (h0->H0, om->Om, ok->Ok, OL=1-Om-Ok,
# w / w0,wa -> equation of state), integrated with scipy.quad
# ----------------------------------------------------------------------------------------------
def flrw_params(model, kw):
    """[H0, Om, Ode, w0, wa] as the property statement defines them."""
    if model == "FLCDM":
        return [kw["h0"], kw["om"], 1.0 - kw["om"], -1.0, 0.0]
    if model == "FwCDM":
        return [kw["h0"], kw["om"], 1.0 - kw["om"], kw["w"], 0.0]
    if model == "w0waCDM":
        return [kw["h0"], kw["om"], 1.0 - kw["om"], kw["w0"], kw["wa"]]
    if model == "oLCDM":
        return [kw["h0"], kw["om"], 1.0 - kw["om"] - kw["ok"], -1.0, 0.0]
    raise ValueError(model)


def e2(p, z):
    _, om, ode, w0, wa = p
    ok = 1.0 - om - ode
    x = 1.0 + z
    de = 1.0 if (w0 == -1.0 and wa == 0.0) else x ** (3.0 * (1.0 + w0 + wa)) * math.exp(-3.0 * wa * z / x)
    return om * x ** 3 + ok * x ** 2 + ode * de


def ref_integral(p, z1, z2):
    from scipy.integrate import quad
    if z1 == z2:
        return 0.0
    v, _ = quad(lambda z: 1.0 / math.sqrt(e2(p, z)), z1, z2, epsabs=0.0, epsrel=1e-12, limit=200)
    return v


def ref_transverse(p, z1, z2):
    """transverse comoving distance [Mpc] between z1 and z2"""
    h0, om, ode = p[0], p[1], p[2]
    ok = 1.0 - om - ode
    dh = C_KMS / h0
    i = ref_integral(p, z1, z2)
    if ok > 0:
        s = math.sqrt(ok)
        return dh * math.sinh(s * i) / s
    if ok < 0:
        s = math.sqrt(-ok)
        return dh * math.sin(s * i) / s
    return dh * i


def ref_quantities(p, zd, zs, zs2, za):
    """Ddt, Dd, modulus difference, beta from the Friedmann equation (no floors)."""
    dd = ref_transverse(p, 0.0, zd) / (1 + zd)
    ds = ref_transverse(p, 0.0, zs) / (1 + zs)
    dds = ref_transverse(p, zd, zs) / (1 + zs)
    ds2 = ref_transverse(p, 0.0, zs2) / (1 + zs2)
    dds2 = ref_transverse(p, zd, zs2) / (1 + zs2)
    da = ref_transverse(p, 0.0, za) / (1 + za)
    out = {"dd": dd, "ds": ds, "dds": dds, "da": da}
    with np.errstate(all="ignore"):
        out["ddt"] = float(np.float64(1 + zd) * dd * ds / np.float64(dds))
        out["beta"] = float(np.float64(dds) / ds * ds2 / np.float64(dds2))
        out["mod"] = (5 * math.log10((1 + zs) ** 2 * ds) - 5 * math.log10((1 + za) ** 2 * da)
                      if ds > 0 and da > 0 else float("nan"))
    return out


def mp_dA(p, z):
    """30-digit reference of D_A(z) (thorough tier / a few quick cases)."""
    import mpmath as mp
    mp.mp.dps = 30
    h0, om, ode, w0, wa = [mp.mpf(repr(float(x))) for x in p]
    ok = 1 - om - ode

    def inv_e(x):
        de = (1 + x) ** (3 * (1 + w0 + wa)) * mp.e ** (-3 * wa * x / (1 + x))
        return 1 / mp.sqrt(om * (1 + x) ** 3 + ok * (1 + x) ** 2 + ode * de)
    i = mp.quad(inv_e, [0, mp.mpf(repr(float(z)))])
    dh = mp.mpf("299792.458") / h0
    if ok > 0:
        dm = dh * mp.sinh(mp.sqrt(ok) * i) / mp.sqrt(ok)
    elif ok < 0:
        dm = dh * mp.sin(mp.sqrt(-ok) * i) / mp.sqrt(-ok)
    else:
        dm = dh * i
    return float(dm / (1 + mp.mpf(repr(float(z)))))


# ----------------------------------------------------------------------------------------------
# "to within the interpolation error": the textbook bound of linear interpolation,
#   |f(z) - L(z)| <= h^2/8 * max_panel |f''|,   f = line-of-sight comoving distance, f'' = -dH * E'/E^2,
# propagated to the assembled quantities (first order, safety factor 2)
# ----------------------------------------------------------------------------------------------
def interp_nodes(case, mode, p):
    if mode == "tabulated":
        tab, _ = table_of(case, p)
        zz = tab["redshifts"]
        return np.concatenate([[0.0], zz]) if zz[0] > 0 else zz
    return np.linspace(0, z_max_of(lens_kwargs(case)), case["num_interp"] + 1)


def eps_com(p, nodes, z):
    """bound on the interpolation error of the comoving distance at z [Mpc]"""
    if z <= nodes[0] or z >= nodes[-1]:
        return 0.0
    i = int(np.searchsorted(nodes, z, side="right")) - 1
    a, b = float(nodes[i]), float(nodes[min(i + 1, len(nodes) - 1)])
    if b <= a:
        return 0.0
    dh = C_KMS / p[0]
    worst = 0.0
    for t in np.linspace(a, b, 7):
        d = 1e-5 * (1 + t)
        de2 = (e2(p, t + d) - e2(p, t - d)) / (2 * d)
        worst = max(worst, abs(de2) / (2 * e2(p, t) ** 1.5))      # |E'/E^2| = |(E^2)'| / (2 E^3)
    return dh * worst * (b - a) ** 2 / 8


def interp_tolerances(case, mode, p, ref):
    """relative tolerances for ddt, dd, beta and absolute one for the modulus in an interpolated mode"""
    nodes = interp_nodes(case, mode, p)
    ok = 1.0 - p[1] - p[2]
    amp = math.cosh(math.sqrt(ok) * ref_integral(p, 0, max(case["zs"], case["zs2"], case["za"]))) if ok > 0 else 1.0
    zd, zs, zs2, za = case["zd"], case["zs"], case["zs2"], case["za"]
    e = {z: eps_com(p, nodes, z) * amp / (1 + z) for z in (zd, zs, zs2, za)}

    def r(eps, val):
        return eps / abs(val) if val not in (0.0,) and math.isfinite(val) else float("inf")
    r_dd = r(e[zd], ref["dd"])
    r_ds = r(e[zs], ref["ds"])
    r_dds = r((eps_com(p, nodes, zd) + eps_com(p, nodes, zs)) * amp / (1 + zs), ref["dds"])
    r_da = r(e[za], ref["da"])
    ds2 = ref_transverse(p, 0.0, zs2) / (1 + zs2)
    dds2 = ref_transverse(p, zd, zs2) / (1 + zs2)
    r_ds2 = r(e[zs2], ds2)
    r_dds2 = r((eps_com(p, nodes, zd) + eps_com(p, nodes, zs2)) * amp / (1 + zs2), dds2)
    floor = 1e-6
    return {"dd": 2 * r_dd + floor, "ddt": 2 * (r_dd + r_ds + r_dds) + floor,
            "beta": 2 * (r_ds + r_dds + r_ds2 + r_dds2) + floor,
            "mod": 2 * (5 / math.log(10)) * (r_ds + r_da) + 1e-5}


# ----------------------------------------------------------------------------------------------
# real code
# ----------------------------------------------------------------------------------------------
def astropy_of(p):
    """a user-supplied fixed astropy cosmology with parameters p (built WITHOUT hierArc)."""
    from astropy.cosmology import FlatLambdaCDM, LambdaCDM, FlatwCDM, w0waCDM
    h0, om, ode, w0, wa = p
    if wa != 0.0:
        return w0waCDM(H0=h0, Om0=om, Ode0=ode, w0=w0, wa=wa)
    if w0 != -1.0:
        if ode == 1.0 - om:
            return FlatwCDM(H0=h0, Om0=om, w0=w0)
        return w0waCDM(H0=h0, Om0=om, Ode0=ode, w0=w0, wa=0.0)
    if ode == 1.0 - om:
        return FlatLambdaCDM(H0=h0, Om0=om)
    return LambdaCDM(H0=h0, Om0=om, Ode0=ode)


BOUNDS = dict(
    kwargs_lower_cosmo={"h0": 0, "om": 0, "ok": -1, "w": -4, "w0": -4, "wa": -4},
    kwargs_upper_cosmo={"h0": 500, "om": 2, "ok": 1, "w": 1, "w0": 1, "wa": 4},
    kwargs_fixed_cosmo={})


def lens_kwargs(case, ref_ddt=None):
    lt = case["ltype"]
    base = dict(z_lens=case["zd"], z_source=case["zs"], likelihood_type=lt)
    if lt == "DdtGaussian":
        mean = ref_ddt if (ref_ddt is not None and math.isfinite(ref_ddt) and ref_ddt > 0) else 3000.0
        base.update(ddt_mean=mean * 1.03, ddt_sigma=0.05 * mean)
    elif lt == "Mag":
        base.update(amp_measured=np.array([1.0, 2.0]), cov_amp_measured=np.eye(2),
                    magnification_model=np.array([1.0, 2.0]), cov_magnification_model=0.1 * np.eye(2))
    elif lt == "DSPL":
        base.update(z_source2=case["zs2"], beta_dspl=1.2, sigma_beta_dspl=0.01)
    elif lt == "TDMag":
        base.update(time_delay_measured=np.array([10.0, 25.0]), cov_td_measured=np.eye(2), amp_measured=np.array([1.0, 2.0, 1.5]),
                    cov_amp_measured=0.1 * np.eye(3), fermat_diff=np.array([0.1, 0.25]), magnification_model=np.array([1.0, 2.0, 1.5]),
                    cov_model=0.01 * np.eye(5), magnitude_zero_point=20)
    elif lt == "TDMagMagnitude":
        base.update(time_delay_measured=np.array([10.0, 25.0]), cov_td_measured=np.eye(2), magnitude_measured=np.array([21.0, 20.3, 20.6]),
                    cov_magnitude_measured=0.01 * np.eye(3), fermat_diff=np.array([0.1, 0.25]), magnification_model=np.array([0.0, -0.75, -0.44]),
                    cov_model=0.01 * np.eye(5))
    else:
        raise ValueError(lt)
    return base


def z_max_of(lens_kw):
    zm = 0
    if lens_kw.get("z_source", 0) > zm:
        zm = lens_kw["z_source"]
    if "z_source2" in lens_kw and lens_kw["z_source2"] > zm:
        zm = lens_kw["z_source2"]
    return zm


def wrong_kwargs(model, kw):
    """a different (valid) parameter dict: fixed-cosmology modes must ignore it"""
    w = dict(kw)
    w["h0"] = kw["h0"] * 0.7 + 3.0
    if model != "oLCDM":     # (oLCDM: keep Om so that the likelihood's curvature guard still passes)
        w["om"] = 0.5 * kw["om"] + 0.2
    return w


def table_of(case, p):
    """the table a user would tabulate: exact astropy distances of the cosmology p"""
    ztab_max = max(case["zs"], case["zs2"], case["za"], case["zd"]) * 1.02 + 0.01
    z0 = case.get("tab_z0", 0.0)
    zgrid = np.linspace(z0, ztab_max, case["ntab"])
    c = astropy_of(p)
    d = c.angular_diameter_distance(zgrid).value
    tab = {"ang_diameter_distances": d, "redshifts": zgrid}
    okK = None
    if case["tab_K"] == "given":
        okK = (float(c.Ok0), float((-c.Ok0 / c.hubble_distance ** 2).value))
        tab["ok"], tab["K"] = okK
    return tab, okK


def observe(cosmo, lens_kw, za):
    """the three observation points on one lens; exceptions are recorded per call site"""
    from hierarc.Likelihood.hierarchy_likelihood import LensLikelihood
    lens = LensLikelihood(**lens_kw)
    out = {}
    calls = (("angular_diameter_distances", lambda: lens.angular_diameter_distances(cosmo)),
             ("luminosity_distance_modulus", lambda: lens.luminosity_distance_modulus(cosmo, za)),
             ("beta_dsp", lambda: lens.beta_dsp(cosmo)))
    for name, f in calls:
        try:
            with warnings.catch_warnings():
                warnings.simplefilter("ignore")
                with np.errstate(all="ignore"):
                    v = f()
        except Exception as e:  # noqa
            out[name] = {"err": err_enum(e), "msg": ("%s: %s" % (type(e).__name__, e))[:160]}
            continue
        if name == "angular_diameter_distances":
            out[name] = {"ddt": float(v[0]), "dd": float(v[1])}
        elif name == "luminosity_distance_modulus":
            out[name] = {"mod": float(v)}
        else:
            out[name] = {"beta": None if v is None else float(v)}
    return out


def run_mode(case, mode, p, ref):
    """build CosmoLikelihood in the given supply mode and observe one lens.  Returns dict."""
    from hierarc.Likelihood.cosmo_likelihood import CosmoLikelihood
    model, kw = case["model"], case["kw"]
    lens_kw = lens_kwargs(case, ref["ddt"] if ref else None)
    interp = mode in ("sampledInterp", "fixedInterp", "tabulated")
    fixed = astropy_of(p) if mode.startswith("fixed") else None
    cl = CosmoLikelihood([lens_kw], model, {}, BOUNDS, interpolate_cosmo=interp,
                         num_redshift_interp=case["num_interp"], cosmo_fixed=fixed)
    kw_in = dict(kw)
    tab = None
    if mode.startswith("fixed"):
        kw_in = wrong_kwargs(model, kw)
    if case.get("extra_key"):
        kw_in["mu_sne"] = 19.3
    if mode == "tabulated":
        tab, _ = table_of(case, p)
        kw_in = {**wrong_kwargs(model, kw), **tab} if model != "oLCDM" else {**kw, **tab}
    res = {"mode": mode}
    try:
        with warnings.catch_warnings():
            warnings.simplefilter("ignore")
            cosmo = cl.cosmo_instance(kw_in)
    except Exception as e:  # noqa
        res["cosmo_instance"] = {"err": err_enum(e), "msg": ("%s: %s" % (type(e).__name__, e))[:160]}
        return res
    res.update(observe(cosmo, lens_kw, case["za"]))
    # end to end: what the likelihood is fed
    if case["ltype"] == "DdtGaussian" and case.get("e2e", True):
        try:
            kw_l = wrong_kwargs(model, kw) if mode.startswith("fixed") else dict(kw)
            args = cl.param.kwargs2args(kwargs_cosmo=kw_l)
            with warnings.catch_warnings():
                warnings.simplefilter("ignore")
                with np.errstate(all="ignore"):
                    logl = cl.likelihood(args, kwargs_cosmo_interp=tab)
            res["likelihood"] = {"logl": float(logl)}
        except Exception as e:  # noqa
            res["likelihood"] = {"err": err_enum(e), "msg": ("%s: %s" % (type(e).__name__, e))[:160]}
    return res


def range_error_expected(case, mode, site):
    """interpolated modes tabulate [0, z_max] with z_max = max source redshift of the lens list; a
    redshift beyond it (source in front of the lens, anchor beyond the sources) is a scipy bounds
    ValueError by construction, not a property violation"""
    if mode not in ("sampledInterp", "fixedInterp"):
        return False
    zmax = z_max_of(lens_kwargs(case))
    used = {"angular_diameter_distances": [case["zd"], case["zs"]] if case["ltype"] != "DSPL" else [],
            "luminosity_distance_modulus": [case["zs"], case["za"]] if case["ltype"] in MAGLIKE else [],
            "beta_dsp": [case["zd"], case["zs"], case["zs2"]] if case["ltype"] == "DSPL" else []}
    used["likelihood"] = used["angular_diameter_distances"]
    return any(z > zmax for z in used.get(site, []))


def err_signature(mode_label, site, info):
    if info["err"] == "TypeError" and "positional-only" in info.get("msg", ""):
        return "astropy-keyword-z:%s:%s" % (mode_label, site)
    if info["err"] == "TypeError" and site in ("cosmo_instance", "likelihood") and "NoneType" in info.get("msg", "") \
            and mode_label == "tabulated-K-omitted":
        return "tabulated-without-K:%s" % site
    return "raised-%s:%s:%s" % (info["err"], mode_label, site)


def rel(a, b):
    return abs(a - b) / max(abs(a), abs(b), 1e-300)


def mode_label(case, mode):
    if mode == "tabulated":
        return "tabulated-K-" + case["tab_K"]
    return mode


# ----------------------------------------------------------------------------------------------
# the property oracle for one case (all modes)
# ----------------------------------------------------------------------------------------------
def oracle(case, stats=None):
    """evaluates the property statement on the implementation.
    Returns (fails: list of (signature, text), per-mode observations, reference)."""
    p = flrw_params(case["model"], case["kw"])
    zd, zs, zs2, za = case["zd"], case["zs"], case["zs2"], case["za"]
    ordered = 0 < zd < zs and (case["ltype"] != "DSPL" or zd < zs2) and za > 0
    ref = ref_quantities(p, zd, zs, zs2, za)
    fails = []
    obs = {}
    all_tols = {}
    lt = case["ltype"]
    for mode in case.get("modes", MODES):
        lab = mode_label(case, mode)
        o = run_mode(case, mode, p, ref)
        obs[mode] = o
        for site in ("cosmo_instance", "angular_diameter_distances", "luminosity_distance_modulus",
                     "beta_dsp", "likelihood"):
            info = o.get(site)
            if info is None or "err" not in info:
                continue
            if info["err"] == "ValueError" and range_error_expected(case, mode, site):
                continue
            if info["err"] == "ValueError" and mode == "tabulated" and case["tab_K"] == "omitted" \
                    and case["kw"].get("ok", 0.0) != 0 and site in ("cosmo_instance", "likelihood"):
                # a table of a curved cosmology handed over without its curvature K cannot be used (D_ds needs K):
                # refusing it is allowed; any VALUE returned instead is held against the Friedmann distances below
                if stats is not None:
                    stats["curved_table_without_K_refused"] = stats.get("curved_table_without_K_refused", 0) + 1
                continue
            fails.append((err_signature(lab, site, info),
                          "%s raised in mode %s: %s" % (site, lab, info["msg"])))
        if mode in EXACT_MODES or not ordered:
            tols = {"dd": TOL_EXACT, "ddt": TOL_EXACT, "beta": TOL_EXACT, "mod": 5 * math.log10(1 + TOL_EXACT) * 1.2 + 1e-12}
        else:
            tols = interp_tolerances(case, mode, p, ref)
            if stats is not None:
                stats["interp_bound_max"] = max(stats.get("interp_bound_max", 0.0), tols["ddt"])
        all_tols[mode] = tols
        # --- Ddt, Dd
        a = o.get("angular_diameter_distances")
        if a and "err" not in a:
            if lt == "DSPL":
                if not (a["ddt"] == 0 and a["dd"] == 0):
                    fails.append(("gate:angular_diameter_distances:DSPL", "DSPL lens returned %r" % (a,)))
            else:
                for k in ("ddt", "dd"):
                    v = a[k]
                    if not (math.isfinite(v) and v >= 1e-5):
                        fails.append(("not-finite-positive:%s:%s" % (lab, k),
                                      "%s = %r in mode %s is not finite and >= 1e-5" % (k, v, lab)))
                    elif ordered and math.isfinite(ref[k]) and 1e-5 <= ref[k] < 1e300:
                        r = rel(v, ref[k])
                        if stats is not None:
                            key = ("exact" if mode in EXACT_MODES else "interp") + "_max_rel"
                            stats[key] = max(stats.get(key, 0.0), r)
                            if mode not in EXACT_MODES:
                                stats["interp_err_over_bound_max"] = max(
                                    stats.get("interp_err_over_bound_max", 0.0), r / tols[k])
                        if r > tols[k]:
                            fails.append(("not-FLRW:%s:%s" % (lab, k),
                                          "%s = %.10g in mode %s, Friedmann value %.10g (rel %.2e > %.1e = "
                                          "interpolation-error bound)" % (k, v, lab, ref[k], r, tols[k])))
        # --- modulus difference
        m = o.get("luminosity_distance_modulus")
        if m and "err" not in m:
            if lt not in MAGLIKE:
                if m["mod"] != 0:
                    fails.append(("gate:luminosity_distance_modulus:%s" % lt, "returned %r" % m["mod"]))
            else:
                if not math.isfinite(m["mod"]):
                    fails.append(("not-finite:%s:mod" % lab, "modulus difference %r in mode %s" % (m["mod"], lab)))
                elif ordered and math.isfinite(ref["mod"]) and ref["ds"] >= 1e-5 and ref["da"] >= 1e-5:
                    if abs(m["mod"] - ref["mod"]) > tols["mod"]:
                        fails.append(("not-FLRW:%s:mod" % lab,
                                      "modulus difference %.10g in mode %s, Friedmann value %.10g"
                                      % (m["mod"], lab, ref["mod"])))
        # --- beta
        b = o.get("beta_dsp")
        if b and "err" not in b:
            if lt != "DSPL":
                if b["beta"] is not None:
                    fails.append(("gate:beta_dsp:%s" % lt, "returned %r" % b["beta"]))
            elif ordered:
                v = b["beta"]
                if v is None or not (math.isfinite(v) and v > 0):
                    fails.append(("not-finite-positive:%s:beta" % lab, "beta = %r in mode %s" % (v, lab)))
                elif rel(v, ref["beta"]) > tols["beta"]:
                    fails.append(("not-FLRW:%s:beta" % lab,
                                  "beta = %.10g in mode %s, Friedmann value %.10g" % (v, lab, ref["beta"])))
        # --- the likelihood is fed exactly these distances
        ll = o.get("likelihood")
        if ordered and ll and "err" not in ll and a and "err" not in a:
            lk = lens_kwargs(case, ref["ddt"])
            with np.errstate(all="ignore"):
                want = float(-((np.float64(a["ddt"]) - lk["ddt_mean"]) ** 2) / lk["ddt_sigma"] ** 2 / 2)
            if not close(ll["logl"], want, TOL_LOGL):
                fails.append(("likelihood-not-fed-observed-Ddt:%s" % lab,
                              "CosmoLikelihood.likelihood = %r, but -(Ddt-mean)^2/2sigma^2 with the observed "
                              "Ddt is %r" % (ll["logl"], want)))
    # --- the supply modes agree with each other to within the interpolation error
    if ordered and lt != "DSPL":
        vals = {m: obs[m]["angular_diameter_distances"] for m in obs
                if "angular_diameter_distances" in obs[m] and "err" not in obs[m]["angular_diameter_distances"]}
        ms = sorted(vals)
        for i in range(len(ms)):
            for j in range(i + 1, len(ms)):
                for k in ("ddt", "dd"):
                    x, y = vals[ms[i]][k], vals[ms[j]][k]
                    if math.isfinite(x) and math.isfinite(y) and \
                            rel(x, y) > all_tols[ms[i]][k] + all_tols[ms[j]][k]:
                        fails.append(("modes-disagree:%s-vs-%s:%s" % (ms[i], ms[j], k),
                                      "%s: %s gives %.10g, %s gives %.10g" % (k, ms[i], x, ms[j], y)))
    # known finding F20 (upstream lenstronomy): in a CLOSED universe the tabulated mode recovers the comoving distance from
    # D_A with the principal branch of arcsin, which is only right up to the equator (sqrt(-Ok) chi / D_H <= pi/2); a table
    # of D_A cannot tell the two branches apart.  Violations of that kind get their own signature prefix so that the
    # known-findings file can name exactly them; everything else in tabulated mode keeps its signature.
    ok0 = 1.0 - p[1] - p[2]
    if ok0 < 0 and fails:
        ztop = max(z for z in (zd, zs, zs2 if lt == "DSPL" else zs, za if lt in MAGLIKE else zs))
        if math.sqrt(-ok0) * ref_integral(p, 0, ztop) > math.pi / 2:
            fails = [(("tabulated-closed-beyond-equator:" + sg) if "tabulated" in sg else sg, txt) for sg, txt in fails]
    return fails, obs, ref


# ----------------------------------------------------------------------------------------------
# generators
# ----------------------------------------------------------------------------------------------
def physical(p, zmax):
    if p[2] <= 0.02:
        return False
    zz = np.linspace(0, zmax, 120)
    if min(e2(p, z) for z in zz) < 0.05:
        return False
    ok = 1 - p[1] - p[2]
    if ok < 0:  # nearer than the antipode, with margin
        if math.sqrt(-ok) * ref_integral(p, 0, zmax) > 2.5:
            return False
    return True


def gen_kw(rng, model):
    kw = {"h0": rng.uniform(30, 120), "om": rng.uniform(0.05, 0.95)}
    if model == "FwCDM":
        kw["w"] = rng.uniform(-2.0, -0.34)
    if model == "w0waCDM":
        kw["w0"] = rng.uniform(-2.0, -0.34)
        kw["wa"] = rng.choice([rng.uniform(-1.5, 1.0), 0.0, rng.uniform(-0.3, 0.3)])
    if model == "oLCDM":
        kw["ok"] = rng.choice([rng.uniform(-0.3, 0.5), rng.uniform(-0.05, 0.05), 0.0])
    return kw


def gen_case(rng, i):
    for _ in range(200):
        model = MODELS[i % 4]
        kw = gen_kw(rng, model)
        zd = rng.choice([rng.uniform(0.1, 1.0), rng.uniform(0.1, 2.5)])
        zs = zd + rng.choice([rng.uniform(0.05, 1.0), rng.uniform(0.2, 3.0)])
        if zs > 4.8:
            continue
        lt = LTYPES[(i // 4) % len(LTYPES)]
        if lt == "DSPL":
            zs2 = rng.choice([zs + rng.uniform(0.1, 2.0), rng.uniform(zd + 0.05, zs)])  # either ordering
            zs2 = min(zs2, 5.0)
        else:
            zs2 = zs + 0.5
        za = rng.choice([0.1, rng.uniform(0.01, zs)])
        zmax = max(zs, zs2) if lt == "DSPL" else zs
        # panel width <= 0.05 (ASSUMPTIONS): num_interp >= z_max / 0.05
        num_interp = max(rng.choice([100, 150, 200, 300]), int(math.ceil(zmax / 0.05)))
        case = {"model": model, "kw": kw, "zd": zd, "zs": zs, "zs2": zs2, "za": za, "ltype": lt,
                "num_interp": num_interp, "ntab": max(rng.choice([200, 400]), int(math.ceil(zmax / 0.02))),
                # (a curved table without its curvature: the library may refuse it — ValueError — but must not guess)
                "tab_K": "given" if ((model == "oLCDM" and rng.random() < 0.8) or rng.random() < 0.5) else "omitted",
                "extra_key": rng.random() < 0.2, "stream": "valid"}
        if rng.random() < 0.15 and case["tab_K"] == "given":
            case["tab_z0"] = 0.004  # table not starting at 0: CosmoInterp prepends (0, 0)
        if physical(flrw_params(model, kw), max(zs, zs2, za) * 1.03 + 0.02):
            return case
    raise RuntimeError("generator could not find a physical case")


def corner_cases():
    base = dict(zd=0.5, zs=1.5, zs2=2.5, za=0.1, num_interp=100, ntab=300, tab_K="given", stream="corner")
    out = []
    planck = {"h0": 67.4, "om": 0.315}
    for lt in LTYPES:
        out.append(dict(base, model="FLCDM", kw=dict(planck), ltype=lt, tab_K="omitted"))
        out.append(dict(base, model="FwCDM", kw=dict(planck, w=-1.0), ltype=lt))
        out.append(dict(base, model="w0waCDM", kw=dict(planck, w0=-0.9, wa=0.3), ltype=lt, tab_K="omitted"))
        out.append(dict(base, model="oLCDM", kw=dict(planck, ok=0.1), ltype=lt))
        out.append(dict(base, model="oLCDM", kw=dict(planck, ok=-0.1), ltype=lt))
        # a curved table handed over WITHOUT its curvature (refusal allowed, a guessed curvature is not)
        out.append(dict(base, model="oLCDM", kw=dict(planck, ok=-0.2), ltype=lt, tab_K="omitted", modes=["tabulated"]))
        out.append(dict(base, model="oLCDM", kw=dict(planck, ok=0.15), ltype=lt, tab_K="omitted", modes=["tabulated"]))
    out.append(dict(base, model="oLCDM", kw=dict(planck, ok=0.0), ltype="Mag"))
    out.append(dict(base, model="oLCDM", kw=dict(planck, ok=5e-7), ltype="Mag"))      # inside CosmoInterp's flat band
    out.append(dict(base, model="oLCDM", kw=dict(planck, ok=-5e-7), ltype="DdtGaussian"))
    out.append(dict(base, model="FLCDM", kw={"h0": 70.0, "om": 1.0}, ltype="Mag"))    # Einstein-de Sitter
    out.append(dict(base, model="w0waCDM", kw=dict(planck, w0=-1.0, wa=0.0), ltype="DSPL"))
    out.append(dict(base, model="FLCDM", kw=dict(planck), ltype="DSPL", zs2=1.0))      # second source in front of the first
    # known finding F20: closed universe, source beyond the equator, tabulated distances (found by seed 8 of the random stream)
    out.append(dict(base, model="oLCDM", kw={"h0": 49.385771522722436, "om": 0.11556205399563751, "ok": -0.2696908018352196},
                    zd=2.0076644948307436, zs=4.585703689988845, zs2=5.085703689988845, za=1.4000698178489641,
                    ltype="DdtGaussian", num_interp=150, ntab=400))
    return out


def boundary_cases(rng, n):
    """unusual orderings / degenerate redshifts: only 'finite and positive', gates and no-crash are demanded"""
    out = []
    planck = {"h0": 67.4, "om": 0.315}
    fixed = [
        dict(zd=1.5, zs=0.5, zs2=2.5, za=0.1),      # source in front of the lens
        dict(zd=0.0, zs=1.0, zs2=2.0, za=0.1),      # lens at z = 0
        dict(zd=0.7, zs=0.7, zs2=2.0, za=0.1),      # z_d = z_s
        dict(zd=0.5, zs=1.5, zs2=0.5, za=0.1),      # second source at the lens
        dict(zd=0.5, zs=1.5, zs2=0.2, za=0.1),      # second source in front of the lens
    ]
    for k, f in enumerate(fixed):
        for lt in LTYPES:
            out.append(dict(f, model=MODELS[k % 4], kw=dict(planck, **({"w": -0.9} if MODELS[k % 4] == "FwCDM" else
                                                                     {"w0": -0.9, "wa": 0.1} if MODELS[k % 4] == "w0waCDM"
                                                                     else {"ok": 0.05} if MODELS[k % 4] == "oLCDM" else {})),
                            ltype=lt, num_interp=100, ntab=300, tab_K="given", stream="boundary"))
    # anchor beyond the interpolation range: interpolated modes raise ValueError (scipy bounds), exact ones do not
    out.append(dict(zd=0.3, zs=0.8, zs2=0.9, za=1.2, model="FLCDM", kw=dict(planck), ltype="Mag", num_interp=100,
                    ntab=300, tab_K="given", stream="boundary", anchor_beyond=True,
                    modes=["sampledInterp", "sampledExact", "fixedInterp", "fixedExact"]))
    for i in range(n):
        c = gen_case(rng, i)
        c["stream"] = "boundary"
        r = rng.random()
        if r < 0.4:
            c["zd"], c["zs"] = c["zs"], c["zd"]
        elif r < 0.6:
            c["zs"] = c["zd"]
        elif r < 0.8:
            c["zd"] = 0.0
        else:
            c["zs2"] = c["zd"] * rng.uniform(0.2, 1.0)
        c["za"] = min(c["za"], max(c["zs"], 0.02))
        out.append(c)
    return out


class StubQ:
    def __init__(self, v):
        self.value = v


class StubCosmo:
    """a cosmology object returning prescribed distances (any IEEE class)"""

    def __init__(self, table, dds):
        self.table, self.dds = table, dds

    def angular_diameter_distance(self, z):
        return StubQ(np.float64(self.table[float(z)]))

    def angular_diameter_distance_z1z2(self, z1, z2):
        return StubQ(np.float64(self.dds))


SPECIAL = [float("nan"), float("inf"), -float("inf"), 0.0, -0.0, -3.5, 1e-7, 1e-5, 5e-324, 1e200, 1.7e308,
           -1e200, 1234.5]


def gen_stub(rng):
    pick = lambda: rng.choice(SPECIAL + [rng.uniform(100, 3000)] * 6)  # noqa: E731
    zd, zs, za = 0.5, 1.5, 0.1
    return {"zd": zd, "zs": zs, "za": za, "dd": pick(), "ds": pick(), "dds": pick(), "da": pick(),
            "ltype": rng.choice(["DdtGaussian", "Mag", "TDMagMagnitude", "TDMag"])}


def stub_oracle(c):
    cosmo = StubCosmo({c["zd"]: c["dd"], c["zs"]: c["ds"], c["za"]: c["da"]}, c["dds"])
    case = {"ltype": c["ltype"], "zd": c["zd"], "zs": c["zs"], "zs2": 2.5}
    o = observe(cosmo, lens_kwargs(case), c["za"])
    fails = []
    a = o["angular_diameter_distances"]
    if "err" in a:
        fails.append(("sanitise:raised", "angular_diameter_distances raised %s" % a["msg"]))
    else:
        for k in ("ddt", "dd"):
            if not (math.isfinite(a[k]) and a[k] >= 1e-5):
                fails.append(("sanitise:%s-not-finite-positive" % k,
                              "%s = %r for distances dd=%r ds=%r dds=%r" % (k, a[k], c["dd"], c["ds"], c["dds"])))
    m = o["luminosity_distance_modulus"]
    if "err" in m:
        fails.append(("sanitise:raised", "luminosity_distance_modulus raised %s" % m["msg"]))
    elif c["ltype"] in MAGLIKE and not math.isfinite(m["mod"]) and not any(
            d == float("inf") or (math.isfinite(d) and d > 1e300) for d in (c["ds"], c["da"])):
        # (a distance of +inf / > 1e300 Mpc overflows (1+z)^2 * 1.8e308 in IEEE arithmetic: outside the
        #  R theorem `lumMod_arg_pos`, recorded in notes/C05.md; the property speaks of the returned distances)
        fails.append(("sanitise:mod-not-finite", "modulus %r for ds=%r da=%r" % (m["mod"], c["ds"], c["da"])))
    return fails, o


def gen_param_case(rng, i):
    tags = MODELS + ["NONE", "LCDM", "flcdm", "wCDM", ""]
    tag = rng.choice(MODELS) if rng.random() < 0.7 else rng.choice(tags)
    full = {"h0": rng.uniform(30, 120), "om": rng.uniform(0.05, 0.95), "ok": rng.uniform(-0.3, 0.3),
            "w": rng.uniform(-2, -0.3), "w0": rng.uniform(-2, -0.3), "wa": rng.uniform(-1, 1),
            "mu_sne": 19.0, "gamma_ppn": 1.0}
    keys = list(full)
    rng.shuffle(keys)
    kw = {k: full[k] for k in keys}
    if rng.random() < 0.35:
        for k in rng.sample(["h0", "om", "ok", "w", "w0", "wa"], rng.randint(1, 3)):
            kw.pop(k)
    return {"tag": tag, "kw": kw}


def call_param(tag, kw):
    from hierarc.Sampling.ParamManager.cosmo_param import CosmoParam
    try:
        c = CosmoParam(cosmology=tag).cosmo(dict(kw))
    except Exception as e:  # noqa
        return {"err": err_enum(e)}
    if c is None:
        return {"none": True}
    w0 = float(c.w(0.0))
    wa = 2.0 * (float(c.w(1.0)) - w0)
    return {"p": [float(c.H0.value), float(c.Om0), float(c.Ode0), w0, wa], "cls": type(c).__name__,
            "Ok0": float(c.Ok0), "Tcmb0": float(c.Tcmb0.value)}


EXPECT_CLASS = {"FLCDM": "FlatLambdaCDM", "FwCDM": "FlatwCDM", "w0waCDM": "w0waCDM", "oLCDM": "LambdaCDM"}


def param_oracle(c, r):
    """h0->H0, om->Om, ok->Ok with OL=1-Om-Ok, w / w0,wa -> equation of state"""
    fails = []
    tag, kw = c["tag"], c["kw"]
    need = {"FLCDM": ["h0", "om"], "FwCDM": ["h0", "om", "w"], "w0waCDM": ["h0", "om", "w0", "wa"],
            "oLCDM": ["h0", "om", "ok"]}
    if tag in need and all(k in kw for k in need[tag]):
        want = flrw_params(tag, kw)
        if "p" not in r:
            fails.append(("param-map:%s:raised" % tag, "CosmoParam.cosmo raised %s" % r))
        else:
            if r["cls"] != EXPECT_CLASS[tag]:
                fails.append(("param-map:%s:class" % tag, "astropy class %s" % r["cls"]))
            for nm, a, b in zip(["H0", "Om0", "Ode0", "w0", "wa"], r["p"], want):
                if not close(a, b, 1e-12, atol=1e-12):
                    fails.append(("param-map:%s:%s" % (tag, nm), "%s = %r, property demands %r" % (nm, a, b)))
            ok_want = kw["ok"] if tag == "oLCDM" else 0.0
            if not close(r["Ok0"], ok_want, 1e-12, atol=1e-12):
                fails.append(("param-map:%s:Ok0" % tag, "Ok0 = %r, demanded %r" % (r["Ok0"], ok_want)))
            if r["Tcmb0"] != 0.0:
                fails.append(("param-map:%s:radiation" % tag, "Tcmb0 = %r adds radiation to E(z)" % r["Tcmb0"]))
    return fails


def classify_impl(interp_val, fixed_given, has_ang, has_z):
    """behavioural classification of what cosmo_instance returned"""
    from hierarc.Likelihood.cosmo_likelihood import CosmoLikelihood
    from astropy.cosmology import FLRW
    p_fix = [81.0, 0.4, 0.6, -1.0, 0.0]
    fixed = astropy_of(p_fix) if fixed_given else None
    lens_kw = dict(z_lens=0.5, z_source=1.5, likelihood_type="DdtGaussian", ddt_mean=3000.0, ddt_sigma=100.0)
    cl = CosmoLikelihood([lens_kw], "FLCDM", {}, BOUNDS, interpolate_cosmo=interp_val,
                         num_redshift_interp=100, cosmo_fixed=fixed)
    zgrid = np.linspace(0, 2.0, 50)
    tabc = astropy_of([55.0, 0.2, 0.8, -1.0, 0.0])
    extra = {}
    if has_ang:
        extra["ang_diameter_distances"] = tabc.angular_diameter_distance(zgrid).value
    if has_z:
        extra["redshifts"] = zgrid
    extra["ok"], extra["K"] = 0.0, 0.0
    a = cl.cosmo_instance({"h0": 70.0, "om": 0.3, **extra})
    b = cl.cosmo_instance({"h0": 77.0, "om": 0.3, **extra})
    da = float(a.angular_diameter_distance(1.0).value)
    db = float(b.angular_diameter_distance(1.0).value)
    d_fix = float(astropy_of(p_fix).angular_diameter_distance(1.0).value)
    d_tab = float(tabc.angular_diameter_distance(1.0).value)
    d_sam = float(astropy_of([70.0, 0.3, 0.7, -1.0, 0.0]).angular_diameter_distance(1.0).value)
    exact = isinstance(a, FLRW)
    if abs(da / d_tab - 1) < 2e-3 and abs(db / d_tab - 1) < 2e-3 and not exact:
        src = "tabulated"
    elif abs(da / d_fix - 1) < 2e-3 and abs(db / d_fix - 1) < 2e-3:
        src = "fixed"
    elif abs(da / d_sam - 1) < 2e-3 and abs(db / da - 70.0 / 77.0) < 2e-3:
        src = "sampled"
    else:
        src = "unknown"
    if src == "tabulated":
        return "tabulated", src
    name = src + ("Exact" if exact else "Interp")
    if src == "fixed" and not exact and a is not b:
        name += "-uncached"
    return name, src


# ----------------------------------------------------------------------------------------------
def case_sig(c):
    ok = c["kw"].get("ok", 0.0)
    curv = "flat" if ok == 0 else ("band" if abs(ok) < 1e-6 else ("open" if ok > 0 else "closed"))
    order = ("zs<=zd" if c["zs"] <= c["zd"] else "ordered") + ("|zs2<zs" if c["zs2"] < c["zs"] else "")
    return (c["stream"], c["model"], c["ltype"], curv, order, c["tab_K"], "z0>0" if c.get("tab_z0") else "z0=0")


def enc_case(c):
    return {k: (v if not isinstance(v, np.ndarray) else v.tolist()) for k, v in c.items()}


def driver_ops(case):
    """the three model evaluations of one case (shared by the five modes)"""
    p = flrw_params(case["model"], case["kw"])
    common = {"ltype": case["ltype"], "zd": f2b(case["zd"]), "zs": f2b(case["zs"]), "zs2": f2b(case["zs2"]),
              "za": f2b(case["za"])}
    kwp = [[k, f2b(v)] for k, v in case["kw"].items()]
    lens_kw = lens_kwargs(case)
    nodes = np.linspace(0, z_max_of(lens_kw), case["num_interp"] + 1)
    ops = [dict(common, op="C05.exact", tag=case["model"], kw=kwp, depth=DEPTH_EXACT),
           dict(common, op="C05.interp", tag=case["model"], kw=kwp, depth=DEPTH_PANEL, nodes=fl(nodes))]
    tab, okK = table_of(case, p)
    t = dict(common, op="C05.table", dAs=fl(tab["ang_diameter_distances"]), zlist=fl(tab["redshifts"]))
    if okK is not None:
        t["ok"], t["K"] = f2b(okK[0]), f2b(okK[1])
    elif case["kw"].get("ok", 0.0) != 0:
        # a curved cosmology whose table comes without K: the sampled 'ok' is what cosmo_instance sees (model: tabCurv)
        t["ok"] = f2b(case["kw"]["ok"])
    ops.append(t)
    return ops


def compare_model(res, case, obs, outs):
    """model (driver replies for exact / interp / table) vs implementation, per mode and call site"""
    rep = {"sampledExact": outs[0], "fixedExact": outs[0], "sampledInterp": outs[1], "fixedInterp": outs[1],
           "tabulated": outs[2]}
    tolm = {"sampledExact": TOL_EXACT, "fixedExact": TOL_EXACT, "sampledInterp": TOL_INTERP_MODEL,
            "fixedInterp": TOL_INTERP_MODEL, "tabulated": TOL_TABLE_MODEL}
    for mode, o in obs.items():
        r = rep[mode]
        if "ok" not in r:
            ci = o.get("cosmo_instance")
            if mode == "tabulated" and r.get("err") == "ValueError" and ci is not None and ci.get("err") == "ValueError":
                res.count("err=ValueError(curved table without K): model and implementation")     # tabCurv_missing_K
                continue
            res.disagree("model raised %s in mode %s" % (r.get("err"), mode), enc_case(case))
            continue
        m = r["ok"]
        tol = tolm[mode]
        if "cosmo_instance" in o:
            continue  # reported by the oracle
        a = o.get("angular_diameter_distances")
        if a is not None:
            if "err" in a:
                if a["err"] == "ValueError" and m.get("ddt_err") == "ValueError":
                    res.count("err=ValueError(range)")
                elif a["err"] != "TypeError":      # TypeError = finding, reported by the oracle
                    res.disagree("angular_diameter_distances: impl raised %s, model %s"
                                 % (a["err"], "value" if "ddt" in m else m.get("ddt_err")), enc_case(case))
            elif "ddt" not in m:
                res.disagree("angular_diameter_distances: model raised, impl returned", enc_case(case))
            else:
                for k in ("ddt", "dd"):
                    if not close(b2f(m[k]), a[k], tol):
                        res.disagree("%s differs in mode %s: impl %r model %r" % (k, mode, a[k], b2f(m[k])),
                                     enc_case(case))
        lm = o.get("luminosity_distance_modulus")
        if lm is not None:
            if "err" in lm:
                if lm["err"] == "ValueError" and m.get("mod_err") == "ValueError":
                    res.count("err=ValueError(range)")
                elif lm["err"] != "TypeError":
                    res.disagree("luminosity_distance_modulus: impl raised %s, model %s"
                                 % (lm["err"], "value" if "mod" in m else m.get("mod_err")), enc_case(case))
            elif "mod" not in m:
                res.disagree("luminosity_distance_modulus: model raised, impl returned", enc_case(case))
            elif not close(b2f(m["mod"]), lm["mod"], tol, atol=5 * tol):
                res.disagree("modulus differs in mode %s: impl %r model %r" % (mode, lm["mod"], b2f(m["mod"])),
                             enc_case(case))
        bb = o.get("beta_dsp")
        if bb is not None:
            if "err" in bb:
                if bb["err"] == "ValueError" and m.get("beta_err") == "ValueError":
                    res.count("err=ValueError(range)")
                elif bb["err"] != "TypeError":
                    res.disagree("beta_dsp: impl raised %s" % bb["err"], enc_case(case))
            elif "beta" not in m:
                res.disagree("beta_dsp: model raised, impl returned", enc_case(case))
            elif (bb["beta"] is None) != (m["beta"] is None):
                res.disagree("beta_dsp None-ness differs in mode %s" % mode, enc_case(case))
            elif bb["beta"] is not None and not close(b2f(m["beta"]), bb["beta"], tol):
                res.disagree("beta differs in mode %s: impl %r model %r" % (mode, bb["beta"], b2f(m["beta"])),
                             enc_case(case))
        res.traces += 1


def sequence_oracle(rng, t=None):
    """(t: systematic part — model t % 4; t < 4 nothing fixed, then all parameters but ONE fixed, the free one cycling through
    the parameters of the model, interpolated)
    one CosmoLikelihood instance evaluated along a path of parameter vectors in which consecutive
    vectors differ in exactly ONE parameter: after every step the distances handed to the lens must be
    the FLRW distances of the CURRENT vector (stale per-parameter caches only show on such paths)"""
    from hierarc.Likelihood.cosmo_likelihood import CosmoLikelihood
    fails = []
    model = rng.choice(MODELS) if t is None else (MODELS[t % 4] if t < 16 else "w0waCDM")
    zd, zs = rng.uniform(0.2, 0.8), rng.uniform(1.2, 2.5)
    lens = dict(z_lens=zd, z_source=zs, likelihood_type="DdtGaussian", ddt_mean=5000.0, ddt_sigma=500.0)
    interp = rng.random() < 0.8 or (t is not None and t >= 4)
    kw = gen_kw(rng, model)
    while not physical(flrw_params(model, kw), zs):
        kw = gen_kw(rng, model)
    # part of the cosmological parameters may be held fixed by the user (all but one: a one-parameter scan of w, of ok …);
    # the path then moves through the sampled ones only
    all_names = list(kw)
    fix_mode = rng.choice(["none", "none", "all_but_one", "all_but_one", "some"])
    if t is not None:
        fix_mode = "none" if t < 4 else "all_but_one"
    if fix_mode == "all_but_one" and len(all_names) > 1:
        free = rng.choice(all_names)
        if t is not None:
            free = all_names[-1] if t >= 16 else all_names[(t // 4 - 1) % len(all_names)]
        fixed = {n: kw[n] for n in all_names if n != free}
    elif fix_mode == "some" and len(all_names) > 2:
        fixed = {n: kw[n] for n in rng.sample(all_names, rng.randint(1, len(all_names) - 2))}
    else:
        fixed = {}
    cl = CosmoLikelihood([lens], model, {}, dict(BOUNDS, kwargs_fixed_cosmo=dict(fixed)), interpolate_cosmo=interp, num_redshift_interp=300)
    names = cl.param.param_list()
    x = [kw[n] for n in names]
    the_lens = cl._likelihoodLensSample._lens_list[0]
    steps = 0
    for step in range(2 * len(names) + 2):
        j = step % len(names)
        for _ in range(20):
            cand = dict(kw)
            cand[names[j]] = gen_kw(rng, model)[names[j]]
            if physical(flrw_params(model, cand), zs) and cand[names[j]] != kw[names[j]]:
                kw = cand
                break
        x = [kw[n] for n in names]
        kc = cl.param.args2kwargs(x)[0]
        cosmo = cl.cosmo_instance(kc)
        ddt, dd = the_lens.angular_diameter_distances(cosmo)
        ref = astropy_of(flrw_params(model, kw))
        rdd = float(ref.angular_diameter_distance(zd).value)
        rds = float(ref.angular_diameter_distance(zs).value)
        rdds = float(ref.angular_diameter_distance_z1z2(zd, zs).value)
        rddt = (1 + zd) * rdd * rds / rdds
        tol = 2e-3 if interp else 1e-8
        steps += 1
        if abs(float(ddt) / rddt - 1) > tol or abs(float(dd) / rdd - 1) > tol:
            fails.append("after changing only %s: Ddt, Dd = %r, %r but the FLRW values of the current vector are %r, %r (%s, %s%s)"
                         % (names[j], float(ddt), float(dd), rddt, rdd, model, "interpolated" if interp else "exact",
                            ", fixed: %s" % sorted(fixed) if fixed else ""))
            break
    return fails, model, steps


def anchor_oracle(seed):
    """the distance-modulus difference a magnification lens receives through CosmoLikelihood.likelihood is the one between its
    source redshift and the CONFIGURED anchor redshift (z_apparent_m_anchor of the model), for every cosmological model:
    compared with the same lens evaluated directly with the anchor handed over by hand on an astropy cosmology"""
    import random
    import warnings
    import copy
    from hierarc.Likelihood.cosmo_likelihood import CosmoLikelihood
    from hierarc.Likelihood.hierarchy_likelihood import LensLikelihood
    from astropy.cosmology import FlatLambdaCDM, FlatwCDM, LambdaCDM, w0waCDM
    rng = random.Random(seed)
    model = rng.choice(["FLCDM", "FwCDM", "w0waCDM", "oLCDM"])
    za = rng.choice([0.35, 0.02, 0.5, 0.1, rng.uniform(0.02, 0.8)])
    h0, om = rng.uniform(55, 85), rng.uniform(0.2, 0.4)
    extra = {"FLCDM": {}, "FwCDM": {"w": rng.uniform(-1.3, -0.7)}, "w0waCDM": {"w0": rng.uniform(-1.2, -0.8), "wa": rng.uniform(-0.5, 0.5)},
             "oLCDM": {"ok": rng.uniform(-0.1, 0.1)}}[model]
    cosmo = {"FLCDM": lambda: FlatLambdaCDM(H0=h0, Om0=om), "FwCDM": lambda: FlatwCDM(H0=h0, Om0=om, w0=extra["w"]),
             "w0waCDM": lambda: w0waCDM(H0=h0, Om0=om, Ode0=1 - om, w0=extra["w0"], wa=extra["wa"]),
             "oLCDM": lambda: LambdaCDM(H0=h0, Om0=om, Ode0=1 - om - extra["ok"])}[model]()
    n = 3
    magnif = [rng.uniform(1.5, 6) for _ in range(n)]
    amp0 = rng.uniform(20, 60)
    lens = dict(z_lens=rng.uniform(0.3, 0.6), z_source=rng.uniform(1.0, 2.0), likelihood_type="Mag",
                amp_measured=[m * amp0 for m in magnif], cov_amp_measured=np.diag([(0.1 * m * amp0) ** 2 for m in magnif]),
                magnification_model=magnif, cov_magnification_model=np.diag([(0.05 * m) ** 2 for m in magnif]), magnitude_zero_point=20)
    mu = rng.uniform(15, 19)
    lo = {"h0": 0.1, "om": 0.01, "w": -3, "w0": -3, "wa": -3, "ok": -0.5}
    up = {"h0": 200, "om": 0.99, "w": 0, "w0": 0, "wa": 3, "ok": 0.5}
    kb = dict(kwargs_lower_cosmo=lo, kwargs_upper_cosmo=up, kwargs_lower_source={"mu_sne": 0}, kwargs_upper_source={"mu_sne": 50})
    with warnings.catch_warnings():
        warnings.simplefilter("ignore")
        cl = CosmoLikelihood([copy.deepcopy(lens)], model, dict(sne_apparent_m_sampling=True, sne_distribution="NONE", z_apparent_m_anchor=za),
                             kb, interpolate_cosmo=False)
        names = cl.param.param_list()
        vals = dict(h0=h0, om=om, mu_sne=mu, **extra)
        got = float(np.squeeze(cl.likelihood([vals[k] for k in names])))
        kw = dict(lens)
        zl, zs = kw.pop("z_lens"), kw.pop("z_source")
        direct = LensLikelihood(zl, zs, **kw)
        want = float(np.squeeze(direct.lens_log_likelihood(cosmo, kwargs_lens={}, kwargs_kin={},
                                                          kwargs_source=dict(mu_sne=mu, sigma_sne=0.0, z_apparent_m_anchor=za))))
    if not close(got, want, 1e-7, atol=1e-7):
        return ("%s, anchor redshift %r configured in the model: CosmoLikelihood.likelihood gives %r for a magnification lens, the same lens "
                "with the modulus difference to that anchor gives %r" % (model, za, got, want))
    return None


def run(ctx, res):
    np.random.seed(ctx.np_seed())
    rng = ctx.rng
    stats = {}
    # ---------------- stream A: the configured anchor redshift reaches the lens
    for _ in range(ctx.n(8, 60)):
        aseed = rng.randrange(2 ** 31)
        try:
            f = anchor_oracle(aseed)
        except Exception as e:  # noqa
            res.notes.append("anchor oracle could not run: %r" % (e,))
            res.count("anchor_oracle_failed_to_run")
            continue
        res.evaluations += 1
        res.count("stream=anchor")
        if f:
            res.violation("CosmoLikelihood.likelihood:anchor-redshift-not-forwarded", f, {"anchor_seed": aseed})
    # ---------------- stream 0: one instance, paths changing one parameter at a time
    for t_ in range(ctx.n(20, 120)):
        try:
            sf, smodel, ssteps = sequence_oracle(rng, t_ if t_ < 17 else None)
        except Exception as e:  # noqa
            res.notes.append("sequence oracle could not run: %r" % (e,))
            continue
        res.evaluations += ssteps
        res.count("stream=sequence")
        res.signatures.add(("sequence", smodel))
        for f in sf:
            res.violation("sequence:stale-distances:" + smodel, f, {"sequence": True})
    n_valid = ctx.n(260, 3200)
    n_bound = ctx.n(40, 500)
    n_stub = ctx.n(300, 6000)
    n_param = ctx.n(300, 6000)
    n_mp = 6 if ctx.tier == "quick" else 150

    # ---------------- stream 1-3: FLRW cases in all supply modes
    cases = corner_cases() + [gen_case(rng, i) for i in range(n_valid)] + boundary_cases(rng, n_bound)
    all_obs = []
    for c in cases:
        fails, obs, ref = oracle(c, stats)
        all_obs.append(obs)
        res.evaluations += len(obs)
        res.count("stream=" + c["stream"])
        res.count("model=" + c["model"])
        res.count("ltype=" + c["ltype"])
        res.count("tabulated-K=" + c["tab_K"])
        res.signatures.add(case_sig(c))
        for sig, what in fails:
            res.violation(sig, what, {"kind": "flrw", "case": enc_case(c)})
    res.sample({k: cases[len(corner_cases())][k] for k in ("model", "kw", "zd", "zs", "zs2", "za", "ltype",
                                                            "num_interp", "tab_K")})
    res.sample({"observed": {m: {s: v for s, v in o.items() if s != "mode"}
                             for m, o in all_obs[len(corner_cases())].items()}})

    # ---------------- stream 4: sanitisation with stub cosmologies (any IEEE class)
    stubs = [gen_stub(rng) for _ in range(n_stub)]
    stubs[:0] = [{"zd": 0.5, "zs": 1.5, "za": 0.1, "dd": d, "ds": s, "dds": x, "da": 500.0, "ltype": "Mag"}
                 for d in (float("nan"), float("inf"), 0.0, 1000.0) for s in (float("nan"), -float("inf"), 1500.0)
                 for x in (float("nan"), 0.0, -0.0, float("inf"), 1200.0)]
    stub_obs = []
    for c in stubs:
        fails, o = stub_oracle(c)
        stub_obs.append(o)
        res.evaluations += 1
        res.count("stream=sanitise")
        res.signatures.add(("sanitise", fclass(c["dd"]), fclass(c["ds"]), fclass(c["dds"]), c["ltype"]))
        for sig, what in fails:
            res.violation(sig, what, {"kind": "stub", "case": c})

    # ---------------- stream 5: parameter map
    pcs = [{"tag": t, "kw": {"h0": 70.0, "om": 0.3, "ok": 0.05, "w": -0.9, "w0": -0.8, "wa": 0.2}}
           for t in MODELS + ["NONE", "LCDM"]]
    pcs += [gen_param_case(rng, i) for i in range(n_param)]
    p_obs = []
    for c in pcs:
        r = call_param(c["tag"], c["kw"])
        p_obs.append(r)
        res.evaluations += 1
        res.count("stream=param-map")
        res.count("param-map:" + ("err=" + r["err"] if "err" in r else "none" if "none" in r else "ok"))
        if "p" in r:
            res.signatures.add(("param-map", c["tag"], tuple(sorted(set(c["kw"]) & {"ok", "w", "w0", "wa"}))))
        for sig, what in param_oracle(c, r):
            res.violation(sig, what, {"kind": "param", "case": c})

    # ---------------- reference validation: astropy and the scipy reference against mpmath
    mp_max = 0.0
    for c in [x for x in cases if x["stream"] != "boundary"][:n_mp]:
        p = flrw_params(c["model"], c["kw"])
        want = mp_dA(p, c["zs"])
        got_ref = ref_transverse(p, 0.0, c["zs"]) / (1 + c["zs"])
        got_ap = float(astropy_of(p).angular_diameter_distance(c["zs"]).value)
        mp_max = max(mp_max, rel(want, got_ref), rel(want, got_ap))
        if rel(want, got_ap) > TOL_EXACT:
            res.violation("astropy-vs-mpmath", "astropy D_A(%r) = %r, 30-digit Friedmann integral %r for %r"
                          % (c["zs"], got_ap, want, p), {"kind": "flrw", "case": enc_case(c)})
        if rel(want, got_ref) > 1e-9:
            res.notes.append("scipy reference deviates from mpmath by %.2e" % rel(want, got_ref))
    res.extra["reference_check"] = {"cases": n_mp, "max_rel_dev_vs_mpmath_30_digits": mp_max}
    res.extra["measured"] = {"exact_modes_max_rel_dev_from_Friedmann": stats.get("exact_max_rel"),
                             "interpolated_modes_max_rel_dev_from_Friedmann": stats.get("interp_max_rel"),
                             "largest_interpolation_error_bound_used_as_tolerance": stats.get("interp_bound_max"),
                             "max_observed_error_over_bound": stats.get("interp_err_over_bound_max"),
                             "tolerances": {"exact": TOL_EXACT,
                                            "interpolated": "2 x (h^2/8 max|d_C''|) propagated, + 1e-6"}}

    # ---------------- mode-selection table (exhaustive: 2 x 2 key presence x fixed x 5 flag values)
    combos = [(iv, fg, ha, hz) for iv in (True, False, 1, 0, None) for fg in (False, True)
              for ha in (False, True) for hz in (False, True)]
    mode_impl = []
    for iv, fg, ha, hz in combos:
        try:
            name, src = classify_impl(iv, fg, ha, hz)
        except Exception as e:  # noqa
            name, src = "raised-" + err_enum(e), "raised"
        mode_impl.append(name)
        res.evaluations += 1
        res.count("stream=mode-table")
        res.signatures.add(("mode", repr(iv), fg, ha, hz))
        # property: a fixed cosmology / a table, when supplied, is what is used
        want_src = "tabulated" if (ha and hz) else ("fixed" if fg else "sampled")
        if src != want_src:
            res.violation("mode-select:%s-used-instead-of-%s" % (src, want_src),
                          "interpolate_cosmo=%r cosmo_fixed=%s ang=%s z=%s: distances come from '%s'"
                          % (iv, fg, ha, hz, src), {"kind": "mode", "case": [repr(iv), fg, ha, hz]})
    res.exhaustive = False

    if ctx.search_mode:
        return

    # ---------------- correspondence with the Lean model
    ops = []
    for c in cases:
        ops += driver_ops(c)
    n_flrw = len(ops)
    for c in stubs:
        ops.append({"op": "C05.assemble", "zd": f2b(c["zd"]), "zs": f2b(c["zs"]), "za": f2b(c["za"]),
                    "dd": f2b(c["dd"]), "ds": f2b(c["ds"]), "dds": f2b(c["dds"]), "da": f2b(c["da"])})
    for c in pcs:
        ops.append({"op": "C05.params", "tag": c["tag"], "kw": [[k, f2b(v)] for k, v in c["kw"].items()]})
    for iv, fg, ha, hz in combos:
        ops.append({"op": "C05.mode", "hasAng": ha, "hasZ": hz, "fixed": fg, "interp": iv is True})
    outs = run_driver(ops)
    k = 0
    for c, obs in zip(cases, all_obs):
        compare_model(res, c, obs, outs[k:k + 3])
        k += 3
    assert k == n_flrw
    for c, o in zip(stubs, stub_obs):
        r = outs[k]
        k += 1
        if any(math.isfinite(x) and x != 0 and not (1e-100 <= abs(x) <= 1e100)
               for x in (c["dd"], c["ds"], c["dds"], c["da"])):
            # finite magnitudes whose products over/underflow: the result depends on the association
            # order of the floating-point product, which no rewrite is obliged to keep (oracle only)
            res.count("sanitise:extreme-magnitude(oracle only)")
            continue
        res.traces += 1
        if "ok" not in r:
            res.disagree("assemble: model raised %s" % r.get("err"), {"kind": "stub", "case": c})
            continue
        m = r["ok"]
        a = o["angular_diameter_distances"]
        if "err" not in a:
            for key in ("ddt", "dd"):
                if not close(b2f(m[key]), a[key], 1e-13):
                    res.disagree("sanitised %s: impl %r model %r" % (key, a[key], b2f(m[key])),
                                 {"kind": "stub", "case": c})
        lm = o["luminosity_distance_modulus"]
        if "err" not in lm and c["ltype"] in MAGLIKE:
            if not close(b2f(m["mod"]), lm["mod"], 1e-12, atol=1e-11):
                res.disagree("sanitised modulus: impl %r model %r" % (lm["mod"], b2f(m["mod"])),
                             {"kind": "stub", "case": c})
    for c, r in zip(pcs, p_obs):
        o = outs[k]
        k += 1
        res.traces += 1
        if "err" in r:
            if o.get("err") != r["err"]:
                res.disagree("param map error class: impl %s model %s" % (r["err"], o), {"kind": "param", "case": c})
        elif "none" in r:
            if not (o.get("ok") or {}).get("none"):
                res.disagree("param map NONE: model %s" % o, {"kind": "param", "case": c})
        else:
            mp_ = o.get("ok", {}).get("p")
            if mp_ is None or not all(close(b2f(x), y, 1e-12, atol=1e-12) for x, y in zip(mp_, r["p"])):
                res.disagree("param map values: impl %r model %r" % (r["p"], mp_ and [b2f(x) for x in mp_]),
                             {"kind": "param", "case": c})
    for (iv, fg, ha, hz), name in zip(combos, mode_impl):
        o = outs[k]
        k += 1
        res.traces += 1
        if name.startswith("raised-TypeError"):
            continue
        if o.get("ok", {}).get("mode") != name:
            res.disagree("mode selection: impl %s model %s for interpolate_cosmo=%r fixed=%s ang=%s z=%s"
                         % (name, o.get("ok", {}).get("mode"), iv, fg, ha, hz),
                         {"kind": "mode", "case": [repr(iv), fg, ha, hz]})


def replay(ctx, data):
    inp = data["input"]
    kind = inp.get("kind")
    sig = data.get("signature")
    if "anchor_seed" in inp:
        f = anchor_oracle(inp["anchor_seed"])
        return bool(f), str(f)
    if inp.get("sequence"):
        import random
        for sd in range(60):
            f = sequence_oracle(random.Random(sd))[0]
            if f:
                return True, str(f)
        return False, "sequence oracle holds"
    if kind == "flrw":
        fails, obs, ref = oracle(inp["case"])
    elif kind == "stub":
        fails, _ = stub_oracle(inp["case"])
    elif kind == "param":
        c = inp["case"]
        fails = param_oracle(c, call_param(c["tag"], c["kw"]))
    elif kind == "mode":
        iv, fg, ha, hz = inp["case"]
        iv = {"True": True, "False": False, "1": 1, "0": 0, "None": None}[iv]
        name, src = classify_impl(iv, fg, ha, hz)
        want = "tabulated" if (ha and hz) else ("fixed" if fg else "sampled")
        fails = [] if src == want else [("mode-select:%s-used-instead-of-%s" % (src, want), name)]
    else:
        return False, "unknown replay kind %r" % kind
    same = [f for f in fails if f[0] == sig]
    shown = same or fails
    return bool(shown), "oracle on the implementation: %s" % ([w for _, w in shown[:4]] or "holds")


LEVEL_TEXT = (
    "Lean 4 theorems over R for the model of the cosmology->distance path: the parameter map of "
    "CosmoParam.cosmo (h0->H0, om->Om, ok->Ok with OL=1-Om-Ok, w / w0,wa; other keys irrelevant); E(z)^2 of the "
    "four models in textbook form, E(0)=1, E^2>0 on the physical ranges (incl. closed LCDM, E^2>=1); every distance "
    "is (c/H0) x an H0-free shape function (homogeneity, reusable by C19), positivity of D_d, D_s, D_ds, Ddt, beta "
    "for flat/open models with the real Friedmann integral; Ddt=(1+z_d)D_dD_s/D_ds, the modulus difference and "
    "beta are the stated formulas (H0 and all (1+z) factors cancel in beta and the modulus); the floored outputs "
    "are in [1e-5, max double] for EVERY input class (NaN, +-inf, finite) and for ANY cosmology object; the "
    "mode-selection decision table of cosmo_instance; interpolated modes are exact at the nodes and within the "
    "comoving distance across one panel elsewhere (any node count, by induction); user-tabulated distances are "
    "reproduced at the tabulated redshifts in all three curvature branches, the recovered comoving distance is exact up "
    "to the equator of a closed model and the mirror point beyond it (known finding F20: table_comoving_before_equator / "
    "table_comoving_beyond_equator_ne); the Float quadrature (composite "
    "Simpson, any depth) is positive and cubic-exact; the real integral of the model's integrand is additive and "
    "positive wherever E^2>0.  The same definitions are executed at Float against the real code in all five "
    "supply modes, and the property statement (equality with an independent Friedmann integration, mode "
    "agreement, finite and positive) is evaluated on the implementation for every generated case.")
LEVEL_NOTE = (
    "validated, not proved: that astropy's numerical integral / lenstronomy's CosmoInterp compute what the model "
    "says (tol 1e-6), that the interpolation error is below 1e-3 (measured; the proved bound is first order in "
    "the panel width), IEEE rounding/overflow.  Trusted: Lean kernel + Mathlib, the hand model, the harness's "
    "independent scipy/mpmath Friedmann reference.")
TECHNIQUE = ("Lean 4 proof (ordered-field arithmetic, induction over interpolation tables, interval integrals, "
             "decide on the mode table) + model/implementation correspondence + property oracle against an "
             "independent Friedmann integration")
