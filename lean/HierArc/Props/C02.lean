/-
  C02 — Log-probability is −inf exactly outside the prior box and never NaN inside it.
-/
import HierArc.Model.Gate
import HierArc.Proofs.RealInst
import HierArc.Proofs.LensKeys
import HierArc.Proofs.LensIndex
import HierArc.Props.C07
import Mathlib.Tactic.Linarith
import Mathlib.Tactic.Ring
import Mathlib.Tactic.FieldSimp
import Mathlib.Tactic.Positivity

namespace HierArc.C02
open HierArc HierArc.Gate

theorem lit_three : (3.0 : ℝ) = 3 := by norm_num

/-! ### A. the prior box -/

/-- `firstOutside` finds a component outside its bounds iff there is one -/
theorem firstOutside_some_iff (args lo hi : List ℝ) (hl : lo.length = args.length)
    (hh : hi.length = args.length) :
    (∃ i, firstOutside args lo hi = .ok (some i)) ↔
      ∃ (i : ℕ) (a l u : ℝ), args[i]? = some a ∧ lo[i]? = some l ∧ hi[i]? = some u ∧ (a < l ∨ u < a) := by
  induction args generalizing lo hi with
  | nil => simp [firstOutside]
  | cons a as ih =>
    cases lo with
    | nil => simp at hl
    | cons l ls =>
      cases hi with
      | nil => simp at hh
      | cons u us =>
        simp only [List.length_cons, Nat.add_right_cancel_iff] at hl hh
        simp only [firstOutside]
        by_cases hc : a < l ∨ u < a
        · simp only [hc, if_true]
          exact ⟨fun _ => ⟨0, a, l, u, by simp, by simp, by simp, hc⟩, fun _ => ⟨0, rfl⟩⟩
        · simp only [hc, if_false]
          have := ih ls us hl hh
          constructor
          · rintro ⟨i, hi⟩
            cases hr : firstOutside as ls us with
            | error e => simp [hr] at hi
            | ok o =>
              cases o with
              | none => simp [hr] at hi
              | some j =>
                obtain ⟨j', a', l', u', h1, h2, h3, h4⟩ := this.mp ⟨j, hr⟩
                exact ⟨j' + 1, a', l', u', by simpa using h1, by simpa using h2, by simpa using h3, h4⟩
          · rintro ⟨i, a', l', u', h1, h2, h3, h4⟩
            cases i with
            | zero =>
              simp only [List.getElem?_cons_zero, Option.some.injEq] at h1 h2 h3
              subst h1 h2 h3
              exact absurd h4 hc
            | succ i =>
              obtain ⟨j, hj⟩ := this.mpr ⟨i, a', l', u', by simpa using h1, by simpa using h2, by simpa using h3, h4⟩
              exact ⟨j + 1, by simp [hj]⟩

theorem firstOutside_total (args lo hi : List ℝ) (hl : lo.length = args.length)
    (hh : hi.length = args.length) : ∃ o, firstOutside args lo hi = .ok o := by
  induction args generalizing lo hi with
  | nil => exact ⟨none, rfl⟩
  | cons a as ih =>
    cases lo with
    | nil => simp at hl
    | cons l ls =>
      cases hi with
      | nil => simp at hh
      | cons u us =>
        simp only [List.length_cons, Nat.add_right_cancel_iff] at hl hh
        obtain ⟨o, ho⟩ := ih ls us hl hh
        simp only [firstOutside]
        split
        · exact ⟨_, rfl⟩
        · rw [ho]; cases o <;> exact ⟨_, rfl⟩

/-- **outside the box**: if any component lies outside `[lower, upper]` the result is −inf and no
    data likelihood (lens sample, SNe, chain, prior) is evaluated. -/
theorem outside_box (big : ℝ) (env : Env ℝ) (args : List ℝ) (om ok : ℝ) (h0 : Option ℝ)
    (lens : Unit → List (FV ℝ)) (sne kde prior : Unit → Option (FV ℝ))
    (hl : env.lower.length = args.length) (hh : env.upper.length = args.length)
    (hout : ∃ (i : ℕ) (a l u : ℝ), args[i]? = some a ∧ env.lower[i]? = some l ∧ env.upper[i]? = some u ∧
        (a < l ∨ u < a)) :
    likelihood big env args om ok h0 lens sne kde prior = .ok (.ninf, false) := by
  obtain ⟨i, hi⟩ := (firstOutside_some_iff args env.lower env.upper hl hh).mpr hout
  simp [likelihood, hi]

/-- **unphysical curved ΛCDM**: −inf, nothing evaluated -/
theorem unphysical_olcdm (big : ℝ) (env : Env ℝ) (args : List ℝ) (om ok : ℝ) (h0 : Option ℝ)
    (lens : Unit → List (FV ℝ)) (sne kde prior : Unit → Option (FV ℝ))
    (hin : firstOutside args env.lower env.upper = .ok none) (hol : env.olcdm = true)
    (hbad : guardOK om ok env.lensZ env.zMax = false) :
    likelihood big env args om ok h0 lens sne kde prior = .ok (.ninf, false) := by
  simp [likelihood, hin, hol, hbad]

/-- **inside and physical**: the result is the sum of the (sanitised) lens terms and the other
    terms, each evaluated — so −inf arises EXACTLY outside the box / guard or from a −inf term. -/
theorem inside_passes (big : ℝ) (env : Env ℝ) (args : List ℝ) (om ok : ℝ) (h0 : Option ℝ)
    (lens : Unit → List (FV ℝ)) (sne kde prior : Unit → Option (FV ℝ))
    (hin : firstOutside args env.lower env.upper = .ok none)
    (hphys : env.olcdm = true → guardOK om ok env.lensZ env.zMax = true) (hh0 : h0OK h0 = true) :
    ∃ v, likelihood big env args om ok h0 lens sne kde prior = .ok (v, true) := by
  unfold likelihood
  simp only [hin]
  cases hol : env.olcdm with
  | false => simp [hh0]
  | true => simp [hphys hol, hh0]

/-- **H0 ≤ 0 on the edge of the box** (cosmology built from the sampled parameters): −inf, nothing evaluated — every
    distance scales as 1/H0 -/
theorem nonpositive_h0 (big : ℝ) (env : Env ℝ) (args : List ℝ) (om ok h : ℝ)
    (lens : Unit → List (FV ℝ)) (sne kde prior : Unit → Option (FV ℝ))
    (hin : firstOutside args env.lower env.upper = .ok none) (hh : h ≤ 0) :
    likelihood big env args om ok (some h) lens sne kde prior = .ok (.ninf, false) := by
  have : h0OK (some h) = false := by simp [h0OK, lit_zero, not_lt.mpr hh]
  unfold likelihood
  simp only [hin, this]
  cases env.olcdm && !(guardOK om ok env.lensZ env.zMax) <;> simp

/-! ### B. value classes: never NaN, never +inf -/

def Good : FV ℝ → Prop
  | .fin _ => True
  | .ninf => True
  | _ => False

theorem nanToNum_fin (big : ℝ) (x : FV ℝ) : ∃ y, nanToNum big x = .fin y := by
  cases x <;> exact ⟨_, rfl⟩

theorem add_good {a b : FV ℝ} (ha : Good a) (hb : Good b) : Good (FV.add a b) := by
  cases a <;> cases b <;> simp_all [Good, FV.add]

/-- every lens term is finite whatever the data likelihood returned (NaN, ±inf included) -/
theorem lens_sum_fin (big : ℝ) (ts : List (FV ℝ)) (acc : ℝ) :
    ∃ y, ts.foldl (fun acc t => FV.add acc (nanToNum big t)) (.fin acc) = .fin y := by
  induction ts generalizing acc with
  | nil => exact ⟨acc, rfl⟩
  | cons t r ih =>
    obtain ⟨y, hy⟩ := nanToNum_fin big t
    simp only [List.foldl_cons, hy, FV.add]
    exact ih _

/-- **never NaN, never +inf**: whatever the per-lens data likelihoods return, if the SNe, chain and
    prior terms are finite or −inf, the log-probability is a real number or −inf. -/
theorem total_class (big : ℝ) (env : Env ℝ) (args : List ℝ) (om ok : ℝ) (h0 : Option ℝ)
    (lens : Unit → List (FV ℝ)) (sne kde prior : Unit → Option (FV ℝ))
    (hs : ∀ x, sne () = some x → Good x) (hk : ∀ x, kde () = some x → Good x)
    (hp : ∀ x, prior () = some x → Good x) (v : FV ℝ) (e : Bool)
    (h : likelihood big env args om ok h0 lens sne kde prior = .ok (v, e)) : Good v := by
  unfold likelihood at h
  split at h
  · simp at h
  · simp only [Except.ok.injEq, Prod.mk.injEq] at h; rw [← h.1]; trivial
  · split at h
    · simp only [Except.ok.injEq, Prod.mk.injEq] at h; rw [← h.1]; trivial
    · split at h
      · simp only [Except.ok.injEq, Prod.mk.injEq] at h; rw [← h.1]; trivial
      simp only [Except.ok.injEq, Prod.mk.injEq] at h
      rw [← h.1]
      obtain ⟨y, hy⟩ := lens_sum_fin big (lens ()) 0.0
      rw [hy]
      have g0 : Good (.fin y) := trivial
      have g1 : Good (match sne () with | some x => FV.add (.fin y) x | none => .fin y) := by
        cases hsn : sne () with
        | none => exact g0
        | some x => exact add_good g0 (hs x hsn)
      cases hsn : sne () <;> cases hkn : kde () <;> cases hpn : prior () <;>
        simp only [hsn, hkn, hpn] at g1 ⊢ <;>
        first
        | exact g1
        | exact add_good g1 (hk _ hkn)
        | exact add_good g1 (hp _ hpn)
        | exact add_good (add_good g1 (hk _ hkn)) (hp _ hpn)

/-! ### C. the curved-ΛCDM guard is sound on the whole redshift interval -/

/-- `E(z)²` as a cubic in `x = 1+z` -/
noncomputable def f (om ok x : ℝ) : ℝ := ok * x ^ 2 + om * x ^ 3 + (1 - om - ok)

theorem e2_eq (om ok z : ℝ) : e2 om ok z = f om ok (1 + z) := by
  simp only [e2, f, lit_one]; ring

theorem f_one (om ok : ℝ) : f om ok 1 = 1 := by simp only [f]; ring

/-- the cubic is positive on `[1, X]` as soon as it is positive at `X` and — when the interior
    stationary point `x* = −2Ω_k/(3Ω_m)` lies inside — at `x*`. -/
theorem cubic_pos (om ok X : ℝ) (hom : 0 ≤ om) (hfX : 0 < f om ok X)
    (hint : 0 < om → 1 < -(2 * ok) / (3 * om) → -(2 * ok) / (3 * om) < X →
      0 < f om ok (-(2 * ok) / (3 * om))) :
    ∀ x, 1 ≤ x → x ≤ X → 0 < f om ok x := by
  intro x h1 hx
  rcases hom.lt_or_eq with hpos | h0
  · -- om > 0
    set xs := -(2 * ok) / (3 * om) with hxs
    have hok : ok = -(3 / 2) * om * xs := by rw [hxs]; field_simp
    by_cases hA : 1 < xs ∧ xs < X
    · -- interior minimum
      have hmin := hint hpos hA.1 hA.2
      have : f om ok x - f om ok xs = om * (x - xs) ^ 2 * (x + xs / 2) := by
        simp only [f, hok]; ring
      have hnn : 0 ≤ om * (x - xs) ^ 2 * (x + xs / 2) := by
        have : 0 ≤ x + xs / 2 := by linarith
        positivity
      linarith
    · rcases not_and_or.mp hA with hB | hC
      · -- xs ≤ 1 : increasing on [1, X], minimum f(1) = 1
        have hB' : xs ≤ 1 := not_lt.mp hB
        have : f om ok x - f om ok 1 = (x - 1) * (om * (x ^ 2 + x + 1) + ok * (x + 1)) := by
          simp only [f]; ring
        have hbr : 0 ≤ om * (x ^ 2 + x + 1) + ok * (x + 1) := by
          rw [hok]
          have : om * (x ^ 2 + x + 1) + -(3 / 2) * om * xs * (x + 1)
              = om * ((x ^ 2 + x + 1) - (3 / 2) * xs * (x + 1)) := by ring
          rw [this]
          apply mul_nonneg hpos.le
          nlinarith [mul_nonneg (sub_nonneg.mpr h1) (by linarith : (0:ℝ) ≤ x + 1 / 2),
            mul_nonneg (sub_nonneg.mpr hB') (by linarith : (0:ℝ) ≤ x + 1)]
        have hprod : 0 ≤ (x - 1) * (om * (x ^ 2 + x + 1) + ok * (x + 1)) :=
          mul_nonneg (sub_nonneg.mpr h1) hbr
        rw [f_one] at this
        linarith
      · -- xs ≥ X : decreasing on [1, X], minimum f(X)
        have hC' : X ≤ xs := not_lt.mp hC
        have : f om ok x - f om ok X = (x - X) * (om * (x ^ 2 + x * X + X ^ 2) + ok * (x + X)) := by
          simp only [f]; ring
        have hbr : om * (x ^ 2 + x * X + X ^ 2) + ok * (x + X) ≤ 0 := by
          rw [hok]
          have : om * (x ^ 2 + x * X + X ^ 2) + -(3 / 2) * om * xs * (x + X)
              = om * ((x ^ 2 + x * X + X ^ 2) - (3 / 2) * xs * (x + X)) := by ring
          rw [this]
          apply mul_nonpos_of_nonneg_of_nonpos hpos.le
          have hx0 : 0 ≤ x := by linarith
          have hX0 : 0 ≤ X := by linarith
          nlinarith [mul_nonneg hx0 (sub_nonneg.mpr (hx.trans hC')), mul_nonneg hX0 (sub_nonneg.mpr hC'),
            mul_nonneg hx0 (sub_nonneg.mpr hC'), mul_nonneg hX0 (sub_nonneg.mpr (hx.trans hC'))]
        have hprod : 0 ≤ (x - X) * (om * (x ^ 2 + x * X + X ^ 2) + ok * (x + X)) :=
          mul_nonneg_of_nonpos_of_nonpos (sub_nonpos.mpr hx) hbr
        linarith
  · -- om = 0 : f = ok x² + 1 − ok, monotone
    subst h0
    simp only [f, zero_mul, add_zero, sub_zero] at hfX ⊢
    by_cases hk : 0 ≤ ok
    · nlinarith [mul_nonneg hk (by nlinarith : (0:ℝ) ≤ x ^ 2 - 1)]
    · have hk' : ok < 0 := not_le.mp hk
      have : x ^ 2 ≤ X ^ 2 := by nlinarith
      nlinarith

theorem foldl_max_ge (l : List ℝ) (m0 : ℝ) :
    m0 ≤ l.foldl (fun m z => if m < z then z else m) m0 ∧
    ∀ z ∈ l, z ≤ l.foldl (fun m z => if m < z then z else m) m0 := by
  induction l generalizing m0 with
  | nil => simp
  | cons a t ih =>
    simp only [List.foldl_cons, List.mem_cons, forall_eq_or_imp]
    obtain ⟨h1, h2⟩ := ih (if m0 < a then a else m0)
    refine ⟨?_, ?_, h2⟩
    · by_cases hc : m0 < a
      · simp only [hc, if_true] at h1 ⊢; linarith
      · simp only [hc, if_false] at h1 ⊢; exact h1
    · by_cases hc : m0 < a
      · simp only [hc, if_true] at h1 ⊢; exact h1
      · simp only [hc, if_false] at h1 ⊢; linarith [not_lt.mp hc]

theorem foldl_max_mem (l : List ℝ) (m0 : ℝ) :
    l.foldl (fun m z => if m < z then z else m) m0 = m0 ∨
    l.foldl (fun m z => if m < z then z else m) m0 ∈ l := by
  induction l generalizing m0 with
  | nil => simp
  | cons a t ih =>
    simp only [List.foldl_cons, List.mem_cons]
    rcases ih (if m0 < a then a else m0) with h | h
    · by_cases hc : m0 < a
      · simp only [hc, if_true] at h ⊢; right; left; exact h
      · simp only [hc, if_false] at h ⊢; left; exact h
    · right; right; exact h

/-- **Soundness of the guard on the whole interval.**  If the guard accepts `(Ω_m ≥ 0, Ω_k)`, then
    `E(z)² > 0` for EVERY redshift between 0 and the highest redshift the guard was given (each
    lens' source redshift and the highest redshift of the data set), and the dark-energy density
    `1 − Ω_m − Ω_k` is positive. -/
theorem guard_sound (om ok : ℝ) (lensZ : List ℝ) (zMax : ℝ) (hom : 0 ≤ om)
    (h : guardOK om ok lensZ zMax = true) :
    0 < 1 - om - ok ∧
    ∀ zt ∈ lensZ ++ (if 0 < zMax then [zMax] else []), ∀ z, 0 ≤ z → z ≤ zt → 0 < e2 om ok z := by
  simp only [guardOK, Bool.and_eq_true, List.all_eq_true, decide_eq_true_eq, lit_zero, lit_one] at h
  obtain ⟨hall, hde⟩ := h
  refine ⟨hde, ?_⟩
  intro zt hzt z hz0 hzle
  simp only [guardRedshifts, lit_zero, lit_one, lit_two, lit_three] at hall
  cases hzs : lensZ ++ (if 0 < zMax then [zMax] else []) with
  | nil => rw [hzs] at hzt; simp at hzt
  | cons z0 t =>
    rw [hzs] at hzt
    simp only [hzs] at hall
    set top := t.foldl (fun m z => if m < z then z else m) z0 with htop
    obtain ⟨hge0, hget⟩ := foldl_max_ge t z0
    have hzt_top : zt ≤ top := by
      simp only [List.mem_cons] at hzt
      rcases hzt with rfl | hm
      · exact hge0
      · exact hget _ hm
    have htop_mem : top ∈ z0 :: t := by
      rcases foldl_max_mem t z0 with h | h
      · rw [← htop] at h; rw [h]; simp
      · rw [← htop] at h; exact List.mem_cons_of_mem _ h
    -- positivity at the top
    have hf_top : 0 < f om ok (1 + top) := by
      rw [← e2_eq]
      apply hall
      split
      · split
        · exact List.mem_append_left _ htop_mem
        · exact htop_mem
      · exact htop_mem
    have hint : 0 < om → 1 < -(2 * ok) / (3 * om) → -(2 * ok) / (3 * om) < 1 + top →
        0 < f om ok (-(2 * ok) / (3 * om)) := by
      intro hpos h1 h2
      have hz1 : 0 < -(2 * ok) / (3 * om) - 1 := by linarith
      have hz2 : -(2 * ok) / (3 * om) - 1 < top := by linarith
      have := hall (-(2 * ok) / (3 * om) - 1) (by simp [hpos, hz1, hz2])
      rw [e2_eq] at this
      simpa using this
    rw [e2_eq]
    exact cubic_pos om ok (1 + top) hom hf_top hint (1 + z) (by linarith) (by linarith)

/-- **checking only the end points is not enough** (the cubic can dip below zero in between): the
    reason the guard also evaluates the interior minimum -/
theorem endpoints_insufficient :
    0 < f 0.05 (-0.5) 1 ∧ 0 < f 0.05 (-0.5) (1 + 10) ∧ f 0.05 (-0.5) (1 + 5) < 0 ∧ 0 < 1 - (0.05 : ℝ) - (-0.5) := by
  simp only [f]; norm_num

/-! ### D. the proviso: no range error when the box of the interpolated parameters lies inside the interpolation range -/

/-- a value inside a box that lies inside the interpolation range is not outside the range -/
theorem inside_box_inside_range {x lo hi rmin rmax : ℝ} (h1 : lo ≤ x) (h2 : x ≤ hi) (hmin : rmin ≤ lo)
    (hmax : hi ≤ rmax) : Lens.outside x (some rmin) (some rmax) = false := by
  simp only [Lens.outside, Bool.or_eq_false_iff, decide_eq_false_iff_not, not_lt]
  exact ⟨le_trans hmin h1, le_trans h2 hmax⟩

/-- … and no range at all (parameter not interpolated) is never left -/
theorem no_range_never_outside (x : ℝ) : Lens.outside x none none = false := by simp [Lens.outside]

/-- **does not raise "out of the interpolated range"**: for every lens configuration, hyper-parameter point, random
    stream and recursion depth, a single evaluation raises a `ValueError` only if a population mean is outside its
    interpolation range, the lens is assigned to a line-of-sight population of unknown kind, or a declared scaling
    parameter is not realised by the configuration.  With the prior box of `gamma_in`, `log_m2l`, `a_ani`, `beta_inf`
    inside the interpolation ranges (`inside_box_inside_range`) and a well-formed configuration, it never does —
    whatever the draws: draws outside the range are re-drawn, not passed on. -/
theorem no_range_error (mk : ℝ → ℝ → ℝ → ℝ) (cfg : Lens.LensCfg ℝ) (hy : Lens.Hyper ℝ) (ddt dd dLum : ℝ)
    (beta : Option ℝ) (ext : Lens.Ext ℝ) (fuel : ℕ)
    (hlens : ¬ Lens.LensMeanOutside cfg.dist hy.lens) (hani : ¬ Lens.AnisoMeanOutside cfg.aniso hy.kin)
    (hlos : ¬ Lens.LosUnknown cfg.los hy.los) (hkin : ∀ p ∈ cfg.kinParams, p ∈ Lens.realisedKeys cfg hy)
    (s : Lens.St ℝ) (e : String) (h : Lens.singlePre mk cfg hy ddt dd dLum beta ext fuel s = .error e) :
    e ≠ "ValueError" := by
  intro he
  rcases Lens.singlePre_valueError cfg hy ddt dd dLum beta ext fuel mk s e h he with h' | h' | h' | ⟨p, hp, hn⟩
  · exact hlens h'
  · exact hani h'
  · exact hlos h'
  · exact hn (hkin p hp)

/-- the converse for the configuration error: a scaling parameter that the configuration does not realise can never be
    evaluated (the interface raises instead of interpolating with a default) -/
theorem missing_scaling_parameter_raises (mk : ℝ → ℝ → ℝ → ℝ) (cfg : Lens.LensCfg ℝ) (hy : Lens.Hyper ℝ)
    (ddt dd dLum : ℝ) (beta : Option ℝ) (ext : Lens.Ext ℝ) (fuel : ℕ) (p : String) (hp : p ∈ cfg.kinParams)
    (hn : p ∉ Lens.realisedKeys cfg hy) (s : Lens.St ℝ) :
    ∀ out s', Lens.singlePre mk cfg hy ddt dd dLum beta ext fuel s ≠ .ok (out, s') :=
  Lens.singlePre_missing_raises cfg hy ddt dd dLum beta ext fuel mk ⟨p, hp, hn⟩ s

/-- the realised parameters of a lens that interpolates over `a_ani` (OM, sampled) and `gamma_in` -/
example : Lens.realisedKeys
    { ltype := .IFUKinCov, dist := { prop := 0, propBeta := 0, gammaInSampling := true },
      aniso := { sampling := true, model := "OM" }, los := {} } {} =
    ["lambda_mst", "gamma_ppn", "gamma_in", "a_ani"] := by
  simp [Lens.realisedKeys, Lens.lensKeys, Lens.anisoKeys]

/-- **no IndexError from the per-lens slopes, for every lens list**: whatever the order of the lenses and whichever of them
    carry a scaling list without the slope, the index that `LensSampleLikelihood.__init__` hands to lens `j`
    (`Sample.assign`) addresses the slope list that `ParamManager` builds (length `gamma_pl_num`), so `draw_lens` never
    raises IndexError — at any recursion depth of the re-draws, for every stream -/
theorem slope_index_no_error (mk : ℝ → ℝ → ℝ → ℝ) (ls : List Sample.LensSpec) (j : ℕ) (idx : Option ℕ)
    (hidx : (Sample.assign false ls 0)[j]? = some idx) (cfg : Lens.LensDist ℝ) (hcfg : cfg.gammaPlIndex = idx)
    (kw : Dict ℝ) (l : List ℝ) (hl : l.length = Sample.gammaPlNum false ls) (fuel : ℕ) (s : Lens.St ℝ) :
    Lens.drawLens mk cfg kw (some l) fuel s ≠ .error "IndexError" := by
  intro h
  obtain ⟨i, l', hi, hl', hlen⟩ := Lens.drawLens_ie mk cfg kw (some l) fuel s _ h rfl
  cases hl'
  rw [hcfg] at hi
  subst hi
  have := (C07.assign_index_lt ls 0 j i hidx).2
  omega

/-- … and the converse: a running index that advanced for the wrong lenses (an index ≥ the length of the list) raises at
    the first evaluation, it is never silently defaulted -/
theorem slope_index_outside_raises (mk : ℝ → ℝ → ℝ → ℝ) (cfg : Lens.LensDist ℝ) (kw : Dict ℝ) (i : ℕ) (l : List ℝ)
    (hi : cfg.gammaPlIndex = some i) (hl : l.length ≤ i) (s : Lens.St ℝ) :
    Lens.gammaPlStep mk cfg kw (some l) s = .error "IndexError" :=
  Lens.gammaPlStep_outside_raises mk cfg kw i l hi hl s

/-! ### non-vacuity -/
example : guardOK (0.3 : ℝ) (-0.2) [1.5, 2.0] 2.3 = true := by
  simp [guardOK, guardRedshifts, e2, lit_zero, lit_one, lit_two, lit_three]
  norm_num

example : guardOK (0.05 : ℝ) (-0.5) [10] 0 = false := by
  simp [guardOK, guardRedshifts, e2, lit_zero, lit_one, lit_two, lit_three]
  norm_num

end HierArc.C02
