import HierArc.Drv.Proto
import HierArc.Gen.Ladders
namespace HierArc.Drv.C01
open Lean HierArc.Drv HierArc.Ladder

def pairsS (j : Json) : R (List (String × String)) := do
  (← arr j).mapM fun p => do
    match (← arr p) with
    | [k, v] => pure (← k.getStr?, ← v.getStr?)
    | _ => throw "pair expected"

def pairsB (j : Json) : R (List (String × Bool)) := do
  (← arr j).mapM fun p => do
    match (← arr p) with
    | [k, v] => pure (← k.getStr?, ← v.getBool?)
    | _ => throw "pair expected"

def pairsN (j : Json) : R (List (String × Nat)) := do
  (← arr j).mapM fun p => do
    match (← arr p) with
    | [k, v] => pure (← k.getStr?, ← v.getNat?)
    | _ => throw "pair expected"

def inst (latex : Bool) (j : Json) : R (Inst Float) := do
  let bn ← (← field j "block").getStr?
  let some b := HierArc.Gen.blockTable.find? (·.name = bn) | throw "bad-block"
  let c : Cfg Float := {
    flags := ← pairsB (← field j "flags"),
    strs := ← pairsS (← field j "strs"),
    nums := ← pairsN (← field j "nums"),
    fixed := ← pairsF (← field j "fixed"),
    consts := ← pairsF (← field j "consts"),
    latex := latex,
    loopStr := ← (← field j "loopStr").getStr?,
    loopIdx := ← (← field j "loopIdx").getNat? }
  pure (b, c)

def jkdict (d : KDict Float) : Json :=
  Json.arr (d.map fun ((k, i), v) =>
    Json.arr #[Json.str k, (match i with | some n => Json.num (JsonNumber.fromNat n) | none => Json.null), jf v]).toArray

def kdict (j : Json) : R (KDict Float) := do
  (← arr j).mapM fun p => do
    match (← arr p) with
    | [k, i, v] =>
      let idx ← (if i.isNull then pure none else do pure (some (← i.getNat?)))
      pure ((← k.getStr?, idx), ← fl v)
    | _ => throw "triple expected"

def optFls (o : Option (List Float)) (e : String) : Json :=
  match o with
  | some l => jfs l
  | none => Json.mkObj [("err", e)]

/-- op `C01.all`: evaluates the GENERATED ladders on a configuration -/
def all (j : Json) : R Json := do
  let ij ← arr (← field j "insts")
  let plain ← ij.mapM (inst false)
  let latex ← ij.mapM (inst true)
  let args ← fls (← field j "args")
  let lower ← (← arr (← field j "lower")).mapM kdict
  let upper ← (← arr (← field j "upper")).mapM kdict
  let a2k := a2kAll plain args 0
  let (dictsJ, backJ, iJ) := match a2k with
    | some (ds, i) => (Json.arr (ds.map jkdict).toArray, optFls (k2aAll plain ds) "KeyError",
                        Json.num (JsonNumber.fromNat i))
    | none => (Json.mkObj [("err", "IndexError")], Json.null, Json.null)
  pure (Json.mkObj [
    ("names", jstrs (namesAll plain)),
    ("latex", jstrs (namesAll latex)),
    ("dicts", dictsJ), ("back", backJ), ("i", iJ),
    ("lower", optFls (k2aAll plain lower) "KeyError"),
    ("upper", optFls (k2aAll plain upper) "KeyError")])

def ops : List (String × (Json → R Json)) := [("C01.all", all)]

end HierArc.Drv.C01
