/-
  Which errors the draw pipeline can raise, and when.  `ErrIn E m`: every error raised by the
  computation `m` of the stream monad satisfies `E`; closed under bind / if.  Used for
  "a ValueError (out of the interpolated range) is raised only if a population MEAN lies outside the
  interpolation range" — the proviso of C02 — for every recursion depth of the re-draws.
-/
import HierArc.Proofs.Lens

namespace HierArc.Lens
open HierArc

section
variable {β γ : Type}

def ErrIn (E : String → Prop) (m : M ℝ β) : Prop := ∀ s e, m s = .error e → E e

theorem errIn_pure (E : String → Prop) (b : β) : ErrIn E (pureM b : M ℝ β) := by
  intro s e h; simp [pureM] at h

theorem errIn_err {E : String → Prop} {e : String} (h : E e) : ErrIn E (errM e : M ℝ β) := by
  intro s e' h'
  simp only [errM, Except.error.injEq] at h'
  exact h' ▸ h

theorem errIn_normal {E : String → Prop} (mk : ℝ → ℝ → ℝ → ℝ) (loc scale : ℝ) (h : E "StreamEnd") :
    ErrIn E (normal mk loc scale) := by
  intro s e hn
  unfold normal at hn
  split at hn
  · simp only [Except.error.injEq] at hn; exact hn ▸ h
  · simp at hn

theorem errIn_bind {E : String → Prop} {m : M ℝ β} {f : β → M ℝ γ} (hm : ErrIn E m)
    (hf : ∀ b, ErrIn E (f b)) : ErrIn E (bindM m f) := by
  intro s e h
  unfold bindM at h
  split at h
  · rename_i e' hm'
    simp only [Except.error.injEq] at h
    exact h ▸ hm s e' hm'
  · rename_i b s1 _
    exact hf b s1 e h

theorem errIn_ite {E : String → Prop} {c : Prop} [Decidable c] {m1 m2 : M ℝ β} (h1 : ErrIn E m1)
    (h2 : ErrIn E m2) : ErrIn E (if c then m1 else m2) := by
  split <;> assumption

/-- conditional form: under the condition `c` the first branch must be fine, otherwise the second -/
theorem errIn_dite {E : String → Prop} {c : Prop} [Decidable c] {m1 m2 : M ℝ β} (h1 : c → ErrIn E m1)
    (h2 : ¬c → ErrIn E m2) : ErrIn E (if c then m1 else m2) := by
  split
  · exact h1 ‹_›
  · exact h2 ‹_›

end

/-- "`e` is a ValueError only if `C`" -/
def VE (C : Prop) (e : String) : Prop := e = "ValueError" → C

theorem ve_other {C : Prop} {e : String} (h : e ≠ "ValueError") : VE C e := fun h' => (h h').elim
theorem ve_of {C : Prop} {e : String} (h : C) : VE C e := fun _ => h

variable (mk : ℝ → ℝ → ℝ → ℝ)

/-! ### `draw_lens` -/

/-- a population mean of the lens lies outside its interpolation range -/
def LensMeanOutside (cfg : LensDist ℝ) (kw : Dict ℝ) : Prop :=
  (cfg.gammaInSampling = true ∧ outside (getD kw "gamma_in" 1.0) cfg.gammaInMin cfg.gammaInMax = true) ∨
  (cfg.logM2lSampling = true ∧ outside (getD kw "log_m2l" 1.0) cfg.m2lMin cfg.m2lMax = true)

theorem gammaInStep_err (cfg : LensDist ℝ) (kw : Dict ℝ) :
    ErrIn (VE (LensMeanOutside cfg kw)) (gammaInStep mk cfg kw) := by
  unfold gammaInStep
  refine errIn_dite (fun hs => ?_) (fun _ => errIn_pure _ _)
  refine errIn_dite (fun ho => errIn_err (ve_of (Or.inl ⟨hs, ho⟩))) (fun _ => ?_)
  exact errIn_bind (errIn_normal mk _ _ (ve_other (by decide)))
    (fun d => errIn_ite (errIn_pure _ _) (errIn_pure _ _))

theorem m2lStep_err (cfg : LensDist ℝ) (kw : Dict ℝ) :
    ErrIn (VE (LensMeanOutside cfg kw)) (m2lStep mk cfg kw) := by
  unfold m2lStep
  refine errIn_dite (fun hs => ?_) (fun _ => errIn_pure _ _)
  refine errIn_dite (fun ho => errIn_err (ve_of (Or.inr ⟨hs, ho⟩))) (fun _ => ?_)
  exact errIn_bind (errIn_normal mk _ _ (ve_other (by decide)))
    (fun d => errIn_ite (errIn_pure _ _) (errIn_pure _ _))

theorem gammaPlStep_err (C : Prop) (cfg : LensDist ℝ) (kw : Dict ℝ) (gpl : Option (List ℝ)) :
    ErrIn (VE C) (gammaPlStep mk cfg kw gpl) := by
  unfold gammaPlStep
  split
  · split
    · exact errIn_err (ve_other (by decide))
    · split
      · exact errIn_pure _ _
      · exact errIn_err (ve_other (by decide))
  · refine errIn_ite (errIn_ite ?_ (errIn_pure _ _)) (errIn_pure _ _)
    exact errIn_bind (errIn_normal mk _ _ (ve_other (by decide))) (fun g => errIn_pure _ _)

theorem lensAttempt_err (cfg : LensDist ℝ) (kw : Dict ℝ) (gpl : Option (List ℝ)) :
    ErrIn (VE (LensMeanOutside cfg kw)) (lensAttempt mk cfg kw gpl) := by
  unfold lensAttempt
  refine errIn_bind (errIn_ite (errIn_normal mk _ _ (ve_other (by decide))) (errIn_pure _ _)) (fun lam => ?_)
  refine errIn_bind (gammaInStep_err mk cfg kw) (fun gi => ?_)
  cases gi with
  | none => exact errIn_pure _ _
  | some giE =>
    refine errIn_bind (m2lStep_err mk cfg kw) (fun ml => ?_)
    cases ml with
    | none => exact errIn_pure _ _
    | some mlE => exact errIn_bind (gammaPlStep_err mk _ cfg kw gpl) (fun gp => errIn_pure _ _)

/-- **`draw_lens` raises "out of the interpolated range" only if a population mean is outside the range** —
    never because of a draw (draws outside are re-drawn), at any recursion depth -/
theorem drawLens_err (cfg : LensDist ℝ) (kw : Dict ℝ) (gpl : Option (List ℝ)) (fuel : ℕ) :
    ErrIn (VE (LensMeanOutside cfg kw)) (drawLens mk cfg kw gpl fuel) := by
  induction fuel with
  | zero =>
    intro s e h
    simp only [drawLens, Except.error.injEq] at h
    exact h ▸ ve_other (by decide)
  | succ n ih =>
    intro s e h
    unfold drawLens at h
    split at h
    · rename_i e' hatt
      simp only [Except.error.injEq] at h
      exact h ▸ lensAttempt_err mk cfg kw gpl s e' hatt
    · simp at h
    · rename_i s1 _
      exact ih s1 e h

/-! ### `draw_anisotropy` -/

def AnisoMeanOutside (cfg : AnisoDist ℝ) (kw : Dict ℝ) : Prop :=
  cfg.sampling = true ∧
  ((∃ a, Dict.get? kw "a_ani" = some a ∧ outside a cfg.aMin cfg.aMax = true) ∨
   (∃ b, Dict.get? kw "beta_inf" = some b ∧ outside b cfg.bMin cfg.bMax = true))

theorem aAniStep_err (cfg : AnisoDist ℝ) (kw : Dict ℝ) (hs : cfg.sampling = true) :
    ErrIn (VE (AnisoMeanOutside cfg kw)) (aAniStep mk cfg kw) := by
  unfold aAniStep
  refine errIn_ite ?_ (errIn_pure _ _)
  split
  · exact errIn_err (ve_other (by decide))
  · rename_i a ha
    refine errIn_dite (fun ho => errIn_err (ve_of ⟨hs, Or.inl ⟨a, ha, ho⟩⟩)) (fun _ => ?_)
    refine errIn_ite ?_ (errIn_pure _ _)
    refine errIn_bind ?_ (fun d => errIn_ite (errIn_pure _ _) (errIn_pure _ _))
    refine errIn_ite (errIn_normal mk _ _ (ve_other (by decide))) (errIn_ite (errIn_normal mk _ _ (ve_other (by decide))) ?_)
    exact errIn_bind (errIn_normal mk _ _ (ve_other (by decide))) (fun x => errIn_pure _ _)

theorem betaInfStep_err (cfg : AnisoDist ℝ) (kw : Dict ℝ) (hs : cfg.sampling = true) :
    ErrIn (VE (AnisoMeanOutside cfg kw)) (betaInfStep mk cfg kw) := by
  unfold betaInfStep
  refine errIn_ite ?_ (errIn_pure _ _)
  split
  · exact errIn_err (ve_other (by decide))
  · rename_i b hb
    refine errIn_dite (fun ho => errIn_err (ve_of ⟨hs, Or.inr ⟨b, hb, ho⟩⟩)) (fun _ => ?_)
    exact errIn_bind (errIn_ite (errIn_normal mk _ _ (ve_other (by decide))) (errIn_pure _ _))
      (fun d => errIn_ite (errIn_pure _ _) (errIn_pure _ _))

theorem anisoAttempt_err (cfg : AnisoDist ℝ) (kw : Dict ℝ) (hs : cfg.sampling = true) :
    ErrIn (VE (AnisoMeanOutside cfg kw)) (anisoAttempt mk cfg kw) := by
  unfold anisoAttempt
  refine errIn_bind (aAniStep_err mk cfg kw hs) (fun a => ?_)
  cases a with
  | none => exact errIn_pure _ _
  | some aE =>
    refine errIn_bind (betaInfStep_err mk cfg kw hs) (fun b => ?_)
    cases b with
    | none => exact errIn_pure _ _
    | some bE => exact errIn_pure _ _

theorem drawAniso_err (cfg : AnisoDist ℝ) (kw : Dict ℝ) (fuel : ℕ) :
    ErrIn (VE (AnisoMeanOutside cfg kw)) (drawAniso mk cfg kw fuel) := by
  induction fuel with
  | zero =>
    intro s e h
    simp only [drawAniso, Except.error.injEq] at h
    exact h ▸ ve_other (by decide)
  | succ n ih =>
    intro s e h
    unfold drawAniso at h
    split at h
    · simp at h
    · rename_i hsamp
      have hs : cfg.sampling = true := by simpa using hsamp
      split at h
      · rename_i e' hatt
        simp only [Except.error.injEq] at h
        exact h ▸ anisoAttempt_err mk cfg kw hs s e' hatt
      · simp at h
      · rename_i s1 _
        exact ih s1 e h

/-! ### line of sight and the whole single evaluation -/

/-- the lens is assigned to a global line-of-sight population of an unknown kind -/
def LosUnknown (cfg : LosCfg) (los : List (Dict ℝ)) : Prop :=
  cfg.individual = false ∧ ∃ i d, cfg.globalIdx = some i ∧ los[i]? = some d ∧ cfg.dist ≠ "GAUSSIAN" ∧ cfg.dist ≠ "GEV"

theorem drawLos_err (cfg : LosCfg) (los : List (Dict ℝ)) (ext : Option ℝ) :
    ErrIn (VE (LosUnknown cfg los)) (drawLos mk cfg los ext) := by
  intro s e h
  unfold drawLos at h
  split at h
  · split at h
    · simp at h
    · simp only [Except.error.injEq] at h; exact h ▸ ve_other (by decide)
  · rename_i hind
    split at h
    · rename_i i hi
      split at h
      · simp only [Except.error.injEq] at h; exact h ▸ ve_other (by decide)
      · rename_i d hd
        split at h
        · split at h
          · exact errIn_normal mk _ _ (ve_other (by decide)) s e h
          · simp only [Except.error.injEq] at h; exact h ▸ ve_other (by decide)
        · rename_i hg
          split at h
          · split at h
            · simp at h
            · simp only [Except.error.injEq] at h; exact h ▸ ve_other (by decide)
          · rename_i hgev
            exact ve_of ⟨by simpa using hind, i, d, hi, hd, hg, hgev⟩
    · simp at h

end HierArc.Lens
