"""C09 — population / line-of-sight draws stay inside the supported range and follow the declared law.

Real code exercised (in-process, current working tree):
  AnisotropyDistribution.draw_anisotropy, LensDistribution.draw_lens, LOSDistribution.draw_los/draw_bool,
  PDFSampling.draw, approx_cdf_1d, KinScaling.param_bounds_interpol, LensLikelihood (wiring of the ranges).
Randomness: `np.random.normal` / `np.random.uniform` are wrapped *inside this process* while the real
function runs: the wrapper takes the standard normal / uniform from the real generator, records it and
returns `loc + scale*z` (bit-identical to numpy's own result — checked every run), so the Lean model can be
replayed on exactly the stream the code consumed.
"""
import math
import sys

import numpy as np

from harness.common import run_driver, close, err_enum, f2b, b2f, fl, unfl

ID = "C09"
LEAN_MODULES = ["HierArc.Props.C09"]
TOL = 1e-12          # recomputed values (loc + scale*z in another association order)
TOL_INV = 1e-9       # inverse CDF (division by a bin mass >= 1e-3/nbins)
P_MIN = 1e-6         # statistical spot checks: alarm below this p-value
FUEL = 10 ** 7     # model fuel for cases in which the code returned (python's own limit is ~1000 frames)

RULE = ("one case = one call of the real function with a recorded random stream: draw_anisotropy (4 models x 4 "
        "laws x sampling on/off, axis ranges present/absent, means inside / on the bound / outside, sigma 0 / "
        "small / comparable / large / negative), draw_lens (all switch combinations, scaling relations, IFU, "
        "gamma_pl by index / global), approx_cdf_1d + PDFSampling (1..30 bins, zero bins at the ends and inside, "
        "float / integer typed inputs), LOSDistribution (none / PDF / GEV / global GAUSSIAN / global GEV / other), "
        "param_bounds_interpol and the LensLikelihood wiring (1- and 3..4-axis grids), plus KS / chi^2 spot "
        "checks of the laws; a case is non-trivial when at least one random number was consumed or an error "
        "class was produced; distinct = distinct (function, switches, outcome class, #re-draws bucket)")
ASSUMPTIONS = [
    "numpy.random.normal(loc, scale) = loc + scale * standard_normal (verified bitwise every run); numpy's and "
    "scipy's generators realise the standard normal / uniform / GEV laws (spot-checked by KS / chi^2 only)",
    "hyper-parameters are finite real numbers (no NaN); tabulated PDFs are non-negative with positive sum and "
    "strictly increasing bin edges; an individual GEV distribution has sigma > 0 (scipy's domain)",
    "theorems are over R: IEEE rounding (a CDF ending at 1-1ulp, a draw within 1ulp of a bound) is outside them",
    "termination of the re-draw is NOT provable (and false: F9); the theorems carry the fuel explicitly",
]
TRUSTED = ["hand-written model HierArc/Model/Draws.lean tied by differential execution on recorded streams",
           "harness wrapper of np.random.normal/uniform (fidelity to numpy checked bitwise every run)",
           "scipy.stats (truncnorm, genextreme, kstest, chisquare) for the statistical spot checks"]

ANI_MODELS = ["OM", "GOM", "const", "NONE"]
ANI_DISTS = ["NONE", "GAUSSIAN", "GAUSSIAN_SCALED", "GAUSSIAN_TAN_RAD"]


# ------------------------------------------------------------------------------------------ recorder
class NonTermination(Exception):
    """more random numbers consumed by ONE draw call than any terminating re-draw of the unchanged code can consume
    (its recursion ends after ~1000 attempts): the call is cut off and reported instead of being waited for"""


DRAW_BUDGET = 50000


class Recorder:
    """wraps np.random.normal / np.random.uniform; records the standard variates consumed"""

    def __init__(self):
        self.z = []        # standard normals, in order of consumption
        self.u = []        # standard uniforms
        self.calls = []    # ("normal", loc, scale, n) / ("uniform", low, high, n)

    def __enter__(self):
        self._n, self._u = np.random.normal, np.random.uniform
        rec = self

        def normal(loc=0.0, scale=1.0, size=None):
            if np.any(np.asarray(scale) < 0):
                raise ValueError("scale < 0")
            z = np.random.standard_normal(size)
            if len(rec.z) > DRAW_BUDGET and not getattr(rec, "unbounded", False):
                raise NonTermination("draw call consumed more than %d normal variates" % DRAW_BUDGET)
            if size is None:
                rec.z.append(float(z))
                rec.calls.append(("normal", float(loc), float(scale), 1))
                return float(loc + scale * z)
            rec.z.extend(float(x) for x in np.ravel(z))
            rec.calls.append(("normal", float(loc), float(scale), int(np.size(z))))
            return loc + scale * z

        def uniform(low=0.0, high=1.0, size=None):
            u = np.random.random_sample(size)
            if size is None:
                rec.u.append(float(u))
                rec.calls.append(("uniform", float(low), float(high), 1))
                return float(low + (high - low) * u)
            rec.u.extend(float(x) for x in np.ravel(u))
            rec.calls.append(("uniform", float(low), float(high), int(np.size(u))))
            return low + (high - low) * u

        np.random.normal, np.random.uniform = normal, uniform
        return self

    def __exit__(self, *a):
        np.random.normal, np.random.uniform = self._n, self._u
        return False


def wrapper_fidelity(seed, n=300):
    """the wrapper returns bit-for-bit what numpy returns"""
    rs = np.random.RandomState(seed)
    bad = 0
    for _ in range(n):
        loc, scale = rs.uniform(-5, 5), abs(rs.normal()) * 10 ** rs.uniform(-3, 3)
        s = int(rs.randint(0, 2 ** 31 - 1))
        np.random.seed(s)
        a = np.random.normal(loc, scale)
        u = np.random.uniform(0, 1, 3)
        np.random.seed(s)
        with Recorder():
            b = np.random.normal(loc, scale)
            v = np.random.uniform(0, 1, 3)
        if f2b(a) != f2b(b) or not np.array_equal(u, v):
            bad += 1
    return bad


# ------------------------------------------------------------------------------------------ helpers
def Phi(x):
    return 0.5 * math.erfc(-x / math.sqrt(2.0))


def out_of(lo, hi, x):
    return (lo is not None and x < lo) or (hi is not None and x > hi)


def acc_gauss(loc, scale, lo, hi):
    """probability that loc + scale*z lies in [lo, hi]"""
    if scale < 0:
        return None
    if scale == 0:
        return 0.0 if out_of(lo, hi, loc) else 1.0
    a = Phi((lo - loc) / scale) if lo is not None else 0.0
    b = Phi((hi - loc) / scale) if hi is not None else 1.0
    return max(b - a, 0.0)


def acc_tanrad(loc, scale, lo, hi):
    """probability that 1 - (loc + scale*z)^2 lies in [lo, hi]"""
    if scale < 0:
        return None
    # 1 - n^2 in [lo,hi]  <=>  n^2 in [1-hi, 1-lo]
    up = math.inf if lo is None else 1 - lo
    dn = 0.0 if hi is None else max(1 - hi, 0.0)
    if up < 0 or up < dn:
        return 0.0
    r0, r1 = math.sqrt(dn), (math.inf if up == math.inf else math.sqrt(up))
    if scale == 0:
        return 1.0 if r0 <= abs(loc) <= r1 else 0.0

    def mass(a, b):
        return Phi((b - loc) / scale) - Phi((a - loc) / scale)
    return max(mass(r0, r1) + mass(-r1, -r0), 0.0)


def bucket(k):
    return "0" if k == 0 else "1-3" if k <= 3 else "4-30" if k <= 30 else ">30"


def rnd_range(rng, lo0, hi0):
    a, b = sorted([rng.uniform(lo0, hi0), rng.uniform(lo0, hi0)])
    if b - a < 0.05 * (hi0 - lo0):
        b = a + 0.05 * (hi0 - lo0)
    return round(a, 3), round(b, 3)


def pick_mean(rng, lo, hi, default_lo, default_hi, p_out=0.1):
    """population mean: mostly inside the range, sometimes on a bound, sometimes outside"""
    l = default_lo if lo is None else lo
    h = default_hi if hi is None else hi
    r = rng.random()
    if r < p_out:
        side = rng.random() < 0.5
        if side and lo is not None:
            return lo - rng.choice([1e-9, 0.01, 0.5, 3.0]) * max(1.0, abs(lo))
        if hi is not None:
            return hi + rng.choice([1e-9, 0.01, 0.5, 3.0]) * max(1.0, abs(hi))
    if r < p_out + 0.06:
        return rng.choice([l, h])
    return rng.uniform(l, h)


def pick_sigma(rng, width):
    r = rng.random()
    if r < 0.18:
        return 0.0
    if r < 0.20:
        return -rng.uniform(0.01, 1.0)
    if r < 0.55:
        return width * rng.uniform(0.01, 0.2)
    if r < 0.9:
        return width * rng.uniform(0.2, 1.5)
    return width * rng.uniform(1.5, 4.0)


# ------------------------------------------------------------------------------------------ anisotropy
def gen_ani(rng):
    model = rng.choice(["OM", "GOM", "const", "GOM", "OM", "NONE"])
    dists = ["NONE", "GAUSSIAN", "GAUSSIAN", "GAUSSIAN_TAN_RAD"] + (["GAUSSIAN_SCALED"] * 2 if model in ("OM", "GOM") else [])
    dist = rng.choice(dists)
    sampling = rng.random() < 0.9
    if dist == "GAUSSIAN_TAN_RAD":
        amin, amax = rnd_range(rng, -1.5, 1.0)
        if rng.random() < 0.7:           # a range in which a ratio near 1 maps to beta near 0
            amin, amax = round(rng.uniform(-1.5, -0.2), 3), round(rng.uniform(0.8, 1.5), 3)
    elif model == "const":
        amin, amax = rnd_range(rng, -1.0, 1.0)
    else:
        amin, amax = rnd_range(rng, 0.05, 6.0)
    bmin, bmax = rnd_range(rng, 0.0, 1.0)
    # a grid edge of EXACTLY zero (np.linspace(0, 1, n): isotropic at infinity is the canonical lower edge)
    r0 = rng.random()
    if r0 < 0.25:
        bmin = 0.0
    elif r0 < 0.33:
        bmin, bmax = round(rng.uniform(-1.0, -0.2), 3), 0.0
    if model == "const" and rng.random() < 0.2:
        if rng.random() < 0.5:
            amin, amax = 0.0, round(rng.uniform(0.2, 1.0), 3)
        else:
            amin, amax = round(rng.uniform(-1.0, -0.2), 3), 0.0
    if rng.random() < 0.12:
        amin = None
    if rng.random() < 0.12:
        amax = None
    if rng.random() < 0.12:
        bmin = None
    if rng.random() < 0.12:
        bmax = None
    a = pick_mean(rng, amin, amax, 0.1, 5.0)
    b = pick_mean(rng, bmin, bmax, 0.0, 1.0, p_out=0.06)
    wa = (amax if amax is not None else 5.0) - (amin if amin is not None else 0.0)
    a_sig = pick_sigma(rng, abs(wa))
    if dist == "GAUSSIAN_SCALED" and a_sig > 0 and a != 0:
        a_sig = a_sig / abs(a)
    b_sig = pick_sigma(rng, 1.0 if None in (bmin, bmax) else bmax - bmin)
    c = {"fn": "ani", "model": model, "sampling": sampling, "dist": dist, "amin": amin, "amax": amax,
         "bmin": bmin, "bmax": bmax, "a": a, "a_sig": a_sig, "b": b, "b_sig": b_sig,
         "seed": rng.randrange(2 ** 31)}
    if not sampling and rng.random() < 0.3:
        c["a"] = None
    if not sampling and rng.random() < 0.3:
        c["b"] = None
    return c


def ani_stages(c):
    """declared law of each drawn parameter: list of (key, popMean, loc, scale, post, lo, hi)"""
    st = []
    if not c["sampling"] or c["model"] == "NONE":
        return st
    d = c["dist"]
    a = c["a"]
    if d == "NONE":
        st.append(("a_ani", a, a, None, "id", c["amin"], c["amax"]))
    else:
        scale = c["a_sig"] * a if d == "GAUSSIAN_SCALED" else c["a_sig"]
        st.append(("a_ani", a, a, scale, "tanrad" if d == "GAUSSIAN_TAN_RAD" else "id", c["amin"], c["amax"]))
    if c["model"] == "GOM":
        b = c["b"]
        st.append(("beta_inf", b, b, c["b_sig"] if d in ("GAUSSIAN", "GAUSSIAN_SCALED") else None, "id",
                   c["bmin"], c["bmax"]))
    return st


def acceptance(stages):
    """(product of the acceptance probabilities, any negative scale, any population mean outside)"""
    p = 1.0
    neg = False
    for (_, pop, loc, scale, post, lo, hi) in stages:
        if scale is None:
            q = 0.0 if out_of(lo, hi, loc) else 1.0
        elif post == "tanrad":
            q = acc_tanrad(loc, scale, lo, hi)
        else:
            q = acc_gauss(loc, scale, lo, hi)
        if q is None:
            neg = True
            q = 1.0
        p *= q
    return p, neg


def tame(c, stages_fn, sig_keys):
    """ordinary stream: keep the acceptance probability of one attempt >= 0.05 by shrinking the scatters
    (cases with tiny / zero acceptance are generated separately as hazards)"""
    for _ in range(60):
        p, _ = acceptance(stages_fn(c))
        if p >= 0.05 or p == 0.0:
            return c
        for k in sig_keys:
            c[k] *= 0.5
    return c


def call_ani(c):
    from hierarc.Sampling.Distributions.anisotropy_distributions import AnisotropyDistribution
    kmin = {k: v for k, v in (("a_ani", c["amin"]), ("beta_inf", c["bmin"])) if v is not None}
    kmax = {k: v for k, v in (("a_ani", c["amax"]), ("beta_inf", c["bmax"])) if v is not None}
    dist = AnisotropyDistribution(anisotropy_model=c["model"], anisotropy_sampling=c["sampling"],
                                  distribution_function=c["dist"], kwargs_anisotropy_min=kmin,
                                  kwargs_anisotropy_max=kmax)
    np.random.seed(c["seed"])
    r = {}
    with Recorder() as rec:
        try:
            out = dist.draw_anisotropy(a_ani=c["a"], a_ani_sigma=c["a_sig"], beta_inf=c["b"],
                                       beta_inf_sigma=c["b_sig"])
            r["out"] = {k: float(v) for k, v in out.items()}
        except Exception as e:  # noqa
            r["err"] = err_enum(e)
    r["z"] = rec.z
    return r


def post_val(post, x):
    return 1 - x * x if post == "tanrad" else x


def oracle_draw(fn, stages, r, extra_ok_valueerror=False):
    """the property statement on one recorded call.  stages: declared laws (see ani_stages)."""
    fails = []
    pop_out = [k for (k, pop, loc, scale, post, lo, hi) in stages if out_of(lo, hi, pop)]
    p, neg = acceptance([s for s in stages])
    lens_out = [k for (k, pop, loc, scale, post, lo, hi) in stages
                if not out_of(lo, hi, pop) and out_of(lo, hi, post_val(post, loc))]
    if "err" in r:
        e = r["err"]
        if e == "ValueError":
            if pop_out or neg or lens_out or extra_ok_valueerror:
                return fails
            fails.append(("%s:spurious-ValueError" % fn, "ValueError although every population mean is inside its range"))
        elif e == "Recursion":
            if pop_out and (pop_out[0] == stages[0][0]):
                fails.append(("%s:RecursionError:mean-outside" % fn,
                              "population mean of %s outside the range: RecursionError instead of ValueError" % pop_out[0]))
            elif p == 0.0:
                fails.append(("%s:RecursionError:zero-acceptance" % fn,
                              "lens-level mean of %s outside the range with zero scatter: the re-draw recursion never "
                              "ends (RecursionError instead of ValueError)" % (lens_out or ["?"])[0]))
            else:
                fails.append(("%s:RecursionError:low-acceptance" % fn,
                              "re-draw recursion exhausted the stack (acceptance probability per attempt %.3g): "
                              "RecursionError instead of a draw from the truncated law" % p))
        else:
            fails.append(("%s:unexpected-%s" % (fn, e), "unexpected exception class %s" % e))
        return fails
    out = r["out"]
    if pop_out:
        fails.append(("%s:mean-outside-no-ValueError" % fn,
                      "population mean of %s outside its range but a value was returned (no ValueError)" % pop_out[0]))
        return fails
    for (k, pop, loc, scale, post, lo, hi) in stages:
        if k not in out:
            fails.append(("%s:missing-%s" % (fn, k), "no %s in the returned draw" % k))
            continue
        v = out[k]
        if math.isnan(v) or out_of(lo, hi, v):
            fails.append(("%s:%s-out-of-range" % (fn, k), "%s = %r outside [%r, %r]" % (k, v, lo, hi)))
        if scale is None or scale == 0:
            cands = [post_val(post, loc)]
            if scale is None:      # law 'NONE': a point mass, the code may still add the passed scatter
                cands += [post_val(post, loc)]
        else:
            cands = [post_val(post, loc + scale * z) for z in r["z"]]
        if not any(close(v, x, TOL) for x in cands):
            fails.append(("%s:%s-not-a-draw" % (fn, k),
                          "%s = %r is not mean + scale*z for any consumed normal z (mean %r, declared scale %r): "
                          "clipped, mis-scaled or shifted law" % (k, v, loc, scale)))
    return fails


def op_ani(c, z, fuel):
    return {"op": "C09.ani", "model": c["model"], "sampling": c["sampling"], "dist": c["dist"],
            "amin": None if c["amin"] is None else f2b(c["amin"]), "amax": None if c["amax"] is None else f2b(c["amax"]),
            "bmin": None if c["bmin"] is None else f2b(c["bmin"]), "bmax": None if c["bmax"] is None else f2b(c["bmax"]),
            "a": None if c["a"] is None else f2b(c["a"]), "a_sig": f2b(c["a_sig"]),
            "b": None if c["b"] is None else f2b(c["b"]), "b_sig": f2b(c["b_sig"]),
            "fuel": fuel, "stream": fl(z)}


# ------------------------------------------------------------------------------------------ lens
LENS_PAR = ["lambda_mst", "lambda_mst_sigma", "gamma_ppn", "lambda_ifu", "lambda_ifu_sigma", "alpha_lambda",
            "beta_lambda", "gamma_in", "gamma_in_sigma", "alpha_gamma_in", "log_m2l", "log_m2l_sigma",
            "alpha_log_m2l", "gamma_pl_mean", "gamma_pl_sigma"]


def gen_lens(rng):
    gmin, gmax = rnd_range(rng, 0.1, 2.9)
    mmin, mmax = rnd_range(rng, -0.5, 1.5)
    r0 = rng.random()
    if r0 < 0.15:          # log10(M/L) grids that start or end exactly at 0
        mmin, mmax = 0.0, round(rng.uniform(0.2, 1.5), 3)
    elif r0 < 0.25:
        mmin, mmax = round(rng.uniform(-0.5, -0.1), 3), 0.0
    if rng.random() < 0.1:
        gmin = None
    if rng.random() < 0.1:
        gmax = None
    if rng.random() < 0.1:
        mmin = None
    if rng.random() < 0.1:
        mmax = None
    use_scaling = rng.random() < 0.5
    c = {"fn": "lens",
         "lambda_mst_distribution": rng.choice(["GAUSSIAN", "GAUSSIAN", "NONE"]),
         "gamma_in_sampling": rng.random() < 0.7,
         "gamma_in_distribution": rng.choice(["GAUSSIAN", "GAUSSIAN", "NONE"]),
         "log_m2l_sampling": rng.random() < 0.6,
         "log_m2l_distribution": rng.choice(["GAUSSIAN", "NONE"]),
         "mst_ifu": rng.random() < 0.3,
         "prop": round(rng.uniform(-1, 1), 3) if use_scaling else 0.0,
         "prop_beta": round(rng.uniform(-1, 1), 3) if use_scaling else 0.0,
         "gmin": gmin, "gmax": gmax, "mmin": mmin, "mmax": mmax,
         "gamma_pl_index": rng.choice([None, None, None, 0, 1, 2]),
         "gamma_pl_global_sampling": rng.random() < 0.4,
         "gamma_pl_global_dist": rng.choice(["GAUSSIAN", "NONE"]),
         "seed": rng.randrange(2 ** 31)}
    # the sampler-side log10 switch as it reaches the distribution through the global model settings: the parameters
    # handed to draw_lens are linear either way (mean + sigma * z with the DECLARED sigma)
    c["log_scatter"] = c["seed"] % 3 == 0
    g = pick_mean(rng, gmin, gmax, 0.1, 2.9, p_out=0.08)
    m = pick_mean(rng, mmin, mmax, -0.5, 1.5, p_out=0.08)
    wg = 1.0 if None in (gmin, gmax) else gmax - gmin
    wm = 1.0 if None in (mmin, mmax) else mmax - mmin
    c.update({
        "lambda_mst": rng.uniform(0.5, 1.5), "lambda_mst_sigma": abs(pick_sigma(rng, 0.3)),
        "gamma_ppn": rng.uniform(0.5, 1.5), "lambda_ifu": rng.uniform(0.5, 1.5),
        "lambda_ifu_sigma": abs(pick_sigma(rng, 0.3)),
        "alpha_lambda": rng.uniform(-0.5, 0.5) if use_scaling else 0.0,
        "beta_lambda": rng.uniform(-0.5, 0.5) if use_scaling else 0.0,
        "gamma_in": g, "gamma_in_sigma": pick_sigma(rng, wg),
        "alpha_gamma_in": rng.uniform(-0.3, 0.3) * wg if use_scaling else 0.0,
        "log_m2l": m, "log_m2l_sigma": pick_sigma(rng, wm),
        "alpha_log_m2l": rng.uniform(-0.3, 0.3) * wm if use_scaling else 0.0,
        "gamma_pl_list": [round(rng.uniform(1.5, 2.5), 3) for _ in range(rng.randint(1, 3))] if rng.random() < 0.8 else None,
        "gamma_pl_mean": rng.uniform(1.8, 2.2), "gamma_pl_sigma": abs(pick_sigma(rng, 0.2)),
    })
    if rng.random() < 0.03:
        c["lambda_mst_sigma"] = -0.1
    if c["gamma_pl_index"] is not None and rng.random() < 0.85:      # mostly a matching list; rest = misuse
        c["gamma_pl_list"] = [round(rng.uniform(1.5, 2.5), 3) for _ in range(c["gamma_pl_index"] + rng.randint(1, 2))]
    return c


def lens_means(c):
    lam = (c["lambda_ifu"] if c["mst_ifu"] else c["lambda_mst"]) + c["alpha_lambda"] * c["prop"] + c["beta_lambda"] * c["prop_beta"]
    lam_sig = c["lambda_ifu_sigma"] if c["mst_ifu"] else c["lambda_mst_sigma"]
    g_lens = c["gamma_in"] + c["alpha_gamma_in"] * c["prop"] if c["gamma_in_distribution"] == "GAUSSIAN" else c["gamma_in"]
    m_lens = c["log_m2l"] + c["alpha_log_m2l"] * c["prop"]
    return lam, lam_sig, g_lens, m_lens


def lens_stages(c):
    lam, lam_sig, g_lens, m_lens = lens_means(c)
    st = []
    if c["gamma_in_sampling"]:
        st.append(("gamma_in", c["gamma_in"], g_lens, c["gamma_in_sigma"], "id", c["gmin"], c["gmax"]))
    if c["log_m2l_sampling"]:
        st.append(("log_m2l", c["log_m2l"], m_lens, c["log_m2l_sigma"], "id", c["mmin"], c["mmax"]))
    return st


def call_lens(c):
    from hierarc.Sampling.Distributions.lens_distribution import LensDistribution
    kmin = {k: v for k, v in (("gamma_in", c["gmin"]), ("log_m2l", c["mmin"])) if v is not None}
    kmax = {k: v for k, v in (("gamma_in", c["gmax"]), ("log_m2l", c["mmax"])) if v is not None}
    dist = LensDistribution(
        lambda_mst_distribution=c["lambda_mst_distribution"], gamma_in_sampling=c["gamma_in_sampling"],
        gamma_in_distribution=c["gamma_in_distribution"], log_m2l_sampling=c["log_m2l_sampling"],
        log_m2l_distribution=c["log_m2l_distribution"], mst_ifu=c["mst_ifu"],
        lambda_scaling_property=c["prop"], lambda_scaling_property_beta=c["prop_beta"],
        kwargs_min=kmin, kwargs_max=kmax, gamma_pl_index=c["gamma_pl_index"],
        gamma_pl_global_sampling=c["gamma_pl_global_sampling"], gamma_pl_global_dist=c["gamma_pl_global_dist"],
        log_scatter=bool(c.get("log_scatter", False)))
    kw = {k: c[k] for k in LENS_PAR}
    kw["gamma_pl_list"] = c["gamma_pl_list"]
    np.random.seed(c["seed"])
    r = {}
    with Recorder() as rec:
        try:
            out = dist.draw_lens(**kw)
            r["out"] = {k: float(v) for k, v in out.items()}
        except Exception as e:  # noqa
            r["err"] = err_enum(e)
    r["z"] = rec.z
    return r


def oracle_lens(c, r):
    idx_err = c["gamma_pl_index"] is not None and (c["gamma_pl_list"] is None or c["gamma_pl_index"] >= len(c["gamma_pl_list"]))
    neg_plain = (c["lambda_mst_distribution"] == "GAUSSIAN" and lens_means(c)[1] < 0)
    if "err" in r and r["err"] in ("IndexError", "TypeError") and idx_err:
        return []          # documented misuse: gamma_pl index without a matching list
    fails = oracle_draw("draw_lens", lens_stages(c), r, extra_ok_valueerror=neg_plain)
    if "out" in r and not fails:
        out = r["out"]
        lam, lam_sig, _, _ = lens_means(c)
        if c["lambda_mst_distribution"] == "GAUSSIAN" and lam_sig != 0:
            ok = any(close(out.get("lambda_mst", math.nan), lam + lam_sig * z, TOL) for z in r["z"])
        else:
            ok = close(out.get("lambda_mst", math.nan), lam, TOL)
        if not ok:
            fails.append(("draw_lens:lambda_mst-not-a-draw", "lambda_mst = %r is not the declared Gaussian draw around "
                          "the lens-level mean %r (sigma %r)" % (out.get("lambda_mst"), lam, lam_sig)))
        if not close(out.get("gamma_ppn", math.nan), c["gamma_ppn"], 0):
            fails.append(("draw_lens:gamma_ppn-changed", "gamma_ppn not passed through"))
    return fails


def op_lens(c, z, fuel):
    o = {"op": "C09.lens", "lambda_gaussian": c["lambda_mst_distribution"] == "GAUSSIAN",
         "gamma_in_sampling": c["gamma_in_sampling"], "gamma_in_gaussian": c["gamma_in_distribution"] == "GAUSSIAN",
         "log_m2l_sampling": c["log_m2l_sampling"], "mst_ifu": c["mst_ifu"], "prop": f2b(c["prop"]),
         "prop_beta": f2b(c["prop_beta"]),
         "gamma_pl_index": c["gamma_pl_index"], "gamma_pl_global_sampling": c["gamma_pl_global_sampling"],
         "gamma_pl_global_gaussian": c["gamma_pl_global_dist"] == "GAUSSIAN",
         "gamma_pl_list": None if c["gamma_pl_list"] is None else fl(c["gamma_pl_list"]),
         "fuel": fuel, "stream": fl(z)}
    for k in ("gmin", "gmax", "mmin", "mmax"):
        o[k] = None if c[k] is None else f2b(c[k])
    for k in LENS_PAR:
        o[k] = f2b(c[k])
    return o


# ------------------------------------------------------------------------------------------ hazards (F9)
def hazards():
    base_l = {"fn": "lens", "lambda_mst_distribution": "NONE", "gamma_in_sampling": True,
              "gamma_in_distribution": "GAUSSIAN", "log_m2l_sampling": False, "log_m2l_distribution": "NONE",
              "mst_ifu": False, "prop": 1.0, "prop_beta": 0.0, "gmin": 1.0, "gmax": 2.0, "mmin": 0.0, "mmax": 1.0,
              "gamma_pl_index": None, "gamma_pl_global_sampling": False, "gamma_pl_global_dist": "NONE",
              "seed": 11, "lambda_mst": 1.0, "lambda_mst_sigma": 0.0, "gamma_ppn": 1.0, "lambda_ifu": 1.0,
              "lambda_ifu_sigma": 0.0, "alpha_lambda": 0.0, "beta_lambda": 0.0, "gamma_in": 1.9,
              "gamma_in_sigma": 0.0, "alpha_gamma_in": 0.5, "log_m2l": 0.5, "log_m2l_sigma": 0.0,
              "alpha_log_m2l": 0.0, "gamma_pl_list": None, "gamma_pl_mean": 2.0, "gamma_pl_sigma": 0.0}
    h = [dict(base_l)]                                                  # sigma 0, lens-level gamma_in 2.4 > 2
    h.append(dict(base_l, gamma_in_sampling=False, log_m2l_sampling=True, log_m2l=0.9, alpha_log_m2l=0.3, seed=12))
    h.append(dict(base_l, alpha_gamma_in=0.0, gamma_in=1.5, gamma_in_sigma=4e4, seed=13))   # sigma >> range
    base_a = {"fn": "ani", "model": "OM", "sampling": True, "dist": "GAUSSIAN", "amin": 0.5, "amax": 1.0,
              "bmin": None, "bmax": None, "a": 0.7, "a_sig": 2e4, "b": None, "b_sig": 0.0, "seed": 14}
    h.append(dict(base_a))                                              # sigma >> range
    h.append(dict(base_a, model="const", dist="GAUSSIAN_TAN_RAD", amin=-0.5, amax=0.5, a=0.3, a_sig=0.0, seed=15))
    return h


# ------------------------------------------------------------------------------------------ tabulated PDF
def gen_pdf(rng):
    n = rng.choice([1, 2, 3, 4, 5, rng.randint(1, 30), rng.randint(6, 30)])
    mode = rng.random()
    e0 = round(rng.uniform(-2, 2), 3)
    if mode < 0.25:                      # exact dyadic arithmetic: integer counts with a power-of-two total
        edges = [float(int(e0) + i) for i in range(n + 1)]
        pdf = [float(rng.choice([0, 0, 1, 2, 3, 4])) for _ in range(n)]
        if sum(pdf) == 0:
            pdf[rng.randrange(n)] = 1.0
        tot = sum(pdf)
        p2 = 1
        while p2 < tot:
            p2 *= 2
        j = max(range(n), key=lambda i: pdf[i])
        pdf[j] += p2 - tot
        kind = "dyadic"
    else:
        steps = [rng.uniform(0.01, 1.0) for _ in range(n)]
        edges = [e0]
        for s in steps:
            edges.append(edges[-1] + s)
        pdf = [rng.uniform(1e-3, 1.0) * rng.choice([1, 1, 1, 10]) for _ in range(n)]
        if rng.random() < 0.5:
            for _ in range(rng.randint(1, max(1, n // 3))):
                pdf[rng.choice([0, n - 1, rng.randrange(n)])] = 0.0
        if sum(pdf) <= 0:
            pdf[rng.randrange(n)] = 1.0
        if max(pdf) > 0:
            pdf = [0.0 if 0 < p < 1e-3 * max(pdf) else p for p in pdf]
        kind = "float"
    typ = "float"
    r = rng.random()
    if kind == "dyadic" and r < 0.45:
        typ = rng.choice(["int-list-edges", "int-array-edges", "int-array-both"])
    elif r < 0.15:
        typ = "list-edges"
    return {"fn": "pdf", "edges": edges, "pdf": pdf, "kind": kind, "typ": typ, "n_draw": rng.choice([1, 5, 20]),
            "seed": rng.randrange(2 ** 31)}


def pdf_inputs(c):
    typ = c["typ"]
    if typ == "int-list-edges":
        return [int(e) for e in c["edges"]], np.array(c["pdf"], dtype=float)
    if typ == "int-array-edges":
        return np.array([int(e) for e in c["edges"]]), np.array(c["pdf"], dtype=float)
    if typ == "int-array-both":
        return np.array([int(e) for e in c["edges"]]), np.array([int(p) for p in c["pdf"]])
    if typ == "list-edges":
        return list(c["edges"]), np.array(c["pdf"], dtype=float)
    return np.array(c["edges"], dtype=float), np.array(c["pdf"], dtype=float)


def pdf_probe_points(c):
    """p values for the inverse and x values for the CDF (deterministic part)"""
    edges, pdf = c["edges"], c["pdf"]
    ps = [0.0, 0.5, 0.25, 0.999]
    if c["kind"] == "dyadic":
        tot = sum(pdf)
        acc = 0.0
        for p in pdf:
            acc += p
            ps.append(acc / tot)          # exact knots, incl. tied ones and 1.0
    xs = list(edges) + [(a + b) / 2 for a, b in zip(edges[:-1], edges[1:])]
    xs += [edges[0] - 0.5, edges[-1] + 0.5]
    return ps, xs


def call_pdf(c):
    from hierarc.Util.distribution_util import PDFSampling, approx_cdf_1d
    e, p = pdf_inputs(c)
    r = {}
    ps, xs = pdf_probe_points(c)
    try:
        cdf, f, finv = approx_cdf_1d(e, p)
        r["cdf"] = [float(x) for x in cdf]
        r["inv"] = []
        for q in ps:
            try:
                r["inv"].append(float(finv(q)))
            except Exception as ex:  # noqa
                r["inv"].append(err_enum(ex))
        r["fun"] = []
        for x in xs:
            try:
                r["fun"].append(float(f(x)))
            except Exception as ex:  # noqa
                r["fun"].append(err_enum(ex))
        s = PDFSampling(bin_edges=e, pdf_array=p)
        np.random.seed(c["seed"])
        with Recorder() as rec:
            try:
                d = s.draw(n=c["n_draw"])
                r["draws"] = [float(x) for x in np.ravel(d)]
            except Exception as ex:  # noqa
                r["draw_err"] = err_enum(ex)
        r["u"] = rec.u
        r["finv"] = finv
        r["f"] = f
    except Exception as ex:  # noqa
        r["err"] = err_enum(ex)
    return r


def support_bins(c):
    return [(a, b) for a, b, p in zip(c["edges"][:-1], c["edges"][1:], c["pdf"]) if p > 0]


def oracle_pdf(c, r):
    fails = []
    tag = "approx_cdf_1d:integer-typed-edges" if c["typ"].startswith("int") else "approx_cdf_1d"
    if "err" in r:
        return [(tag + ":raised-" + r["err"], "approx_cdf_1d / PDFSampling raised %s on a valid tabulated PDF" % r["err"])]
    cdf = r["cdf"]
    edges = c["edges"]
    if len(cdf) != len(edges):
        fails.append((tag + ":cdf-length", "CDF has %d nodes for %d edges" % (len(cdf), len(edges))))
    if not (cdf[0] == 0 and close(cdf[-1], 1.0, 1e-9)):
        fails.append((tag + ":cdf-ends", "CDF runs from %r to %r instead of 0 to 1 (cdf = %r)" % (cdf[0], cdf[-1], cdf[:6])))
    if any(b < a for a, b in zip(cdf[:-1], cdf[1:])):
        fails.append((tag + ":cdf-not-monotone", "CDF decreases somewhere"))
    if fails:
        return fails
    ps, xs = pdf_probe_points(c)
    bins = support_bins(c)
    sup_ok = lambda v: any(a - 1e-9 <= v <= b + 1e-9 for a, b in bins)   # noqa
    for q, v in list(zip(ps, r["inv"])) + list(zip(r["u"], r.get("draws", []))):
        if isinstance(v, str):
            if q <= cdf[-1]:
                fails.append((tag + ":inverse-raised", "inverse CDF raised %s at p = %r" % (v, q)))
            continue
        if math.isnan(v) or not (edges[0] <= v <= edges[-1]):
            fails.append((tag + ":inverse-outside-bins", "inverse CDF(%r) = %r outside [%r, %r]" % (q, v, edges[0], edges[-1])))
        elif q < 1.0 and not sup_ok(v):      # np.random.uniform draws from [0, 1)
            fails.append((tag + ":inverse-in-empty-bin", "inverse CDF(%r) = %r lies strictly inside a bin of zero probability" % (q, v)))
        else:
            back = float(r["f"](v))
            if not close(back, q, 1e-9, atol=1e-9):
                fails.append((tag + ":cdf-inverse-roundtrip", "CDF(inverse(%r)) = %r" % (q, back)))
    if "draw_err" in r:
        fails.append((tag + ":draw-raised", "PDFSampling.draw raised %s" % r["draw_err"]))
    elif len(r.get("draws", [])) != c["n_draw"] or len(r["u"]) != c["n_draw"]:
        fails.append((tag + ":draw-count", "draw(n=%d) returned %d values from %d uniforms" % (c["n_draw"], len(r.get("draws", [])), len(r["u"]))))
    else:
        for u, d in zip(r["u"], r["draws"]):
            try:
                want = float(r["finv"](u))
            except Exception:  # noqa
                continue
            if not close(d, want, TOL):
                fails.append((tag + ":draw-not-inverse-cdf", "draw %r is not the inverse CDF of its uniform %r" % (d, u)))
    # dedupe
    seen, outl = set(), []
    for f in fails:
        if f[0] not in seen:
            seen.add(f[0])
            outl.append(f)
    return outl


def op_pdf(c, r):
    ps, xs = pdf_probe_points(c)
    return {"op": "C09.cdf", "edges": fl(c["edges"]), "pdf": fl(c["pdf"]), "ps": fl(ps + list(r.get("u", []))), "xs": fl(xs)}


# ------------------------------------------------------------------------------------------ line of sight
def gen_los(rng):
    kind = rng.choice(["none", "indivPdf", "indivGev", "globGaussian", "globGaussian", "globGev", "globGev", "globOther"])
    c = {"fn": "los", "kind": kind, "n": 16, "seed": rng.randrange(2 ** 31)}
    nlos = rng.randint(1, 3)
    c["idx"] = rng.randrange(nlos)
    c["names"] = [rng.choice(["GAUSSIAN", "GEV"]) for _ in range(nlos)]
    c["kwargs_los"] = [{"mean": round(rng.uniform(-0.1, 0.2), 4), "sigma": round(rng.uniform(0.005, 0.2), 4),
                        "xi": round(rng.uniform(-0.3, 0.3), 3)} for _ in range(nlos)]
    if kind.startswith("glob"):
        c["names"][c["idx"]] = {"globGaussian": "GAUSSIAN", "globGev": "GEV", "globOther": rng.choice(["NONE", "PDF", "gaussian"])}[kind]
        if rng.random() < 0.35:
            c["kwargs_los"][c["idx"]]["sigma"] = rng.choice([0.0, 0, -0.0])
    if kind == "indivPdf":
        p = gen_pdf(rng)
        c["edges"], c["pdf"] = p["edges"], p["pdf"]
    if kind == "indivGev":
        c["gev"] = {"xi": round(rng.uniform(-0.3, 0.3), 3), "mean": round(rng.uniform(-0.1, 0.2), 4),
                    "sigma": round(rng.uniform(0.005, 0.2), 4)}
    if c["seed"] % 4 == 0:
        # the Gumbel limit of the extreme-value law and its immediate neighbourhood: xi exactly 0 (a shape parameter held
        # fixed at 0), -0.0, and values of the order of the machine precision
        special = [0.0, -0.0, 1e-15, -3e-16][(c["seed"] // 4) % 4]
        c["kwargs_los"][c["idx"]]["xi"] = special
        if "gev" in c:
            c["gev"]["xi"] = special
    if rng.random() < 0.5:
        # the object has been used before, with hyper-parameters that differ in ONE entry of the assigned population
        # (a sampler moving along one coordinate): the draws depend on the current hyper-parameters only
        w = [dict(k) for k in c["kwargs_los"]]
        key = rng.choice(["xi", "xi", "mean", "sigma"])
        w[c["idx"]][key] = round(w[c["idx"]][key] + rng.choice([0.11, -0.07, 0.2]), 4) if key != "sigma" else round(abs(w[c["idx"]][key]) + 0.013, 4)
        c["warm"] = w
    return c


def make_los(c):
    from hierarc.Sampling.Distributions.los_distributions import LOSDistribution
    kind = c["kind"]
    if kind == "none":
        return LOSDistribution(global_los_distribution=False, los_distributions=c["names"])
    if kind == "indivPdf":
        return LOSDistribution(global_los_distribution=False, los_distributions=c["names"], individual_distribution="PDF",
                               kwargs_individual={"bin_edges": np.array(c["edges"]), "pdf_array": np.array(c["pdf"])})
    if kind == "indivGev":
        return LOSDistribution(global_los_distribution=False, los_distributions=c["names"], individual_distribution="GEV",
                               kwargs_individual=dict(c["gev"]))
    return LOSDistribution(global_los_distribution=c["idx"], los_distributions=c["names"])


def call_los(c):
    from scipy.stats import genextreme
    r = {}
    los = make_los(c)
    kw = [dict(k) for k in c["kwargs_los"]]
    try:
        r["bool"] = bool(los.draw_bool(kw))
    except Exception as e:  # noqa
        r["bool_err"] = err_enum(e)
    if c.get("warm"):
        try:
            np.random.seed(c["seed"] + 1)
            los.draw_los([dict(k) for k in c["warm"]], size=3)
        except Exception:  # noqa  (the warm-up call may legitimately raise, e.g. an unsupported distribution name)
            pass
    np.random.seed(c["seed"])
    with Recorder() as rec:
        try:
            d = los.draw_los(kw, size=c["n"])
            r["draws"] = [float(x) for x in np.ravel(d)] if np.ndim(d) else [float(d)] * c["n"]
            r["scalar"] = not np.ndim(d)
        except Exception as e:  # noqa
            r["err"] = err_enum(e)
    kind = c["kind"]
    r["rs"], r["qs"] = [0.0] * c["n"], [0.0] * c["n"]
    if kind == "globGaussian":
        r["rs"] = rec.z
    elif kind == "indivPdf":
        r["rs"] = rec.u
    elif kind in ("indivGev", "globGev"):
        np.random.seed(c["seed"])
        u = np.random.uniform(size=c["n"])            # the uniforms scipy's rvs consumed
        xi = c["gev"]["xi"] if kind == "indivGev" else c["kwargs_los"][c["idx"]]["xi"]
        r["rs"] = [float(x) for x in u]
        r["qs"] = [float(x) for x in genextreme.ppf(u, c=xi)]
    if len(r["rs"]) != c["n"]:
        r["rs_mismatch"] = len(r["rs"])
        r["rs"] = (list(r["rs"]) + [0.0] * c["n"])[:c["n"]]
    r["qs"] = (list(r["qs"]) + [0.0] * c["n"])[:c["n"]]
    return r


def los_params(c):
    if c["kind"] == "indivGev":
        return c["gev"]["mean"], c["gev"]["sigma"]
    k = c["kwargs_los"][c["idx"]]
    return float(k["mean"]), float(k["sigma"])


def oracle_los(c, r):
    fails = []
    kind = c["kind"]
    mean, sigma = los_params(c)
    if kind == "globOther":
        if r.get("err") != "ValueError":
            fails.append(("draw_los:unknown-name-no-ValueError", "unknown line-of-sight distribution name accepted"))
        return fails
    if "bool_err" in r or "err" in r:
        return [("draw_los:raised-%s" % (r.get("err") or r.get("bool_err")), "draw_los / draw_bool raised on a valid configuration")]
    degenerate_declared = kind == "none" or (kind.startswith("glob") and sigma == 0)
    d = r["draws"]
    degenerate_observed = all(x == d[0] for x in d)
    if r["bool"] != (not degenerate_declared):
        fails.append(("draw_bool:%s" % kind, "draw_bool = %r but the declared distribution is %sdegenerate" % (r["bool"], "" if degenerate_declared else "not ")))
    if degenerate_observed != degenerate_declared:
        fails.append(("draw_los:%s-degeneracy" % kind, "%d draws are %s although the declared distribution is %sdegenerate"
                      % (len(d), "all equal" if degenerate_observed else "different", "" if degenerate_declared else "not ")))
    if "rs_mismatch" in r:
        fails.append(("draw_los:%s-consumption" % kind, "size=%d draws consumed %d random numbers" % (c["n"], r["rs_mismatch"])))
        return fails
    for x, rr, q in zip(d, r["rs"], r["qs"]):
        if kind == "none":
            ok = x == 0
        elif kind == "globGaussian":
            ok = close(x, mean + sigma * rr, TOL)
        elif kind in ("globGev", "indivGev"):
            ok = close(x, mean + sigma * q, 1e-10)
        else:
            ok = c["edges"][0] <= x <= c["edges"][-1] and any(a - 1e-9 <= x <= b + 1e-9 for a, b in support_bins(c))
        if not ok:
            fails.append(("draw_los:%s-law" % kind, "draw %r does not follow the declared %s law (mean %r, sigma %r)" % (x, kind, mean, sigma)))
            break
    return fails


def op_los(c, r):
    mean, sigma = los_params(c)
    return {"op": "C09.los", "kind": c["kind"], "edges": fl(c.get("edges", [])), "pdf": fl(c.get("pdf", [])),
            "mean": f2b(mean), "sigma": f2b(sigma), "rs": fl(r["rs"]), "qs": fl(r["qs"])}


# ------------------------------------------------------------------------------------------ grid ranges
AXIS_NAMES = ["a_ani", "beta_inf", "gamma_in", "log_m2l"]
AXIS_BOX = {"a_ani": (0.1, 5.0), "beta_inf": (0.0, 1.0), "gamma_in": (0.1, 2.9), "log_m2l": (-0.5, 1.5)}


def gen_bounds(rng):
    ndim = rng.choice([1, 1, 3, 4])
    names = rng.sample(AXIS_NAMES, ndim)
    axes = []
    for nm in names:
        lo, hi = AXIS_BOX[nm]
        k = rng.randint(2, 7)
        ax = sorted(set(round(rng.uniform(lo, hi), 3) for _ in range(k)))
        while len(ax) < 2:
            ax = sorted(set(ax + [round(rng.uniform(lo, hi), 3)]))
        if ndim == 1 and rng.random() < 0.4:
            rng.shuffle(ax)               # interp1d sorts; min/max must not rely on the order
        axes.append(ax)
    c = {"fn": "bounds", "names": names, "axes": axes, "seed": rng.randrange(2 ** 31), "wire": rng.random() < 0.7}
    # hyper-parameters for the wiring run
    par = {}
    for nm, ax in zip(names, axes):
        lo, hi = min(ax), max(ax)
        par[nm] = pick_mean(rng, lo, hi, lo, hi, p_out=0.12)
        par[nm + "_sigma"] = (hi - lo) * rng.choice([0.0, 0.1, 0.5, 1.0])
    c["par"] = par
    return c


def call_bounds(c):
    from hierarc.Likelihood.kin_scaling import KinScaling
    axes = [np.array(a) for a in c["axes"]]
    grid = np.ones(tuple(len(a) for a in axes)) if len(axes) > 1 else np.ones(len(axes[0]))
    r = {}
    try:
        ks = KinScaling(j_kin_scaling_param_axes=axes, j_kin_scaling_grid_list=[grid],
                        j_kin_scaling_param_name_list=list(c["names"]))
        mn, mx = ks.param_bounds_interpol()
        r["min"] = {k: float(v) for k, v in mn.items()}
        r["max"] = {k: float(v) for k, v in mx.items()}
    except Exception as e:  # noqa
        r["err"] = err_enum(e)
    return r


def call_wiring(c):
    """LensLikelihood built on the grid: every value the two draw methods return while the likelihood runs, and
    the outcome of the likelihood call (the interpolator raises if a draw leaves a >=3-axis grid)"""
    from hierarc.Likelihood.hierarchy_likelihood import LensLikelihood
    from hierarc.Sampling.Distributions.anisotropy_distributions import AnisotropyDistribution
    from hierarc.Sampling.Distributions.lens_distribution import LensDistribution
    names = c["names"]
    axes = [np.array(a) for a in c["axes"]]
    grid = np.ones(tuple(len(a) for a in axes)) if len(axes) > 1 else np.ones(len(axes[0]))
    par = c["par"]
    model = "GOM" if "beta_inf" in names else "OM"
    lens = LensLikelihood(
        z_lens=0.5, z_source=1.5, likelihood_type="DdtGaussian", ddt_mean=3000.0, ddt_sigma=100.0,
        anisotropy_model=model, anisotropy_sampling=("a_ani" in names or "beta_inf" in names),
        anisotropy_distribution="GAUSSIAN", gamma_in_sampling="gamma_in" in names, gamma_in_distribution="GAUSSIAN",
        log_m2l_sampling="log_m2l" in names, log_m2l_distribution="GAUSSIAN",
        kin_scaling_param_list=list(names), j_kin_scaling_param_axes=axes, j_kin_scaling_grid_list=[grid],
        num_distribution_draws=12)
    kw_lens = {k: par[k] for k in par if k.startswith(("gamma_in", "log_m2l"))}
    kw_kin = {"a_ani": par.get("a_ani", 1.0), "a_ani_sigma": par.get("a_ani_sigma", 0.0),
              "beta_inf": par.get("beta_inf", 0.5), "beta_inf_sigma": par.get("beta_inf_sigma", 0.0)}
    if "a_ani" not in names and "beta_inf" not in names:
        kw_kin = {}
    seen = []
    o1, o2 = AnisotropyDistribution.draw_anisotropy, LensDistribution.draw_lens

    def w1(self, *a, **k):
        out = o1(self, *a, **k)
        seen.append(dict(out))
        return out

    def w2(self, *a, **k):
        out = o2(self, *a, **k)
        seen.append(dict(out))
        return out
    r = {}
    np.random.seed(c["seed"])
    AnisotropyDistribution.draw_anisotropy, LensDistribution.draw_lens = w1, w2
    try:
        r["logl"] = float(lens.hyper_param_likelihood(3000.0, 1000.0, 0, kwargs_lens=kw_lens, kwargs_kin=kw_kin))
    except Exception as e:  # noqa
        r["err"] = err_enum(e)
        r["msg"] = str(e)[:120]
    finally:
        AnisotropyDistribution.draw_anisotropy, LensDistribution.draw_lens = o1, o2
    r["seen"] = seen
    return r


def oracle_bounds(c, r, w):
    fails = []
    if "err" in r:
        return [("param_bounds_interpol:raised-" + r["err"], "KinScaling / param_bounds_interpol raised on a valid grid")]
    for nm, ax in zip(c["names"], c["axes"]):
        if r["min"].get(nm) != min(ax) or r["max"].get(nm) != max(ax):
            fails.append(("param_bounds_interpol:not-min-max", "range of %s is [%r, %r], axis spans [%r, %r]"
                          % (nm, r["min"].get(nm), r["max"].get(nm), min(ax), max(ax))))
    if w is None:
        return fails
    rngs = {nm: (min(ax), max(ax)) for nm, ax in zip(c["names"], c["axes"])}
    outside = [nm for nm in c["names"] if out_of(rngs[nm][0], rngs[nm][1], c["par"][nm])]
    for d in w["seen"]:
        for nm, (lo, hi) in rngs.items():
            if nm in d and out_of(lo, hi, float(d[nm])):
                fails.append(("LensLikelihood:draw-outside-grid", "LensLikelihood drew %s = %r outside its grid axis [%r, %r]" % (nm, float(d[nm]), lo, hi)))
    if outside:
        if w.get("err") != "ValueError":
            fails.append(("LensLikelihood:mean-outside-grid-no-ValueError", "population mean of %s outside its grid axis: %s"
                          % (outside[0], "returned %r" % w.get("logl") if "logl" in w else "raised " + w["err"])))
    elif "err" in w:
        fails.append(("LensLikelihood:raised-%s" % w["err"], "likelihood with in-grid population means raised %s (%s)" % (w["err"], w.get("msg"))))
    seen_f, outl = set(), []
    for f in fails:
        if f[0] not in seen_f:
            seen_f.add(f[0])
            outl.append(f)
    return outl


# ------------------------------------------------------------------------------------------ statistical spot checks
def gen_stat(rng, n):
    out = []
    # truncated Gaussian laws with substantial truncation (a clipped law has atoms of this size at the bounds)
    lo, hi = round(rng.uniform(0.3, 1.0), 2), round(rng.uniform(2.0, 4.0), 2)
    mu = round(rng.uniform(lo, lo + 0.4 * (hi - lo)), 3)
    out.append({"fn": "stat", "what": "ani", "dist": "GAUSSIAN", "model": "OM", "lo": lo, "hi": hi, "mu": mu,
                "sig": round(rng.uniform(0.4, 1.0) * (hi - lo), 3)})
    mu2 = round(rng.uniform(1.6, 2.6), 3)
    out.append({"fn": "stat", "what": "ani", "dist": "GAUSSIAN_SCALED", "model": "GOM", "lo": lo, "hi": hi + 1, "mu": mu2,
                "sig": round(rng.uniform(0.2, 0.5), 3), "blo": 0.1, "bhi": 0.9, "bmu": round(rng.uniform(0.2, 0.8), 3),
                "bsig": round(rng.uniform(0.2, 0.6), 3)})
    out.append({"fn": "stat", "what": "lens", "glo": 1.0, "ghi": 2.0, "gmu": round(rng.uniform(1.1, 1.9), 3),
                "gsig": round(rng.uniform(0.3, 0.8), 3), "alpha_g": round(rng.uniform(-0.3, 0.3), 3),
                "mlo": 0.0, "mhi": 1.0, "mmu": round(rng.uniform(0.1, 0.9), 3), "msig": round(rng.uniform(0.3, 0.8), 3),
                "alpha_m": round(rng.uniform(-0.3, 0.3), 3), "prop": round(rng.uniform(0.3, 1.0), 3)})
    p = gen_pdf(rng)
    while len(p["pdf"]) < 3:
        p = gen_pdf(rng)
    out.append({"fn": "stat", "what": "pdf", "edges": p["edges"], "pdf": p["pdf"]})
    out.append({"fn": "stat", "what": "los", "name": "GAUSSIAN", "mean": round(rng.uniform(-0.1, 0.2), 3),
                "sigma": round(rng.uniform(0.01, 0.2), 3), "xi": 0.0})
    out.append({"fn": "stat", "what": "los", "name": "GEV", "mean": round(rng.uniform(-0.1, 0.2), 3),
                "sigma": round(rng.uniform(0.01, 0.2), 3), "xi": round(rng.uniform(-0.3, 0.3), 3)})
    out.append({"fn": "stat", "what": "los", "name": "GEV", "mean": 0.03, "sigma": 0.05, "xi": 0.0})
    out.append({"fn": "stat", "what": "los", "name": "GEV", "mean": 0.03, "sigma": 0.05, "xi": 1e-15})
    for c in out:
        c["n"] = n
        c["seed"] = rng.randrange(2 ** 31)
    return out


def run_stat(c):
    """returns list of (label, p-value)"""
    from scipy import stats
    n = c["n"]
    np.random.seed(c["seed"])
    res = []

    def ks_trunc(x, mu, s, lo, hi, label):
        law = stats.truncnorm((lo - mu) / s, (hi - mu) / s, loc=mu, scale=s)
        res.append((label, float(stats.kstest(x, law.cdf).pvalue)))
    if c["what"] == "ani":
        from hierarc.Sampling.Distributions.anisotropy_distributions import AnisotropyDistribution
        kmin, kmax = {"a_ani": c["lo"]}, {"a_ani": c["hi"]}
        if c["model"] == "GOM":
            kmin["beta_inf"], kmax["beta_inf"] = c["blo"], c["bhi"]
        d = AnisotropyDistribution(c["model"], True, c["dist"], kmin, kmax)
        kw = {"a_ani": c["mu"], "a_ani_sigma": c["sig"], "beta_inf": c.get("bmu"), "beta_inf_sigma": c.get("bsig", 0)}
        draws = [d.draw_anisotropy(**kw) for _ in range(n)]
        s = c["sig"] * c["mu"] if c["dist"] == "GAUSSIAN_SCALED" else c["sig"]
        ks_trunc([x["a_ani"] for x in draws], c["mu"], s, c["lo"], c["hi"], "draw_anisotropy:a_ani:" + c["dist"])
        if c["model"] == "GOM":
            ks_trunc([x["beta_inf"] for x in draws], c["bmu"], c["bsig"], c["blo"], c["bhi"], "draw_anisotropy:beta_inf:" + c["dist"])
    elif c["what"] == "lens":
        from hierarc.Sampling.Distributions.lens_distribution import LensDistribution
        d = LensDistribution(gamma_in_sampling=True, gamma_in_distribution="GAUSSIAN", log_m2l_sampling=True,
                             log_m2l_distribution="GAUSSIAN", lambda_scaling_property=c["prop"],
                             kwargs_min={"gamma_in": c["glo"], "log_m2l": c["mlo"]},
                             kwargs_max={"gamma_in": c["ghi"], "log_m2l": c["mhi"]})
        kw = {"gamma_in": c["gmu"], "gamma_in_sigma": c["gsig"], "alpha_gamma_in": c["alpha_g"], "log_m2l": c["mmu"],
              "log_m2l_sigma": c["msig"], "alpha_log_m2l": c["alpha_m"]}
        draws = [d.draw_lens(**kw) for _ in range(n)]
        ks_trunc([x["gamma_in"] for x in draws], c["gmu"] + c["alpha_g"] * c["prop"], c["gsig"], c["glo"], c["ghi"], "draw_lens:gamma_in")
        ks_trunc([x["log_m2l"] for x in draws], c["mmu"] + c["alpha_m"] * c["prop"], c["msig"], c["mlo"], c["mhi"], "draw_lens:log_m2l")
    elif c["what"] == "pdf":
        from hierarc.Util.distribution_util import PDFSampling
        e, p = np.array(c["edges"]), np.array(c["pdf"])
        x = np.asarray(PDFSampling(e, p).draw(n=n), dtype=float)
        if np.any(x < e[0]) or np.any(x > e[-1]) or np.any(np.isnan(x)):
            res.append(("PDFSampling:chi2", 0.0))
        else:
            cnt, _ = np.histogram(x, bins=e)
            exp = p / p.sum() * n
            m = exp > 0
            if cnt[~m].sum() > 0:
                res.append(("PDFSampling:chi2", 0.0))
            elif m.sum() > 1:
                res.append(("PDFSampling:chi2", float(stats.chisquare(cnt[m], exp[m]).pvalue)))
            j = int(np.argmax(exp))
            xin = x[(x >= e[j]) & (x <= e[j + 1])]
            if len(xin) > 50:
                res.append(("PDFSampling:uniform-in-bin", float(stats.kstest((xin - e[j]) / (e[j + 1] - e[j]), "uniform").pvalue)))
    else:
        from hierarc.Sampling.Distributions.los_distributions import LOSDistribution
        d = LOSDistribution(global_los_distribution=0, los_distributions=[c["name"]])
        x = np.asarray(d.draw_los([{"mean": c["mean"], "sigma": c["sigma"], "xi": c["xi"]}], size=n), dtype=float)
        law = stats.norm(c["mean"], c["sigma"]) if c["name"] == "GAUSSIAN" else stats.genextreme(c["xi"], loc=c["mean"], scale=c["sigma"])
        res.append(("draw_los:" + c["name"], float(stats.kstest(x, law.cdf).pvalue)))
    return res


def oracle_stat(c):
    try:
        res = run_stat(c)
    except Exception as e:  # noqa
        return [("law:%s:raised-%s" % (c["what"], err_enum(e)), "statistical spot check raised %s: %s" % (type(e).__name__, str(e)[:100]))], []
    fails = [("law:" + lab, "%d draws: p-value %.3g of the KS / chi^2 test against the declared (truncated) law" % (c["n"], p))
             for lab, p in res if not (p >= P_MIN)]
    return fails, res


# ------------------------------------------------------------------------------------------ dispatch
def evaluate(c):
    """run the real code + the property oracle on one case. returns (fails, impl result, extra)"""
    fn = c["fn"]
    if fn == "ani":
        r = call_ani(c)
        return oracle_draw("draw_anisotropy", ani_stages(c), r), r, None
    if fn == "lens":
        r = call_lens(c)
        return oracle_lens(c, r), r, None
    if fn == "pdf":
        r = call_pdf(c)
        return oracle_pdf(c, r), r, None
    if fn == "los":
        r = call_los(c)
        return oracle_los(c, r), r, None
    if fn == "bounds":
        r = call_bounds(c)
        w = call_wiring(c) if c.get("wire") and "err" not in r else None
        return oracle_bounds(c, r, w), r, w
    if fn == "stat":
        fails, res = oracle_stat(c)
        return fails, {"stat": res}, None
    raise ValueError(fn)


def cmp_dict(model_pairs, impl_out):
    m = {k: b2f(v) for k, v in model_pairs}
    if len(m) != len(model_pairs) or set(m) != set(impl_out):
        return "keys differ: model %s impl %s" % (sorted(m), sorted(impl_out))
    for k in m:
        if not close(m[k], impl_out[k], TOL):
            return "%s differs: model %r impl %r" % (k, m[k], impl_out[k])
    return None


def strip(c):
    return {k: v for k, v in c.items()}


def run(ctx, res):
    sys.setrecursionlimit(1000)
    rng = ctx.rng
    bad = wrapper_fidelity(ctx.np_seed())
    if bad:
        res.notes.append("np.random wrapper not bit-identical to numpy in %d of 300 trials" % bad)
        res.disagree("harness wrapper of np.random.normal/uniform is not faithful to numpy", {"trials_bad": bad})
    n = ctx.n(2000, 50000)
    cases = list(hazards())
    n_ani, n_lens, n_pdf, n_los, n_b = int(n * 0.3), int(n * 0.3), int(n * 0.17), int(n * 0.15), int(n * 0.08)
    for _ in range(n_ani):
        cases.append(tame(gen_ani(rng), ani_stages, ["a_sig", "b_sig"]))
    for _ in range(n_lens):
        cases.append(tame(gen_lens(rng), lens_stages, ["gamma_in_sigma", "log_m2l_sigma"]))
    cases += [gen_pdf(rng) for _ in range(n_pdf)]
    cases[len(cases):] = [
        {"fn": "pdf", "edges": [0.0, 1.0, 2.0, 3.0], "pdf": [1.0, 2.0, 1.0], "kind": "dyadic", "typ": "int-list-edges", "n_draw": 5, "seed": 1},
        {"fn": "pdf", "edges": [0.0, 1.0, 2.0, 3.0, 4.0], "pdf": [0.0, 1.0, 0.0, 1.0], "kind": "dyadic", "typ": "float", "n_draw": 5, "seed": 2},
    ]
    cases += [gen_los(rng) for _ in range(n_los)]
    cases += [gen_bounds(rng) for _ in range(n_b)]
    cases += gen_stat(rng, 4000 if ctx.tier == "quick" else 100000)
    if ctx.tier == "thorough":
        cases += gen_stat(rng, 20000) + gen_stat(rng, 20000)

    ops, tie = [], []          # driver requests and what to compare them with
    stat_p = []
    for c in cases:
        fails, r, w = evaluate(c)
        res.evaluations += 1
        fn = c["fn"]
        res.count("fn=" + fn)
        outcome = r.get("err") or r.get("draw_err") or ("ok" if fn != "stat" else "stat")
        if fn in ("ani", "lens"):
            stages = ani_stages(c) if fn == "ani" else lens_stages(c)
            used = len(r["z"])
            per_attempt = len(stages)
            if fn == "lens":
                per_attempt += int(c["lambda_mst_distribution"] == "GAUSSIAN")
            k = max(0, (used - per_attempt) // max(1, per_attempt)) if "out" in r else used   # ~ rejected attempts
            res.count("%s:outcome=%s" % (fn, outcome))
            res.count("%s:redraws=%s" % (fn, bucket(k)))
            if fn == "ani":
                res.count("ani:%s/%s" % (c["model"], c["dist"]))
                sw = (c["model"], c["dist"], c["sampling"], c["amin"] is None, c["amax"] is None)
            else:
                sw = (c["lambda_mst_distribution"], c["gamma_in_sampling"], c["gamma_in_distribution"], c["log_m2l_sampling"],
                      c["mst_ifu"], c["gamma_pl_index"] is not None, c["gamma_pl_global_sampling"], c["gamma_pl_global_dist"])
            if used or "err" in r:
                res.signatures.add((fn, sw, outcome, bucket(k)))
        elif fn == "pdf":
            res.count("pdf:typ=" + c["typ"])
            res.count("pdf:bins=" + ("1" if len(c["pdf"]) == 1 else "2-5" if len(c["pdf"]) <= 5 else ">5"))
            res.count("pdf:zero_bins=" + str(min(3, sum(1 for p in c["pdf"] if p == 0))))
            res.signatures.add((fn, c["typ"], len(c["pdf"]), sum(1 for p in c["pdf"] if p == 0), outcome))
        elif fn == "los":
            res.count("los:kind=" + c["kind"])
            res.count("los:bool=%s" % r.get("bool"))
            res.signatures.add((fn, c["kind"], r.get("bool"), outcome, los_params(c)[1] == 0))
        elif fn == "bounds":
            res.count("bounds:ndim=%d" % len(c["names"]))
            if w is not None:
                res.count("wiring:outcome=" + (w.get("err") or "ok"))
                res.signatures.add((fn, tuple(c["names"]), w.get("err") or "ok"))
        elif fn == "stat":
            stat_p += r["stat"]
        for sig, what in fails:
            res.violation(sig, what, strip(c))
        if len(res.samples) < 4 and fn in ("ani", "lens", "pdf", "los") and res.evaluations % 97 == 5:
            res.sample({"case": {k: v for k, v in c.items() if k not in ("edges", "pdf")}, "outcome": outcome,
                        "returned": r.get("out") or r.get("draws", [])[:3]})
        if ctx.search_mode or fails:
            continue       # a case on which the property already fails is reported once, by the oracle
        # ---- correspondence requests
        if fn in ("ani", "lens"):
            mk = op_ani if fn == "ani" else op_lens
            if r.get("err") == "Recursion":
                ops.append(mk(c, r["z"], FUEL)); tie.append(("stream-end", c, r))
                ops.append(mk(c, r["z"], 7)); tie.append(("recursion", c, r))
            else:
                ops.append(mk(c, r["z"], FUEL)); tie.append(("draw", c, r))
                att = len(r["z"])
                if "out" in r and 0 < att <= 40 and rng.random() < 0.3:
                    ops.append(mk(c, r["z"] + [0.0] * 4, FUEL)); tie.append(("draw-longer-stream", c, r))
        elif fn == "pdf" and not c["typ"].startswith("int"):
            ops.append(op_pdf(c, r)); tie.append(("pdf", c, r))
        elif fn == "pdf":
            ops.append(op_pdf(c, r)); tie.append(("pdf", c, r))
        elif fn == "los":
            ops.append(op_los(c, r)); tie.append(("los", c, r))
        elif fn == "bounds":
            ops.append({"op": "C09.bounds", "axes": [[nm, fl(ax)] for nm, ax in zip(c["names"], c["axes"])]})
            tie.append(("bounds", c, r))
    res.extra["statistical_spot_checks"] = [{"test": lab, "p_value": p} for lab, p in stat_p]
    if ctx.search_mode:
        return
    outs = run_driver(ops)
    for (kind, c, r), o in zip(tie, outs):
        res.traces += 1
        enc = strip(c)
        if kind == "stream-end":
            if o.get("err") != "StreamEnd":
                res.disagree("code ran out of stack after %d normals; the model on the same stream answers %s" % (len(r["z"]), o), enc)
        elif kind == "recursion":
            if o.get("err") != "Recursion":
                res.disagree("model with fuel 7 should report Recursion, answers %s" % o, enc)
        elif kind in ("draw", "draw-longer-stream"):
            if "err" in r or "err" in o:
                if r.get("err") != o.get("err"):
                    res.disagree("outcome class: impl %s model %s" % (r.get("err", "value"), o.get("err", "value")), enc)
                continue
            m = o["ok"]
            d = cmp_dict(m["out"], r["out"])
            if d:
                res.disagree("returned draw: " + d, enc)
            elif m["used"] != len(r["z"]):
                res.disagree("normals consumed: model %d impl %d" % (m["used"], len(r["z"])), enc)
        elif kind == "pdf":
            if "err" in o:
                res.disagree("model error %s" % o["err"], enc)
                continue
            m = o["ok"]
            mc = unfl(m["cdf"])
            if len(mc) != len(r["cdf"]) or not all(close(a, b, TOL) for a, b in zip(mc, r["cdf"])):
                res.disagree("cdf array differs: model %r impl %r" % (mc[:5], r["cdf"][:5]), enc)
                continue
            ps, xs = pdf_probe_points(c)
            impl_inv = list(r["inv"]) + list(r.get("draws", r["u"]))
            allp = ps + list(r["u"])
            for q, a, b in zip(allp, m["inv"], impl_inv):
                if isinstance(a, str) or isinstance(b, str):
                    if (a if isinstance(a, str) else "value") != (b if isinstance(b, str) else "value") and abs(q - 1.0) > 1e-12:
                        res.disagree("inverse CDF at %r: model %s impl %s" % (q, a, b), enc)
                        break
                elif not close(b2f(a), b, TOL_INV, atol=1e-12) and (c["kind"] == "dyadic" or all(abs(q - k) > 1e-12 for k in r["cdf"])):
                    res.disagree("inverse CDF at %r: model %r impl %r" % (q, b2f(a), b), enc)
                    break
            for x, a, b in zip(xs, m["fun"], r["fun"]):
                if isinstance(a, str) or isinstance(b, str):
                    if (a if isinstance(a, str) else "value") != (b if isinstance(b, str) else "value"):
                        res.disagree("CDF at %r: model %s impl %s" % (x, a, b), enc)
                        break
                elif not close(b2f(a), b, TOL_INV):
                    res.disagree("CDF at %r: model %r impl %r" % (x, b2f(a), b), enc)
                    break
        elif kind == "los":
            if "err" in o:
                res.disagree("model error %s" % o["err"], enc)
                continue
            m = o["ok"]
            if "bool" in r and m["bool"] != r["bool"]:
                res.disagree("draw_bool: model %r impl %r" % (m["bool"], r["bool"]), enc)
            if "err" in r:
                if not all(isinstance(a, str) and a == r["err"] for a in m["draws"]):
                    res.disagree("draw_los raised %s, model %r" % (r["err"], m["draws"][:2]), enc)
            else:
                for a, b in zip(m["draws"], r["draws"]):
                    if isinstance(a, str) or not close(b2f(a), b, 1e-10, atol=1e-12):
                        res.disagree("draw_los value: model %r impl %r" % (a if isinstance(a, str) else b2f(a), b), enc)
                        break
        elif kind == "bounds":
            if "err" in o or "err" in r:
                if o.get("err") != r.get("err"):
                    res.disagree("param_bounds_interpol outcome: model %s impl %s" % (o.get("err"), r.get("err")), enc)
                continue
            mn = {k: b2f(v) for k, v in o["ok"]["min"]}
            mx = {k: b2f(v) for k, v in o["ok"]["max"]}
            if mn != r["min"] or mx != r["max"]:
                res.disagree("param_bounds_interpol: model %r/%r impl %r/%r" % (mn, mx, r["min"], r["max"]), enc)


def replay(ctx, data):
    sys.setrecursionlimit(1000)
    c = data["input"]
    fails, r, w = evaluate(c)
    want = data.get("signature")
    hit = [f for f in fails if f[0] == want] if want else fails
    other = [f[0] for f in fails if f[0] != want]
    msg = "oracle on the implementation: %s" % ([f[1] for f in hit] or "holds for signature %s" % want)
    if other and not hit:
        msg += " (other signatures on this input: %s)" % other
    return bool(hit), msg


LEVEL_TEXT = ("Lean 4 theorems over R for the executable model of the draws (any stream, any recursion fuel, any "
              "configuration): every value returned by draw_anisotropy / draw_lens lies in the range of its grid axis "
              "(ranges = min/max of the axis, proved for axes of any length); a population mean outside the range yields "
              "ValueError and never a value; a returned value is post(mean + scale*z) of a stream element z with scale = "
              "sigma, or sigma*mean for GAUSSIAN_SCALED (re-sampling, never a bound), produced by the first attempt no "
              "draw of which was rejected; the law of such a rejection sampler with n attempts is P(A and R)*(1-(1-P(R))^n)/P(R) "
              "and tends to the truncated law P(A and R)/P(R); the tabulated-PDF CDF has len+1 nodes, starts at 0, ends at 1, "
              "is monotone, its inverse lands in a bin of positive probability inside the bin range and CDF(inverse(p)) = p; "
              "draw_bool is False exactly when draw_los is constant in its random input.  Non-termination for zero "
              "acceptance is proved as a theorem (F9).  The model is tied to the code by replaying the recorded stream of "
              "standard normals / uniforms of every generated call through the same definitions at Float; the property "
              "statement is evaluated on the real functions for every case")
LEVEL_NOTE = ("partial: 'follows the law' for numpy's/scipy's generators is validated by KS / chi^2 spot checks only; "
              "termination of the re-draw is not provable (false on the unchanged tree: RecursionError, F9); integer-typed "
              "bin edges (F7) are outside the real-valued model and are caught by the oracle; IEEE rounding outside the "
              "theorems; trusted: Lean kernel + Mathlib, hand model validated by correspondence, np.random wrapper")
TECHNIQUE = ("Lean 4 proof (induction over fuel / streams / bin lists, ordered-field arithmetic, geometric series) + "
             "model/implementation correspondence on recorded random streams + statistical spot checks")
