/-
  Soundness of the slot-view normalisation and generic theorems about slot lists.
  (core Lean + a few Mathlib list lemmas; carrier-generic, laws of the carrier enter as hypotheses)
-/
import HierArc.Model.Ladder
import Mathlib.Data.List.Basic
import Mathlib.Data.List.Nodup

namespace HierArc.Ladder
open HierArc
variable {α : Type}

/-! ### guards -/
theorem holds_append (c : Cfg α) (g1 g2 : Guard) :
    holds c (g1 ++ g2) = (holds c g1 && holds c g2) := by simp [holds, List.all_append]

theorem holds_snoc (c : Cfg α) (g : Guard) (cd : Cond) (b : Bool) :
    holds c (g ++ [(cd, b)]) = (holds c g && (evalCond c cd == b)) := by
  simp [holds]

theorem holds_snoc2 (c : Cfg α) (g : Guard) (c1 c2 : Cond) (b1 b2 : Bool) :
    holds c (g ++ [(c1, b1), (c2, b2)]) = (holds c g && (evalCond c c1 == b1) && (evalCond c c2 == b2)) := by
  simp [holds, Bool.and_assoc]

theorem exclusive_sound (c : Cfg α) (g1 g2 : Guard) (h : exclusive g1 g2 = true)
    (h1 : holds c g1 = true) (h2 : holds c g2 = true) : False := by
  simp only [exclusive, List.any_eq_true, List.contains_iff_mem] at h
  obtain ⟨⟨cd, b⟩, hm1, hm2⟩ := h
  simp only [holds, List.all_eq_true] at h1 h2
  have e1 := h1 _ hm1
  have e2 := h2 _ hm2
  simp only [beq_iff_eq] at e1 e2
  cases b <;> simp_all

theorem holds_erase_numPos (c : Cfg α) (g : Guard) (n : String) (hn : 0 < c.num n) :
    holds c (g.erase (.numPos n, true)) = holds c g := by
  induction g with
  | nil => rfl
  | cons p t ih =>
    by_cases hp : p = (.numPos n, true)
    · subst hp
      simp [List.erase_cons_head, holds, evalCond, hn]
    · have : (p == (Cond.numPos n, true)) = false := by simpa using hp
      rw [List.erase_cons_tail (by simpa using hp)]
      simp only [holds, List.all_cons] at ih ⊢
      rw [ih]

/-! ### range helpers -/
theorem rangeActs_eq (kT : String) (j n : Nat) :
    (rangeActs kT j n : List (CA α)) = actsOf ((rangeSlots kT j n).map CItem.free) := by
  induction n generalizing j with
  | zero => rfl
  | succ n ih => simp [rangeActs, rangeSlots, actsOf, CItem.acts, ih]

theorem rangeReads_eq (kT : String) (j n : Nat) :
    rangeReads kT j n = readsOf (rangeSlots kT j n) := by
  induction n generalizing j with
  | zero => rfl
  | succ n ih => simp [rangeReads, rangeSlots, readsOf, Tr.inv, ih]

theorem rangeSlots_zero (kT : String) (j : Nat) : rangeSlots kT j 0 = [] := rfl

/-! ### soundness of `normalizeA` -/
theorem actsOf_append (l1 l2 : List (CItem α)) : actsOf (l1 ++ l2) = actsOf l1 ++ actsOf l2 := by
  simp [actsOf]

theorem itemsA_cons (c : Cfg α) (e : AEntry) (es : List AEntry) :
    itemsA c (e :: es) = e.items c ++ itemsA c es := by simp [itemsA]

theorem splitLast_eq {g : Guard} {r : Guard} {cd : Cond} {b : Bool}
    (h : splitLast g = some (r, cd, b)) : g = r ++ [(cd, b)] := by
  unfold splitLast at h
  split at h
  · simp at h
  · rename_i c' b' r' heq
    simp only [Option.some.injEq, Prod.mk.injEq] at h
    obtain ⟨rfl, rfl, rfl⟩ := h
    have := congrArg List.reverse heq
    simpa using this

theorem normalizeA_sound (c : Cfg α) (P : List ALeaf) (E : List AEntry)
    (h : normalizeA P = some E) : concA c P = actsOf (itemsA c E) := by
  fun_induction normalizeA P generalizing E with
  | case1 => simp_all [concA, itemsA, actsOf]
  | case2 g1 k1 g2 k2 g3 rest g cd hs hc ih =>
    simp only [Option.map_eq_some_iff] at h
    obtain ⟨r, hr, rfl⟩ := h
    obtain ⟨rfl, rfl, rfl, rfl⟩ := hc
    simp only [concA, itemsA_cons, actsOf_append, ih r hr, AEntry.items, Sig.slots, holds_snoc,
      AKind.acts, Sig.tr]
    by_cases hg : holds c g = true <;> by_cases he : evalCond c cd = true <;>
      simp [hg, he, actsOf, CItem.acts]
  | case3 => simp_all
  | case4 => simp_all
  | case5 k g1 rest ih =>
    simp only [Option.map_eq_some_iff, if_true] at h
    obtain ⟨r, hr, rfl⟩ := h
    simp only [concA, itemsA_cons, actsOf_append, ih r hr, AEntry.items, Sig.slots, AKind.acts, Sig.tr]
    by_cases hg : holds c g1 = true <;> simp [hg, actsOf, CItem.acts]
  | case6 => simp_all
  | case7 g k rest ih =>
    simp only [Option.map_eq_some_iff] at h
    obtain ⟨r, hr, rfl⟩ := h
    simp only [concA, itemsA_cons, actsOf_append, ih r hr, AEntry.items, AKind.acts, lookupVal]
    by_cases hg : holds c g = true <;> simp [hg, actsOf, CItem.acts]
    cases Dict.get? c.fixed k <;> rfl
  | case8 g k a rest ih =>
    simp only [Option.map_eq_some_iff] at h
    obtain ⟨r, hr, rfl⟩ := h
    simp only [concA, itemsA_cons, actsOf_append, ih r hr, AEntry.items, AKind.acts, lookupVal]
    by_cases hg : holds c g = true <;> simp [hg, actsOf, CItem.acts]
    cases Dict.get? c.consts a <;> rfl
  | case9 g kT n rest ih =>
    simp only [Option.map_eq_some_iff] at h
    obtain ⟨r, hr, rfl⟩ := h
    simp only [concA, itemsA_cons, actsOf_append, ih r hr, AEntry.items, AKind.acts, Sig.slots]
    congr 1
    by_cases hn : 0 < c.num n
    · rw [holds_erase_numPos c g n hn]
      by_cases hg : holds c g = true <;> simp [hg, rangeActs_eq, actsOf]
    · have h0 : c.num n = 0 := by omega
      simp [h0, rangeActs, rangeSlots, actsOf]
  | case10 => simp_all

/-! ### soundness of `normalizeK` -/
theorem layout_cons (c : Cfg α) (s : Sig) (ss : List Sig) :
    layout c (s :: ss) = s.slots c ++ layout c ss := by simp [layout]

theorem readsOf_append (l1 l2 : List CSlot) : readsOf (l1 ++ l2) = readsOf l1 ++ readsOf l2 := by
  simp [readsOf]

theorem normalizeK_sound (c : Cfg α) (P : List KLeaf) (S : List Sig)
    (h : normalizeK P = some S) : concK c P = readsOf (layout c S) := by
  fun_induction normalizeK P generalizing S with
  | case1 => simp_all [concK, layout, readsOf]
  | case2 g1 k1 g2 k2 rest g cd hs hc ih =>
    simp only [Option.map_eq_some_iff] at h
    obtain ⟨r, hr, rfl⟩ := h
    obtain ⟨rfl, rfl, rfl⟩ := hc
    simp only [concK, layout_cons, readsOf_append, ih r hr, Sig.slots, holds_snoc, KKind.acts, Sig.tr]
    by_cases hg : holds c g = true <;> by_cases he : evalCond c cd = true <;>
      simp [hg, he, readsOf, Tr.inv]
  | case3 => simp_all
  | case4 => simp_all
  | case5 g k rest ih =>
    simp only [Option.map_eq_some_iff] at h
    obtain ⟨r, hr, rfl⟩ := h
    simp only [concK, layout_cons, readsOf_append, ih r hr, Sig.slots, KKind.acts, Sig.tr]
    by_cases hg : holds c g = true <;> simp [hg, readsOf, Tr.inv]
  | case6 g kT n rest ih =>
    simp only [Option.map_eq_some_iff] at h
    obtain ⟨r, hr, rfl⟩ := h
    simp only [concK, layout_cons, readsOf_append, ih r hr, Sig.slots, KKind.acts]
    congr 1
    by_cases hn : 0 < c.num n
    · rw [holds_erase_numPos c g n hn]
      by_cases hg : holds c g = true <;> simp [hg, rangeReads_eq, readsOf]
    · have h0 : c.num n = 0 := by omega
      simp [h0, rangeReads, rangeSlots, readsOf]
  | case7 => simp_all

/-! ### soundness of `normalizeN` -/
theorem evalCond_latex (c : Cfg α) : evalCond c .latex = c.latex := rfl

theorem namesOf_cons (c : Cfg α) (s : NSig) (ss : List NSig) :
    namesOf c (s :: ss) = s.names c ++ namesOf c ss := by simp [namesOf]

theorem normalizeN_sound (c : Cfg α) (P : List NLeaf) (N : List NSig)
    (h : normalizeN P = some N) : concN c P = namesOf c N := by
  fun_induction normalizeN P generalizing N with
  | case1 => simp_all [concN, namesOf]
  | case2 g1 a g2 b rest g hs hc ih =>
    simp only [Option.map_eq_some_iff] at h
    obtain ⟨r, hr, rfl⟩ := h
    obtain ⟨rfl, rfl⟩ := hc
    simp only [concN, namesOf_cons, ih r hr, NSig.names, holds_snoc, NKind.acts, evalCond_latex]
    by_cases hg : holds c g = true <;> cases hl : c.latex <;> simp [hg, hl]
  | case3 => simp_all
  | case4 g1 a g2 b gl cd hcl hs g3 p rest g hs2 hc ih =>
    simp only [Option.map_eq_some_iff] at h
    obtain ⟨r, hr, rfl⟩ := h
    obtain ⟨rfl, rfl, rfl⟩ := hc
    simp only [concN, namesOf_cons, ih r hr, NSig.names, holds_snoc, holds_snoc2, NKind.acts, evalCond_latex]
    by_cases hg : holds c g = true <;> cases hl : c.latex <;> by_cases he : evalCond c cd = true <;>
      simp [hg, hl, he]
  | case5 => simp_all
  | case6 => simp_all
  | case7 => simp_all
  | case8 => simp_all
  | case9 g1 fa n1 g2 fp n2 rest g hs hc ih =>
    simp only [Option.map_eq_some_iff] at h
    obtain ⟨r, hr, rfl⟩ := h
    obtain ⟨rfl, rfl, rfl⟩ := hc
    simp only [concN, namesOf_cons, ih r hr, NSig.names, holds_snoc, NKind.acts, evalCond_latex]
    by_cases hg : holds c g = true <;> cases hl : c.latex <;> simp [hg, hl]
  | case10 => simp_all
  | case11 => simp_all
  | case12 => simp_all

/-! ### flattened dictionaries -/
theorem KDict.get?_set_self (d : KDict α) (k : Key) (v : α) :
    KDict.get? (KDict.set d k v) k = some v := by
  induction d with
  | nil => simp [KDict.set, KDict.get?]
  | cons p t ih =>
    obtain ⟨k', v'⟩ := p
    by_cases h : k' = k <;> simp [KDict.set, KDict.get?, h, ih]

theorem KDict.get?_set_other (d : KDict α) (k k' : Key) (v : α) (h : k ≠ k') :
    KDict.get? (KDict.set d k v) k' = KDict.get? d k' := by
  induction d with
  | nil => simp [KDict.set, KDict.get?, h]
  | cons p t ih =>
    obtain ⟨k0, v0⟩ := p
    by_cases h0 : k0 = k
    · subst h0; simp [KDict.set, KDict.get?, h]
    · by_cases h1 : k0 = k'
      · subst h1; simp [KDict.set, KDict.get?, h0]
      · simp [KDict.set, KDict.get?, h0, h1, ih]

/-! ### execution of a resolved item list -/
def CItem.key? : CItem α → Option Key
  | .free s => some s.key
  | .val k _ => some k
  | .fail => none

def keysOf (l : List (CItem α)) : List Key := l.filterMap CItem.key?

def NoFail (l : List (CItem α)) : Prop := ∀ x ∈ l, x.key? ≠ none

theorem frees_append (l1 l2 : List (CItem α)) : frees (l1 ++ l2) = frees l1 ++ frees l2 := by
  induction l1 with
  | nil => rfl
  | cons x t ih => cases x <;> simp [frees, ih]

theorem frees_map_free (l : List CSlot) : frees (l.map (CItem.free (α := α))) = l := by
  induction l with
  | nil => rfl
  | cons x t ih => simp [frees, ih]

/-- Executing the statements of a resolved item list: never fails when enough arguments are left,
    advances the running index by exactly the number of free slots, leaves other keys alone, and (keys
    distinct) stores `tr(args[i+j])` under the key of the j-th free slot and every fixed value under
    its key. -/
theorem execA_actsOf [Trans α] (items : List (CItem α)) (args : List α) (i : Nat) (d : KDict α)
    (hnf : NoFail items) (hlen : i + (frees items).length ≤ args.length) :
    ∃ d', execA (actsOf items) args i d = some (d', i + (frees items).length)
      ∧ (∀ k, k ∉ keysOf items → KDict.get? d' k = KDict.get? d k)
      ∧ ((keysOf items).Nodup →
          (∀ (j : Nat) (s : CSlot), (frees items)[j]? = some s →
              KDict.get? d' s.key = (args[i + j]?).map s.tr.app)
          ∧ (∀ k v, CItem.val k v ∈ items → KDict.get? d' k = some v)) := by
  induction items generalizing i d with
  | nil => exact ⟨d, by simp [actsOf, execA, frees], by simp, by simp [frees]⟩
  | cons x t ih =>
    have hnf' : NoFail t := fun y hy => hnf y (List.mem_cons_of_mem _ hy)
    cases x with
    | fail => exact absurd rfl (hnf _ (List.mem_cons_self ..))
    | free s =>
      have hi : i < args.length := by simp [frees] at hlen; omega
      obtain ⟨d', hex, hfr, hnd⟩ := ih (i + 1) (KDict.set d s.key (s.tr.app args[i]))
        hnf' (by simp [frees] at hlen ⊢; omega)
      refine ⟨d', ?_, ?_, ?_⟩
      · simp only [actsOf, List.flatMap_cons, CItem.acts, List.cons_append, List.nil_append, execA,
          List.getElem?_eq_getElem hi]
        simp only [actsOf] at hex
        rw [hex]; simp [frees]; omega
      · intro k hk
        simp only [keysOf, List.filterMap_cons, CItem.key?, List.mem_cons, not_or] at hk
        rw [hfr k (by simpa [keysOf] using hk.2), KDict.get?_set_other _ _ _ _ (Ne.symm hk.1)]
      · intro hdup
        simp only [keysOf, List.filterMap_cons, CItem.key?, List.nodup_cons] at hdup
        obtain ⟨hnotin, hdup'⟩ := hdup
        obtain ⟨hv, hf⟩ := hnd hdup'
        refine ⟨?_, ?_⟩
        · intro j s' hj
          cases j with
          | zero =>
            simp only [frees, List.getElem?_cons_zero, Option.some.injEq] at hj
            subst hj
            rw [hfr _ hnotin, KDict.get?_set_self]
            simp [List.getElem?_eq_getElem hi]
          | succ j =>
            simp only [frees, List.getElem?_cons_succ] at hj
            have := hv j s' hj
            rw [this]; congr 2; omega
        · intro k v hm
          simp only [List.mem_cons, reduceCtorEq, false_or] at hm
          exact hf k v hm
    | val k v =>
      obtain ⟨d', hex, hfr, hnd⟩ := ih i (KDict.set d k v) hnf' (by simpa [frees] using hlen)
      refine ⟨d', ?_, ?_, ?_⟩
      · simp only [actsOf, List.flatMap_cons, CItem.acts, List.cons_append, List.nil_append, execA]
        simp only [actsOf] at hex
        rw [hex]; simp [frees]
      · intro k' hk
        simp only [keysOf, List.filterMap_cons, CItem.key?, List.mem_cons, not_or] at hk
        rw [hfr k' (by simpa [keysOf] using hk.2), KDict.get?_set_other _ _ _ _ (Ne.symm hk.1)]
      · intro hdup
        simp only [keysOf, List.filterMap_cons, CItem.key?, List.nodup_cons] at hdup
        obtain ⟨hnotin, hdup'⟩ := hdup
        obtain ⟨hv, hf⟩ := hnd hdup'
        refine ⟨?_, ?_⟩
        · intro j s' hj
          simp only [frees] at hj
          exact hv j s' hj
        · intro k' v' hm
          simp only [List.mem_cons, CItem.val.injEq] at hm
          rcases hm with ⟨rfl, rfl⟩ | hm
          · rw [hfr _ hnotin, KDict.get?_set_self]
          · exact hf k' v' hm

/-- reading the slots back -/
theorem execK_of_lookup [Trans α] (fs : List CSlot) (vals : List α) (d : KDict α)
    (hl : fs.length = vals.length)
    (hget : ∀ (j : Nat) (s : CSlot), fs[j]? = some s → KDict.get? d s.key = (vals[j]?).map s.tr.app)
    (hinv : ∀ s ∈ fs, ∀ x : α, s.tr.inv.app (s.tr.app x) = x) :
    execK (readsOf fs) d = some vals := by
  induction fs generalizing vals with
  | nil => cases vals <;> simp_all [readsOf, execK]
  | cons s t ih =>
    cases vals with
    | nil => simp at hl
    | cons v vs =>
      have h0 := hget 0 s (by simp)
      simp only [List.getElem?_cons_zero, Option.map_some] at h0
      have ht := ih vs (by simpa using hl)
        (fun j s' hj => by simpa using hget (j + 1) s' (by simpa using hj))
        (fun s' hs' => hinv s' (List.mem_cons_of_mem _ hs'))
      simp only [readsOf, List.map_cons, execK, h0]
      simp only [readsOf] at ht
      rw [ht]
      simp [hinv s (List.mem_cons_self ..)]

/-! ### structure of the slot view -/
theorem frees_itemsA (c : Cfg α) (es : List AEntry) :
    frees (itemsA c es) = layout c (sigsOf es) := by
  induction es with
  | nil => rfl
  | cons e t ih =>
    rw [itemsA_cons, frees_append, ih]
    cases e with
    | slot s => simp [AEntry.items, sigsOf, layout_cons, frees_map_free]
    | fixed g k =>
      simp only [AEntry.items, sigsOf]
      split
      · cases Dict.get? c.fixed k <;> simp [frees]
      · simp [frees]
    | const g k a =>
      simp only [AEntry.items, sigsOf]
      split
      · cases Dict.get? c.consts a <;> simp [frees]
      · simp [frees]

theorem keysOf_append (l1 l2 : List (CItem α)) : keysOf (l1 ++ l2) = keysOf l1 ++ keysOf l2 := by
  simp [keysOf]

theorem keysOf_map_free (l : List CSlot) :
    keysOf (l.map (CItem.free (α := α))) = l.map (·.key) := by
  induction l with
  | nil => rfl
  | cons x t ih => simp_all [keysOf, CItem.key?]

theorem rangeSlots_keys (kT : String) (j n : Nat) :
    (rangeSlots kT j n).map (·.key) = (List.range' j n).map (fun x => ((kT, some x) : Key)) := by
  induction n generalizing j with
  | zero => rfl
  | succ n ih => simp [rangeSlots, List.range'_succ, ih]

theorem rangeSlots_nodup (kT : String) (j n : Nat) : ((rangeSlots kT j n).map (·.key)).Nodup := by
  rw [rangeSlots_keys]
  exact (List.nodup_range' (step := 1) (by omega)).map (fun a b h => by simpa using h)

/-- every key written by an entry carries the entry's key name, and the entry is then active -/
theorem keys_of_entry (c : Cfg α) (e : AEntry) (k : Key) (hk : k ∈ keysOf (e.items c)) :
    k.1 = e.key ∧ holds c e.guard = true := by
  cases e with
  | slot s =>
    simp only [AEntry.items, keysOf_map_free, Sig.slots] at hk
    split at hk
    · rename_i hg
      refine ⟨?_, hg⟩
      cases hr : s.range with
      | none => simp [hr] at hk; simp [hk, AEntry.key]
      | some n =>
        simp only [hr, rangeSlots_keys, List.mem_map] at hk
        obtain ⟨x, _, rfl⟩ := hk
        rfl
    · simp at hk
  | fixed g k0 =>
    simp only [AEntry.items] at hk
    split at hk
    · rename_i hg
      cases h : Dict.get? c.fixed k0 <;> simp [h, keysOf, CItem.key?] at hk
      exact ⟨by simp [hk, AEntry.key], hg⟩
    · simp [keysOf] at hk
  | const g k0 a =>
    simp only [AEntry.items] at hk
    split at hk
    · rename_i hg
      cases h : Dict.get? c.consts a <;> simp [h, keysOf, CItem.key?] at hk
      exact ⟨by simp [hk, AEntry.key], hg⟩
    · simp [keysOf] at hk

theorem entry_keys_nodup (c : Cfg α) (e : AEntry) : (keysOf (e.items c)).Nodup := by
  cases e with
  | slot s =>
    simp only [AEntry.items, keysOf_map_free, Sig.slots]
    split
    · cases hr : s.range with
      | none => simp
      | some n => simpa using rangeSlots_nodup s.key 0 (c.num n)
    · simp
  | fixed g k0 =>
    simp only [AEntry.items]
    split
    · cases Dict.get? c.fixed k0 <;> simp [keysOf, CItem.key?, List.filterMap]
    · simp [keysOf]
  | const g k0 a =>
    simp only [AEntry.items]
    split
    · cases Dict.get? c.consts a <;> simp [keysOf, CItem.key?, List.filterMap]
    · simp [keysOf]

theorem keys_nodup_of_exclusive (c : Cfg α) (es : List AEntry) (h : keysExclusive es = true) :
    (keysOf (itemsA c es)).Nodup := by
  induction es with
  | nil => simp [itemsA, keysOf]
  | cons e t ih =>
    simp only [keysExclusive, Bool.and_eq_true, List.all_eq_true] at h
    rw [itemsA_cons, keysOf_append, List.nodup_append]
    refine ⟨entry_keys_nodup c e, ih h.2, ?_⟩
    intro k hk k' hk' heq
    subst heq
    obtain ⟨hn, hg⟩ := keys_of_entry c e k hk
    -- k' comes from some entry e' of t
    simp only [itemsA, keysOf, List.mem_filterMap, List.mem_flatMap] at hk'
    obtain ⟨it, ⟨e', he', hit⟩, hkey⟩ := hk'
    have hk2 : k ∈ keysOf (e'.items c) := by
      simp only [keysOf, List.mem_filterMap]; exact ⟨it, hit, hkey⟩
    obtain ⟨hn', hg'⟩ := keys_of_entry c e' k hk2
    have := h.1 e' he'
    simp only [Bool.or_eq_true, decide_eq_true_eq, ne_eq] at this
    rcases this with hne | hex
    · exact hne (hn.symm.trans hn')
    · exact exclusive_sound c _ _ hex hg hg'

/-- constants read by `setConst` entries are present in the configuration -/
def ConstOK (c : Cfg α) : List AEntry → Prop
  | [] => True
  | .const _ _ a :: t => (Dict.get? c.consts a).isSome ∧ ConstOK c t
  | _ :: t => ConstOK c t

theorem noFail_itemsA (c : Cfg α) (es : List AEntry) (hf : fixedGuarded es = true)
    (hc : ConstOK c es) : NoFail (itemsA c es) := by
  induction es with
  | nil => intro x hx; simp [itemsA] at hx
  | cons e t ih =>
    intro x hx
    rw [itemsA_cons, List.mem_append] at hx
    cases e with
    | slot s =>
      rcases hx with hx | hx
      · simp only [AEntry.items, List.mem_map] at hx
        obtain ⟨y, _, rfl⟩ := hx
        simp [CItem.key?]
      · exact ih (by simpa [fixedGuarded] using hf) (by simpa [ConstOK] using hc) x hx
    | fixed g k =>
      simp only [fixedGuarded, Bool.and_eq_true, List.contains_iff_mem] at hf
      rcases hx with hx | hx
      · simp only [AEntry.items] at hx
        split at hx
        · rename_i hg
          simp only [holds, List.all_eq_true] at hg
          have := hg _ hf.1
          simp only [evalCond, Dict.has, beq_iff_eq] at this
          obtain ⟨v, hv⟩ := Option.isSome_iff_exists.mp this
          simp [hv] at hx; subst hx; simp [CItem.key?]
        · simp at hx
      · exact ih hf.2 (by simpa [ConstOK] using hc) x hx
    | const g k a =>
      simp only [ConstOK] at hc
      rcases hx with hx | hx
      · simp only [AEntry.items] at hx
        split at hx
        · obtain ⟨v, hv⟩ := Option.isSome_iff_exists.mp hc.1
          simp [hv] at hx; subst hx; simp [CItem.key?]
        · simp at hx
      · exact ih (by simpa [fixedGuarded] using hf) hc.2 x hx

theorem rangeSlots_length (kT : String) (j n : Nat) : (rangeSlots kT j n).length = n := by
  induction n generalizing j with
  | zero => rfl
  | succ n ih => simp [rangeSlots, ih]

theorem rangeNames_length (f : String) (j n : Nat) : (rangeNames f j n).length = n := by
  induction n generalizing j with
  | zero => rfl
  | succ n ih => simp [rangeNames, ih]

/-- a slot signature and a name signature of the same shape produce equally many entries -/
theorem slots_names_length (c : Cfg α) (s : Sig) (n : NSig) (h : s.shape = n.shape) :
    (s.slots c).length = (n.names c).length := by
  simp only [Sig.shape, NSig.shape, Prod.mk.injEq] at h
  obtain ⟨hg, _, hr⟩ := h
  simp only [Sig.slots, NSig.names, hg, hr]
  split
  · cases n.range <;> simp [rangeSlots_length, rangeNames_length]
  · rfl

theorem layout_names_length (c : Cfg α) (ks : List Sig) (ns : List NSig)
    (h : ks.map Sig.shape = ns.map NSig.shape) :
    (layout c ks).length = (namesOf c ns).length := by
  induction ks generalizing ns with
  | nil => cases ns <;> simp_all [layout, namesOf]
  | cons s t ih =>
    cases ns with
    | nil => simp at h
    | cons n ns =>
      simp only [List.map_cons, List.cons.injEq] at h
      rw [layout_cons, namesOf_cons, List.length_append, List.length_append,
        slots_names_length c s n h.1, ih ns h.2]

/-- every resolved slot of a layout uses `id` or `pow10` (never `log10`), so `Tr.inv` undoes it -/
theorem layout_tr (c : Cfg α) (ks : List Sig) : ∀ s ∈ layout c ks, s.tr = .id ∨ s.tr = .pow10 := by
  intro s hs
  simp only [layout, List.mem_flatMap] at hs
  obtain ⟨sg, _, hm⟩ := hs
  simp only [Sig.slots] at hm
  split at hm
  · cases hr : sg.range with
    | none =>
      simp only [hr, List.mem_singleton] at hm
      subst hm
      simp only [Sig.tr]
      cases sg.log with
      | none => simp
      | some cd => by_cases he : evalCond c cd = true <;> simp [he]
    | some n =>
      simp only [hr] at hm
      have : ∀ j m, s ∈ rangeSlots sg.key j m → s.tr = .id := by
        intro j m
        induction m generalizing j with
        | zero => simp [rangeSlots]
        | succ m ih =>
          simp only [rangeSlots, List.mem_cons]
          rintro (rfl | h)
          · rfl
          · exact ih _ h
      exact Or.inl (this _ _ hm)
  · simp at hm

/-! ### one block instance -/

/-- number of vector slots an instance occupies -/
def slotCount (c : Cfg α) (b : RawBlock) : Nat := (concK c b.k2a).length

/-- every constant attribute read by `args2kwargs` is present in the configuration -/
def ConstsPresent (c : Cfg α) (b : RawBlock) : Prop :=
  ∀ l ∈ b.a2k, ∀ k a, l.kind = .setConst k a → (Dict.get? c.consts a).isSome

theorem normalizeA_consts (P : List ALeaf) (E : List AEntry) (h : normalizeA P = some E) :
    ∀ g k a, AEntry.const g k a ∈ E → (⟨g, .setConst k a⟩ : ALeaf) ∈ P := by
  fun_induction normalizeA P generalizing E with
  | case1 => simp_all
  | case2 g1 k1 g2 k2 g3 rest g cd hs hc ih =>
    simp only [Option.map_eq_some_iff] at h
    obtain ⟨r, hr, rfl⟩ := h
    intro g' k a hm
    simp only [List.mem_cons, reduceCtorEq, false_or] at hm
    have := ih r hr g' k a hm
    simp [this]
  | case3 => simp_all
  | case4 => simp_all
  | case5 k g1 rest ih =>
    simp only [Option.map_eq_some_iff] at h
    obtain ⟨r, hr, rfl⟩ := h
    intro g' k' a hm
    simp only [List.mem_cons, reduceCtorEq, false_or] at hm
    have := ih r hr g' k' a hm
    simp [this]
  | case6 => simp_all
  | case7 g k rest ih =>
    simp only [Option.map_eq_some_iff] at h
    obtain ⟨r, hr, rfl⟩ := h
    intro g' k' a hm
    simp only [List.mem_cons, reduceCtorEq, false_or] at hm
    have := ih r hr g' k' a hm
    simp [this]
  | case8 g k a rest ih =>
    simp only [Option.map_eq_some_iff] at h
    obtain ⟨r, hr, rfl⟩ := h
    intro g' k' a' hm
    simp only [List.mem_cons, AEntry.const.injEq] at hm
    rcases hm with ⟨rfl, rfl, rfl⟩ | hm
    · simp
    · have := ih r hr g' k' a' hm
      simp [this]
  | case9 g kT n rest ih =>
    simp only [Option.map_eq_some_iff] at h
    obtain ⟨r, hr, rfl⟩ := h
    intro g' k' a hm
    simp only [List.mem_cons, reduceCtorEq, false_or] at hm
    have := ih r hr g' k' a hm
    simp [this]
  | case10 => simp_all

theorem constOK_of_mem (c : Cfg α) (E : List AEntry)
    (h : ∀ g k a, AEntry.const g k a ∈ E → (Dict.get? c.consts a).isSome) : ConstOK c E := by
  induction E with
  | nil => trivial
  | cons e t ih =>
    have ht := ih (fun g k a hm => h g k a (List.mem_cons_of_mem _ hm))
    cases e with
    | slot s => exact ht
    | fixed g k => exact ht
    | const g k a => exact ⟨h g k a (List.mem_cons_self ..), ht⟩

/-- what the decidable obligation `RawBlock.wf` provides -/
theorem wf_unpack (b : RawBlock) (h : b.wf = true) :
    ∃ es ks ns, normalizeA b.a2k = some es ∧ normalizeK b.k2a = some ks ∧ normalizeN b.names = some ns
      ∧ sigsOf es = ks ∧ ks.map Sig.shape = ns.map NSig.shape ∧ keysExclusive es = true
      ∧ fixedGuarded es = true ∧ freeGuarded es = true := by
  unfold RawBlock.wf at h
  split at h
  · rename_i es ks ns hA hK hN
    simp only [Bool.and_eq_true, beq_iff_eq] at h
    exact ⟨es, ks, ns, hA, hK, hN, h.1.1.1.1, h.1.1.1.2, h.1.1.2, h.1.2, h.2⟩
  · simp at h

theorem take_drop_getElem? (args : List α) (i n j : Nat) (hj : j < n) :
    ((args.drop i).take n)[j]? = args[i + j]? := by
  simp [List.getElem?_take, hj, List.getElem?_drop]

/-- **one block**: `args2kwargs` consumes exactly `slotCount` entries starting at `i`, never fails,
    and `kwargs2args` on its result returns exactly those entries. -/
theorem block_roundtrip [Trans α] (hlog : ∀ x : α, Trans.log10 (Trans.pow10 x) = x)
    (b : RawBlock) (c : Cfg α) (hwf : b.wf = true) (hconst : ConstsPresent c b)
    (args : List α) (i : Nat) (hlen : i + slotCount c b ≤ args.length) :
    ∃ d, execA (concA c b.a2k) args i [] = some (d, i + slotCount c b)
      ∧ execK (concK c b.k2a) d = some ((args.drop i).take (slotCount c b)) := by
  obtain ⟨es, ks, ns, hA, hK, hN, hsig, hshape, hex, hfix, hfree⟩ := wf_unpack b hwf
  have hcount : slotCount c b = (frees (itemsA c es)).length := by
    simp [slotCount, normalizeK_sound c _ _ hK, frees_itemsA, hsig, readsOf]
  have hcok : ConstOK c es := constOK_of_mem c es (fun g k a hm =>
    hconst _ (normalizeA_consts _ _ hA g k a hm) k a rfl)
  obtain ⟨d, hex', _, hnd⟩ := execA_actsOf (itemsA c es) args i [] (noFail_itemsA c es hfix hcok)
    (by omega)
  obtain ⟨hv, _⟩ := hnd (keys_nodup_of_exclusive c es hex)
  refine ⟨d, by rw [normalizeA_sound c _ _ hA, hex', hcount], ?_⟩
  rw [normalizeK_sound c _ _ hK, ← hsig, ← frees_itemsA]
  apply execK_of_lookup
  · simp [hcount]; omega
  · intro j s hj
    rw [hv j s hj]
    have hjlt : j < (frees (itemsA c es)).length := by
      by_contra hcon
      rw [List.getElem?_eq_none (by omega)] at hj
      simp at hj
    rw [take_drop_getElem? _ _ _ _ (by omega)]
  · intro s hs x
    rw [frees_itemsA] at hs
    rcases layout_tr c _ s hs with h | h <;> simp [h, Tr.inv, Tr.app, hlog]

theorem block_names_count (b : RawBlock) (c : Cfg α) (hwf : b.wf = true) :
    (concN c b.names).length = slotCount c b := by
  obtain ⟨es, ks, ns, hA, hK, hN, hsig, hshape, hex, hfix, hfree⟩ := wf_unpack b hwf
  rw [normalizeN_sound c _ _ hN, slotCount, normalizeK_sound c _ _ hK,
    ← layout_names_length c ks ns hshape]
  simp [readsOf]

/-! ### the whole manager -/
def countAll : List (Inst α) → Nat
  | [] => 0
  | (b, c) :: t => slotCount c b + countAll t

theorem all_roundtrip [Trans α] (hlog : ∀ x : α, Trans.log10 (Trans.pow10 x) = x)
    (insts : List (Inst α)) (hwf : ∀ p ∈ insts, p.1.wf = true)
    (hconst : ∀ p ∈ insts, ConstsPresent p.2 p.1)
    (args : List α) (i : Nat) (hlen : i + countAll insts ≤ args.length) :
    ∃ ds, a2kAll insts args i = some (ds, i + countAll insts)
      ∧ k2aAll insts ds = some ((args.drop i).take (countAll insts)) := by
  induction insts generalizing i with
  | nil => exact ⟨[], by simp [a2kAll, countAll], by simp [k2aAll, countAll]⟩
  | cons p t ih =>
    obtain ⟨b, c⟩ := p
    simp only [countAll] at hlen ⊢
    obtain ⟨d, hA, hK⟩ := block_roundtrip hlog b c (hwf _ (List.mem_cons_self ..))
      (hconst _ (List.mem_cons_self ..)) args i (by omega)
    obtain ⟨ds, hAs, hKs⟩ := ih (fun p hp => hwf p (List.mem_cons_of_mem _ hp))
      (fun p hp => hconst p (List.mem_cons_of_mem _ hp)) (i + slotCount c b) (by omega)
    refine ⟨d :: ds, ?_, ?_⟩
    · simp only [a2kAll, hA, hAs]; congr 2; omega
    · simp only [k2aAll, hK, hKs]
      congr 1
      rw [List.take_add, List.drop_drop]

theorem all_names_count (insts : List (Inst α)) (hwf : ∀ p ∈ insts, p.1.wf = true) :
    (namesAll insts).length = countAll insts := by
  induction insts with
  | nil => rfl
  | cons p t ih =>
    obtain ⟨b, c⟩ := p
    simp only [namesAll, countAll, List.length_append,
      block_names_count b c (hwf _ (List.mem_cons_self ..)),
      ih (fun p hp => hwf p (List.mem_cons_of_mem _ hp))]

/-! ### fixed parameters, log-scatter, element-wise meaning -/

theorem execK_eq_mapM [Trans α] (fs : List CSlot) (d : KDict α) :
    execK (readsOf fs) d = fs.mapM (fun s => (KDict.get? d s.key).map s.tr.inv.app) := by
  induction fs with
  | nil => rfl
  | cons s t ih =>
    simp only [readsOf, List.map_cons, execK, List.mapM_cons] at ih ⊢
    rw [ih]
    cases KDict.get? d s.key <;>
      cases List.mapM (m := Option) (fun s => (KDict.get? d s.key).map s.tr.inv.app) t <;> rfl

/-- a fixed parameter never occupies a vector slot -/
theorem fixed_excluded (c : Cfg α) (es : List AEntry) (hfree : freeGuarded es = true)
    (k : String) (hk : Dict.has c.fixed k = true) :
    ∀ s ∈ layout c (sigsOf es), s.key ≠ (k, none) := by
  induction es with
  | nil => simp [sigsOf, layout]
  | cons e t ih =>
    cases e with
    | slot sg =>
      simp only [freeGuarded, Bool.and_eq_true, Bool.or_eq_true, List.contains_iff_mem] at hfree
      intro s hs
      simp only [sigsOf, layout_cons, List.mem_append] at hs
      rcases hs with hs | hs
      · simp only [Sig.slots] at hs
        split at hs
        · rename_i hg
          cases hr : sg.range with
          | none =>
            simp only [hr, List.mem_singleton] at hs
            subst hs
            rcases hfree.1 with h | h
            · simp [hr] at h
            · simp only [holds, List.all_eq_true] at hg
              have := hg _ h
              simp only [evalCond, beq_iff_eq] at this
              intro heq
              simp only [Prod.mk.injEq, and_true] at heq
              subst heq
              simp [hk] at this
          | some n =>
            simp only [hr] at hs
            have : ∀ j m, s ∈ rangeSlots sg.key j m → s.key.2 ≠ none := by
              intro j m
              induction m generalizing j with
              | zero => simp [rangeSlots]
              | succ m ihm =>
                simp only [rangeSlots, List.mem_cons]
                rintro (rfl | h)
                · simp
                · exact ihm _ h
            intro heq
            exact this _ _ hs (by simp [heq])
        · simp at hs
      · exact ih hfree.2 s hs
    | fixed g k0 => exact ih (by simpa [freeGuarded] using hfree)
    | const g k0 a => exact ih (by simpa [freeGuarded] using hfree)

theorem normalizeA_fixed (P : List ALeaf) (E : List AEntry) (h : normalizeA P = some E) :
    ∀ g k, (⟨g, .setFixed k⟩ : ALeaf) ∈ P → AEntry.fixed g k ∈ E := by
  fun_induction normalizeA P generalizing E with
  | case1 => simp_all
  | case2 g1 k1 g2 k2 g3 rest g cd hs hc ih =>
    simp only [Option.map_eq_some_iff] at h
    obtain ⟨r, hr, rfl⟩ := h
    intro g' k hm
    simp only [List.mem_cons, ALeaf.mk.injEq, reduceCtorEq, and_false, false_or] at hm
    simp [ih r hr g' k hm]
  | case3 => simp_all
  | case4 => simp_all
  | case5 k g1 rest ih =>
    simp only [Option.map_eq_some_iff] at h
    obtain ⟨r, hr, rfl⟩ := h
    intro g' k' hm
    simp only [List.mem_cons, ALeaf.mk.injEq, reduceCtorEq, and_false, false_or] at hm
    simp [ih r hr g' k' hm]
  | case6 => simp_all
  | case7 g k rest ih =>
    simp only [Option.map_eq_some_iff] at h
    obtain ⟨r, hr, rfl⟩ := h
    intro g' k' hm
    simp only [List.mem_cons, ALeaf.mk.injEq, AKind.setFixed.injEq] at hm
    rcases hm with ⟨rfl, rfl⟩ | hm
    · simp
    · simp [ih r hr g' k' hm]
  | case8 g k a rest ih =>
    simp only [Option.map_eq_some_iff] at h
    obtain ⟨r, hr, rfl⟩ := h
    intro g' k' hm
    simp only [List.mem_cons, ALeaf.mk.injEq, reduceCtorEq, and_false, false_or] at hm
    simp [ih r hr g' k' hm]
  | case9 g kT n rest ih =>
    simp only [Option.map_eq_some_iff] at h
    obtain ⟨r, hr, rfl⟩ := h
    intro g' k' hm
    simp only [List.mem_cons, ALeaf.mk.injEq, reduceCtorEq, and_false, false_or] at hm
    simp [ih r hr g' k' hm]
  | case10 => simp_all

/-- **element-wise meaning of one block** (the vector layout `L` of the instance):
    `args2kwargs` stores `tr_j(args[i+j])` under the key of the j-th slot of `L`, stores every fixed value
    under its key, and `kwargs2args` of *any* dictionary (the result, or the lower/upper bound
    dictionaries) is the map over the same `L` reading `tr_j⁻¹(dict[key_j])`; the name list has one
    entry per slot of `L`. -/
theorem block_elementwise [Trans α] (b : RawBlock) (c : Cfg α) (hwf : b.wf = true)
    (hconst : ConstsPresent c b) (args : List α) (i : Nat) (hlen : i + slotCount c b ≤ args.length) :
    ∃ (L : List CSlot) (d : KDict α),
      L.length = slotCount c b
      ∧ execA (concA c b.a2k) args i [] = some (d, i + slotCount c b)
      ∧ (∀ (j : Nat) (s : CSlot), L[j]? = some s → KDict.get? d s.key = (args[i + j]?).map s.tr.app)
      ∧ (∀ g k, (⟨g, .setFixed k⟩ : ALeaf) ∈ b.a2k → holds c g = true →
            KDict.get? d (k, none) = Dict.get? c.fixed k ∧ (Dict.get? c.fixed k).isSome)
      ∧ (∀ d' : KDict α, execK (concK c b.k2a) d' =
            L.mapM (fun s => (KDict.get? d' s.key).map s.tr.inv.app))
      ∧ (∀ k : String, Dict.has c.fixed k = true → ∀ s ∈ L, s.key ≠ (k, none))
      ∧ (concN c b.names).length = L.length := by
  obtain ⟨es, ks, ns, hA, hK, hN, hsig, hshape, hex, hfix, hfree⟩ := wf_unpack b hwf
  have hcount : slotCount c b = (frees (itemsA c es)).length := by
    simp [slotCount, normalizeK_sound c _ _ hK, frees_itemsA, hsig, readsOf]
  have hcok : ConstOK c es := constOK_of_mem c es (fun g k a hm =>
    hconst _ (normalizeA_consts _ _ hA g k a hm) k a rfl)
  have hnofail := noFail_itemsA c es hfix hcok
  obtain ⟨d, hex', _, hnd⟩ := execA_actsOf (itemsA c es) args i [] hnofail (by omega)
  obtain ⟨hv, hfx⟩ := hnd (keys_nodup_of_exclusive c es hex)
  refine ⟨frees (itemsA c es), d, hcount.symm, by rw [normalizeA_sound c _ _ hA, hex', hcount],
    hv, ?_, ?_, ?_, ?_⟩
  · intro g k hm hg
    have hmem := normalizeA_fixed _ _ hA g k hm
    -- the fixed entry is active, so it contributes `.val (k,none) v`
    have hitem : ∀ x ∈ (AEntry.fixed g k).items c, x ∈ itemsA c es := by
      intro x hx
      simp only [itemsA, List.mem_flatMap]
      exact ⟨_, hmem, hx⟩
    simp only [AEntry.items, hg, if_true, List.mem_singleton, forall_eq] at hitem
    cases hf : Dict.get? c.fixed k with
    | none =>
      rw [hf] at hitem
      exact absurd rfl (hnofail _ hitem)
    | some v =>
      rw [hf] at hitem
      exact ⟨hfx _ _ hitem, rfl⟩
  · intro d'
    rw [normalizeK_sound c _ _ hK, ← hsig, ← frees_itemsA, execK_eq_mapM]
  · intro k hk
    rw [frees_itemsA]
    exact fixed_excluded c es hfree k hk
  · rw [block_names_count b c hwf, hcount]

end HierArc.Ladder
