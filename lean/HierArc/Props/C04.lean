/-
  C04 — Population scatter is marginalised by an unbiased N-draw mean of the likelihood.
-/
import HierArc.Proofs.LensDet
import HierArc.Proofs.LensDeclared
import HierArc.Gen.Tables
import Mathlib.Probability.Moments.Variance
import Mathlib.Probability.IdentDistrib

namespace HierArc.C04
open HierArc HierArc.Lens

/-! ### A. the marginalised value is the log of the arithmetic mean of the likelihood -/

theorem foldl_exp_sum (ls : List ℝ) (mx acc : ℝ) :
    ls.foldl (fun acc l => acc + Trans.exp (l - mx)) acc
      = acc + (ls.map (fun l => Real.exp (l - mx))).sum := by
  induction ls generalizing acc with
  | nil => simp
  | cons l t ih =>
    simp only [List.foldl_cons, List.map_cons, List.sum_cons]
    rw [ih]; simp only [Trans.exp]; ring

theorem sum_exp_shift (ls : List ℝ) (mx : ℝ) :
    (ls.map (fun l => Real.exp (l - mx))).sum = (ls.map Real.exp).sum * Real.exp (-mx) := by
  induction ls with
  | nil => simp
  | cons l t ih =>
    rw [List.map_cons, List.sum_cons, ih, List.map_cons, List.sum_cons, sub_eq_add_neg, Real.exp_add]
    ring

/-- **log of the mean of L** (not the mean of log L): over ℝ every log-likelihood is finite, and the
    shifted sum `l_max + log(Σ exp(lᵢ − l_max)/N)` equals `log((Σ exp lᵢ)/N)` whatever the shift. -/
theorem marg_is_log_mean (ls : List ℝ) (hne : ls ≠ []) (n : ℝ) (hn : 0 < n) :
    logMeanExp (fun _ => true) n ls = some (Real.log ((ls.map Real.exp).sum / n)) := by
  unfold logMeanExp
  simp only [List.filter_true]
  cases ls with
  | nil => exact absurd rfl hne
  | cons l0 t =>
    simp only
    set mx := t.foldl (fun m l => if m < l then l else m) l0 with hmx
    rw [foldl_exp_sum, lit_zero, zero_add, sum_exp_shift]
    have hpos : 0 < ((l0 :: t).map Real.exp).sum := by
      simp only [List.map_cons, List.sum_cons]
      have : 0 ≤ (t.map Real.exp).sum :=
        List.sum_nonneg (by intro x hx; simp only [List.mem_map] at hx; obtain ⟨y, _, rfl⟩ := hx; exact (Real.exp_pos y).le)
      linarith [Real.exp_pos l0]
    congr 1
    show mx + Real.log (((l0 :: t).map Real.exp).sum * Real.exp (-mx) / n) = _
    have he : ((l0 :: t).map Real.exp).sum * Real.exp (-mx) / n
        = (((l0 :: t).map Real.exp).sum / n) * Real.exp (-mx) := by ring
    rw [he, Real.log_mul (div_pos hpos hn).ne' (Real.exp_pos _).ne', Real.log_exp]
    ring

/-- dropping the draws without a finite log-likelihood first and combining the rest is the all-finite formula on the rest -/
theorem logMeanExp_filter (fin : ℝ → Bool) (n : ℝ) (ls : List ℝ) :
    logMeanExp fin n ls = logMeanExp (fun _ => true) n (ls.filter fin) := by
  unfold logMeanExp
  simp only [List.filter_true]

theorem sum_ite_eq_sum_filter (fin : ℝ → Bool) (ls : List ℝ) :
    (ls.map (fun l => if fin l then Real.exp l else 0)).sum = ((ls.filter fin).map Real.exp).sum := by
  induction ls with
  | nil => rfl
  | cons l t ih =>
    by_cases h : fin l = true
    · simp only [List.map_cons, List.sum_cons, h, if_true, List.filter_cons_of_pos, ih]
    · have h' : fin l = false := by simpa using h
      simp only [List.map_cons, List.sum_cons, h', Bool.false_eq_true, if_false, zero_add, ih,
        List.filter_cons_of_neg (by simpa using h')]

/-- **a draw without a finite log-likelihood is a draw of likelihood ZERO, and it still counts**: with `n` the configured
    number of draws, the marginalised value is `log((Σ_{finite draws} exp lᵢ) / n)` — the divisor is the number of draws
    asked for, not the number of draws that happened to be finite. -/
theorem marg_dropped_draws_count (fin : ℝ → Bool) (ls : List ℝ) (n : ℝ) (hn : 0 < n) (hne : ls.filter fin ≠ []) :
    logMeanExp fin n ls = some (Real.log (((ls.filter fin).map Real.exp).sum / n)) := by
  rw [logMeanExp_filter, marg_is_log_mean _ hne n hn]

/-- the same statement as the N-draw mean of the likelihood `Lᵢ` with `Lᵢ = 0` for the non-finite draws -/
theorem marg_is_mean_over_all_draws (fin : ℝ → Bool) (ls : List ℝ) (hne : ls.filter fin ≠ []) :
    logMeanExp fin (ls.length : ℝ) ls
      = some (Real.log ((ls.map (fun l => if fin l then Real.exp l else 0)).sum / (ls.length : ℝ))) := by
  have hlen : (0 : ℝ) < (ls.length : ℝ) := by
    have : ls ≠ [] := by
      intro h; rw [h] at hne; exact hne rfl
    exact_mod_cast List.length_pos_of_ne_nil this
  rw [marg_dropped_draws_count fin ls _ hlen hne, sum_ite_eq_sum_filter]

/-- dividing by the number of FINITE draws instead is a different (larger) value as soon as one draw is dropped:
    two draws, one of them without a finite log-likelihood -/
example : logMeanExp (fun l => decide (l ≠ 7)) 2 [0, 7] = some (Real.log (1 / 2)) ∧ Real.log (1 / 2) ≠ Real.log (1 / 1) := by
  constructor
  · rw [marg_dropped_draws_count _ _ 2 (by norm_num) (by simp)]
    simp
  · intro h
    have := Real.log_lt_log (by norm_num : (0 : ℝ) < 1 / 2) (by norm_num : (1 / 2 : ℝ) < 1 / 1)
    linarith

/-- the mean of the likelihood is in general NOT the mean of the log-likelihood -/
example : logMeanExp (fun _ => true) 2 [0, Real.log 3] = some (Real.log 2) ∧
    Real.log 2 ≠ (0 + Real.log 3) / 2 := by
  constructor
  · rw [marg_is_log_mean _ (by simp) 2 (by norm_num)]
    simp [Real.exp_log]; norm_num
  · intro h
    have h4 : Real.log 4 = Real.log 3 := by
      have : Real.log 4 = 2 * Real.log 2 := by
        rw [show (4 : ℝ) = 2 ^ 2 by norm_num, Real.log_pow]; norm_num
      rw [this, h]; ring
    have := Real.log_lt_log (by norm_num : (0 : ℝ) < 3) (by norm_num : (3 : ℝ) < 4)
    linarith

/-- **sharp value = limit of the marginalised value**: N identical draws give the single value back -/
theorem marg_const (l : ℝ) (N : ℕ) (hN : 0 < N) :
    logMeanExp (fun _ => true) (N : ℝ) (List.replicate N l) = some l := by
  rw [marg_is_log_mean _ (by cases N <;> simp_all) _ (by exact_mod_cast hN)]
  simp only [List.map_replicate, List.sum_replicate, nsmul_eq_mul]
  have : (N : ℝ) ≠ 0 := by exact_mod_cast hN.ne'
  rw [mul_div_cancel_left₀ _ this, Real.log_exp]

/-! ### B. exactly the configured number of evaluations -/

theorem runDraws_length {β : Type} (one : M ℝ β) (n : ℕ) (s s' : St ℝ) (bs : List β)
    (h : runDraws one n s = .ok (bs, s')) : bs.length = n := by
  induction n generalizing s s' bs with
  | zero => rw [(pureM_ok h).1]; rfl
  | succ n ih =>
    unfold runDraws at h
    obtain ⟨b, s1, _, h⟩ := bindM_ok h
    obtain ⟨bs', s2, h2, h⟩ := bindM_ok h
    rw [(pureM_ok h).1]
    simp [ih _ _ _ h2]

/-- one evaluation when sharp, exactly `num_distribution_draws` otherwise -/
theorem exactly_N {β : Type} (one : M ℝ β) (sharp : Bool) (N : ℕ) (s s' : St ℝ) (bs : List β)
    (h : hyperEvals one sharp N s = .ok (bs, s')) : bs.length = if sharp then 1 else N := by
  unfold hyperEvals at h
  cases sharp with
  | true => simpa using runDraws_length one 1 s s' bs h
  | false => simpa using runDraws_length one N s s' bs h

/-! ### C. the sharp decision is sound: sharp ⇒ the evaluation does not depend on the random stream -/

/-- what the sharp branch decides on, spelled out -/
theorem checkDist_true_iff (cfg : LensCfg ℝ) (hy : Hyper ℝ) :
    checkDist cfg hy isZeroR = .ok true ↔
      drawBool cfg.los hy.los isZeroR = .ok false ∧ LensSharp cfg.dist hy.lens ∧
      AnisoSharp cfg.aniso hy.kin ∧
      (magType cfg.ltype = true → getD hy.source "sigma_sne" 0.0 = 0) := by
  unfold checkDist LensSharp AnisoSharp
  cases hdb : drawBool cfg.los hy.los isZeroR with
  | error e => simp
  | ok db =>
    cases db <;> cases lensDrawBool cfg.dist hy.lens isZeroR <;>
      cases anisoDrawBool cfg.aniso hy.kin isZeroR <;> cases magType cfg.ltype <;>
      simp [isZeroR]

/-- no LOS draw is made, or it is a global Gaussian of zero width -/
theorem drawBool_false (cfg : LosCfg) (los : List (Dict ℝ)) (h : drawBool cfg los isZeroR = .ok false) :
    cfg.individual = false ∧ ∀ i, cfg.globalIdx = some i → ∀ d, los[i]? = some d →
      Dict.get? d "sigma" = some 0 := by
  unfold drawBool at h
  cases hi : cfg.individual with
  | true => simp [hi] at h
  | false =>
    refine ⟨rfl, ?_⟩
    intro i hg d hd
    simp only [hi, Bool.false_eq_true, if_false, hg, hd] at h
    cases hs : Dict.get? d "sigma" with
    | none => simp [hs] at h
    | some sg =>
      simp only [hs, Except.ok.injEq, Bool.not_eq_false'] at h
      simp only [isZeroR, decide_eq_true_eq] at h
      rw [h]

/-- the routed arguments of a non-magnification type never contain the source magnitude -/
theorem nonmag_ignores_magnitude :
    LType.all.all (fun t => magType t ||
      (Gen.dispatch.all fun r => !(r.1.contains t.name) || r.2.all (fun p => p.2 != "mu_intrinsic")))
      = true := by decide

/-- for a non-magnification type two value lists that agree off `mu_intrinsic` are routed alike -/
theorem route_congr' (t : LType) (v1 v2 : List (String × Arg ℝ)) (hm : ¬ magType t = true)
    (h : ∀ k, k ≠ "mu_intrinsic" → v1.lookup k = v2.lookup k) :
    route Gen.dispatch t v1 = route Gen.dispatch t v2 := by
  have hall := nonmag_ignores_magnitude
  simp only [List.all_eq_true] at hall
  have ht : t ∈ LType.all := by cases t <;> simp [LType.all]
  have := hall t ht
  simp only [hm, Bool.false_or, List.all_eq_true, Bool.or_eq_true, Bool.not_eq_eq_eq_not, Bool.not_true, bne_iff_ne, ne_eq] at this
  unfold route
  cases hf : Gen.dispatch.find? (fun r => r.1.contains t.name) with
  | none => rfl
  | some r =>
    have hr : r ∈ Gen.dispatch := List.mem_of_find?_eq_some hf
    have hc : r.1.contains t.name = true := by simpa using List.find?_some hf
    simp only [Option.some.injEq]
    apply List.map_congr_left
    intro p hp
    rcases this r hr with hno | hok
    · rw [hc] at hno; simp at hno
    · rw [h p.2 (hok p hp)]

/-- **Soundness of the sharp branch.**  If `check_dist` says sharp, two evaluations of the lens under
    ANY two states of the random generator hand the same arguments to the data likelihood and the
    same prior term: the value is deterministic and one evaluation suffices. -/
theorem sharp_deterministic {cfg : LensCfg ℝ} {hy : Hyper ℝ} {ddt dd dLum : ℝ} {beta : Option ℝ}
    {ext : Ext ℝ} {fuel : ℕ} {s1 s1' s2 s2' : St ℝ} {o1 o2 : SingleOut ℝ}
    (hsharp : checkDist cfg hy isZeroR = .ok true)
    (hgev : ∀ i, cfg.los.globalIdx = some i → cfg.los.dist = "GAUSSIAN")
    (h1 : singlePre mkR cfg hy ddt dd dLum beta ext fuel s1 = .ok (o1, s1'))
    (h2 : singlePre mkR cfg hy ddt dd dLum beta ext fuel s2 = .ok (o2, s2')) :
    route Gen.dispatch cfg.ltype o1.vals = route Gen.dispatch cfg.ltype o2.vals ∧ o1.prior = o2.prior := by
  obtain ⟨hdb, hlens, haniso, hsrc⟩ := (checkDist_true_iff cfg hy).mp hsharp
  obtain ⟨hind, hlos⟩ := drawBool_false _ _ hdb
  obtain ⟨lam1, κ1, x1, g1, hl1, hk1, _, _, hp1, ⟨ld1, kd1, _, _, _, _, hld1, hkd1, hkp1, hg1, hlam1⟩, hv1⟩ := singlePre_spec h1
  obtain ⟨lam2, κ2, x2, g2, hl2, hk2, _, _, hp2, ⟨ld2, kd2, _, _, _, _, hld2, hkd2, hkp2, hg2, hlam2⟩, hv2⟩ := singlePre_spec h2
  have eld : ld1 = ld2 := det_drawLens _ _ _ hlens fuel _ _ _ _ _ _ hld1 hld2
  have ekd : kd1 = kd2 := det_drawAniso _ _ haniso fuel _ _ _ _ _ _ hkd1 hkd2
  have ekp : o1.kwargsParam = o2.kwargsParam := by rw [hkp1, hkp2, eld, ekd]
  have hκ : ∀ κ, KappaOK mkR cfg.los hy.los ext.losDraw κ → κ = kappaSharp cfg.los hy.los :=
    fun κ hk => KappaOK_sharp hk hind (fun i hi => ⟨hgev i hi, fun d hd => hlos i hi d hd⟩)
  have eκ : κ1 = κ2 := by rw [hκ κ1 hk1, hκ κ2 hk2]
  have eg : g1 = g2 := by rw [hg1, hg2, eld]
  have elam : lam1 = lam2 := by rw [hlam1, hlam2, eld]
  subst elam eκ eg
  constructor
  · -- the value lists agree everywhere except possibly at the source magnitude, which is only
    -- non-degenerate for non-magnification types, whose branches never read it
    by_cases hm : magType cfg.ltype = true
    · have hz := hsrc hm
      rw [hz, mkR_zero] at hv1 hv2
      rw [hv1, hv2]
    · apply route_congr'
      · exact hm
      · intro k hk
        rw [hv1, hv2]
        simp only [List.lookup]
        repeat (first | (split <;> try rfl) | rfl)
        all_goals simp_all
  · rw [hp1, hp2, ekp]

/-! ### C'. every draw comes from a declared population of the lens -/

/-- **draws from the declared populations.**  Whatever the random stream, the recursion depth and the number of
    re-draws of truncated populations: every `np.random.normal(loc, scale)` request made during the evaluations of
    `hyper_param_likelihood` (one when sharp, N otherwise) has `(loc, scale)` among the declared populations of
    *this* lens — its own lambda population (IFU one when so flagged), gamma_in, log_m2l, global slope, source
    magnitude, anisotropy and assigned line-of-sight populations.  In particular a re-draw never switches to another
    population's spread. -/
theorem draws_from_declared (mk : ℝ → ℝ → ℝ → ℝ) (cfg : LensCfg ℝ) (hy : Hyper ℝ) (ddt dd dLum : ℝ)
    (beta : Option ℝ) (ext : Ext ℝ) (fuel : ℕ) (sharp : Bool) (N : ℕ) (s s' : St ℝ) (outs : List (SingleOut ℝ))
    (h : hyperEvals (singlePre mk cfg hy ddt dd dLum beta ext fuel) sharp N s = .ok (outs, s'))
    (hs : s.reqs = []) :
    ∀ r ∈ s'.reqs, r ∈ declared cfg hy := by
  intro r hr
  rcases hyperEvals_reqs (singlePre_reqs mk cfg hy ddt dd dLum beta ext fuel) sharp N s outs s' h r hr with h' | h'
  · rw [hs] at h'; simp at h'
  · exact h'

/-- an IFU-flagged lens never draws lambda with the sample-wide scatter (nor the other way round): its lambda
    population is `(lambda_ifu + α·x + β·y, lambda_ifu_sigma)` -/
theorem declared_lambda_ifu (cfg : LensCfg ℝ) (hy : Hyper ℝ) (h : cfg.dist.mstIfu = true) :
    (declared cfg hy).head? =
      some (getD hy.lens "lambda_ifu" 1.0 + getD hy.lens "alpha_lambda" 0.0 * cfg.dist.prop
              + getD hy.lens "beta_lambda" 0.0 * cfg.dist.propBeta,
            getD hy.lens "lambda_ifu_sigma" 0.0) := by
  simp [declared, lensDeclared, lambdaLens, lambdaSigma, h]

/-- non-vacuity: an IFU-flagged lens with a truncated gamma_in population -/
def exDist : LensDist ℝ :=
  { prop := 0
    propBeta := 0
    lambdaSampling := true
    mstIfu := true
    gammaInSampling := true
    gammaInGauss := true
    gammaInMin := some 0
    gammaInMax := some 2 }
def exCfg : LensCfg ℝ := { ltype := .DdtGaussian, dist := exDist, aniso := {}, los := {} }
def exHy : Hyper ℝ :=
  { lens := [("lambda_ifu", 1), ("lambda_ifu_sigma", 1), ("lambda_mst_sigma", 3), ("gamma_in", 1), ("gamma_in_sigma", 1)] }

/-- the declared populations of that IFU lens: lambda with the IFU spread 1 (not the sample-wide 3), gamma_in (1, 1),
    log_m2l, slope and source populations at their defaults -/
example : declared exCfg exHy = [(1, 1), (1, 1), (1, 0), (2, 0), (1, 0)] := by
  simp [declared, lensDeclared, anisoDeclared, losDeclared, exCfg, exDist, exHy, lambdaLens, lambdaSigma, gammaInLoc,
    m2lLoc, getD, Dict.get?, lit_zero, lit_one, lit_two]

/-- the premise of `draws_from_declared` is met (here by the empty marginalisation; every evaluation of the
    correspondence run meets it with N ≥ 1: the driver reports `.ok` together with the requests) -/
example : hyperEvals (singlePre mkR exCfg exHy 1 1 0 none {} 5) false 0 { stream := [] } = .ok ([], { stream := [] }) := by
  simp [hyperEvals, runDraws, pureM]

/-! ### D. the estimator: unbiased, error ∝ 1/√N  (i.i.d. draws on an abstract probability space) -/
section Estimator
open MeasureTheory ProbabilityTheory
variable {Ω : Type*} [MeasurableSpace Ω] {μ : Measure Ω} [IsProbabilityMeasure μ]

/-- **unbiased**: the expectation of the N-draw mean of the likelihood is the population integral
    of `L`. -/
theorem unbiased (N : ℕ) (hN : 0 < N) (L : Fin N → Ω → ℝ) (L0 : Ω → ℝ) (hint : Integrable L0 μ)
    (hid : ∀ i, IdentDistrib (L i) L0 μ μ) :
    ∫ ω, (∑ i, L i ω) / (N : ℝ) ∂μ = ∫ ω, L0 ω ∂μ := by
  have hNr : (N : ℝ) ≠ 0 := by exact_mod_cast hN.ne'
  rw [integral_div, integral_finset_sum _ (fun i _ => (hid i).integrable_iff.mpr hint)]
  simp only [(hid _).integral_eq, Finset.sum_const, Finset.card_univ, Fintype.card_fin, nsmul_eq_mul]
  field_simp

/-- **error shrinks like 1/√N**: for pairwise independent, identically distributed draws with finite
    second moment the variance of the N-draw mean is `Var[L]/N`. -/
theorem variance_over_N (N : ℕ) (hN : 0 < N) (L : Fin N → Ω → ℝ) (L0 : Ω → ℝ) (hL2 : MemLp L0 2 μ)
    (hid : ∀ i, IdentDistrib (L i) L0 μ μ)
    (hind : Pairwise fun i j => IndepFun (L i) (L j) μ) :
    variance (fun ω => (∑ i, L i ω) / (N : ℝ)) μ = variance L0 μ / N := by
  have hNr : (N : ℝ) ≠ 0 := by exact_mod_cast hN.ne'
  have hmem : ∀ i ∈ (Finset.univ : Finset (Fin N)), MemLp (L i) 2 μ :=
    fun i _ => (hid i).symm.memLp_snd hL2 |> fun h => h
  have hsum := IndepFun.variance_sum (μ := μ) (X := L) (s := Finset.univ) hmem
    (fun i _ j _ hij => hind hij)
  have hfun : (fun ω => (∑ i, L i ω) / (N : ℝ)) = fun ω => (1 / (N : ℝ)) * (∑ i, L i) ω := by
    funext ω; simp [Finset.sum_apply]; ring
  rw [hfun, variance_const_mul, hsum]
  simp only [(hid _).variance_eq, Finset.sum_const, Finset.card_univ, Fintype.card_fin, nsmul_eq_mul]
  field_simp

end Estimator

end HierArc.C04
