/-
  C03 — Mass sheet, external convergence and PPN are multiplicative distance rescalings.
-/
import HierArc.Proofs.Lens
import HierArc.Proofs.LensSlope
import HierArc.Gen.Tables

namespace HierArc.C03
open HierArc HierArc.Lens

/-! ### A. algebra of `displace_prediction` -/

/-- above the 1e-4 floor, `lambda_tot = lambda·(1−kappa)` -/
theorem lambdaTot_of_floor {lam κ : ℝ} (h : (1 / 10000 : ℝ) ≤ lam * (1 - κ)) :
    lambdaTot lam κ = lam * (1 - κ) := by
  unfold lambdaTot maxF
  rw [lit_one, lit_1e4]
  split
  · linarith
  · rfl

/-- **the rescaling**: above the floor the displaced prediction is
    `(Ddt·λ(1−κ), Dd·(1+γ)/2, m + 5·log10(λ(1−κ)))`. -/
theorem displace_formula (ddt dd γ lam κ m : ℝ) (hfloor : (1 / 10000 : ℝ) ≤ lam * (1 - κ)) :
    displace ddt dd γ lam κ m =
      (ddt * (lam * (1 - κ)), dd * (1 + γ) / 2, m + 5 * Real.logb 10 (lam * (1 - κ))) := by
  simp only [displace, displacePPN, displaceMST, lambdaTot_of_floor hfloor, lit_one, lit_two, lit_five]
  rfl

/-- **neutral values** `λ = 1, κ = 0, γ = 1` leave the prediction unchanged -/
theorem neutral (ddt dd m : ℝ) : displace ddt dd 1 1 0 m = (ddt, dd, m) := by
  rw [displace_formula ddt dd 1 1 0 m (by norm_num)]
  norm_num

/-- the rescaling is by the PRODUCT: two negative factors (λ = −1/2, κ = 3) give the total 1, a tiny λ with a large
    (1−κ) gives their product — no factor is floored on its own -/
example (ddt dd m : ℝ) : displace ddt dd 1 (-1 / 2) 3 m = (ddt, dd, m) := by
  rw [displace_formula ddt dd 1 (-1 / 2) 3 m (by norm_num)]
  norm_num

example (ddt dd m : ℝ) : (displace ddt dd 1 (1 / 12500) (-1 / 2) m).1 = ddt * (3 / 25000) := by
  rw [displace_formula ddt dd 1 (1 / 12500) (-1 / 2) m (by norm_num)]
  norm_num

/-- **a neutral mass sheet does not switch the PPN rescaling off**: at `λ = 1, κ = 0` the time-delay distance and the
    magnitude are untouched, the deflector distance is still `Dd·(1+γ)/2` — there is no "nothing to displace" shortcut -/
theorem neutral_mass_sheet_keeps_ppn (ddt dd γ m : ℝ) :
    displace ddt dd γ 1 0 m = (ddt, dd * (1 + γ) / 2, m) := by
  rw [displace_formula ddt dd γ 1 0 m (by norm_num)]
  norm_num

/-- **PPN and MST commute** -/
theorem ppn_mst_commute (ddt dd γ lam κ m : ℝ) :
    (let p := displacePPN ddt dd γ; displaceMST p.1 p.2 lam κ m) =
    (let q := displaceMST ddt dd lam κ m; let p := displacePPN q.1 q.2.1 γ; (p.1, p.2, q.2.2)) := by
  simp only [displacePPN, displaceMST, lit_one, lit_two]

/-- **λ and κ commute and compose**: applying `(λ, 0)` then `(1, κ)`, or `(1, κ)` then `(λ, 0)`, or
    `(λ, κ)` at once gives the same prediction (each above the floor). -/
theorem lambda_kappa_commute (ddt dd lam κ m : ℝ) (h1 : (1 / 10000 : ℝ) ≤ lam)
    (h2 : (1 / 10000 : ℝ) ≤ 1 - κ) (h3 : (1 / 10000 : ℝ) ≤ lam * (1 - κ)) :
    (let a := displaceMST ddt dd lam 0 m; displaceMST a.1 a.2.1 1 κ a.2.2) =
      displaceMST ddt dd lam κ m ∧
    (let a := displaceMST ddt dd 1 κ m; displaceMST a.1 a.2.1 lam 0 a.2.2) =
      displaceMST ddt dd lam κ m := by
  have hl : lam ≠ 0 := by intro h; rw [h] at h1; norm_num at h1
  have hlpos : 0 < lam := by linarith
  have hkpos : 0 < 1 - κ := by linarith
  have e1 : lambdaTot lam 0 = lam := by rw [lambdaTot_of_floor (by linarith)]; ring
  have e2 : lambdaTot 1 κ = 1 - κ := by rw [lambdaTot_of_floor (by linarith)]; ring
  have e3 := lambdaTot_of_floor h3
  have hlog : Real.logb 10 (lam * (1 - κ)) = Real.logb 10 lam + Real.logb 10 (1 - κ) :=
    Real.logb_mul hl (ne_of_gt hkpos)
  constructor
  · simp only [displaceMST, e1, e2, e3, lit_five]
    refine Prod.ext (by simp only; ring) (Prod.ext rfl ?_)
    show m + 5 * Trans.log10 lam + 5 * Trans.log10 (1 - κ) = m + 5 * Trans.log10 (lam * (1 - κ))
    simp only [Trans.log10, hlog]; ring
  · simp only [displaceMST, e1, e2, e3, lit_five]
    refine Prod.ext (by simp only; ring) (Prod.ext rfl ?_)
    show m + 5 * Trans.log10 (1 - κ) + 5 * Trans.log10 lam = m + 5 * Trans.log10 (lam * (1 - κ))
    simp only [Trans.log10, hlog]; ring

/-- **MST–κ degeneracy**: `(λ, κ)` and `(λ(1−κ), 0)` displace the prediction identically. -/
theorem mst_kappa_degenerate (ddt dd γ lam κ m : ℝ) (hfloor : (1 / 10000 : ℝ) ≤ lam * (1 - κ)) :
    displace ddt dd γ lam κ m = displace ddt dd γ (lam * (1 - κ)) 0 m := by
  rw [displace_formula _ _ _ _ _ _ hfloor,
    displace_formula _ _ _ (lam * (1 - κ)) 0 _ (by simpa using hfloor)]
  simp

/-! ### B. the generated dispatch table -/

/-- the generated list of likelihood types is the model's enumeration -/
theorem types_generated : Gen.likelihoodTypes = LType.all.map LType.name := by decide

/-- every type is dispatched by exactly one branch -/
theorem dispatch_unique :
    LType.all.all (fun t => (Gen.dispatch.filter (fun r => r.1.contains t.name)).length == 1) = true := by
  decide

/-- the forwarded formals of every non-DSPL branch are among Ddt, Dd, kinematic scaling, the
    velocity-dispersion systematic and the source magnitude — never λ, γ_pl or β directly -/
theorem nonDSPL_sources :
    Gen.dispatch.all (fun r => r.1.contains "DSPL" ||
      r.2.all (fun p => ["ddt", "dd", "kin_scaling", "sigma_v_sys_error", "mu_intrinsic"].contains p.2))
      = true := by decide

/-- the DSPL branch receives the cosmological β, the slope and λ -/
theorem dspl_sources :
    (Gen.dispatch.find? (fun r => r.1.contains "DSPL")).map (·.2) =
      some [("beta_dsp", "beta_dsp"), ("gamma_pl", "gamma_pl"), ("lambda_mst", "lambda_mst")] := by
  decide

/-- time-delay-distance carrying types receive the displaced Ddt (and Dd) -/
theorem ddt_forwarded :
    Gen.dispatch.all (fun r => r.1.contains "DSPL" || r.1.contains "Mag" ||
      r.2.any (fun p => p.2 == "ddt")) = true := by decide

/-- magnification types receive the displaced magnitude -/
theorem mag_forwarded :
    Gen.dispatch.all (fun r => !(r.1.any (fun t => Gen.magTypes.contains t)) ||
      r.2.any (fun p => p.2 == "mu_intrinsic")) = true := by decide

/-! ### C. the lens likelihood at sharp hyper-parameters -/

/-- zero scatter wherever a draw is made for this lens -/
structure Sharp (cfg : LensCfg ℝ) (hy : Hyper ℝ) : Prop where
  lam : lambdaSigma cfg.dist hy.lens = 0
  src : getD hy.source "sigma_sne" 0.0 = 0
  losInd : cfg.los.individual = false
  los : ∀ i, cfg.los.globalIdx = some i → cfg.los.dist = "GAUSSIAN" ∧
      ∀ d, hy.los[i]? = some d → Dict.get? d "sigma" = some 0

/-- **Main statement.**  For sharp hyper-parameters every successful single evaluation hands to the
    dispatch: `Ddt·λ(1−κ)`, `Dd·(1+γ)/2`, source magnitude `μ + Δμ + 5·log10(λ(1−κ))`, the
    cosmological β unchanged, and λ itself, where `λ = (λ_int | λ_ifu) + α·x + β·y` is the lens' own
    lambda and κ the (sharp) external convergence; the prior term is evaluated on the realised
    parameters. -/
theorem lens_eq_data {cfg : LensCfg ℝ} {hy : Hyper ℝ} {ddt dd dLum : ℝ} {beta : Option ℝ}
    {ext : Ext ℝ} {fuel : ℕ} {s s' : St ℝ} {out : SingleOut ℝ} (hs : Sharp cfg hy)
    (h : singlePre mkR cfg hy ddt dd dLum beta ext fuel s = .ok (out, s'))
    (hfloor : (1 / 10000 : ℝ) ≤ lambdaLens cfg.dist hy.lens * (1 - kappaSharp cfg.los hy.los)) :
    let lam := lambdaLens cfg.dist hy.lens
    let κ := kappaSharp cfg.los hy.los
    let γ := getD hy.lens "gamma_ppn" 1.0
    out.vals.lookup "ddt" = some (.num (ddt * (lam * (1 - κ)))) ∧
    out.vals.lookup "dd" = some (.num (dd * (1 + γ) / 2)) ∧
    out.vals.lookup "mu_intrinsic" =
      some (.num (getD hy.source "mu_sne" 1.0 + dLum + 5 * Real.logb 10 (lam * (1 - κ)))) ∧
    out.vals.lookup "beta_dsp" = some (optArg beta) ∧
    out.vals.lookup "lambda_mst" = some (.num lam) ∧
    out.vals.lookup "kin_scaling" = some (.vec ext.kinScaling) ∧
    out.prior = priorLogL cfg.priors out.kwargsParam := by
  obtain ⟨lam, κ, x, gpl, hlamok, hk, _, _, hprior, _, hvals⟩ := singlePre_spec h
  have e1 : lam = lambdaLens cfg.dist hy.lens := LamOK_sharp hlamok hs.lam
  have e2 : κ = kappaSharp cfg.los hy.los := KappaOK_sharp hk hs.losInd hs.los
  subst e1 e2
  rw [hs.src, mkR_zero] at hvals
  simp only [displace_formula _ _ _ _ _ _ hfloor] at hvals
  rw [hvals]
  simp [List.lookup, hprior]

/-- **"… with the same lambda and slope"** (every evaluation, sharp or not): the slope handed to the data likelihood
    (the double-source-plane likelihood is the one that uses it) is the slope the configuration determines — the lens' own
    entry of the slope list, a draw around the global mean (Gaussian form), the global mean itself (delta-function form),
    or the isothermal 2 when the lens has no slope model. -/
theorem lens_slope {cfg : LensCfg ℝ} {hy : Hyper ℝ} {ddt dd dLum : ℝ} {beta : Option ℝ}
    {ext : Ext ℝ} {fuel : ℕ} {s s' : St ℝ} {out : SingleOut ℝ}
    (h : singlePre mkR cfg hy ddt dd dLum beta ext fuel s = .ok (out, s')) :
    ∃ g, out.vals.lookup "gamma_pl" = some (.num g) ∧ SlopeOK mkR cfg.dist hy.lens hy.gammaPlList g := by
  obtain ⟨lam, κ, x, gpl, _, _, _, _, _, ⟨ld, kd, sA, sA', sB, sB', hdl, _, _, hg, _⟩, hvals⟩ := singlePre_spec h
  refine ⟨gpl, ?_, ?_⟩
  · rw [hvals]; simp [List.lookup]
  · rw [hg]; exact drawLens_slope fuel hdl

/-- the global slope at sharp hyper-parameters — delta-function form (the default, whatever width is stored) or Gaussian
    form of zero width: the lens is evaluated at `gamma_pl_mean`, not at the isothermal default -/
theorem lens_slope_global_sharp {cfg : LensCfg ℝ} {hy : Hyper ℝ} {ddt dd dLum : ℝ} {beta : Option ℝ}
    {ext : Ext ℝ} {fuel : ℕ} {s s' : St ℝ} {out : SingleOut ℝ}
    (h : singlePre mkR cfg hy ddt dd dLum beta ext fuel s = .ok (out, s'))
    (hidx : cfg.dist.gammaPlIndex = none) (hglob : cfg.dist.gammaPlGlobalSampling = true)
    (hσ : cfg.dist.gammaPlGlobalGauss = true → getD hy.lens "gamma_pl_sigma" 0.0 = 0) :
    out.vals.lookup "gamma_pl" = some (.num (getD hy.lens "gamma_pl_mean" 2.0)) := by
  obtain ⟨g, hv, hok⟩ := lens_slope h
  unfold SlopeOK at hok
  simp only [hidx, hglob, if_true] at hok
  cases hgg : cfg.dist.gammaPlGlobalGauss with
  | false => simp only [hgg] at hok; rw [hv, hok]
  | true =>
    simp only [hgg, if_true] at hok
    obtain ⟨x, hx⟩ := hok
    rw [hσ hgg, mkR_zero] at hx
    rw [hv, hx]

/-- a lens with its own slope: the entry of the slope list at the index the sample handed out -/
theorem lens_slope_own {cfg : LensCfg ℝ} {hy : Hyper ℝ} {ddt dd dLum : ℝ} {beta : Option ℝ}
    {ext : Ext ℝ} {fuel : ℕ} {s s' : St ℝ} {out : SingleOut ℝ} {i : ℕ}
    (h : singlePre mkR cfg hy ddt dd dLum beta ext fuel s = .ok (out, s'))
    (hidx : cfg.dist.gammaPlIndex = some i) :
    ∃ l g, hy.gammaPlList = some l ∧ l[i]? = some g ∧ out.vals.lookup "gamma_pl" = some (.num g) := by
  obtain ⟨g, hv, hok⟩ := lens_slope h
  unfold SlopeOK at hok
  simp only [hidx] at hok
  obtain ⟨l, hl, hg⟩ := hok
  exact ⟨l, g, hl, hg, hv⟩

/-- the lens' lambda: IFU-specific population value when the lens is so flagged -/
theorem ifu_routing (cfg : LensDist ℝ) (kw : Dict ℝ) :
    lambdaLens cfg kw =
      (if cfg.mstIfu then getD kw "lambda_ifu" 1.0 else getD kw "lambda_mst" 1.0)
        + getD kw "alpha_lambda" 0.0 * cfg.prop + getD kw "beta_lambda" 0.0 * cfg.propBeta := rfl

/-- routing only reads the forwarded formals: two value lists that agree on them are routed
    identically (so for every non-DSPL type `(λ, κ)` and `(λ(1−κ), 0)` give the same likelihood) -/
theorem route_congr (table : List (List String × List (String × String))) (t : LType)
    (v1 v2 : List (String × Arg ℝ))
    (h : ∀ r ∈ table, ∀ p ∈ r.2, v1.lookup p.2 = v2.lookup p.2) :
    route table t v1 = route table t v2 := by
  unfold route
  cases hf : table.find? (fun r => r.1.contains t.name) with
  | none => rfl
  | some r =>
    have hr : r ∈ table := List.mem_of_find?_eq_some hf
    simp only [Option.some.injEq]
    apply List.map_congr_left
    intro p hp
    rw [h r hr p hp]

/-! ### non-vacuity -/
example : (1 / 10000 : ℝ) ≤ (1.05 : ℝ) * (1 - 0.02) := by norm_num
example : Sharp
    { ltype := .DdtGaussian, dist := { prop := 0.3, propBeta := 0, mstIfu := true },
      aniso := {}, los := { globalIdx := some 0, dist := "GAUSSIAN" } }
    { lens := [("lambda_ifu", 1.05), ("alpha_lambda", 0.1)], los := [[("mean", 0.02), ("sigma", 0)]] } := by
  refine ⟨by simp [lambdaSigma, getD, Dict.get?, lit_zero], by simp [getD, Dict.get?, lit_zero], rfl, ?_⟩
  intro i hi
  simp only [Option.some.injEq] at hi
  subst hi
  refine ⟨rfl, ?_⟩
  intro d hd
  simp only [List.getElem?_cons_zero, Option.some.injEq] at hd
  subst hd
  simp [Dict.get?]

end HierArc.C03
