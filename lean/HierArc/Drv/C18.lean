import HierArc.Drv.Proto
import HierArc.Model.Ifu
namespace HierArc.Drv.C18
open Lean HierArc.Drv HierArc.Ifu

/-- numpy `np.isfinite` → `Option` -/
def opt (x : Float) : Option Float := if x.isFinite then some x else none
def optMap (m : List (List Float)) : List (List (Option Float)) := m.map (·.map opt)

def reply (r : Except String (List Float × List Float)) : R Json :=
  match r with
  | .ok (a, b) => pure (Json.mkObj [("a", jfs a), ("b", jfs b)])
  | .error e => throw e

/-- op `C18.dispersion` / `C18.velocity`:
    {"value": [[bits]], "weight": [[bits]], "flux": [[bits]], "scale": bits, "rbins": [bits]} -/
def dispersion (j : Json) : R Json := do
  let vm ← flss (← field j "value")
  let wm ← flss (← field j "weight")
  let fm ← flss (← field j "flux")
  let s ← fl (← field j "scale")
  let rb ← fls (← field j "rbins")
  reply (binnedDispersion (optMap vm) (optMap wm) fm s rb)

def velocity (j : Json) : R Json := do
  let vm ← flss (← field j "value")
  let wm ← flss (← field j "weight")
  let fm ← flss (← field j "flux")
  let s ← fl (← field j "scale")
  let rb ← fls (← field j "rbins")
  reply (binnedVelocity (optMap vm) (optMap wm) fm s rb)

/-- op `C18.total`: {"disp","wdisp","vel","wvel","flux","scale","rbins"} -/
def total (j : Json) : R Json := do
  let dm ← flss (← field j "disp")
  let wdm ← flss (← field j "wdisp")
  let vm ← flss (← field j "vel")
  let wvm ← flss (← field j "wvel")
  let fm ← flss (← field j "flux")
  let s ← fl (← field j "scale")
  let rb ← fls (← field j "rbins")
  reply (binnedTotal (optMap dm) (optMap wdm) (optMap vm) (optMap wvm) fm s rb)

/-- op `C18.flatten`: the 1-d arrays of `_2d_t0_1d` (not a public observation point; used only to
    localise a disagreement) -/
def flattenOp (j : Json) : R Json := do
  let vm ← flss (← field j "value")
  let wm ← flss (← field j "weight")
  let fm ← flss (← field j "flux")
  let s ← fl (← field j "scale")
  match zipMaps (optMap vm) (optMap wm) fm with
  | none => throw "ShapeMismatch"
  | some cells =>
    match flatten cells s with
    | none => throw "ValueError"
    | some F => pure (Json.mkObj [("r", jfs (F.map (·.r))), ("v", jfs (F.map (·.v))),
                                  ("w", jfs (F.map (·.w))), ("f", jfs (F.map (·.f)))])

def enc (r : Except String (List Float × List Float)) : Json :=
  match r with
  | .ok (a, b) => Json.mkObj [("a", jfs a), ("b", jfs b)]
  | .error e => Json.mkObj [("err", Json.str e)]

/-- op `C18.all`: the three public functions on one set of five maps (one line instead of three) -/
def all (j : Json) : R Json := do
  let dm := optMap (← flss (← field j "disp"))
  let wdm := optMap (← flss (← field j "wdisp"))
  let vm := optMap (← flss (← field j "vel"))
  let wvm := optMap (← flss (← field j "wvel"))
  let fm ← flss (← field j "flux")
  let s ← fl (← field j "scale")
  let rb ← fls (← field j "rbins")
  pure (Json.mkObj [("dispersion", enc (binnedDispersion dm wdm fm s rb)),
                    ("velocity", enc (binnedVelocity vm wvm fm s rb)),
                    ("total", enc (binnedTotal dm wdm vm wvm fm s rb))])

def ops : List (String × (Json → R Json)) :=
  [("C18.dispersion", dispersion), ("C18.velocity", velocity), ("C18.total", total), ("C18.all", all),
   ("C18.flatten", flattenOp)]

end HierArc.Drv.C18
