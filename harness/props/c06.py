"""C06 — each data likelihood is the stated density; the normalisation flag drops constants.

Real code: hierarc/Likelihood/LensLikelihood/{ddt_gauss,ddt_lognorm,ddt_dd_gauss,ds_dds_gauss,kin,
ddt_gauss_kin,ddt_hist_kin,mag,td_mag,td_mag_magnitude}_likelihood.py, double_source_plane.py,
base_lens_likelihood.py (dispatch), cosmo_likelihood.py (`normalized` override).
Model: lean/HierArc/Model/Gauss.lean (run at Float through Drv/C06.lean); theorems: Props/C06.lean.
"""
import copy
import math

import numpy as np

from harness.common import (run_driver, f2b, b2f, fl, fll, unfl, unfll, close, close_list,
                            close_mat, err_enum, fclass)

ID = "C06"
LEAN_MODULES = ["HierArc.Props.C06"]
TOL = 1e-8          # model / reference vs implementation (covariance condition number <= 1e6)
TOL_EXACT = 1e-12   # two evaluations of the implementation that must agree

RULE = ("per likelihood type (DdtGaussian, DdtLogNorm, DdtDdGaussian, DsDdsGaussian, IFUKinCov, "
        "DdtGaussKin, DdtHistKin, Mag, TDMag, TDMagMagnitude, DSPL): random data vectors, random "
        "correlated positive-definite data covariances (dimension 1..6 quick / 1..12 thorough, "
        "condition <= 1e4), PSD model covariances (full / low rank / zero), predictions, distances "
        "(incl. negative Ddt -> Ds/Dds floored at 0), kinematic scalings (None / vector / length-1 "
        "broadcast), systematic error and offset (None / value), both `normalized` and "
        "`sigma_sys_error_include` flags; every case is evaluated directly (<Type>.log_likelihood) "
        "and through LensLikelihoodBase.log_likelihood with junk in the arguments the type does not "
        "consume; plus a stream of exactly singular total covariances (duplicated row+column, zero "
        "row+column, all-zero), a few indefinite covariances (correspondence only) and "
        "CosmoLikelihood configurations with/without sigma_v_systematics x normalized.  A case is "
        "non-trivial when the residual is non-zero and (for matrix types) the covariance is "
        "non-diagonal or the dimension is 1; distinct = distinct (type, dimension(s), normalized, "
        "sys_include, kin_scaling kind, sys_error given, offset given, model-cov kind, stream)")
ASSUMPTIONS = [
    "numpy.linalg as the model parameter `LinAlg`: `inv = none` <=> numpy.linalg.inv raises LinAlgError, "
    "otherwise it is the matrix inverse; slogdet = (sign det, ln|det|).  Over ℝ: Mathlib Matrix.inv / det "
    "(inv = none <=> det = 0); at Float: Gauss-Jordan / LU with partial pivoting, compared with numpy on "
    "every run.  That numpy raises on *every* exactly singular matrix is not assumed (it does not: finding "
    "F16); the theorems' singular clause is `inv = none -> -inf`, and the harness observes inside the "
    "process whether numpy.linalg.inv raised",
    "theorems are over ℝ; IEEE rounding is outside them (tol 1e-8, covariance condition <= 1e6)",
    "the covariance hypotheses of the theorems: measurement covariances positive definite, model "
    "covariances positive semidefinite (the property's quantifier); sigma != 0, Ddt > 0 for the "
    "log-normal",
    "the sample-based Ddt part of DdtHistKin (sklearn KernelDensity) is an external value of the "
    "model; its own properties are C12's",
    "DdtDdKDE cannot be constructed in this environment (lenstronomy KDELikelihood API drift) and "
    "is not among the types named by C06",
    "multivariate reference density = explicit formula, anchored to Mathlib's gaussianPDFReal in "
    "dimension one and for diagonal covariances of any dimension (mvnLogPdf_diagonal); Mathlib has "
    "no Lebesgue density theorem for multivariateGaussian yet",
    "DSPL: base of the power beta-(1-lambda)(1-beta) kept positive by the generator",
]
TRUSTED = ["hand-written model HierArc/Model/Gauss.lean tied by differential execution",
           "scipy.stats.multivariate_normal / norm / lognorm as independent reference in the harness",
           "harness copies of the physical constants (c, Mpc, day, arcsec as in lenstronomy.Util.constants)"]

# the oracle's own constants
C_KMS = 299792.458
FERMAT_UNIT = 3.08567758e22 / 299792458.0 / 86400.0 * (2 * math.pi / 360 / 3600) ** 2
LOG2PI = math.log(2 * math.pi)

MATRIX_TYPES = ("IFUKinCov", "DdtGaussKin", "DdtHistKin", "Mag", "TDMag", "TDMagMagnitude")
KIN_TYPES = ("IFUKinCov", "DdtGaussKin", "DdtHistKin")
FLAG_TYPES = ("IFUKinCov", "DdtGaussKin", "DdtHistKin", "DSPL")
ALL_TYPES = ("DdtGaussian", "DdtLogNorm", "DdtDdGaussian", "DsDdsGaussian", "IFUKinCov",
             "DdtGaussKin", "DdtHistKin", "Mag", "TDMag", "TDMagMagnitude", "DSPL")


# --------------------------------------------------------------------------- generators
def rand_pd(nprng, n, scales, cond_max=1e4):
    """correlated PD matrix  D Q diag(lam) Q^T D  with lam in [1/cond, 1]"""
    q, _ = np.linalg.qr(nprng.normal(size=(n, n)))
    cond = math.exp(nprng.uniform(0, math.log(cond_max)))
    lam = np.exp(nprng.uniform(-math.log(cond), 0, n))
    lam[0] = 1.0
    m = (q * lam) @ q.T
    d = np.asarray(scales, dtype=float)
    m = m * np.outer(d, d)
    return (m + m.T) / 2


def rand_psd(nprng, n, scales, kind):
    """PSD model covariance: 'full' (PD), 'lowrank', 'diag', 'zero'"""
    d = np.asarray(scales, dtype=float)
    if kind == "zero":
        return np.zeros((n, n))
    if kind == "diag":
        return np.diag((d * nprng.uniform(0.3, 1.0, n)) ** 2)
    if kind == "lowrank":
        r = int(nprng.integers(1, max(2, n)))
        a = nprng.normal(size=(n, r)) / math.sqrt(r)
        m = a @ a.T
    else:
        m = rand_pd(nprng, n, np.ones(n), cond_max=1e3)
    m = m * np.outer(d, d)
    return (m + m.T) / 2


def gen_kin_part(rng, nprng, nmax):
    n = rng.choice([1, 1, 2, 2, 3, 3, 4, 5, 6, rng.randint(1, nmax), rng.randint(1, nmax)])
    z = rng.uniform(0.1, 1.2)
    ds_dds = rng.uniform(0.8, 3.0)
    dd = rng.uniform(300, 2000)
    ddt = ds_dds * dd * (1 + z)
    sig = nprng.uniform(150, 350, n)
    # J such that c sqrt(J ds_dds) ~ sigma_v
    j = (sig / C_KMS) ** 2 / ds_dds * nprng.uniform(0.85, 1.15, n)
    cov_meas = rand_pd(nprng, n, nprng.uniform(4, 25, n))
    kind = rng.choice(["full", "full", "lowrank", "diag", "zero"])
    # E * ds_dds * c^2 ~ (3..20 km/s)^2
    cov_j = rand_psd(nprng, n, nprng.uniform(3, 20, n) / C_KMS / math.sqrt(ds_dds), kind)
    r = rng.random()
    if r < 0.25:
        ks, ks_kind = None, "none"
    elif r < 0.85 or n == 1:
        ks, ks_kind = nprng.uniform(0.6, 1.5, n).tolist(), "vector"
    else:
        ks, ks_kind = [rng.uniform(0.6, 1.5)], "broadcast"
    if rng.random() < 0.05 and ks is not None:
        ks[0] = 0.0
    err = None if rng.random() < 0.3 else rng.choice([0.0, rng.uniform(0, 0.2), rng.uniform(0, 0.05)])
    off = None if rng.random() < 0.4 else rng.gauss(0, 0.05)
    if rng.random() < 0.06:
        ddt = -ddt      # Ds/Dds floored at zero
    elif rng.random() < 0.3:
        ddt *= rng.uniform(0.5, 1.6)
    ctor = {"z_lens": z, "z_source": z + rng.uniform(0.3, 2.0), "sigma_v_measurement": sig.tolist(),
            "j_model": j.tolist(), "error_cov_measurement": cov_meas.tolist(),
            "error_cov_j_sqrt": cov_j.tolist(),
            "sigma_sys_error_include": rng.random() < 0.6}
    args = {"ddt": ddt, "dd": dd, "kin_scaling": ks, "sigma_v_sys_error": err, "sigma_v_sys_offset": off}
    meta = {"n": n, "model_cov": kind, "ks": ks_kind}
    return ctor, args, meta


def gen_kin_large(rng, nprng, t):
    """an IFU data vector of realistic size (well over a hundred bins with 15-25 km/s errors): ln det C exceeds ln(max
    float) — the density is an ordinary number, the plain determinant is not"""
    c = gen_case(rng, nprng, t, 3)
    n = rng.randint(125, 170)
    ds_dds = c["args"]["ddt"] / c["args"]["dd"] / (1 + c["ctor"]["z_lens"])
    if not ds_dds > 0:
        c["args"]["ddt"] = abs(c["args"]["ddt"])
        ds_dds = abs(ds_dds)
    sig = nprng.uniform(150, 350, n)
    j = (sig / C_KMS) ** 2 / ds_dds * nprng.uniform(0.95, 1.05, n)
    err = nprng.uniform(15, 25, n)
    u = nprng.normal(0, 3.0, (n, 2))
    cov_meas = np.diag(err ** 2) + u @ u.T
    cov_j = np.diag((nprng.uniform(3, 8, n) / C_KMS / math.sqrt(ds_dds)) ** 2)
    c["ctor"].update(sigma_v_measurement=sig.tolist(), j_model=j.tolist(), error_cov_measurement=cov_meas.tolist(),
                     error_cov_j_sqrt=cov_j.tolist())
    ks = c["args"].get("kin_scaling")
    if ks is not None:
        c["args"]["kin_scaling"] = nprng.uniform(0.9, 1.1, n).tolist()
        c["meta"]["ks"] = "vector"
    c["meta"].update(n=n, model_cov="diag")
    c["large"] = True
    c["stream"] = "valid"
    return c


def gen_case(rng, nprng, t, nmax):
    c = {"type": t, "normalized": rng.random() < 0.5, "stream": "valid"}
    if t in ("DdtGaussian", "DdtLogNorm", "DdtDdGaussian"):
        mean = rng.uniform(500, 8000)
        frac = rng.uniform(0.01, 0.3)
        z = rng.uniform(0.1, 1.2)
        c["ctor"] = {"z_lens": z, "z_source": z + rng.uniform(0.3, 2)}
        dev = rng.choice([0.0, rng.gauss(0, 1), rng.gauss(0, 3), rng.uniform(-30, 30)])
        if t == "DdtLogNorm":
            c["ctor"].update({"ddt_mu": math.log(mean), "ddt_sigma": frac})
            ddt = mean * math.exp(dev * frac)
        else:
            c["ctor"].update({"ddt_mean": mean, "ddt_sigma": mean * frac})
            ddt = mean * (1 + dev * frac)
        c["args"] = {"ddt": ddt, "dd": rng.uniform(300, 2000)}
        if t == "DdtDdGaussian":
            ddm = rng.uniform(300, 2000)
            dds = ddm * rng.uniform(0.02, 0.3)
            c["ctor"].update({"dd_mean": ddm, "dd_sigma": dds})
            c["args"]["dd"] = ddm + dds * rng.gauss(0, 2)
            c["args"]["kin_scaling"] = None if rng.random() < 0.4 else [rng.uniform(0.6, 1.5)]
        c["meta"] = {"n": 1}
    elif t == "DsDdsGaussian":
        z = rng.uniform(0.1, 1.2)
        m = rng.uniform(0.8, 3.0)
        s = m * rng.uniform(0.02, 0.3)
        dd = rng.uniform(300, 2000)
        ks = None if rng.random() < 0.4 else [rng.uniform(0.6, 1.5)]
        x = m + s * rng.choice([0.0, rng.gauss(0, 1), rng.gauss(0, 3), rng.uniform(-20, 20)])
        c["ctor"] = {"z_lens": z, "z_source": z + rng.uniform(0.3, 2), "ds_dds_mean": m, "ds_dds_sigma": s}
        c["args"] = {"ddt": x * (ks[0] if ks else 1.0) * dd * (1 + z), "dd": dd, "kin_scaling": ks}
        c["meta"] = {"n": 1}
    elif t in KIN_TYPES:
        ctor, args, meta = gen_kin_part(rng, nprng, nmax)
        if t == "DdtGaussKin":
            mean = abs(args["ddt"]) * rng.uniform(0.8, 1.2)
            ctor.update({"ddt_mean": mean, "ddt_sigma": mean * rng.uniform(0.02, 0.2)})
        if t == "DdtHistKin":
            mean = abs(args["ddt"]) * rng.uniform(0.9, 1.1)
            ns = rng.choice([50, 200, 600])
            smp = nprng.normal(mean, mean * rng.uniform(0.03, 0.12), ns)
            ctor.update({"ddt_samples": smp.tolist(),
                         "ddt_weights": None if rng.random() < 0.5 else nprng.uniform(0.2, 2, ns).tolist(),
                         "kde_kernel": "gaussian", "bandwidth": rng.choice([20, 20, 50, 8.5]),
                         "nbins_hist": rng.choice([200, 50, 20])})
            args.pop("sigma_v_sys_offset")
        c["ctor"], c["args"], c["meta"] = ctor, args, meta
    elif t == "Mag":
        n = rng.choice([1, 2, 2, 3, 4, 4, rng.randint(1, nmax)])
        zp = rng.uniform(18, 30)
        mu = zp + rng.uniform(-5, 2)
        amp = 10 ** (-(mu - zp) / 2.5)
        magm = nprng.uniform(1, 12, n) * nprng.choice([1, 1, 1, -1], n)
        kind = rng.choice(["full", "full", "lowrank", "diag", "zero"])
        cov_model = rand_psd(nprng, n, np.abs(magm) * nprng.uniform(0.05, 0.3, n), kind)
        cov_amp = rand_pd(nprng, n, amp * np.abs(magm) * nprng.uniform(0.02, 0.2, n))
        if rng.random() < 0.3:
            # independent photometric errors (diagonal measurement covariance) with a correlated model covariance:
            # the structure of the COMBINED covariance decides, not that of one summand
            cov_amp = np.diag(np.diag(cov_amp))
        tot = cov_amp + amp ** 2 * cov_model
        meas = amp * magm + np.linalg.cholesky(tot) @ nprng.normal(size=n) * rng.choice([0.0, 1.0, 1.0, 3.0])
        c["ctor"] = {"amp_measured": meas.tolist(), "cov_amp_measured": cov_amp.tolist(),
                     "magnification_model": magm.tolist(), "cov_magnification_model": cov_model.tolist(),
                     "magnitude_zero_point": zp}
        c["args"] = {"mu_intrinsic": mu + rng.choice([0.0, rng.gauss(0, 0.1)])}
        c["meta"] = {"n": n, "model_cov": kind}
    elif t in ("TDMag", "TDMagMagnitude"):
        nimg = rng.choice([2, 2, 3, 4, 4, rng.randint(2, max(2, nmax // 2 + 1))])
        ntd, namp = nimg - 1, nimg
        if rng.random() < 0.15:      # the class does not require n_amp = n_td + 1
            ntd = rng.randint(1, 3)
            namp = rng.randint(1, 3)
        ddt = rng.uniform(500, 8000)
        td = nprng.uniform(5, 150, ntd) * nprng.choice([1, -1], ntd)
        fermat = td / (ddt * FERMAT_UNIT) * nprng.uniform(0.9, 1.1, ntd)
        cov_td = rand_pd(nprng, ntd, nprng.uniform(0.3, 4, ntd), cond_max=1e3)
        kind = rng.choice(["full", "full", "lowrank", "diag", "zero"])
        zp = rng.uniform(18, 30)
        if t == "TDMag":
            mu = zp + rng.uniform(-5, 2)
            amp = 10 ** (-(mu - zp) / 2.5)
            magm = nprng.uniform(1, 12, namp) * nprng.choice([1, 1, 1, -1], namp)
            meas = amp * magm * nprng.uniform(0.9, 1.1, namp)
            cov_amp = rand_pd(nprng, namp, amp * np.abs(magm) * nprng.uniform(0.02, 0.2, namp), cond_max=1e3)
            mscale = np.abs(magm) * nprng.uniform(0.05, 0.3, namp)
        else:
            mu = rng.uniform(20, 28)
            magm = -2.5 * np.log10(nprng.uniform(1, 12, namp))
            meas = magm + mu + nprng.normal(0, 0.1, namp)
            cov_amp = rand_pd(nprng, namp, nprng.uniform(0.02, 0.2, namp), cond_max=1e3)
            mscale = nprng.uniform(0.05, 0.3, namp)
        if rng.random() < 0.3:
            # diagonal measurement covariances with a correlated model covariance
            cov_td = np.diag(np.diag(cov_td))
            cov_amp = np.diag(np.diag(cov_amp))
        cov_model = rand_psd(nprng, ntd + namp,
                             np.concatenate([np.abs(fermat) * nprng.uniform(0.01, 0.1, ntd), mscale]), kind)
        c["ctor"] = {"time_delay_measured": td.tolist(), "cov_td_measured": cov_td.tolist(),
                     "fermat_diff": fermat.tolist(), "magnification_model": magm.tolist(),
                     "cov_model": cov_model.tolist()}
        if t == "TDMag":
            c["ctor"].update({"amp_measured": meas.tolist(), "cov_amp_measured": cov_amp.tolist(),
                              "magnitude_zero_point": zp})
        else:
            c["ctor"].update({"magnitude_measured": meas.tolist(), "cov_magnitude_measured": cov_amp.tolist()})
        c["args"] = {"ddt": ddt * rng.choice([1.0, rng.uniform(0.8, 1.25)]),
                     "mu_intrinsic": mu + rng.choice([0.0, rng.gauss(0, 0.1)])}
        c["meta"] = {"n": ntd + namp, "ntd": ntd, "namp": namp, "model_cov": kind}
    elif t == "DSPL":
        beta = rng.uniform(0.3, 0.95)
        lam = rng.uniform(0.8, 1.2)
        g = rng.uniform(1.5, 2.5)
        theta = (beta - (1 - lam) * (1 - beta)) ** (1 / (g - 1))
        s = rng.uniform(0.005, 0.1)
        c["ctor"] = {"beta_dspl": theta + s * rng.choice([0.0, rng.gauss(0, 1), rng.gauss(0, 4)]),
                     "sigma_beta_dspl": s}
        c["args"] = {"beta_dsp": beta, "gamma_pl": g, "lambda_mst": lam}
        c["meta"] = {"n": 1}
    else:
        raise ValueError(t)
    return c


def dup_index(mat, i, j):
    """copy row/column i onto row/column j (keeps symmetry; makes the matrix exactly singular)"""
    m = np.array(mat, dtype=float)
    m[j, :] = m[i, :]
    m[:, j] = m[:, i]
    m[j, j] = m[i, i]
    return m


def make_singular(rng, nprng, t, nmax):
    """a case whose *total* covariance is exactly singular in floating point"""
    for _ in range(50):
        c = gen_case(rng, nprng, t, max(nmax, 3))
        n = c["meta"].get("ntd", c["meta"]["n"])
        if n >= 2:
            break
    c["stream"] = "singular"
    how = rng.choice(["dup", "zero", "allzero"])
    c["meta"]["singular"] = how
    k = c["ctor"]
    i, j = rng.sample(range(n), 2)

    def fix(name, vec=False):
        a = np.array(k[name], dtype=float)
        if how == "allzero" and not vec:
            a = np.zeros_like(a)
        elif how == "zero" and not vec:
            a[j, :] = 0.0
            a[:, j] = 0.0
        elif how == "dup":
            if vec:
                a[j] = a[i]
            else:
                a = dup_index(a, i, j)
        k[name] = a.tolist()

    if t in KIN_TYPES:
        for nm in ("sigma_v_measurement", "j_model"):
            fix(nm, vec=True)
        for nm in ("error_cov_measurement", "error_cov_j_sqrt"):
            fix(nm)
        ks = c["args"]["kin_scaling"]
        if ks is not None and len(ks) > 1:
            ks[j] = ks[i]
        if how in ("zero", "allzero"):
            c["args"]["sigma_v_sys_error"] = None     # outer(sys) would fill the zero row
    elif t == "Mag":
        fix("magnification_model", vec=True)
        fix("amp_measured", vec=True)
        fix("cov_amp_measured")
        fix("cov_magnification_model")
    else:
        fix("time_delay_measured", vec=True)
        fix("fermat_diff", vec=True)
        fix("cov_td_measured")
        # i, j address the time-delay block of the model covariance
        fix("cov_model")
        if how == "allzero":
            nm = "cov_amp_measured" if t == "TDMag" else "cov_magnitude_measured"
            k[nm] = np.zeros_like(np.array(k[nm])).tolist()
    return c


def make_indefinite(rng, nprng, nmax):
    """IFUKinCov with an indefinite (invertible) measurement covariance: outside the property's
    domain, used only to tie the model's ValueError branch to the code."""
    c = gen_case(rng, nprng, "IFUKinCov", nmax)
    c["stream"] = "indefinite"
    n = c["meta"]["n"]
    m = np.array(c["ctor"]["error_cov_measurement"])
    q, _ = np.linalg.qr(nprng.normal(size=(n, n)))
    lam = nprng.uniform(50, 400, n)
    lam[0] = -lam[0] * 50
    c["ctor"]["error_cov_measurement"] = ((q * lam) @ q.T).tolist()
    c["ctor"]["error_cov_measurement"] = ((np.array(c["ctor"]["error_cov_measurement"]) +
                                           np.array(c["ctor"]["error_cov_measurement"]).T) / 2).tolist()
    c["ctor"]["error_cov_j_sqrt"] = np.zeros((n, n)).tolist()
    c["args"]["sigma_v_sys_error"] = None
    return c


def corner_cases():
    """fixed cases run first"""
    def kin(cov, normalized, stream, how=None, sig=(250., 255.), t="IFUKinCov", extra=None):
        n = len(sig)
        c = {"type": t, "normalized": normalized, "stream": stream,
             "ctor": {"z_lens": 0.5, "z_source": 2.0, "sigma_v_measurement": list(sig), "j_model": [1e-6] * n,
                      "error_cov_measurement": cov, "error_cov_j_sqrt": np.zeros((n, n)).tolist(),
                      "sigma_sys_error_include": False},
             "args": {"ddt": 4000., "dd": 1200., "kin_scaling": None, "sigma_v_sys_error": None,
                      "sigma_v_sys_offset": None},
             "meta": {"n": n, "model_cov": "zero", "ks": "none"}}
        if how:
            c["meta"]["singular"] = how
        if extra:
            c["ctor"].update(extra)
        return c
    out = []
    for flag in (True, False):
        # two fully correlated 7 km/s (5 km/s) errors: exactly singular; LAPACK notices only the second
        out.append(kin([[49., 49.], [49., 49.]], flag, "singular", "dup"))
        out.append(kin([[25., 25.], [25., 25.]], flag, "singular", "dup"))
        out.append(kin([[0.0]], flag, "singular", "allzero", sig=(250.,)))
        out.append(kin([[100., 0.], [0., 0.]], flag, "singular", "zero"))
        out.append(kin([[100., 30.], [30., 64.]], flag, "valid"))
        out.append(kin([[100., 30.], [30., 64.]], flag, "valid", t="DdtGaussKin",
                       extra={"ddt_mean": 4100., "ddt_sigma": 200.}))
    out.append({"type": "DdtGaussian", "normalized": False, "stream": "valid",
                "ctor": {"z_lens": 0.5, "z_source": 2.0, "ddt_mean": 5000., "ddt_sigma": 250.},
                "args": {"ddt": 5000., "dd": 1000.}, "meta": {"n": 1}})
    out.append({"type": "Mag", "normalized": False, "stream": "singular",
                "ctor": {"amp_measured": [10., 10.5], "cov_amp_measured": [[49., 49.], [49., 49.]],
                         "magnification_model": [2., 2.], "cov_magnification_model": [[0., 0.], [0., 0.]],
                         "magnitude_zero_point": 20.0},
                "args": {"mu_intrinsic": 18.25}, "meta": {"n": 2, "model_cov": "zero", "singular": "dup"}})
    return out


# --------------------------------------------------------------------------- the real code
def _classes():
    from hierarc.Likelihood.LensLikelihood.ddt_gauss_likelihood import DdtGaussianLikelihood
    from hierarc.Likelihood.LensLikelihood.ddt_lognorm_likelihood import DdtLogNormLikelihood
    from hierarc.Likelihood.LensLikelihood.ddt_dd_gauss_likelihood import DdtDdGaussian
    from hierarc.Likelihood.LensLikelihood.ds_dds_gauss_likelihood import DsDdsGaussianLikelihood
    from hierarc.Likelihood.LensLikelihood.kin_likelihood import KinLikelihood
    from hierarc.Likelihood.LensLikelihood.ddt_gauss_kin_likelihood import DdtGaussKinLikelihood
    from hierarc.Likelihood.LensLikelihood.ddt_hist_kin_likelihood import DdtHistKinLikelihood
    from hierarc.Likelihood.LensLikelihood.mag_likelihood import MagnificationLikelihood
    from hierarc.Likelihood.LensLikelihood.td_mag_likelihood import TDMagLikelihood
    from hierarc.Likelihood.LensLikelihood.td_mag_magnitude_likelihood import TDMagMagnitudeLikelihood
    from hierarc.Likelihood.LensLikelihood.double_source_plane import DSPLikelihood
    return {"DdtGaussian": DdtGaussianLikelihood, "DdtLogNorm": DdtLogNormLikelihood,
            "DdtDdGaussian": DdtDdGaussian, "DsDdsGaussian": DsDdsGaussianLikelihood,
            "IFUKinCov": KinLikelihood, "DdtGaussKin": DdtGaussKinLikelihood,
            "DdtHistKin": DdtHistKinLikelihood, "Mag": MagnificationLikelihood,
            "TDMag": TDMagLikelihood, "TDMagMagnitude": TDMagMagnitudeLikelihood, "DSPL": DSPLikelihood}


def arr_ctor(k, case=None):
    """constructor kwargs with lists turned into numpy arrays (as the repo's tests pass them); the keys named in
    case["int_keys"] hold whole numbers and are handed over INTEGER-typed (ndarray of dtype int, or nested lists of
    Python ints): the same numbers, so the same density"""
    out = {}
    int_keys = (case or {}).get("int_keys") or []
    for key, v in k.items():
        if key in int_keys and isinstance(v, list):
            a = np.array(v, dtype=float)
            assert np.all(a == np.rint(a))
            a = a.astype(int)
            out[key] = a.tolist() if (case or {}).get("int_as") == "list" else a
        else:
            out[key] = np.array(v, dtype=float) if isinstance(v, list) else v
    return out


INT_KEYS = {"IFUKinCov": ["sigma_v_measurement", "error_cov_measurement"],
            "DdtGaussKin": ["sigma_v_measurement", "error_cov_measurement"],
            "DdtHistKin": ["sigma_v_measurement", "error_cov_measurement"],
            "Mag": ["cov_magnification_model", "magnification_model"],
            "TDMag": ["cov_model", "time_delay_measured", "magnification_model"],
            "TDMagMagnitude": ["cov_model", "time_delay_measured"]}


def int_variant(case, rng, nprng):
    """whole-number inputs handed over integer-typed (a model covariance given as np.eye(n, dtype=int) or a list of
    Python ints, velocity dispersions / time delays quoted as integers): a legitimate way of writing the same numbers"""
    c = copy.deepcopy(case)
    keys = [k for k in INT_KEYS.get(c["type"], []) if k in c["ctor"]]
    if not keys:
        return None
    chosen = [k for k in keys if rng.random() < 0.6] or [rng.choice(keys)]
    for key in chosen:
        a = np.array(c["ctor"][key], dtype=float)
        if a.ndim == 2 and key in ("cov_model", "cov_magnification_model"):
            n = a.shape[0]
            hows = ["eye", "diag", "bbt", "zero"]
            rng.shuffle(hows)
            for how in hows + ["zero"]:
                if how == "zero":
                    m = np.zeros((n, n))
                elif how == "eye":
                    m = np.eye(n)
                elif how == "diag":
                    m = np.diag(nprng.integers(0, 4, n).astype(float))
                else:
                    b = nprng.integers(-1, 2, (n, rng.choice([1, 2]))).astype(float)
                    m = b @ b.T
                trial = copy.deepcopy(c)
                trial["ctor"][key] = m.tolist()
                w = np.linalg.eigvalsh(matrix_pieces(trial)[2])
                if how == "zero" or (w[0] > 0 and w[-1] / w[0] < 1e7):   # keep the combined covariance well conditioned
                    break
            c["meta"]["model_cov"] = "int_" + how
        elif a.ndim == 2:
            m = np.rint(a)
            m = (m + m.T) / 2
            m = np.rint(m)
            if np.min(np.linalg.eigvalsh(m)) < 0.5:
                m = np.diag(np.maximum(1.0, np.rint(np.diag(a))))
        else:
            m = np.rint(a)
            m[m == 0] = 1.0
        c["ctor"][key] = m.tolist()
    c["int_keys"] = chosen
    c["int_as"] = rng.choice(["ndarray", "ndarray", "list"])
    c["stream"] = "int_typed"
    return c


def build_direct(case, normalized):
    t = case["type"]
    k = arr_ctor(case["ctor"], case)
    cls = _classes()[t]
    if t in FLAG_TYPES:
        k["normalized"] = normalized
    return cls(**k)


def build_base(case, normalized):
    from hierarc.Likelihood.LensLikelihood.base_lens_likelihood import LensLikelihoodBase
    t = case["type"]
    k = arr_ctor(case["ctor"], case)
    z_lens = k.pop("z_lens", 0.5)
    z_source = k.pop("z_source", 1.5)
    return LensLikelihoodBase(z_lens, z_source, likelihood_type=t, normalized=normalized, **k)


def direct_args(case):
    a = dict(case["args"])
    if a.get("kin_scaling") is not None:
        a["kin_scaling"] = np.array(a["kin_scaling"], dtype=float)
    t = case["type"]
    if t in ("DdtGaussian", "DdtLogNorm"):
        return (a["ddt"], a["dd"]), {}
    if t in ("DdtDdGaussian", "DsDdsGaussian"):
        return (a["ddt"], a["dd"]), {"kin_scaling": a["kin_scaling"]}
    if t in KIN_TYPES:
        kw = {"kin_scaling": a["kin_scaling"], "sigma_v_sys_error": a["sigma_v_sys_error"]}
        if "sigma_v_sys_offset" in a:
            kw["sigma_v_sys_offset"] = a["sigma_v_sys_offset"]
        return (a["ddt"], a["dd"]), kw
    if t == "Mag":
        return (), {"mu_intrinsic": a["mu_intrinsic"]}
    if t in ("TDMag", "TDMagMagnitude"):
        return (), {"ddt": a["ddt"], "mu_intrinsic": a["mu_intrinsic"]}
    return (), {"beta_dsp": a["beta_dsp"], "gamma_pl": a["gamma_pl"], "lambda_mst": a["lambda_mst"]}


def dispatch_kwargs(case, junk):
    """arguments of LensLikelihoodBase.log_likelihood: the consumed ones from the case, `junk`
    (a dict of all eight) for the rest"""
    a = case["args"]
    kw = dict(junk)
    for key in ("ddt", "dd", "beta_dsp", "sigma_v_sys_error", "mu_intrinsic", "gamma_pl", "lambda_mst"):
        if key in a:
            kw[key] = a[key]
    if "kin_scaling" in a:
        kw["kin_scaling"] = None if a["kin_scaling"] is None else np.array(a["kin_scaling"], dtype=float)
    return kw


CONSUMED = {"DdtGaussian": ("ddt",), "DdtLogNorm": ("ddt",),
            "DdtDdGaussian": ("ddt", "dd", "kin_scaling"), "DsDdsGaussian": ("ddt", "dd", "kin_scaling"),
            "IFUKinCov": ("ddt", "dd", "kin_scaling", "sigma_v_sys_error"),
            "DdtGaussKin": ("ddt", "dd", "kin_scaling", "sigma_v_sys_error"),
            "DdtHistKin": ("ddt", "dd", "kin_scaling", "sigma_v_sys_error"),
            "Mag": ("mu_intrinsic",), "TDMag": ("ddt", "mu_intrinsic"),
            "TDMagMagnitude": ("ddt", "mu_intrinsic"),
            "DSPL": ("beta_dsp", "gamma_pl", "lambda_mst")}


def junk_args(rng, case):
    n = case["meta"]["n"]
    j = {"ddt": rng.uniform(100, 9000), "dd": rng.uniform(100, 3000), "beta_dsp": rng.uniform(0.1, 0.9),
         "kin_scaling": rng.choice([None, [rng.uniform(0.5, 2) for _ in range(n)]]),
         "sigma_v_sys_error": rng.choice([None, rng.uniform(0, 0.3)]),
         "mu_intrinsic": rng.uniform(15, 30), "gamma_pl": rng.uniform(1.5, 2.5),
         "lambda_mst": rng.uniform(0.7, 1.3)}
    # the dispatch hands `dd` to the Ddt-only classes, which ignore it
    return j


class WatchInv:
    """records, inside the harness process, whether numpy.linalg.inv raised while the
    implementation ran (the engine's behaviour is a parameter of the model)"""

    def __enter__(self):
        self.raised = []
        self._orig = np.linalg.inv

        def inv(*a, **k):
            try:
                out = self._orig(*a, **k)
            except np.linalg.LinAlgError:
                self.raised.append(True)
                raise
            self.raised.append(False)
            return out
        np.linalg.inv = inv
        return self

    def __exit__(self, *exc):
        np.linalg.inv = self._orig
        return False

    @property
    def undetected(self):
        """inv was called and did not raise"""
        return bool(self.raised) and not any(self.raised)


def call(fn, *a, **kw):
    """returns ('ok', float) or ('err', enum)"""
    try:
        with np.errstate(all="ignore"):
            v = fn(*a, **kw)
        v = float(np.asarray(v).reshape(-1)[0]) if np.ndim(v) else float(v)
        return ("ok", v)
    except Exception as e:  # noqa
        return ("err", err_enum(e))


# --------------------------------------------------------------------------- independent reference
def logdet_sym(c):
    w = np.linalg.eigvalsh((c + c.T) / 2)
    return float(np.sum(np.log(w)))


def mvn_ref(x, mean, cov, normalized=True):
    from scipy.stats import multivariate_normal
    x = np.asarray(x, dtype=float)
    mean = np.asarray(mean, dtype=float)
    cov = np.asarray(cov, dtype=float)
    cov = (cov + cov.T) / 2
    v = float(multivariate_normal.logpdf(x, mean=mean, cov=cov, allow_singular=False))
    if not normalized:
        v += 0.5 * (len(x) * LOG2PI + logdet_sym(cov))
    return v


def gauss1_ref(x, mean, sigma, normalized):
    from scipy.stats import norm
    v = float(norm.logpdf(x, loc=mean, scale=abs(sigma)))
    if not normalized:
        v += 0.5 * math.log(2 * math.pi * sigma ** 2)
    return v


def kin_pieces(k, a):
    """(measured mean, prediction, total covariance) from the property's mechanism statement"""
    sig = np.array(k["sigma_v_measurement"], dtype=float)
    n = len(sig)
    jm = np.array(k["j_model"], dtype=float)
    ds_dds = max(a["ddt"] / a["dd"] / (1 + k["z_lens"]), 0.0)
    ks = np.ones(n) if a.get("kin_scaling") is None else np.array(a["kin_scaling"], dtype=float) * np.ones(n)
    off = a.get("sigma_v_sys_offset")
    mean = sig if off is None else sig * (1 + off)
    pred = C_KMS * np.sqrt(jm * ds_dds * ks)
    cov = np.array(k["error_cov_measurement"], dtype=float).copy()
    err = a.get("sigma_v_sys_error")
    if k.get("sigma_sys_error_include", False) and err is not None:
        cov = cov + np.outer(sig * err, sig * err)
    cov = cov + np.array(k["error_cov_j_sqrt"], dtype=float) * np.outer(np.sqrt(ks), np.sqrt(ks)) * ds_dds * C_KMS ** 2
    return mean, pred, cov


def matrix_pieces(case):
    t = case["type"]
    k, a = case["ctor"], case["args"]
    if t in KIN_TYPES:
        return kin_pieces(k, a)
    if t == "Mag":
        amp = 10 ** (-(a["mu_intrinsic"] - k["magnitude_zero_point"]) / 2.5)
        return (np.array(k["amp_measured"]), amp * np.array(k["magnification_model"]),
                np.array(k["cov_amp_measured"]) + amp ** 2 * np.array(k["cov_magnification_model"]))
    from scipy.linalg import block_diag
    td = np.array(k["time_delay_measured"])
    fer = np.array(k["fermat_diff"])
    magm = np.array(k["magnification_model"])
    cm = np.array(k["cov_model"])
    if t == "TDMag":
        amp = 10 ** (-(a["mu_intrinsic"] - k["magnitude_zero_point"]) / 2.5)
        x = np.concatenate([td, np.array(k["amp_measured"])])
        scale = np.concatenate([a["ddt"] * FERMAT_UNIT * np.ones(len(td)), amp * np.ones(len(magm))])
        mean = scale * np.concatenate([fer, magm])
        cov = block_diag(np.array(k["cov_td_measured"]), np.array(k["cov_amp_measured"])) + np.outer(scale, scale) * cm.T
    else:
        x = np.concatenate([td, np.array(k["magnitude_measured"])])
        scale = np.concatenate([a["ddt"] * FERMAT_UNIT * np.ones(len(td)), np.ones(len(magm))])
        mean = np.concatenate([a["ddt"] * FERMAT_UNIT * fer, magm + a["mu_intrinsic"]])
        cov = block_diag(np.array(k["cov_td_measured"]), np.array(k["cov_magnitude_measured"])) + np.outer(scale, scale) * cm.T
    return x, mean, cov


def reference(case, normalized, td_part=None):
    """independent log-density of the measured data given the prediction and combined covariance"""
    t = case["type"]
    k, a = case["ctor"], case["args"]
    if t == "DdtGaussian":
        return gauss1_ref(k["ddt_mean"], a["ddt"], k["ddt_sigma"], False)
    if t == "DdtLogNorm":
        from scipy.stats import lognorm
        return float(lognorm.logpdf(a["ddt"], s=k["ddt_sigma"], scale=math.exp(k["ddt_mu"]))) + 0.5 * LOG2PI
    if t == "DdtDdGaussian":
        k0 = 1.0 if a["kin_scaling"] is None else a["kin_scaling"][0]
        return (gauss1_ref(k["ddt_mean"], a["ddt"], k["ddt_sigma"], False)
                + gauss1_ref(k["dd_mean"], a["dd"] * k0, k["dd_sigma"], False))
    if t == "DsDdsGaussian":
        k0 = 1.0 if a["kin_scaling"] is None else a["kin_scaling"][0]
        return gauss1_ref(k["ds_dds_mean"], a["ddt"] / a["dd"] / (1 + k["z_lens"]) / k0, k["ds_dds_sigma"], False)
    if t == "DSPL":
        theta = (a["beta_dsp"] - (1 - a["lambda_mst"]) * (1 - a["beta_dsp"])) ** (1 / (a["gamma_pl"] - 1))
        return gauss1_ref(k["beta_dspl"], theta, k["sigma_beta_dspl"], normalized)
    x, mean, cov = matrix_pieces(case)
    if t in KIN_TYPES:
        v = mvn_ref(x, mean, cov, normalized)
        if t == "DdtGaussKin":
            v += gauss1_ref(k["ddt_mean"], a["ddt"], k["ddt_sigma"], False)
        if t == "DdtHistKin":
            v += td_part
        return v
    return mvn_ref(x, mean, cov, True)     # Mag / TDMag / TDMagMagnitude: always normalised


def norm_constant(case):
    """the constant the un-normalised form may drop: (n ln 2pi + ln det C)/2, DSPL: ln(2 pi s^2)/2"""
    if case["type"] == "DSPL":
        return 0.5 * math.log(2 * math.pi * case["ctor"]["sigma_beta_dspl"] ** 2)
    _, _, cov = matrix_pieces(case)
    return 0.5 * (len(cov) * LOG2PI + logdet_sym(cov))


def hist_parts(case, normalized):
    """stand-alone Ddt part of DdtHistKin with the same settings and the same flag"""
    from hierarc.Likelihood.LensLikelihood.ddt_hist_likelihood import DdtHistKDELikelihood
    k = case["ctor"]
    w = k["ddt_weights"]
    return DdtHistKDELikelihood(k["z_lens"], k["z_source"], np.array(k["ddt_samples"]),
                                ddt_weights=None if w is None else np.array(w),
                                kde_kernel=k["kde_kernel"], bandwidth=k["bandwidth"],
                                nbins_hist=k["nbins_hist"], normalized=normalized)


def kin_only(case):
    c = dict(case)
    c["type"] = "IFUKinCov"
    c["ctor"] = {key: v for key, v in case["ctor"].items()
                 if key in ("z_lens", "z_source", "sigma_v_measurement", "j_model", "error_cov_measurement",
                            "error_cov_j_sqrt", "sigma_sys_error_include")}
    return c


# --------------------------------------------------------------------------- oracle
def oracle(case, rng=None):
    """evaluates the property statement on the implementation.
    returns (failures [(signature, what)], observation dict used by the correspondence)"""
    import random as _random
    rng = rng or _random.Random(0)
    t = case["type"]
    flag = case["normalized"]
    fails = []
    obs = {}
    pa, kw = direct_args(case)
    stream = case["stream"]

    def obj(f):
        return build_direct(case, f)

    # the joint class calls its sample-based Ddt part: capture what that part returned
    captured = []
    if t == "DdtHistKin":
        from hierarc.Likelihood.LensLikelihood import ddt_hist_likelihood as dh
        orig = dh.DdtHistKDELikelihood.log_likelihood

        def wrapped(self, *a, **k):
            v = orig(self, *a, **k)
            captured.append(float(np.asarray(v).reshape(-1)[0]))
            return v
        dh.DdtHistKDELikelihood.log_likelihood = wrapped
    try:
        try:
            o = obj(flag)
        except Exception as e:  # noqa
            fails.append(("%s:constructor-raised-%s" % (t, err_enum(e)), "constructor raised %r" % e))
            return fails, obs
        r = call(o.log_likelihood, *pa, **kw)
    finally:
        if t == "DdtHistKin":
            dh.DdtHistKDELikelihood.log_likelihood = orig
    obs["direct"] = r
    obs["td_captured"] = captured[-1] if captured else None

    # the same OBJECT evaluated again with ONE argument changed (a sampler moving along one coordinate: same distances,
    # another kinematic scaling; same scaling, another systematic error): the value is that of a fresh object
    if stream not in ("indefinite", "singular") and t in tuple(KIN_TYPES) + ("DdtDdGaussian", "DsDdsGaussian") and r[0] == "ok":
        variants = []
        if kw.get("kin_scaling") is not None:
            ks = np.atleast_1d(np.array(kw["kin_scaling"], dtype=float))
            variants.append(("kin_scaling", dict(kw, kin_scaling=ks * np.linspace(0.8, 1.3, len(ks)))))
        else:
            n_ks = len(case["ctor"].get("sigma_v_measurement", [])) if t in KIN_TYPES else 1
            if n_ks:
                variants.append(("kin_scaling", dict(kw, kin_scaling=np.linspace(0.8, 1.3, n_ks))))
        if t in KIN_TYPES:
            sv = kw.get("sigma_v_sys_error")
            variants.append(("sigma_v_sys_error", dict(kw, sigma_v_sys_error=(0.07 if not sv else sv * 1.5))))
        for what, kw2 in variants:
            r_re = call(o.log_likelihood, *pa, **kw2)
            r_fr = call(obj(flag).log_likelihood, *pa, **kw2)
            ok_same = (r_re[0] == r_fr[0]) and (r_re[0] == "err" and r_re[1] == r_fr[1] or r_re[0] == "ok" and close(r_re[1], r_fr[1], 1e-12))
            if not ok_same:
                fails.append(("%s:reused-object-differs-after-changing-%s" % (t, what),
                              "the same object evaluated again with another %s (all else equal) gives %r, a fresh object gives %r"
                              % (what, r_re, r_fr)))

    # dispatch with junk in the unconsumed arguments
    junk = junk_args(rng, case)
    case_nooff = case
    if t in KIN_TYPES and case["args"].get("sigma_v_sys_offset") is not None:
        case_nooff = dict(case)
        case_nooff["args"] = dict(case["args"], sigma_v_sys_offset=None)
    try:
        base = build_base(case, flag)
        rd = call(base.log_likelihood, **dispatch_kwargs(case, junk))
        rd2 = call(base.log_likelihood, **dispatch_kwargs(case, junk_args(rng, case)))
    except Exception as e:  # noqa
        rd = rd2 = ("err", err_enum(e))
    obs["dispatch"] = rd
    # the same call made directly (no offset: the dispatch has no such argument)
    pa0, kw0 = direct_args(case_nooff)
    if case_nooff is case:
        r0 = r
    else:
        r0 = call(obj(flag).log_likelihood, *pa0, **kw0)
    obs["direct_nooff"] = r0

    if stream == "indefinite":
        return fails, obs       # outside the property's domain: correspondence only

    if stream == "singular":
        how = case["meta"].get("singular")
        # does numpy itself notice, inside the implementation, that the covariance is singular?
        results = []
        with WatchInv() as w:
            results.append(("direct", call(obj(flag).log_likelihood, *pa, **kw), w.undetected))
        with WatchInv() as w:
            results.append(("dispatch", call(build_base(case, flag).log_likelihood, **dispatch_kwargs(case, junk)),
                            w.undetected))
        if t in FLAG_TYPES:
            with WatchInv() as w:
                results.append(("normalized=%s" % (not flag), call(obj(not flag).log_likelihood, *pa, **kw),
                                w.undetected))
        obs["numpy_undetected"] = results[0][2]
        for nm, res_, undetected in results:
            if res_[0] == "ok" and res_[1] == -math.inf:
                continue
            got = "raised %s" % res_[1] if res_[0] == "err" else "returned the finite value %r" % res_[1]
            if undetected:
                fails.append(("singular-undetected-by-numpy:%s" % t,
                              "exactly singular covariance (%s) is not noticed by numpy.linalg.inv: the %s "
                              "call %s instead of returning -inf" % (how, nm, got)))
            elif res_[0] == "err":
                fails.append(("singular-raised-%s:%s(%s)" % (res_[1], t, how),
                              "singular covariance (%s): %s call raised %s instead of returning -inf"
                              % (how, nm, res_[1])))
            else:
                fails.append(("singular-not-neginf:%s(%s)" % (t, how),
                              "singular covariance (%s): %s call returned %r, not -inf" % (how, nm, res_[1])))
        return fails, obs

    # ---- valid stream
    for nm, res_ in (("direct", r), ("dispatch", rd)):
        if res_[0] == "err":
            fails.append(("%s:raised-%s" % (t, res_[1]), "%s call raised %s on valid input" % (nm, res_[1])))
    if fails:
        return fails, obs

    # (1) equals the independent reference density
    td_part = None
    if t == "DdtHistKin":
        td_part = float(np.asarray(hist_parts(case, flag).log_likelihood(case["args"]["ddt"])).reshape(-1)[0])
        obs["td_standalone"] = td_part
    ref = reference(case, flag, td_part)
    obs["ref"] = ref
    if t == "DdtHistKin":
        # joint = sum of its parts (stand-alone parts with the same settings and the same flag)
        kin_alone = call(build_direct(kin_only(case), flag).log_likelihood, *pa, **kw)
        parts = td_part + kin_alone[1] if kin_alone[0] == "ok" else float("nan")
        if not close(r[1], parts, TOL):
            fails.append(("DdtHistKin:joint!=sum-of-parts:normalized=%s" % flag,
                          "DdtHistKin(normalized=%s).log_likelihood = %r but DdtHistKDE(normalized=%s) + "
                          "KinLikelihood(normalized=%s) = %r" % (flag, r[1], flag, flag, parts)))
        # the kinematic factor against the reference (independent of the Ddt part's flag handling)
        kin_ref = reference(kin_only(case), flag)
        if kin_alone[0] != "ok" or not close(kin_alone[1], kin_ref, TOL):
            fails.append(("IFUKinCov:value!=reference", "kinematic part %r, reference %r" % (kin_alone, kin_ref)))
        if obs["td_captured"] is not None and not close(r[1], obs["td_captured"] + kin_alone[1], TOL):
            fails.append(("DdtHistKin:joint!=td+kin", "joint %r != captured Ddt part %r + kinematic part %r"
                          % (r[1], obs["td_captured"], kin_alone[1])))
    else:
        if not close(r[1], ref, TOL):
            fails.append(("%s:value!=reference" % t,
                          "%s.log_likelihood = %r, independent reference density = %r (normalized=%s)"
                          % (t, r[1], ref, flag)))
    if t == "DdtGaussKin":
        from hierarc.Likelihood.LensLikelihood.ddt_gauss_likelihood import DdtGaussianLikelihood
        k = case["ctor"]
        p1 = DdtGaussianLikelihood(k["z_lens"], k["z_source"], k["ddt_mean"], k["ddt_sigma"]).log_likelihood(case["args"]["ddt"])
        p2 = call(build_direct(kin_only(case), flag).log_likelihood, *pa, **kw)
        if p2[0] != "ok" or not close(r[1], float(p1) + p2[1], TOL_EXACT):
            fails.append(("DdtGaussKin:joint!=sum-of-parts", "joint %r, DdtGaussian %r + IFUKinCov %r" % (r[1], p1, p2)))

    # (2) dispatch = the type's own likelihood, independent of unconsumed arguments
    if not close(rd[1], r0[1], TOL_EXACT):
        fails.append(("dispatch:%s:!=direct" % t,
                      "LensLikelihoodBase.log_likelihood = %r, %s.log_likelihood = %r" % (rd[1], t, r0[1])))
    if rd2[0] != "ok" or not close(rd[1], rd2[1], TOL_EXACT):
        fails.append(("dispatch:%s:depends-on-unconsumed-argument" % t,
                      "two dispatch calls differing only in unconsumed arguments: %r vs %r" % (rd, rd2)))

    # (3) normalisation flag: removes exactly the constant, nothing else
    if t in ("IFUKinCov", "DdtGaussKin", "DSPL"):
        r_other = call(obj(not flag).log_likelihood, *pa, **kw)
        const = norm_constant(case)
        if r_other[0] != "ok":
            fails.append(("%s:raised-%s" % (t, r_other[1]), "normalized=%s raised" % (not flag)))
        else:
            v_norm, v_un = (r[1], r_other[1]) if flag else (r_other[1], r[1])
            if not close(v_un - v_norm, const, TOL, atol=TOL * max(1.0, abs(v_un), abs(v_norm))):
                fails.append(("%s:normalized-diff" % t,
                              "un-normalised - normalised = %r, required (n ln 2pi + ln det C)/2 = %r"
                              % (v_un - v_norm, const)))
    if t in ("Mag", "TDMag", "TDMagMagnitude"):
        # no flag on the class; the dispatch object built with the other flag must agree
        rb = call(build_base(case, not flag).log_likelihood, **dispatch_kwargs(case, junk))
        if rb[0] != "ok" or not close(rb[1], rd[1], TOL_EXACT):
            fails.append(("%s:flag-changes-value" % t, "normalized=%s: %r vs %r" % (not flag, rb, rd)))
    return fails, obs


# --------------------------------------------------------------------------- CosmoLikelihood flag
def cosmo_case(rng, nprng, nmax):
    t = rng.choice(["IFUKinCov", "IFUKinCov", "DdtGaussKin"])
    c = gen_case(rng, nprng, t, min(nmax, 4))
    # the lens includes the sampled systematic error, declines it, or does not say (documented default: False) — when
    # the systematic is sampled for the population, the fully normalised density is used for the lens in every case
    inc = rng.choice(["include", "include", "decline", "omitted"])
    if inc == "omitted":
        c["ctor"].pop("sigma_sys_error_include", None)
    else:
        c["ctor"]["sigma_sys_error_include"] = inc == "include"
    c["ctor"]["z_lens"] = rng.uniform(0.2, 0.8)
    c["ctor"]["z_source"] = c["ctor"]["z_lens"] + rng.uniform(0.5, 1.5)
    return {"lens": c, "sys": rng.random() < 0.7, "flag": rng.random() < 0.5,
            "args": [rng.uniform(55, 90), rng.uniform(0.15, 0.5), rng.uniform(0.0, 0.25)]}


def run_cosmo(cc):
    """returns dict(total, init_normalized, kin_calls=[(ddt, dd, ks, err, value)]) per flag"""
    from hierarc.Likelihood.cosmo_likelihood import CosmoLikelihood
    from hierarc.Likelihood.LensLikelihood.kin_likelihood import KinLikelihood
    from hierarc.Likelihood.LensLikelihood.base_lens_likelihood import LensLikelihoodBase
    lens = cc["lens"]
    kwargs_lens = dict(arr_ctor(lens["ctor"], lens), likelihood_type=lens["type"], num_distribution_draws=1)
    bounds = dict(kwargs_lower_cosmo={"h0": 10, "om": 0.05}, kwargs_upper_cosmo={"h0": 200, "om": 1})
    model = {}
    args = cc["args"][:2]
    if cc["sys"]:
        model["sigma_v_systematics"] = True
        bounds.update(kwargs_lower_kin={"sigma_v_sys_error": 0.0}, kwargs_upper_kin={"sigma_v_sys_error": 0.5})
        args = cc["args"][:3]
    out = {}
    o_ll, o_init = KinLikelihood.log_likelihood, LensLikelihoodBase.__init__
    for flag in (False, True):
        calls, inits = [], []

        def w_ll(self, *a, **k):
            v = o_ll(self, *a, **k)
            calls.append((a, k, v))
            return v

        def w_init(self, *a, **k):
            inits.append(k.get("normalized"))
            return o_init(self, *a, **k)
        KinLikelihood.log_likelihood = w_ll
        LensLikelihoodBase.__init__ = w_init
        try:
            cl = CosmoLikelihood([kwargs_lens], "FLCDM", dict(model), bounds, normalized=flag)
            with np.errstate(all="ignore"):
                tot = float(cl.likelihood(list(args)))
            out[flag] = {"total": tot, "init": inits[:], "calls": calls[:]}
        except Exception as e:  # noqa
            out[flag] = {"error": "%s: %s" % (type(e).__name__, e)}
        finally:
            KinLikelihood.log_likelihood = o_ll
            LensLikelihoodBase.__init__ = o_init
    return out


def oracle_cosmo(cc):
    fails = []
    out = run_cosmo(cc)
    lens = cc["lens"]
    for flag in (False, True):
        o = out[flag]
        if "error" in o:
            fails.append(("CosmoLikelihood:raised", "normalized=%s sys=%s: %s" % (flag, cc["sys"], o["error"])))
            continue
        want = True if cc["sys"] else flag
        if not o["calls"]:
            fails.append(("CosmoLikelihood:kin-not-evaluated", "no KinLikelihood.log_likelihood call observed"))
            continue
        a, k, v = o["calls"][-1]
        case = dict(lens)
        case["type"] = "IFUKinCov"
        case["ctor"] = kin_only(lens)["ctor"]
        ks = k.get("kin_scaling", a[2] if len(a) > 2 else None)
        case["args"] = {"ddt": float(a[0]), "dd": float(a[1]),
                        "kin_scaling": None if ks is None else np.asarray(ks, dtype=float).tolist(),
                        "sigma_v_sys_error": k.get("sigma_v_sys_error"),
                        "sigma_v_sys_offset": k.get("sigma_v_sys_offset")}
        if cc["sys"] and case["args"]["sigma_v_sys_error"] is None:
            fails.append(("CosmoLikelihood:sys-error-not-forwarded", "sampled sigma_v_sys_error did not reach KinLikelihood"))
        ref = reference(case, want)
        if not close(float(v), ref, TOL):
            fails.append(("CosmoLikelihood:sys-not-forcing-normalized" if cc["sys"] else "CosmoLikelihood:flag-not-respected",
                          "sigma_v_systematics=%s normalized=%s: kinematic likelihood %r, required %s density %r"
                          % (cc["sys"], flag, float(v), "fully normalised" if want else "un-normalised", ref)))
    if cc["sys"] and "total" in out[False] and "total" in out[True]:
        if not close(out[False]["total"], out[True]["total"], TOL_EXACT):
            fails.append(("CosmoLikelihood:sys-not-forcing-normalized",
                          "with a sampled systematic error the total differs with the flag: %r vs %r"
                          % (out[False]["total"], out[True]["total"])))
    return fails, out


# --------------------------------------------------------------------------- driver encoding
def opt(x):
    return None if x is None else f2b(x)


def lens_json(case, td_logl=None):
    t = case["type"]
    k = case["ctor"]
    j = {"type": t}
    if t == "DdtGaussian":
        j.update(mean=f2b(k["ddt_mean"]), sigma=f2b(k["ddt_sigma"]))
    elif t == "DdtLogNorm":
        j.update(mean=f2b(k["ddt_mu"]), sigma=f2b(k["ddt_sigma"]))
    elif t == "DdtDdGaussian":
        j.update(mean=f2b(k["ddt_mean"]), sigma=f2b(k["ddt_sigma"]), dd_mean=f2b(k["dd_mean"]), dd_sigma=f2b(k["dd_sigma"]))
    elif t == "DsDdsGaussian":
        j.update(z=f2b(k["z_lens"]), mean=f2b(k["ds_dds_mean"]), sigma=f2b(k["ds_dds_sigma"]))
    elif t in KIN_TYPES:
        j.update(z=f2b(k["z_lens"]), sigma_v=fl(k["sigma_v_measurement"]), j=fl(k["j_model"]),
                 cov_meas=fll(k["error_cov_measurement"]), cov_j=fll(k["error_cov_j_sqrt"]),
                 normalized=bool(case["normalized"]), sys_include=bool(k.get("sigma_sys_error_include", False)))
        if t == "DdtGaussKin":
            j.update(ddt_mean=f2b(k["ddt_mean"]), ddt_sigma=f2b(k["ddt_sigma"]))
        if t == "DdtHistKin":
            j.update(td_logl=f2b(td_logl))
    elif t == "Mag":
        j.update(amp=fl(k["amp_measured"]), cov_amp=fll(k["cov_amp_measured"]), mag_model=fl(k["magnification_model"]),
                 cov_model=fll(k["cov_magnification_model"]), zero_point=f2b(k["magnitude_zero_point"]))
    elif t in ("TDMag", "TDMagMagnitude"):
        amp_key = "amp_measured" if t == "TDMag" else "magnitude_measured"
        cov_key = "cov_amp_measured" if t == "TDMag" else "cov_magnitude_measured"
        j.update(td=fl(k["time_delay_measured"]), cov_td=fll(k["cov_td_measured"]), amp=fl(k[amp_key]),
                 cov_amp=fll(k[cov_key]), fermat=fl(k["fermat_diff"]), mag_model=fl(k["magnification_model"]),
                 cov_model=fll(k["cov_model"]), fermat_unit=f2b(FERMAT_UNIT))
        if t == "TDMag":
            j.update(zero_point=f2b(k["magnitude_zero_point"]))
    elif t == "DSPL":
        j.update(normalized=bool(case["normalized"]), beta=f2b(k["beta_dspl"]), sigma=f2b(k["sigma_beta_dspl"]))
    return j


def args_json(case, with_off=True):
    a = case["args"]
    n = case["meta"]["n"]
    j = {}
    for src, dst in (("ddt", "ddt"), ("dd", "dd"), ("beta_dsp", "beta_dsp"), ("mu_intrinsic", "mu"),
                     ("gamma_pl", "gamma_pl"), ("lambda_mst", "lambda_mst")):
        if a.get(src) is not None:
            j[dst] = f2b(a[src])
    ks = a.get("kin_scaling")
    if ks is not None:
        if case["type"] in KIN_TYPES and len(ks) == 1 and n > 1:
            ks = list(ks) * n        # numpy broadcasting of a length-1 array
        j["ks"] = fl(ks)
    j["err"] = opt(a.get("sigma_v_sys_error"))
    j["off"] = opt(a.get("sigma_v_sys_offset")) if with_off else None
    return j


def impl_pieces(case):
    """(delta, cov) through the public methods of the kinematic classes, for the correspondence"""
    o = build_direct(case, case["normalized"])
    a = case["args"]
    ks = 1 if a["kin_scaling"] is None else np.array(a["kin_scaling"], dtype=float)
    mean, cov_m = o.sigma_v_measurement(sigma_v_sys_error=a["sigma_v_sys_error"],
                                        sigma_v_sys_offset=a.get("sigma_v_sys_offset"))
    pred, cov_p = o.sigma_v_prediction(a["ddt"], a["dd"], ks)
    n = case["meta"]["n"]
    return (np.asarray(mean) - np.asarray(pred)).tolist(), (np.asarray(cov_m) + np.asarray(cov_p) * np.ones((n, n))).tolist()


def same_result(impl, out):
    """impl = ('ok', v) | ('err', enum);  out = driver reply"""
    if impl[0] == "err" or "err" in out:
        return impl[0] == "err" and out.get("err") == impl[1]
    return close(impl[1], b2f(out["ok"]["ll"]), TOL)


# --------------------------------------------------------------------------- run
def sig_of(case):
    m = case["meta"]
    a = case["args"]
    return (case["type"], m.get("n"), m.get("ntd"), case["normalized"],
            case["ctor"].get("sigma_sys_error_include"), m.get("ks"),
            a.get("sigma_v_sys_error") is not None, a.get("sigma_v_sys_offset") is not None,
            m.get("model_cov"), case["stream"], m.get("singular"))


def nontrivial(case, obs):
    if case["stream"] != "valid" or obs.get("direct", ("err",))[0] != "ok":
        return case["stream"] == "singular"
    return obs["direct"][1] != 0.0


def clean(case):
    """JSON-able replay input"""
    return {"kind": "lens", "case": case}


def run(ctx, res):
    rng = ctx.rng
    nprng = np.random.default_rng(ctx.np_seed())
    per_type = ctx.n(150, 3000)
    nmax = 6 if ctx.tier == "quick" else 12
    n_sing = ctx.n(12, 150)
    cases = corner_cases()
    n_corner = len(cases)
    for t in ALL_TYPES:
        for _ in range(per_type):
            cases.append(gen_case(rng, nprng, t, nmax))
    for t in MATRIX_TYPES:
        for _ in range(n_sing):
            cases.append(make_singular(rng, nprng, t, nmax))
        for _ in range(ctx.n(10, 120)):
            v = int_variant(gen_case(rng, nprng, t, nmax), rng, nprng)
            if v is not None:
                cases.append(v)
    for _ in range(ctx.n(10, 100)):
        cases.append(make_indefinite(rng, nprng, nmax))
    for t in ("IFUKinCov", "DdtGaussKin"):
        for _ in range(ctx.n(1, 4)):
            cases.append(gen_kin_large(rng, nprng, t))

    observations = []
    for c in cases:
        fails, obs = oracle(c, rng)
        observations.append(obs)
        res.evaluations += 1
        res.count("type=" + c["type"])
        res.count("stream=" + c["stream"])
        res.count("dim=%s" % ("1" if c["meta"]["n"] == 1 else "2-3" if c["meta"]["n"] <= 3 else "4-6" if c["meta"]["n"] <= 6 else "7-12" if c["meta"]["n"] <= 12 else "125-170"))
        if c["type"] in FLAG_TYPES:
            res.count("normalized=%s" % c["normalized"])
        if c["type"] in KIN_TYPES:
            res.count("kin_scaling=" + c["meta"]["ks"])
            res.count("sys_error=%s,include=%s" % (c["args"]["sigma_v_sys_error"] is not None,
                                                    c["ctor"]["sigma_sys_error_include"]))
        if "model_cov" in c["meta"]:
            res.count("model_cov=" + c["meta"]["model_cov"])
        r = obs.get("direct")
        if r:
            res.count("result=" + (fclass(r[1]) if r[0] == "ok" else "err:" + r[1]))
        if nontrivial(c, obs):
            res.signatures.add(sig_of(c))
        for sg, what in fails:
            res.violation(sg, what, clean(c))
    for i in (n_corner, n_corner + per_type * 4 + 1, n_corner + per_type * 8 + 2):
        c = cases[i]
        res.sample({"type": c["type"], "normalized": c["normalized"], "meta": c["meta"], "args": c["args"],
                    "implementation": observations[i].get("direct"), "reference": observations[i].get("ref")})

    # CosmoLikelihood: sigma_v_systematics forces the normalised density
    ccs = [cosmo_case(rng, nprng, nmax) for _ in range(ctx.n(24, 300))]
    cosmo_out = []
    for cc in ccs:
        fails, out = oracle_cosmo(cc)
        cosmo_out.append(out)
        res.evaluations += 1
        res.count("cosmo: sys=%s flag=%s" % (cc["sys"], cc["flag"]))
        res.signatures.add(("CosmoLikelihood", cc["lens"]["type"], cc["sys"], cc["lens"]["meta"]["n"]))
        for sg, what in fails:
            res.violation(sg, what, {"kind": "cosmo", "case": cc})
    if ctx.search_mode:
        return

    # ---------------- correspondence: the model's own definitions at Float vs the implementation
    reqs, index = [], []
    for i, (c, obs) in enumerate(zip(cases, observations)):
        if "direct" not in obs or c.get("large"):
            continue       # (large data vectors: oracle only; the model's exact elimination at Float runs on the small ones)
        td = obs.get("td_captured")
        if c["type"] == "DdtHistKin" and td is None:
            td = obs.get("td_standalone", float("nan"))
        reqs.append({"op": "C06.eval", "lens": lens_json(c, td), "args": args_json(c, True), "via": "direct"})
        index.append((i, "direct"))
        reqs.append({"op": "C06.eval", "lens": lens_json(c, td), "args": args_json(c, False), "via": "dispatch"})
        index.append((i, "dispatch"))
    # numpy.linalg vs the driver's linear algebra, on the generated covariances
    la_cases = []
    for c in cases:
        if c["type"] in MATRIX_TYPES and c["stream"] == "valid" and len(la_cases) < ctx.n(60, 600):
            la_cases.append(np.array(matrix_pieces(c)[2]))
    for m in la_cases:
        reqs.append({"op": "C06.linalg", "m": fll(m.tolist())})
        index.append((None, "linalg"))
    for sys_ in (False, True):
        for flag in (False, True):
            reqs.append({"op": "C06.normalized", "sys": sys_, "normalized": flag})
            index.append(((sys_, flag), "normalized"))
    outs = run_driver(reqs)
    li = 0
    for (i, kind), o in zip(index, outs):
        if kind in ("direct", "dispatch"):
            c, obs = cases[i], observations[i]
            impl = obs["direct"] if kind == "direct" else obs["dispatch"]
            if c["stream"] == "singular" and obs.get("numpy_undetected", False):
                # the engine (numpy.linalg.inv) did not report this singular matrix; the model's
                # `inv` parameter is the engine's behaviour, which the Float Gauss-Jordan does not mimic
                res.count("singular undetected by numpy (correspondence skipped)")
                continue
            res.traces += 1
            if not same_result(impl, o):
                res.disagree("%s %s: implementation %r, model %r" %
                             (c["type"], kind, impl, o.get("err") or b2f(o["ok"]["ll"])), clean(c))
                continue
            if kind == "direct" and c["type"] in KIN_TYPES[:1] and "ok" in o and c["stream"] != "indefinite":
                try:
                    d_i, c_i = impl_pieces(c)
                except Exception as e:  # noqa
                    res.disagree("public sigma_v_measurement/sigma_v_prediction raised %r" % e, clean(c))
                    continue
                if not close_list(d_i, unfl(o["ok"]["delta"]), TOL):
                    res.disagree("IFUKinCov residual differs (sigma_v_measurement - sigma_v_prediction)", clean(c))
                scale = max(1.0, float(np.max(np.abs(c_i))))
                if not close_mat(c_i, unfll(o["ok"]["cov"]), TOL, atol=TOL * scale):
                    res.disagree("IFUKinCov total covariance differs", clean(c))
        elif kind == "linalg":
            m = la_cases[li]
            li += 1
            res.traces += 1
            sgn, ld = np.linalg.slogdet(m)
            if "ok" not in o or o["ok"]["inv"] is None:
                res.disagree("driver inv failed on a PD matrix", {"m": m.tolist()})
                continue
            inv_d = np.array(unfll(o["ok"]["inv"]))
            inv_n = np.linalg.inv(m)
            if not np.allclose(inv_d, inv_n, rtol=1e-7, atol=1e-9 * np.max(np.abs(inv_n))) \
                    or int(o["ok"]["sign"]) != int(sgn) or not close(b2f(o["ok"]["lndet"]), ld, 1e-9):
                res.disagree("driver linear algebra differs from numpy.linalg", {"m": m.tolist()})
        else:
            sys_, flag = i
            res.traces += 1
            want = o.get("ok", {}).get("normalized")
            seen = [out[flag]["init"] for cc, out in zip(ccs, cosmo_out)
                    if cc["sys"] == sys_ and flag in out and "init" in out[flag]]
            for s in seen:
                if not s or any(x is not want for x in s):
                    res.disagree("normalized reaching LensLikelihoodBase.__init__: %r, model %r (sys=%s flag=%s)"
                                 % (s, want, sys_, flag), {"sys": sys_, "flag": flag})
                    break


def replay(ctx, data):
    inp = data["input"]
    if inp.get("kind") == "cosmo":
        fails, _ = oracle_cosmo(inp["case"])
    else:
        fails, _ = oracle(inp["case"])
    want = data.get("signature")
    hit = [f for f in fails if want is None or f[0] == want] or fails
    return bool(hit), "oracle on the implementation: %s" % ([f[1] for f in hit] or "holds")


LEVEL_TEXT = ("Lean 4 theorems over ℝ for a carrier-polymorphic model of the eleven data likelihoods and of "
              "LensLikelihoodBase.log_likelihood, in any dimension: (i) model = reference density — the "
              "multivariate-normal log-density -½δᵀC⁻¹δ - ½(n ln 2π + ln det C) (Mathlib Matrix inverse / "
              "determinant; anchored to Mathlib's gaussianPDFReal in dimension one and for diagonal "
              "covariances) for IFUKinCov (σ_model = c√(J·Ds/Dds·k), C = M + (σs)(σs)ᵀ + (Ds/Dds·c²)·"
              "diag√k E diag√k), Mag, TDMag, TDMagMagnitude (block data covariance + diag(s)C_modelᵀdiag(s)), "
              "and log gaussianPDFReal (+ documented prefactor) for DdtGaussian, DdtLogNorm, DdtDdGaussian, "
              "DsDdsGaussian, DSPL; (ii) normalised - un-normalised = -(n ln 2π + ln det C)/2 exactly "
              "(DSPL: -½ ln 2πσ²), for any numpy.linalg behaviour with a successful inverse; (iii) "
              "DdtGaussKin / DdtHistKin = Ddt part + kinematic part; (iv) inv failing ⇒ -inf for every "
              "matrix type and any linalg (det C = 0 over ℝ); (v) the total kinematic / magnification / "
              "time-delay covariance is positive definite for PD measurement and PSD model covariance, hence "
              "no -inf and no ValueError on the property's domain; (vi) sigma_v_systematics forces "
              "normalized=True and the kinematic likelihood then is the fully normalised density; (vii) the "
              "dispatch depends only on the arguments the type consumes.  The model is tied to the code by "
              "differential execution of the same definitions at Float (values, residual and covariance of "
              "IFUKinCov through the public methods, error classes, -inf), and the property statement itself "
              "is evaluated on the real classes against scipy.stats references for every generated case")
LEVEL_NOTE = ("trusted: Lean kernel + Mathlib; hand model of the numpy code (validated by correspondence, tol "
              "1e-8); numpy.linalg.inv/slogdet as a model parameter (real instance: Mathlib inverse/det; Float "
              "instance: Gauss-Jordan, compared with numpy each run); IEEE rounding and near-singular but "
              "invertible covariances are outside the ℝ theorems; the KDE factor of DdtHistKin is an external "
              "value (C12); the n-dimensional reference is the explicit formula (Mathlib has no density "
              "theorem for multivariateGaussian); DdtDdKDE cannot be constructed here; theorems need "
              "σ ≠ 0, Ddt > 0 (log-normal), PD measurement and PSD model covariances")
TECHNIQUE = ("Lean 4 proof (Mathlib Matrix.PosDef / det / inverse, induction over dimension for the bridges, "
             "field arithmetic) + model/implementation correspondence + independent scipy reference oracle")
