/-
  The power-law slope a lens realises (`draw_lens`): its own entry of the slope list, the global slope (delta function or
  Gaussian), or none (the evaluation then uses the isothermal default 2).  Used by C03 (`lens_slope`).
-/
import HierArc.Proofs.Lens

namespace HierArc.Lens
open HierArc

/-- the slope the lens is evaluated at, as the configuration and the hyper-parameters determine it -/
def SlopeOK (mk : ℝ → ℝ → ℝ → ℝ) (cfg : LensDist ℝ) (kw : Dict ℝ) (gpl : Option (List ℝ)) (g : ℝ) : Prop :=
  match cfg.gammaPlIndex with
  | some i => ∃ l, gpl = some l ∧ l[i]? = some g
  | none =>
    if cfg.gammaPlGlobalSampling then
      (if cfg.gammaPlGlobalGauss then
        ∃ x, g = mk (getD kw "gamma_pl_mean" 2.0) (getD kw "gamma_pl_sigma" 0.0) x
       else g = getD kw "gamma_pl_mean" 2.0)
    else g = 2

theorem gammaInStep_shape {mk : ℝ → ℝ → ℝ → ℝ} {cfg : LensDist ℝ} {kw : Dict ℝ} {s s' : St ℝ} {e : Dict ℝ}
    (h : gammaInStep mk cfg kw s = .ok (some e, s')) : e = [] ∨ ∃ v, e = [("gamma_in", v)] := by
  unfold gammaInStep at h
  dsimp only at h
  by_cases hs : cfg.gammaInSampling = true
  · rw [if_pos hs] at h
    by_cases ho : outside (getD kw "gamma_in" 1.0) cfg.gammaInMin cfg.gammaInMax = true
    · rw [if_pos ho] at h; exact (errM_ok h).elim
    · rw [if_neg ho] at h
      obtain ⟨d, s1, _, h⟩ := bindM_ok h
      by_cases hd : outside d cfg.gammaInMin cfg.gammaInMax = true
      · rw [if_pos hd] at h; have := (pureM_ok h).1; simp at this
      · rw [if_neg hd] at h
        have := (pureM_ok h).1
        simp only [Option.some.injEq] at this
        exact Or.inr ⟨d, this⟩
  · rw [if_neg hs] at h
    have := (pureM_ok h).1
    simp only [Option.some.injEq] at this
    exact Or.inl this

theorem m2lStep_shape {mk : ℝ → ℝ → ℝ → ℝ} {cfg : LensDist ℝ} {kw : Dict ℝ} {s s' : St ℝ} {e : Dict ℝ}
    (h : m2lStep mk cfg kw s = .ok (some e, s')) : e = [] ∨ ∃ v, e = [("log_m2l", v)] := by
  unfold m2lStep at h
  dsimp only at h
  by_cases hs : cfg.logM2lSampling = true
  · rw [if_pos hs] at h
    by_cases ho : outside (getD kw "log_m2l" 1.0) cfg.m2lMin cfg.m2lMax = true
    · rw [if_pos ho] at h; exact (errM_ok h).elim
    · rw [if_neg ho] at h
      obtain ⟨d, s1, _, h⟩ := bindM_ok h
      by_cases hd : outside d cfg.m2lMin cfg.m2lMax = true
      · rw [if_pos hd] at h; have := (pureM_ok h).1; simp at this
      · rw [if_neg hd] at h
        have := (pureM_ok h).1
        simp only [Option.some.injEq] at this
        exact Or.inr ⟨d, this⟩
  · rw [if_neg hs] at h
    have := (pureM_ok h).1
    simp only [Option.some.injEq] at this
    exact Or.inl this

theorem gammaPlStep_spec {mk : ℝ → ℝ → ℝ → ℝ} {cfg : LensDist ℝ} {kw : Dict ℝ} {gpl : Option (List ℝ)}
    {s s' : St ℝ} {gp : Dict ℝ} (h : gammaPlStep mk cfg kw gpl s = .ok (gp, s')) :
    SlopeOK mk cfg kw gpl (getD gp "gamma_pl" 2.0) ∧ (gp = [] ∨ ∃ g, gp = [("gamma_pl", g)]) := by
  unfold gammaPlStep at h
  unfold SlopeOK
  cases hi : cfg.gammaPlIndex with
  | some i =>
    simp only [hi] at h ⊢
    cases gpl with
    | none => exact (errM_ok h).elim
    | some l =>
      simp only at h
      cases hl : l[i]? with
      | none => simp only [hl] at h; exact (errM_ok h).elim
      | some g =>
        simp only [hl] at h
        have := (pureM_ok h).1
        subst this
        exact ⟨⟨l, rfl, by simp [getD, Dict.get?, hl]⟩, Or.inr ⟨g, rfl⟩⟩
  | none =>
    simp only [hi] at h ⊢
    cases hg : cfg.gammaPlGlobalSampling with
    | false =>
      simp only [hg] at h ⊢
      have := (pureM_ok h).1
      subst this
      exact ⟨by simp [getD, Dict.get?, lit_two], Or.inl rfl⟩
    | true =>
      simp only [hg, if_true] at h ⊢
      cases hgg : cfg.gammaPlGlobalGauss with
      | false =>
        simp only [hgg] at h ⊢
        have := (pureM_ok h).1
        subst this
        exact ⟨by simp [getD, Dict.get?], Or.inr ⟨_, rfl⟩⟩
      | true =>
        simp only [hgg, if_true] at h ⊢
        obtain ⟨g, s1, h1, h⟩ := bindM_ok h
        obtain ⟨x, hx⟩ := normal_ok h1
        have := (pureM_ok h).1
        subst this
        exact ⟨⟨x, by simp [getD, Dict.get?, hx]⟩, Or.inr ⟨_, rfl⟩⟩

theorem lensAttempt_slope {mk : ℝ → ℝ → ℝ → ℝ} {cfg : LensDist ℝ} {kw : Dict ℝ}
    {gpl : Option (List ℝ)} {s s' : St ℝ} {d : Dict ℝ}
    (h : lensAttempt mk cfg kw gpl s = .ok (some d, s')) :
    SlopeOK mk cfg kw gpl (getD d "gamma_pl" 2.0) := by
  unfold lensAttempt at h
  obtain ⟨lam, s1, _, h⟩ := bindM_ok h
  obtain ⟨gi, s2, hgi, h⟩ := bindM_ok h
  cases gi with
  | none => simp only [pureM] at h; simp at h
  | some giE =>
    simp only at h
    obtain ⟨ml, s3, hml, h⟩ := bindM_ok h
    cases ml with
    | none => simp only [pureM] at h; simp at h
    | some mlE =>
      simp only at h
      obtain ⟨gp, s4, hgp, h⟩ := bindM_ok h
      have hd := (pureM_ok h).1
      simp only [Option.some.injEq] at hd
      obtain ⟨hok, hshape⟩ := gammaPlStep_spec hgp
      have key : getD d "gamma_pl" 2.0 = getD gp "gamma_pl" 2.0 := by
        rw [hd]
        rcases gammaInStep_shape hgi with rfl | ⟨v, rfl⟩ <;> rcases m2lStep_shape hml with rfl | ⟨w, rfl⟩ <;>
          simp [getD, Dict.get?]
      rw [key]; exact hok

/-- the dictionary `draw_lens` returns carries the slope the configuration determines (default 2 when the lens has
    none) — whatever was re-drawn on the way -/
theorem drawLens_slope {mk : ℝ → ℝ → ℝ → ℝ} {cfg : LensDist ℝ} {kw : Dict ℝ}
    {gpl : Option (List ℝ)} (fuel : ℕ) {s s' : St ℝ} {d : Dict ℝ}
    (h : drawLens mk cfg kw gpl fuel s = .ok (d, s')) :
    SlopeOK mk cfg kw gpl (getD d "gamma_pl" 2.0) := by
  induction fuel generalizing s with
  | zero => simp [drawLens] at h
  | succ n ih =>
    unfold drawLens at h
    split at h
    · simp at h
    · rename_i d' s1 ha
      simp only [Except.ok.injEq, Prod.mk.injEq] at h
      obtain ⟨rfl, rfl⟩ := h
      exact lensAttempt_slope ha
    · exact ih h

end HierArc.Lens
