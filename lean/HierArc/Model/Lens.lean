/-
  HierArc.Model.Lens — the per-lens evaluation pipeline
    hierarc/Likelihood/transformed_cosmography.py   (displace_prediction)
    hierarc/Sampling/Distributions/lens_distribution.py      (draw_lens)
    hierarc/Sampling/Distributions/anisotropy_distributions.py (draw_anisotropy)
    hierarc/Sampling/Distributions/los_distributions.py      (draw_los / draw_bool, global part)
    hierarc/Likelihood/prior_likelihood.py
    hierarc/Likelihood/hierarchy_likelihood.py  (log_likelihood_single, check_dist,
                                                 hyper_param_likelihood, draw_source)
    hierarc/Likelihood/LensLikelihood/base_lens_likelihood.py (dispatch; table generated)

  External engines are parameters: the random generator (`mk loc scale x`: how a stream element
  `x` becomes the result of `np.random.normal(loc, scale)`), the kinematic scaling
  (`kin_scaling(kwargs_param)`), non-Gaussian LOS draws, and the per-type data likelihood `D`.
  Mathlib-free; shared by C03, C04, C07, C14, C19, C20.
-/
import HierArc.Model.Basic
namespace HierArc.Lens
open HierArc

inductive LType
  | DdtGaussian | DdtDdKDE | DdtDdGaussian | DsDdsGaussian | DdtLogNorm | IFUKinCov | DdtHist
  | DdtHistKDE | DdtHistKin | DdtGaussKin | Mag | TDMag | TDMagMagnitude | DSPL
  deriving DecidableEq, Repr

def LType.all : List LType :=
  [.DdtGaussian, .DdtDdKDE, .DdtDdGaussian, .DsDdsGaussian, .DdtLogNorm, .IFUKinCov, .DdtHist,
   .DdtHistKDE, .DdtHistKin, .DdtGaussKin, .Mag, .TDMag, .TDMagMagnitude, .DSPL]

def LType.name : LType → String
  | .DdtGaussian => "DdtGaussian" | .DdtDdKDE => "DdtDdKDE" | .DdtDdGaussian => "DdtDdGaussian"
  | .DsDdsGaussian => "DsDdsGaussian" | .DdtLogNorm => "DdtLogNorm" | .IFUKinCov => "IFUKinCov"
  | .DdtHist => "DdtHist" | .DdtHistKDE => "DdtHistKDE" | .DdtHistKin => "DdtHistKin"
  | .DdtGaussKin => "DdtGaussKin" | .Mag => "Mag" | .TDMag => "TDMag"
  | .TDMagMagnitude => "TDMagMagnitude" | .DSPL => "DSPL"

def LType.ofName (s : String) : Option LType := LType.all.find? (·.name = s)

section
variable {α : Type} [Add α] [Sub α] [Mul α] [Div α] [Neg α] [LT α] [LE α] [DecidableLT α]
  [DecidableLE α] [OfScientific α] [Trans α]

/-! ### transformed cosmography -/

/-- `np.maximum(x, y)` for non-NaN `y` -/
def maxF (x y : α) : α := if x ≤ y then y else x

/-- `_displace_ppn` -/
def displacePPN (ddt dd gammaPpn : α) : α × α := (ddt, dd * (1.0 + gammaPpn) / 2.0)

/-- `lambda_tot = max(lambda_mst * (1 - kappa_ext), 0.0001)` -/
def lambdaTot (lam kappa : α) : α := maxF (lam * (1.0 - kappa)) 0.0001

/-- `_displace_lambda_mst` (`dd_ = dd`: the ratio `sigma_v2_scaling / lambda_mst` is identically one and is no longer evaluated, repo fix for F15) -/
def displaceMST (ddt dd lam kappa mag : α) : α × α × α :=
  let lt := lambdaTot lam kappa
  (ddt * lt, dd, mag + 5.0 * Trans.log10 lt)

/-- `displace_prediction` -/
def displace (ddt dd gammaPpn lam kappa mag : α) : α × α × α :=
  let p := displacePPN ddt dd gammaPpn
  displaceMST p.1 p.2 lam kappa mag

/-! ### random draws: explicit stream -/

/-- generator state: remaining stream, requests `(loc, scale)` made so far (latest first) -/
structure St (α : Type) where
  stream : List α
  reqs : List (α × α) := []

abbrev M (α β : Type) := St α → Except String (β × St α)

/-- `np.random.normal(loc, scale)` -/
def normal (mk : α → α → α → α) (loc scale : α) : M α α := fun s =>
  match s.stream with
  | [] => .error "StreamEnd"
  | x :: t => .ok (mk loc scale x, { stream := t, reqs := (loc, scale) :: s.reqs })

def bindM {β γ : Type} (m : M α β) (f : β → M α γ) : M α γ := fun s =>
  match m s with
  | .error e => .error e
  | .ok (b, s') => f b s'

def pureM {β : Type} (b : β) : M α β := fun s => .ok (b, s)
def errM {β : Type} (e : String) : M α β := fun _ => .error e

def getD (d : Dict α) (k : String) (dflt : α) : α := (Dict.get? d k).getD dflt

/-- bounds of an interpolation axis; `none` = ∓∞ (no axis) -/
def outside (x : α) (lo hi : Option α) : Bool :=
  (match lo with | some l => decide (x < l) | none => false) ||
  (match hi with | some h => decide (h < x) | none => false)

/-- static part of `LensDistribution` -/
structure LensDist (α : Type) where
  lambdaSampling : Bool := false      -- lambda_mst_distribution in ["GAUSSIAN"]
  mstIfu : Bool := false
  prop : α
  propBeta : α
  gammaInSampling : Bool := false
  gammaInGauss : Bool := false        -- gamma_in_distribution in ["GAUSSIAN"]
  logM2lSampling : Bool := false
  gammaInMin : Option α := none
  gammaInMax : Option α := none
  m2lMin : Option α := none
  m2lMax : Option α := none
  gammaPlIndex : Option Nat := none
  gammaPlGlobalSampling : Bool := false
  gammaPlGlobalGauss : Bool := false

/-- the lens' own mean lambda: population lambda (IFU one when flagged) + alpha·x + beta·y -/
def lambdaLens (cfg : LensDist α) (kw : Dict α) : α :=
  (if cfg.mstIfu then getD kw "lambda_ifu" 1.0 else getD kw "lambda_mst" 1.0)
    + getD kw "alpha_lambda" 0.0 * cfg.prop + getD kw "beta_lambda" 0.0 * cfg.propBeta

def lambdaSigma (cfg : LensDist α) (kw : Dict α) : α :=
  if cfg.mstIfu then getD kw "lambda_ifu_sigma" 0.0 else getD kw "lambda_mst_sigma" 0.0

/-- one pass of `LensDistribution.draw_lens`: `none` = a draw fell outside its interpolation range
    (python then restarts the whole draw); errors: "ValueError" (mean outside the interpolation
    range), "IndexError" (gamma_pl_list too short), "TypeError" (gamma_pl_list missing) -/
def gammaInStep (mk : α → α → α → α) (cfg : LensDist α) (kw : Dict α) : M α (Option (Dict α)) :=
  if cfg.gammaInSampling then
    let gi := getD kw "gamma_in" 1.0
    if outside gi cfg.gammaInMin cfg.gammaInMax then errM "ValueError"
    else
      let giLens := if cfg.gammaInGauss then gi + getD kw "alpha_gamma_in" 0.0 * cfg.prop else gi
      bindM (normal mk giLens (getD kw "gamma_in_sigma" 0.0)) fun d =>
        if outside d cfg.gammaInMin cfg.gammaInMax then pureM none
        else pureM (some [("gamma_in", d)])
  else pureM (some [])

def m2lStep (mk : α → α → α → α) (cfg : LensDist α) (kw : Dict α) : M α (Option (Dict α)) :=
  if cfg.logM2lSampling then
    let m := getD kw "log_m2l" 1.0
    if outside m cfg.m2lMin cfg.m2lMax then errM "ValueError"
    else
      let mLens := m + getD kw "alpha_log_m2l" 0.0 * cfg.prop
      bindM (normal mk mLens (getD kw "log_m2l_sigma" 0.0)) fun d =>
        if outside d cfg.m2lMin cfg.m2lMax then pureM none
        else pureM (some [("log_m2l", d)])
  else pureM (some [])

def gammaPlStep (mk : α → α → α → α) (cfg : LensDist α) (kw : Dict α) (gpl : Option (List α)) :
    M α (Dict α) :=
  match cfg.gammaPlIndex with
  | some i =>
    match gpl with
    | none => errM "TypeError"
    | some l =>
      match l[i]? with
      | some g => pureM [("gamma_pl", g)]
      | none => errM "IndexError"
  | none =>
    if cfg.gammaPlGlobalSampling then
      if cfg.gammaPlGlobalGauss then
        bindM (normal mk (getD kw "gamma_pl_mean" 2.0) (getD kw "gamma_pl_sigma" 0.0)) fun g =>
          pureM [("gamma_pl", g)]
      else pureM [("gamma_pl", getD kw "gamma_pl_mean" 2.0)]
    else pureM []

def lensAttempt (mk : α → α → α → α) (cfg : LensDist α) (kw : Dict α) (gpl : Option (List α)) :
    M α (Option (Dict α)) :=
  bindM (if cfg.lambdaSampling then normal mk (lambdaLens cfg kw) (lambdaSigma cfg kw)
         else pureM (lambdaLens cfg kw)) fun lam =>
  bindM (gammaInStep mk cfg kw) fun gi =>
    match gi with
    | none => pureM none
    | some giE =>
      bindM (m2lStep mk cfg kw) fun ml =>
        match ml with
        | none => pureM none
        | some mlE =>
          bindM (gammaPlStep mk cfg kw gpl) fun gp =>
            pureM (some ([("lambda_mst", lam), ("gamma_ppn", getD kw "gamma_ppn" 1.0)] ++ giE ++ mlE ++ gp))

/-- `LensDistribution.draw_lens`: repeat `lensAttempt` until every draw is inside its range;
    `fuel` bounds the recursion depth ("Recursion" = python's RecursionError) -/
def drawLens (mk : α → α → α → α) (cfg : LensDist α) (kw : Dict α) (gpl : Option (List α)) :
    Nat → M α (Dict α)
  | 0, _ => .error "Recursion"
  | fuel + 1, s =>
    match lensAttempt mk cfg kw gpl s with
    | .error e => .error e
    | .ok (some d, s') => .ok (d, s')
    | .ok (none, s') => drawLens mk cfg kw gpl fuel s'

/-- static part of `AnisotropyDistribution` -/
structure AnisoDist (α : Type) where
  sampling : Bool := false
  model : String := "NONE"           -- "OM" | "GOM" | "const" | "NONE"
  distribution : String := "NONE"    -- "GAUSSIAN" | "GAUSSIAN_SCALED" | "NONE" | "GAUSSIAN_TAN_RAD"
  aMin : Option α := none
  aMax : Option α := none
  bMin : Option α := none
  bMax : Option α := none

/-- one pass of `AnisotropyDistribution.draw_anisotropy(**kwargs_kin)` (sampling on); missing
    `a_ani`/`beta_inf` is `None` in python: comparison with a bound raises TypeError -/
def aAniStep (mk : α → α → α → α) (cfg : AnisoDist α) (kw : Dict α) : M α (Option (Dict α)) :=
  if cfg.model = "OM" ∨ cfg.model = "const" ∨ cfg.model = "GOM" then
    match Dict.get? kw "a_ani" with
    | none => errM "TypeError"
    | some a =>
      if outside a cfg.aMin cfg.aMax then errM "ValueError"
      else if cfg.distribution = "GAUSSIAN" ∨ cfg.distribution = "GAUSSIAN_SCALED"
          ∨ cfg.distribution = "GAUSSIAN_TAN_RAD" then
        let sg := getD kw "a_ani_sigma" 0.0
        bindM (if cfg.distribution = "GAUSSIAN" then normal mk a sg
               else if cfg.distribution = "GAUSSIAN_SCALED" then normal mk a (sg * a)
               else bindM (normal mk a sg) fun x => pureM (1.0 - x * x)) fun d =>
          if outside d cfg.aMin cfg.aMax then pureM none else pureM (some [("a_ani", d)])
      else pureM (some [("a_ani", a)])
  else pureM (some [])

def betaInfStep (mk : α → α → α → α) (cfg : AnisoDist α) (kw : Dict α) : M α (Option (Dict α)) :=
  if cfg.model = "GOM" then
    match Dict.get? kw "beta_inf" with
    | none => errM "TypeError"
    | some b =>
      if outside b cfg.bMin cfg.bMax then errM "ValueError"
      else
        bindM (if cfg.distribution = "GAUSSIAN" ∨ cfg.distribution = "GAUSSIAN_SCALED" then
                 normal mk b (getD kw "beta_inf_sigma" 0.0)
               else pureM b) fun d =>
          if outside d cfg.bMin cfg.bMax then pureM none else pureM (some [("beta_inf", d)])
  else pureM (some [])

def anisoAttempt (mk : α → α → α → α) (cfg : AnisoDist α) (kw : Dict α) : M α (Option (Dict α)) :=
  bindM (aAniStep mk cfg kw) fun a =>
    match a with
    | none => pureM none
    | some aE =>
      bindM (betaInfStep mk cfg kw) fun b =>
        match b with
        | none => pureM none
        | some bE => pureM (some (aE ++ bE))

def drawAniso (mk : α → α → α → α) (cfg : AnisoDist α) (kw : Dict α) : Nat → M α (Dict α)
  | 0, _ => .error "Recursion"
  | fuel + 1, s =>
    if !cfg.sampling then
      .ok ((match Dict.get? kw "a_ani" with | some a => [("a_ani", a)] | none => []) ++
           (match Dict.get? kw "beta_inf" with | some b => [("beta_inf", b)] | none => []), s)
    else
      match anisoAttempt mk cfg kw s with
      | .error e => .error e
      | .ok (some d, s') => .ok (d, s')
      | .ok (none, s') => drawAniso mk cfg kw fuel s'

/-- line-of-sight configuration of a lens -/
structure LosCfg where
  globalIdx : Option Nat := none     -- `global_los_distribution` when it is an int (and not False)
  dist : String := "NONE"            -- los_distributions[globalIdx]
  individual : Bool := false         -- individual PDF / GEV distribution (external)

/-- `LOSDistribution.draw_los(kwargs_los)`; `ext` = result of a non-Gaussian (GEV / tabulated) draw
    made by the external engine -/
def drawLos (mk : α → α → α → α) (cfg : LosCfg) (los : List (Dict α)) (ext : Option α) : M α α :=
  fun s =>
    if cfg.individual then
      match ext with | some k => .ok (k, s) | none => .error "ExtMissing"
    else match cfg.globalIdx with
      | some i =>
        match los[i]? with
        | none => .error "IndexError"
        | some d =>
          if cfg.dist = "GAUSSIAN" then
            match Dict.get? d "mean", Dict.get? d "sigma" with
            | some m, some sg => normal mk m sg s
            | _, _ => .error "KeyError"
          else if cfg.dist = "GEV" then
            match ext with | some k => .ok (k, s) | none => .error "ExtMissing"
          else .error "ValueError"
      | none => .ok (0.0, s)

/-- `LOSDistribution.draw_bool(kwargs_los)`; 'KeyError'/'IndexError' as in python -/
def drawBool (cfg : LosCfg) (los : List (Dict α)) (isZero : α → Bool) : Except String Bool :=
  if cfg.individual then .ok true
  else match cfg.globalIdx with
    | some i =>
      match los[i]? with
      | none => .error "IndexError"
      | some d =>
        match Dict.get? d "sigma" with
        | some sg => .ok (!isZero sg)
        | none => .error "KeyError"
    | none => .ok false

/-- one iteration of the loop in `PriorLikelihood.log_likelihood` -/
def priorStep (kw : Dict α) (acc : α) (p : String × α × α) : α :=
  match Dict.get? kw p.1 with
  | some x => acc - (x - p.2.1) * (x - p.2.1) / (2.0 * (p.2.2 * p.2.2))
  | none => acc

/-- `PriorLikelihood.log_likelihood(kwargs)` -/
def priorLogL (priors : List (String × α × α)) (kw : Dict α) : α :=
  priors.foldl (priorStep kw) 0.0

/-- python `{**a, **b}` -/
def mergeDict (a b : Dict α) : Dict α := b.foldl (fun d p => Dict.set d p.1 p.2) a

/-! ### one single-draw evaluation -/

/-- argument of a data likelihood -/
inductive Arg (α : Type)
  | num (x : α)
  | vec (l : List α)
  | none

def optArg (o : Option α) : Arg α :=
  match o with
  | some x => .num x
  | none => .none

structure LensCfg (α : Type) where
  ltype : LType
  dist : LensDist α
  aniso : AnisoDist α
  los : LosCfg
  kinParams : List String := []           -- kin_scaling_param_list
  priors : List (String × α × α) := []
  numDraws : Nat := 50

structure Hyper (α : Type) where
  lens : Dict α := []
  gammaPlList : Option (List α) := none
  kin : Dict α := []                      -- without sigma_v_sys_error
  sigmaVSys : Option α := none
  source : Dict α := []
  los : List (Dict α) := []

/-- externally computed ingredients of one single-draw evaluation -/
structure Ext (α : Type) where
  losDraw : Option α := none              -- GEV / tabulated LOS draw
  kinScaling : List α := []               -- result of `kin_scaling(kwargs_param)`

structure SingleOut (α : Type) where
  vals : List (String × Arg α)            -- what is handed to `LensLikelihoodBase.log_likelihood`
  prior : α
  kwargsParam : Dict α                    -- realised lens + anisotropy parameters
  kappa : α
  lam : α

/-- `LensLikelihood.log_likelihood_single` up to (not including) the data-likelihood call -/
def singlePre (mk : α → α → α → α) (cfg : LensCfg α) (h : Hyper α) (ddt dd dLum : α)
    (beta : Option α) (ext : Ext α) (fuel : Nat) : M α (SingleOut α) := fun s =>
  match drawLens mk cfg.dist h.lens h.gammaPlList fuel s with
  | .error e => .error e
  | .ok (ld, s1) =>
    let lam := getD ld "lambda_mst" 1.0
    let gppn := getD ld "gamma_ppn" 1.0
    let gpl := getD ld "gamma_pl" 2.0
    match drawLos mk cfg.los h.los ext.losDraw s1 with
    | .error e => .error e
    | .ok (kappa, s2) =>
      -- draw_source(lum_dist=delta_lum_dist, **kwargs_source): one normal draw, always
      match normal mk (getD h.source "mu_sne" 1.0) (getD h.source "sigma_sne" 0.0) s2 with
      | .error e => .error e
      | .ok (magDraw, s3) =>
        let mag := magDraw + dLum
        let dp := displace ddt dd gppn lam kappa mag
        match drawAniso mk cfg.aniso h.kin fuel s3 with
        | .error e => .error e
        | .ok (kd, s4) =>
          let kp := mergeDict ld kd
          -- kin_scaling(kwargs_param): ValueError when a declared parameter is missing
          if cfg.kinParams.any (fun p => !(Dict.has kp p)) then .error "ValueError"
          else
            .ok ({ vals := [("ddt", .num dp.1), ("dd", .num dp.2.1),
                            ("beta_dsp", optArg beta),
                            ("kin_scaling", .vec ext.kinScaling),
                            ("sigma_v_sys_error", optArg h.sigmaVSys),
                            ("mu_intrinsic", .num dp.2.2), ("gamma_pl", .num gpl),
                            ("lambda_mst", .num lam)],
                   prior := priorLogL cfg.priors kp, kwargsParam := kp, kappa := kappa, lam := lam }, s4)

/-- dispatch of `LensLikelihoodBase.log_likelihood`: which of the values reach the data likelihood
    of a type, under which parameter name (table generated from the source) -/
def route (table : List (List String × List (String × String))) (t : LType)
    (vals : List (String × Arg α)) : Option (List (String × Arg α)) :=
  match table.find? (fun r => r.1.contains t.name) with
  | none => none
  | some r => some (r.2.map fun (p, src) => (p, (vals.lookup src).getD .none))

/-! ### marginalisation over draws -/

/-- `LensDistribution.draw_bool(**kwargs_lens)`: does `draw_lens` make a non-degenerate draw
    for this lens? -/
def lensDrawBool (cfg : LensDist α) (kw : Dict α) (isZero : α → Bool) : Bool :=
  (cfg.lambdaSampling && !isZero (lambdaSigma cfg kw))
  || (cfg.gammaInSampling && !isZero (getD kw "gamma_in_sigma" 0.0))
  || (cfg.logM2lSampling && !isZero (getD kw "log_m2l_sigma" 0.0))
  || (cfg.gammaPlIndex.isNone && cfg.gammaPlGlobalSampling && cfg.gammaPlGlobalGauss
        && !isZero (getD kw "gamma_pl_sigma" 0.0))

/-- `AnisotropyDistribution.draw_bool(**kwargs_kin)` -/
def anisoDrawBool (cfg : AnisoDist α) (kw : Dict α) (isZero : α → Bool) : Bool :=
  cfg.sampling &&
  (((cfg.model = "OM" ∨ cfg.model = "const" ∨ cfg.model = "GOM")
      && (cfg.distribution = "GAUSSIAN" ∨ cfg.distribution = "GAUSSIAN_SCALED"
            ∨ cfg.distribution = "GAUSSIAN_TAN_RAD")
      && !isZero (getD kw "a_ani_sigma" 0.0))
   || (cfg.model = "GOM" && (cfg.distribution = "GAUSSIAN" ∨ cfg.distribution = "GAUSSIAN_SCALED")
      && !isZero (getD kw "beta_inf_sigma" 0.0)))

/-- the source magnitude reaches the data likelihood only for the magnification types -/
def magType (t : LType) : Bool := t = .Mag || t = .TDMag || t = .TDMagMagnitude

/-- `check_dist`: True = sharp (one evaluation): no scatter that applies to this lens is non-zero -/
def checkDist (cfg : LensCfg α) (h : Hyper α) (isZero : α → Bool) : Except String Bool :=
  match drawBool cfg.los h.los isZero with
  | .error e => .error e
  | .ok db =>
    .ok (!(lensDrawBool cfg.dist h.lens isZero || anisoDrawBool cfg.aniso h.kin isZero || db
           || (magType cfg.ltype && !isZero (getD h.source "sigma_sne" 0.0))))

/-! ### the parameters a lens realises (static) -/

/-- keys of the dictionary a successful `draw_lens` returns -/
def lensKeys (cfg : LensDist α) : List String :=
  ["lambda_mst", "gamma_ppn"] ++ (if cfg.gammaInSampling then ["gamma_in"] else [])
    ++ (if cfg.logM2lSampling then ["log_m2l"] else [])
    ++ (if cfg.gammaPlIndex.isSome || cfg.gammaPlGlobalSampling then ["gamma_pl"] else [])

/-- keys of the dictionary a successful `draw_anisotropy` returns -/
def anisoKeys (cfg : AnisoDist α) (kw : Dict α) : List String :=
  if cfg.sampling then
    (if cfg.model = "OM" ∨ cfg.model = "const" ∨ cfg.model = "GOM" then ["a_ani"] else [])
      ++ (if cfg.model = "GOM" then ["beta_inf"] else [])
  else
    (if (Dict.get? kw "a_ani").isSome then ["a_ani"] else [])
      ++ (if (Dict.get? kw "beta_inf").isSome then ["beta_inf"] else [])

/-- the parameters handed to `kin_scaling` and to the per-lens prior: the lens' OWN parameters -/
def realisedKeys (cfg : LensCfg α) (hy : Hyper α) : List String := lensKeys cfg.dist ++ anisoKeys cfg.aniso hy.kin

/-! ### the declared populations -/

/-- centre of the lens' `gamma_in` population -/
def gammaInLoc (cfg : LensDist α) (kw : Dict α) : α :=
  if cfg.gammaInGauss then getD kw "gamma_in" 1.0 + getD kw "alpha_gamma_in" 0.0 * cfg.prop
  else getD kw "gamma_in" 1.0

/-- centre of the lens' `log_m2l` population -/
def m2lLoc (cfg : LensDist α) (kw : Dict α) : α :=
  getD kw "log_m2l" 1.0 + getD kw "alpha_log_m2l" 0.0 * cfg.prop

/-- spread of the `a_ani` population (proportional to `a_ani` for GAUSSIAN_SCALED) -/
def aniSigma (cfg : AnisoDist α) (kw : Dict α) (a : α) : α :=
  if cfg.distribution = "GAUSSIAN_SCALED" then getD kw "a_ani_sigma" 0.0 * a else getD kw "a_ani_sigma" 0.0

/-- the global Gaussian line-of-sight population the lens is assigned to, if any -/
def losDeclared (cfg : LosCfg) (los : List (Dict α)) : List (α × α) :=
  if cfg.individual then []
  else match cfg.globalIdx with
    | some i =>
      match los[i]? with
      | some d =>
        if cfg.dist = "GAUSSIAN" then
          match Dict.get? d "mean", Dict.get? d "sigma" with
          | some m, some sg => [(m, sg)]
          | _, _ => []
        else []
      | none => []
    | none => []

/-- the populations `draw_lens` may draw from -/
def lensDeclared (cfg : LensDist α) (kw : Dict α) : List (α × α) :=
  [(lambdaLens cfg kw, lambdaSigma cfg kw),
   (gammaInLoc cfg kw, getD kw "gamma_in_sigma" 0.0),
   (m2lLoc cfg kw, getD kw "log_m2l_sigma" 0.0),
   (getD kw "gamma_pl_mean" 2.0, getD kw "gamma_pl_sigma" 0.0)]

/-- the populations `draw_anisotropy` may draw from -/
def anisoDeclared (cfg : AnisoDist α) (kw : Dict α) : List (α × α) :=
  (match Dict.get? kw "a_ani" with
   | some a => [(a, aniSigma cfg kw a)]
   | none => [])
  ++ (match Dict.get? kw "beta_inf" with
      | some b => [(b, getD kw "beta_inf_sigma" 0.0)]
      | none => [])

/-- **the declared populations of a lens**: every `(mean, sigma)` pair a single evaluation of this lens may pass to
    `np.random.normal`, as a function of the configuration and the hyper-parameters only: the lens' OWN lambda
    population (the IFU one when so flagged, shifted by the scaling terms), its gamma_in / log_m2l populations, the
    global slope population, the source-magnitude population, the anisotropy populations and the global Gaussian
    line-of-sight population the lens is assigned to -/
def declared (cfg : LensCfg α) (h : Hyper α) : List (α × α) :=
  lensDeclared cfg.dist h.lens ++ [(getD h.source "mu_sne" 1.0, getD h.source "sigma_sne" 0.0)]
    ++ anisoDeclared cfg.aniso h.kin ++ losDeclared cfg.los h.los

/-- the evaluations performed by `hyper_param_likelihood`: one when sharp, `numDraws` otherwise -/
def runDraws {β : Type} (one : M α β) : Nat → M α (List β)
  | 0 => pureM []
  | n + 1 => bindM one fun b => bindM (runDraws one n) fun bs => pureM (b :: bs)

def hyperEvals {β : Type} (one : M α β) (sharp : Bool) (numDraws : Nat) : M α (List β) :=
  if sharp then runDraws one 1 else runDraws one numDraws

/-- the N-draw branch of `hyper_param_likelihood` given the N single-draw log-likelihoods: draws
    with a non-finite log-likelihood are dropped, the rest is combined as
    `l_max + log( Σ exp(l − l_max) / N )` (shifted so that `exp` cannot under- or overflow);
    `none` = −inf (no finite draw) -/
def logMeanExp (fin : α → Bool) (n : α) (ls : List α) : Option α :=
  match ls.filter fin with
  | [] => none
  | l0 :: t =>
    let mx := t.foldl (fun m l => if m < l then l else m) l0
    let tot := (l0 :: t).foldl (fun acc l => acc + Trans.exp (l - mx)) 0.0
    some (mx + Trans.log (tot / n))

end
end HierArc.Lens
