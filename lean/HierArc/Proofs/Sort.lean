/-
  Lemmas about the model's insertion sort over a linear order.
-/
import HierArc.Model.Basic
import Mathlib.Order.Defs.LinearOrder
import Mathlib.Data.List.Perm.Basic
import Mathlib.Order.Monotone.Basic

namespace HierArc
variable {α : Type} [LinearOrder α]

theorem insertSorted_perm (x : α) (l : List α) : (insertSorted x l).Perm (x :: l) := by
  induction l with
  | nil => simp [insertSorted]
  | cons y t ih =>
    unfold insertSorted
    split
    · exact List.Perm.refl _
    · exact (List.Perm.cons y ih).trans (List.Perm.swap x y t)

theorem isort_perm (l : List α) : (isort l).Perm l := by
  induction l with
  | nil => simp [isort]
  | cons x t ih => exact (insertSorted_perm x (isort t)).trans (List.Perm.cons x ih)

@[simp] theorem isort_length (l : List α) : (isort l).length = l.length :=
  (isort_perm l).length_eq

theorem mem_isort {l : List α} {x : α} : x ∈ isort l ↔ x ∈ l := (isort_perm l).mem_iff

theorem insertSorted_map {β : Type} [LinearOrder β] (f : α → β) (hf : StrictMono f)
    (x : α) (l : List α) :
    insertSorted (f x) (l.map f) = (insertSorted x l).map f := by
  induction l with
  | nil => simp [insertSorted]
  | cons y t ih =>
    simp only [List.map_cons, insertSorted, hf.le_iff_le]
    split
    · simp
    · simp [ih]

theorem isort_map {β : Type} [LinearOrder β] (f : α → β) (hf : StrictMono f) (l : List α) :
    isort (l.map f) = (isort l).map f := by
  induction l with
  | nil => simp [isort]
  | cons x t ih => simp only [List.map_cons, isort, ih, insertSorted_map f hf]

end HierArc
