import HierArc.Drv.Proto
import HierArc.Drv.C17
namespace HierArc.Drv
open Lean

/-- op name → handler -/
def table : List (String × (Json → R Json)) := [
  ("C17.blind", C17.blind),
  ("C17.median", C17.median)
]
end HierArc.Drv
