/-
  HierArc.Model.Basic — carrier-polymorphic foundations of the model.

  NO Mathlib import here (the driver must load fast and the same definitions are
  instantiated at `Float` by `Driver.lean` and at `ℝ` by `HierArc/Props/*.lean`).

  A model function is written once over a carrier `α` that only needs *operations*
  (core classes `Add Sub Mul Div Neg LT LE OfScientific` with decidable order, and the
  record `Trans α` of transcendental functions).  No algebraic law is assumed here.
-/
namespace HierArc

/-- Transcendental operations used by the code (`numpy.sqrt/exp/log/log10`, `10**x`). -/
class Trans (α : Type) where
  sqrt  : α → α
  exp   : α → α
  log   : α → α
  log10 : α → α
  pow10 : α → α

instance : Trans Float where
  sqrt := Float.sqrt
  exp := Float.exp
  log := Float.log
  log10 := Float.log10
  pow10 := fun x => Float.pow 10.0 x

/-- Insertion-ordered dictionary, first match wins on lookup. -/
abbrev Dict (α : Type) := List (String × α)

def Dict.get? {α : Type} (d : Dict α) (k : String) : Option α :=
  match d with
  | [] => none
  | (k', v) :: t => if k' = k then some v else Dict.get? t k

def Dict.has {α : Type} (d : Dict α) (k : String) : Bool := (Dict.get? d k).isSome

/-- python `d[k] = v` on an insertion-ordered dict: overwrite in place or append. -/
def Dict.set {α : Type} (d : Dict α) (k : String) (v : α) : Dict α :=
  match d with
  | [] => [(k, v)]
  | (k', v') :: t => if k' = k then (k', v) :: t else (k', v') :: Dict.set t k v

section Numeric
variable {α : Type}

/-- left fold sum starting from a given zero (the carrier has no `Zero` class here). -/
def sumList [Add α] (zero : α) (l : List α) : α := l.foldr (· + ·) zero

/-- insertion into a sorted list (stable: goes after equal elements? no – before the first
    element that is not smaller; irrelevant for values). -/
def insertSorted [LE α] [DecidableLE α] (x : α) : List α → List α
  | [] => [x]
  | y :: t => if x ≤ y then x :: y :: t else y :: insertSorted x t

/-- insertion sort (model of `numpy.sort` on a 1-d array of non-NaN values). -/
def isort [LE α] [DecidableLE α] : List α → List α
  | [] => []
  | x :: t => insertSorted x (isort t)

end Numeric

end HierArc
