/-
  Helper lemmas for C18 (model `HierArc.Ifu` at ℝ): sums, weighted means, the first-argmax
  fold, the row-major enumeration, and how `flatten` commutes with cell-wise rewrites.
-/
import HierArc.Model.Ifu
import HierArc.Proofs.RealInst
import Mathlib.Tactic.Ring
import Mathlib.Tactic.Linarith
import Mathlib.Tactic.FieldSimp
import Mathlib.Tactic.Positivity
import Mathlib.Data.List.Forall2

namespace HierArc.Ifu
open HierArc

/-! ### sums over ℝ -/

theorem sumBy_eq (g : Fibre ℝ → ℝ) (S : List (Fibre ℝ)) : sumBy g S = (S.map g).sum := by
  unfold sumBy sumList
  rw [lit_zero]
  induction S with
  | nil => simp
  | cons x t ih => simp [ih]

theorem sum_map_mul_const {β : Type} (g : β → ℝ) (c : ℝ) (S : List β) :
    (S.map (fun x => g x * c)).sum = (S.map g).sum * c := by
  induction S with
  | nil => simp
  | cons x t ih => simp only [List.map_cons, List.sum_cons, ih]; ring

theorem sum_map_congr {β : Type} {g h : β → ℝ} {S : List β} (e : ∀ x ∈ S, g x = h x) :
    (S.map g).sum = (S.map h).sum := by
  rw [List.map_congr_left e]

theorem sum_pos_of_pos {β : Type} {a : β → ℝ} {S : List β} (hne : S ≠ [])
    (ha : ∀ x ∈ S, 0 < a x) : 0 < (S.map a).sum := by
  induction S with
  | nil => exact absurd rfl hne
  | cons x t ih =>
    simp only [List.map_cons, List.sum_cons]
    have hx := ha x (List.mem_cons_self ..)
    by_cases ht : t = []
    · subst ht; simpa using hx
    · have := ih ht (fun y hy => ha y (List.mem_cons_of_mem _ hy))
      linarith

theorem sum_mul_le {β : Type} {S : List β} {a v : β → ℝ} {hi : ℝ}
    (ha : ∀ x ∈ S, 0 ≤ a x) (hv : ∀ x ∈ S, v x ≤ hi) :
    (S.map (fun x => v x * a x)).sum ≤ hi * (S.map a).sum := by
  induction S with
  | nil => simp
  | cons x t ih =>
    simp only [List.map_cons, List.sum_cons]
    have h1 := ha x (List.mem_cons_self ..)
    have h2 := hv x (List.mem_cons_self ..)
    have h3 := ih (fun y hy => ha y (List.mem_cons_of_mem _ hy))
      (fun y hy => hv y (List.mem_cons_of_mem _ hy))
    nlinarith [mul_le_mul_of_nonneg_right h2 h1]

theorem le_sum_mul {β : Type} {S : List β} {a v : β → ℝ} {lo : ℝ}
    (ha : ∀ x ∈ S, 0 ≤ a x) (hv : ∀ x ∈ S, lo ≤ v x) :
    lo * (S.map a).sum ≤ (S.map (fun x => v x * a x)).sum := by
  induction S with
  | nil => simp
  | cons x t ih =>
    simp only [List.map_cons, List.sum_cons]
    have h1 := ha x (List.mem_cons_self ..)
    have h2 := hv x (List.mem_cons_self ..)
    have h3 := ih (fun y hy => ha y (List.mem_cons_of_mem _ hy))
      (fun y hy => hv y (List.mem_cons_of_mem _ hy))
    nlinarith [mul_le_mul_of_nonneg_right h2 h1]

/-- a weighted mean with non-negative weights of positive sum lies between any bounds of the values -/
theorem wmean_bounds {β : Type} {S : List β} {a v : β → ℝ} {lo hi : ℝ}
    (ha : ∀ x ∈ S, 0 ≤ a x) (hs : 0 < (S.map a).sum) (hb : ∀ x ∈ S, lo ≤ v x ∧ v x ≤ hi) :
    lo ≤ (S.map (fun x => v x * a x)).sum / (S.map a).sum ∧
      (S.map (fun x => v x * a x)).sum / (S.map a).sum ≤ hi := by
  constructor
  · rw [le_div_iff₀ hs]; exact le_sum_mul ha (fun x hx => (hb x hx).1)
  · rw [div_le_iff₀ hs]; exact sum_mul_le ha (fun x hx => (hb x hx).2)

/-! ### the bin formulas over ℝ -/

theorem dispBin_eq (S : List (Fibre ℝ)) :
    dispBin S = (S.map (fun x => x.v * (x.w * x.f))).sum / (S.map (fun x => x.w * x.f)).sum := by
  unfold dispBin
  rw [sumBy_eq, sumBy_eq]
  congr 2
  apply List.map_congr_left
  intro x _
  ring

theorem wtBin_eq (S : List (Fibre ℝ)) :
    wtBin S = (S.map (fun x => x.w * x.f)).sum / (S.map (fun x => x.f)).sum := by
  unfold wtBin
  rw [sumBy_eq, sumBy_eq]

theorem absv_eq (v : ℝ) : absv v = |v| := by
  unfold absv
  rw [lit_zero]
  split
  · next h => rw [abs_of_pos h]
  · next h => rw [abs_of_nonpos (not_lt.mp h)]; ring

theorem w2_eq (x : Fibre ℝ) : w2 x = x.w / (2 * |x.v|) := by
  unfold w2
  rw [absv_eq, lit_two]

theorem v2Bin_eq (S : List (Fibre ℝ)) :
    v2Bin S = (S.map (fun x => (x.v * x.v) * (w2 x * x.f))).sum
                / (S.map (fun x => w2 x * x.f)).sum := by
  unfold v2Bin
  rw [sumBy_eq, sumBy_eq]
  congr 2
  apply List.map_congr_left
  intro x _
  ring

/-! ### fibre-wise rewrites -/

/-- multiply the flux of a fibre / of a cell -/
def Fibre.scaleF (c : ℝ) (x : Fibre ℝ) : Fibre ℝ := ⟨x.r, x.v, x.w, x.f * c⟩
def Fibre.scaleW (c : ℝ) (x : Fibre ℝ) : Fibre ℝ := ⟨x.r, x.v, x.w * c, x.f⟩
def Cell.scaleF (c : ℝ) (x : Cell ℝ) : Cell ℝ := ⟨x.v, x.w, x.f * c⟩
def Cell.scaleW (c : ℝ) (x : Cell ℝ) : Cell ℝ := ⟨x.v, x.w.map (· * c), x.f⟩

theorem sel_map {g : Fibre ℝ → Fibre ℝ} (hg : ∀ x, (g x).r = x.r) (rin rout : ℝ)
    (F : List (Fibre ℝ)) : sel rin rout (F.map g) = (sel rin rout F).map g := by
  unfold sel
  rw [List.filter_map]
  congr 1
  apply List.filter_congr
  intro x _
  simp [inAnnulus, Function.comp, hg]

theorem mem_sel {rin rout : ℝ} {F : List (Fibre ℝ)} {x : Fibre ℝ} :
    x ∈ sel rin rout F ↔ x ∈ F ∧ rin ≤ x.r ∧ x.r < rout := by
  simp [sel, inAnnulus]

theorem dispBin_scaleF {c : ℝ} (hc : c ≠ 0) (S : List (Fibre ℝ)) :
    dispBin (S.map (Fibre.scaleF c)) = dispBin S := by
  rw [dispBin_eq, dispBin_eq, List.map_map, List.map_map]
  have e1 : (S.map ((fun x : Fibre ℝ => x.v * (x.w * x.f)) ∘ Fibre.scaleF c)).sum
      = (S.map (fun x => x.v * (x.w * x.f))).sum * c := by
    rw [← sum_map_mul_const]; apply sum_map_congr; intro x _; simp [Fibre.scaleF]; ring
  have e2 : (S.map ((fun x : Fibre ℝ => x.w * x.f) ∘ Fibre.scaleF c)).sum
      = (S.map (fun x => x.w * x.f)).sum * c := by
    rw [← sum_map_mul_const]; apply sum_map_congr; intro x _; simp [Fibre.scaleF]; ring
  rw [e1, e2, mul_div_mul_right _ _ hc]

theorem wtBin_scaleF {c : ℝ} (hc : c ≠ 0) (S : List (Fibre ℝ)) :
    wtBin (S.map (Fibre.scaleF c)) = wtBin S := by
  rw [wtBin_eq, wtBin_eq, List.map_map, List.map_map]
  have e1 : (S.map ((fun x : Fibre ℝ => x.w * x.f) ∘ Fibre.scaleF c)).sum
      = (S.map (fun x => x.w * x.f)).sum * c := by
    rw [← sum_map_mul_const]; apply sum_map_congr; intro x _; simp [Fibre.scaleF]; ring
  have e2 : (S.map ((fun x : Fibre ℝ => x.f) ∘ Fibre.scaleF c)).sum
      = (S.map (fun x => x.f)).sum * c := by
    rw [← sum_map_mul_const]; apply sum_map_congr; intro x _; simp [Fibre.scaleF]
  rw [e1, e2, mul_div_mul_right _ _ hc]

theorem dispBin_scaleW {c : ℝ} (hc : c ≠ 0) (S : List (Fibre ℝ)) :
    dispBin (S.map (Fibre.scaleW c)) = dispBin S := by
  rw [dispBin_eq, dispBin_eq, List.map_map, List.map_map]
  have e1 : (S.map ((fun x : Fibre ℝ => x.v * (x.w * x.f)) ∘ Fibre.scaleW c)).sum
      = (S.map (fun x => x.v * (x.w * x.f))).sum * c := by
    rw [← sum_map_mul_const]; apply sum_map_congr; intro x _; simp [Fibre.scaleW]; ring
  have e2 : (S.map ((fun x : Fibre ℝ => x.w * x.f) ∘ Fibre.scaleW c)).sum
      = (S.map (fun x => x.w * x.f)).sum * c := by
    rw [← sum_map_mul_const]; apply sum_map_congr; intro x _; simp [Fibre.scaleW]; ring
  rw [e1, e2, mul_div_mul_right _ _ hc]

/-- the binned weight is homogeneous of degree one in the weight map -/
theorem wtBin_scaleW (c : ℝ) (S : List (Fibre ℝ)) :
    wtBin (S.map (Fibre.scaleW c)) = wtBin S * c := by
  rw [wtBin_eq, wtBin_eq, List.map_map, List.map_map]
  have e1 : (S.map ((fun x : Fibre ℝ => x.w * x.f) ∘ Fibre.scaleW c)).sum
      = (S.map (fun x => x.w * x.f)).sum * c := by
    rw [← sum_map_mul_const]; apply sum_map_congr; intro x _; simp [Fibre.scaleW]; ring
  have e2 : (S.map ((fun x : Fibre ℝ => x.f) ∘ Fibre.scaleW c)) = S.map (fun x => x.f) := by
    apply List.map_congr_left; intro x _; simp [Fibre.scaleW]
  rw [e1, e2]; ring

theorem w2_scaleF (c : ℝ) (x : Fibre ℝ) : w2 (Fibre.scaleF c x) = w2 x := by
  simp [w2_eq, Fibre.scaleF]

theorem w2_scaleW (c : ℝ) (x : Fibre ℝ) : w2 (Fibre.scaleW c x) = w2 x * c := by
  simp only [w2_eq, Fibre.scaleW]; ring

theorem v2Bin_scaleF {c : ℝ} (hc : c ≠ 0) (S : List (Fibre ℝ)) :
    v2Bin (S.map (Fibre.scaleF c)) = v2Bin S := by
  rw [v2Bin_eq, v2Bin_eq, List.map_map, List.map_map]
  have e1 : (S.map ((fun x : Fibre ℝ => (x.v * x.v) * (w2 x * x.f)) ∘ Fibre.scaleF c)).sum
      = (S.map (fun x => (x.v * x.v) * (w2 x * x.f))).sum * c := by
    rw [← sum_map_mul_const]; apply sum_map_congr; intro x _
    simp only [Function.comp, w2_scaleF]; simp [Fibre.scaleF]; ring
  have e2 : (S.map ((fun x : Fibre ℝ => w2 x * x.f) ∘ Fibre.scaleF c)).sum
      = (S.map (fun x => w2 x * x.f)).sum * c := by
    rw [← sum_map_mul_const]; apply sum_map_congr; intro x _
    simp only [Function.comp, w2_scaleF]; simp [Fibre.scaleF]; ring
  rw [e1, e2, mul_div_mul_right _ _ hc]

theorem v2Bin_scaleW {c : ℝ} (hc : c ≠ 0) (S : List (Fibre ℝ)) :
    v2Bin (S.map (Fibre.scaleW c)) = v2Bin S := by
  rw [v2Bin_eq, v2Bin_eq, List.map_map, List.map_map]
  have e1 : (S.map ((fun x : Fibre ℝ => (x.v * x.v) * (w2 x * x.f)) ∘ Fibre.scaleW c)).sum
      = (S.map (fun x => (x.v * x.v) * (w2 x * x.f))).sum * c := by
    rw [← sum_map_mul_const]; apply sum_map_congr; intro x _
    simp only [Function.comp, w2_scaleW]; simp [Fibre.scaleW]; ring
  have e2 : (S.map ((fun x : Fibre ℝ => w2 x * x.f) ∘ Fibre.scaleW c)).sum
      = (S.map (fun x => w2 x * x.f)).sum * c := by
    rw [← sum_map_mul_const]; apply sum_map_congr; intro x _
    simp only [Function.comp, w2_scaleW]; simp [Fibre.scaleW]; ring
  rw [e1, e2, mul_div_mul_right _ _ hc]

theorem velWtBin_scaleF {c : ℝ} (hc : c ≠ 0) (S : List (Fibre ℝ)) :
    velWtBin (S.map (Fibre.scaleF c)) = velWtBin S := by
  unfold velWtBin velBin
  rw [v2Bin_scaleF hc, sumBy_eq, sumBy_eq, sumBy_eq, sumBy_eq, List.map_map, List.map_map]
  have e1 : (S.map ((fun x : Fibre ℝ => w2 x * x.f) ∘ Fibre.scaleF c)).sum
      = (S.map (fun x => w2 x * x.f)).sum * c := by
    rw [← sum_map_mul_const]; apply sum_map_congr; intro x _
    simp only [Function.comp, w2_scaleF]; simp [Fibre.scaleF]; ring
  have e2 : (S.map ((fun x : Fibre ℝ => x.f) ∘ Fibre.scaleF c)).sum
      = (S.map (fun x => x.f)).sum * c := by
    rw [← sum_map_mul_const]; apply sum_map_congr; intro x _; simp [Fibre.scaleF]
  rw [e1, e2, mul_div_mul_right _ _ hc]

/-! ### the running first-occurrence maximum -/

section ArgMax
variable {β : Type}

theorem le_argmaxGo (key : β → ℝ) (b : β) (l : List β) : key b ≤ key (argmaxGo key b l) := by
  induction l generalizing b with
  | nil => exact le_refl _
  | cons x t ih =>
    unfold argmaxGo
    split
    · next h => exact le_trans (le_of_lt h) (ih x)
    · exact ih b

/-- full characterisation: the result splits the input into a strictly smaller prefix and a
    not larger suffix — it is the **first** entry attaining the maximum. -/
theorem argmaxGo_spec (key : β → ℝ) (b : β) (l : List β) :
    ∃ pre post, b :: l = pre ++ argmaxGo key b l :: post ∧
      (∀ x ∈ pre, key x < key (argmaxGo key b l)) ∧
      (∀ x ∈ post, key x ≤ key (argmaxGo key b l)) := by
  induction l generalizing b with
  | nil => exact ⟨[], [], rfl, by simp, by simp⟩
  | cons x t ih =>
    unfold argmaxGo
    split
    · next h =>
      obtain ⟨pre, post, e, h1, h2⟩ := ih x
      refine ⟨b :: pre, post, by rw [e]; rfl, ?_, h2⟩
      intro y hy
      rcases List.mem_cons.mp hy with rfl | hy
      · exact lt_of_lt_of_le h (le_argmaxGo key x t)
      · exact h1 y hy
    · next h =>
      obtain ⟨pre, post, e, h1, h2⟩ := ih b
      have hxb : key x ≤ key b := not_lt.mp h
      cases pre with
      | nil =>
        simp only [List.nil_append, List.cons.injEq] at e
        obtain ⟨e1, e2⟩ := e
        refine ⟨[], x :: t, by rw [← e1]; rfl, by simp, ?_⟩
        intro y hy
        rcases List.mem_cons.mp hy with rfl | hy
        · rw [← e1]; exact hxb
        · exact h2 y (e2 ▸ hy)
      | cons p pre' =>
        simp only [List.cons_append, List.cons.injEq] at e
        obtain ⟨e1, e2⟩ := e
        subst e1
        refine ⟨b :: x :: pre', post, congrArg (fun l => b :: x :: l) e2, ?_, h2⟩
        intro y hy
        have hb : key b < key (argmaxGo key b t) := h1 b (List.mem_cons_self ..)
        rcases List.mem_cons.mp hy with rfl | hy
        · exact hb
        · rcases List.mem_cons.mp hy with rfl | hy
          · exact lt_of_le_of_lt hxb hb
          · exact h1 y (List.mem_cons_of_mem _ hy)

theorem argmaxGo_mem (key : β → ℝ) (b : β) (l : List β) : argmaxGo key b l ∈ b :: l := by
  obtain ⟨pre, post, e, _, _⟩ := argmaxGo_spec key b l
  rw [e]; simp

/-- the fold commutes with any rewrite of the entries that preserves the strict order of keys -/
theorem argmaxGo_map {γ : Type} (key : β → ℝ) (key' : γ → ℝ) (G : β → γ)
    (hG : ∀ a b, key' (G a) < key' (G b) ↔ key a < key b) (b : β) (l : List β) :
    argmaxGo key' (G b) (l.map G) = G (argmaxGo key b l) := by
  induction l generalizing b with
  | nil => rfl
  | cons x t ih =>
    simp only [List.map_cons, argmaxGo, hG]
    split
    · exact ih x
    · exact ih b

theorem argmaxFirst_map {γ : Type} (key : β → ℝ) (key' : γ → ℝ) (G : β → γ)
    (hG : ∀ a b, key' (G a) < key' (G b) ↔ key a < key b) (l : List β) :
    argmaxFirst key' (l.map G) = (argmaxFirst key l).map G := by
  cases l with
  | nil => rfl
  | cons x t => simp [argmaxFirst, argmaxGo_map key key' G hG]

/-- related inputs (same keys) give related results -/
theorem argmaxGo_rel {R : β → β → Prop} {key : β → ℝ} (hk : ∀ a b, R a b → key a = key b)
    {l l' : List β} (h : List.Forall₂ R l l') :
    ∀ {b b' : β}, R b b' → R (argmaxGo key b l) (argmaxGo key b' l') := by
  induction h with
  | nil => intro b b' hb; exact hb
  | cons hxy _ ih =>
    intro b b' hb
    simp only [argmaxGo, hk _ _ hb, hk _ _ hxy]
    split
    · exact ih hxy
    · exact ih hb

end ArgMax

/-! ### the row-major enumeration -/

section Index
variable {β γ : Type}

theorem indexRow_map (G : β → γ) (i j : Nat) (row : List β) :
    indexRow i j (row.map G) = (indexRow i j row).map (fun x => (x.1, x.2.1, G x.2.2)) := by
  induction row generalizing j with
  | nil => rfl
  | cons c cs ih => simp [indexRow, ih]

theorem indexMap_map (G : β → γ) (i : Nat) (cells : List (List β)) :
    indexMap i (cells.map (List.map G))
      = (indexMap i cells).map (fun x => (x.1, x.2.1, G x.2.2)) := by
  induction cells generalizing i with
  | nil => rfl
  | cons row rows ih => simp [indexMap, indexRow_map, ih]

theorem mem_indexRow {i j : Nat} {row : List β} {x : Nat × Nat × β} (h : x ∈ indexRow i j row) :
    x.1 = i ∧ j ≤ x.2.1 ∧ row[x.2.1 - j]? = some x.2.2 := by
  induction row generalizing j with
  | nil => simp [indexRow] at h
  | cons c cs ih =>
    simp only [indexRow, List.mem_cons] at h
    rcases h with rfl | h
    · simp
    · obtain ⟨h1, h2, h3⟩ := ih h
      refine ⟨h1, by omega, ?_⟩
      have : x.2.1 - j = (x.2.1 - (j + 1)) + 1 := by omega
      rw [this]; simpa using h3

theorem mem_indexMap {i : Nat} {cells : List (List β)} {x : Nat × Nat × β}
    (h : x ∈ indexMap i cells) :
    i ≤ x.1 ∧ ∃ row, cells[x.1 - i]? = some row ∧ row[x.2.1]? = some x.2.2 := by
  induction cells generalizing i with
  | nil => simp [indexMap] at h
  | cons row rows ih =>
    simp only [indexMap, List.mem_append] at h
    rcases h with h | h
    · obtain ⟨h1, _, h3⟩ := mem_indexRow h
      exact ⟨by omega, row, by simp [h1], by simpa using h3⟩
    · obtain ⟨h1, r, h2, h3⟩ := ih h
      refine ⟨by omega, r, ?_, h3⟩
      have : x.1 - i = (x.1 - (i + 1)) + 1 := by omega
      rw [this]; simpa using h2

/-- strict lexicographic order on the coordinates -/
def LexLt (a b : Nat × Nat × β) : Prop := a.1 < b.1 ∨ (a.1 = b.1 ∧ a.2.1 < b.2.1)

theorem indexRow_pairwise (i j : Nat) (row : List β) :
    (indexRow i j row).Pairwise LexLt := by
  induction row generalizing j with
  | nil => exact List.Pairwise.nil
  | cons c cs ih =>
    simp only [indexRow, List.pairwise_cons]
    refine ⟨?_, ih (j + 1)⟩
    intro y hy
    obtain ⟨h1, h2, _⟩ := mem_indexRow hy
    exact Or.inr ⟨h1.symm, by simpa using h2⟩

/-- the enumeration visits the cells in strictly increasing (row, column) order: row-major -/
theorem indexMap_pairwise (i : Nat) (cells : List (List β)) :
    (indexMap i cells).Pairwise LexLt := by
  induction cells generalizing i with
  | nil => exact List.Pairwise.nil
  | cons row rows ih =>
    simp only [indexMap, List.pairwise_append]
    refine ⟨indexRow_pairwise i 0 row, ih (i + 1), ?_⟩
    intro a ha b hb
    have h1 := (mem_indexRow ha).1
    have h2 := (mem_indexMap hb).1
    exact Or.inl (by omega)

theorem forall₂_indexRow {R : β → β → Prop} {row row' : List β} (h : List.Forall₂ R row row')
    (i j : Nat) :
    List.Forall₂ (fun x y => x.1 = y.1 ∧ x.2.1 = y.2.1 ∧ R x.2.2 y.2.2)
      (indexRow i j row) (indexRow i j row') := by
  induction h generalizing j with
  | nil => exact List.Forall₂.nil
  | cons hxy _ ih => exact List.Forall₂.cons ⟨rfl, rfl, hxy⟩ (ih (j + 1))

theorem forall₂_indexMap {R : β → β → Prop} {cells cells' : List (List β)}
    (h : List.Forall₂ (List.Forall₂ R) cells cells') (i : Nat) :
    List.Forall₂ (fun x y => x.1 = y.1 ∧ x.2.1 = y.2.1 ∧ R x.2.2 y.2.2)
      (indexMap i cells) (indexMap i cells') := by
  induction h generalizing i with
  | nil => exact List.Forall₂.nil
  | cons hr _ ih =>
    simp only [indexMap]
    exact List.rel_append (forall₂_indexRow hr i 0) (ih (i + 1))

theorem filterMap_forall₂ {δ : Type} {R : β → β → Prop} {f : β → Option δ} {l l' : List β}
    (h : List.Forall₂ R l l') (hf : ∀ a b, R a b → f a = f b) :
    l.filterMap f = l'.filterMap f := by
  induction h with
  | nil => rfl
  | cons hxy _ ih => simp [List.filterMap_cons, hf _ _ hxy, ih]

end Index

/-! ### `flatten` -/

theorem flatten_eq_some {cells : List (List (Cell ℝ))} {s : ℝ} {F : List (Fibre ℝ)}
    (h : flatten cells s = some F) :
    ∃ c, argmaxFirst cellFlux (indexMap 0 cells) = some c ∧
      F = (indexMap 0 cells).filterMap (toFibre s c.1 c.2.1) := by
  unfold flatten at h
  simp only [Option.map_eq_some_iff] at h
  obtain ⟨c, hc, rfl⟩ := h
  exact ⟨c, hc, rfl⟩

theorem toFibre_eq_some {s : ℝ} {ci cj : Nat} {x : Nat × Nat × Cell ℝ} {y : Fibre ℝ}
    (h : toFibre s ci cj x = some y) :
    x.2.2.v = some y.v ∧ x.2.2.w = some y.w ∧ x.2.2.f = y.f ∧ y.r = radius s ci cj x.1 x.2.1 := by
  obtain ⟨i, j, ⟨v, w, f⟩⟩ := x
  cases v <;> cases w <;> simp [toFibre] at h
  subst h
  simp

/-- every entry of the 1-d arrays is a cell of the map with finite value and finite weight -/
theorem mem_flatten {cells : List (List (Cell ℝ))} {s : ℝ} {F : List (Fibre ℝ)}
    (h : flatten cells s = some F) {y : Fibre ℝ} (hy : y ∈ F) :
    ∃ row ∈ cells, ∃ c ∈ row, c.v = some y.v ∧ c.w = some y.w ∧ c.f = y.f := by
  obtain ⟨c, _, rfl⟩ := flatten_eq_some h
  rw [List.mem_filterMap] at hy
  obtain ⟨x, hx, hxy⟩ := hy
  obtain ⟨_, row, h1, h2⟩ := mem_indexMap hx
  obtain ⟨e1, e2, e3, _⟩ := toFibre_eq_some hxy
  exact ⟨row, List.mem_of_getElem? h1, x.2.2, List.mem_of_getElem? h2, e1, e2, e3⟩

theorem flatten_isSome_iff (cells : List (List (Cell ℝ))) (s : ℝ) :
    (flatten cells s).isSome ↔ indexMap 0 cells ≠ [] := by
  unfold flatten
  cases h : indexMap 0 cells with
  | nil => simp [argmaxFirst]
  | cons x t => simp [argmaxFirst]

theorem toFibre_scaleF (s c : ℝ) (ci cj : Nat) (x : Nat × Nat × Cell ℝ) :
    toFibre s ci cj (x.1, x.2.1, Cell.scaleF c x.2.2) = (toFibre s ci cj x).map (Fibre.scaleF c) := by
  obtain ⟨i, j, ⟨v, w, f⟩⟩ := x
  cases v <;> cases w <;> simp [toFibre, Cell.scaleF, Fibre.scaleF]

theorem toFibre_scaleW (s c : ℝ) (ci cj : Nat) (x : Nat × Nat × Cell ℝ) :
    toFibre s ci cj (x.1, x.2.1, Cell.scaleW c x.2.2) = (toFibre s ci cj x).map (Fibre.scaleW c) := by
  obtain ⟨i, j, ⟨v, w, f⟩⟩ := x
  cases v <;> cases w <;> simp [toFibre, Cell.scaleW, Fibre.scaleW]

/-- generic commutation of `flatten` with a cell-wise rewrite `G` that keeps the order of the
    fluxes and acts on the surviving fibres as `g`. -/
theorem flatten_map (G : Cell ℝ → Cell ℝ) (g : Fibre ℝ → Fibre ℝ)
    (hflux : ∀ a b : Cell ℝ, (G a).f < (G b).f ↔ a.f < b.f)
    (hfib : ∀ (s : ℝ) (ci cj : Nat) (x : Nat × Nat × Cell ℝ),
      toFibre s ci cj (x.1, x.2.1, G x.2.2) = (toFibre s ci cj x).map g)
    (cells : List (List (Cell ℝ))) (s : ℝ) :
    flatten (cells.map (List.map G)) s = (flatten cells s).map (List.map g) := by
  unfold flatten
  simp only [indexMap_map]
  rw [argmaxFirst_map cellFlux cellFlux (fun x : Nat × Nat × Cell ℝ => (x.1, x.2.1, G x.2.2))
        (fun a b => hflux a.2.2 b.2.2)]
  cases argmaxFirst cellFlux (indexMap 0 cells) with
  | none => rfl
  | some c =>
    simp only [Option.map_some, List.filterMap_map, List.map_filterMap]
    congr 1
    apply List.filterMap_congr
    intro x _
    simp [Function.comp, hfib]

theorem flatten_scaleF {c : ℝ} (hc : 0 < c) (cells : List (List (Cell ℝ))) (s : ℝ) :
    flatten (cells.map (List.map (Cell.scaleF c))) s
      = (flatten cells s).map (List.map (Fibre.scaleF c)) :=
  flatten_map _ _ (fun a b => by
      simp only [Cell.scaleF]
      exact ⟨fun h => lt_of_mul_lt_mul_right h hc.le, fun h => mul_lt_mul_of_pos_right h hc⟩)
    (fun s ci cj x => toFibre_scaleF s c ci cj x) cells s

theorem flatten_scaleW (c : ℝ) (cells : List (List (Cell ℝ))) (s : ℝ) :
    flatten (cells.map (List.map (Cell.scaleW c))) s
      = (flatten cells s).map (List.map (Fibre.scaleW c)) :=
  flatten_map _ _ (fun a b => by simp [Cell.scaleW])
    (fun s ci cj x => toFibre_scaleW s c ci cj x) cells s

/-! ### zipping the three maps -/

theorem zipRow_scaleF (c : ℝ) (v w : List (Option ℝ)) (f : List ℝ) :
    zipRow v w (f.map (· * c)) = (zipRow v w f).map (List.map (Cell.scaleF c)) := by
  induction v generalizing w f with
  | nil => cases w <;> cases f <;> simp [zipRow]
  | cons a v ih =>
    cases w with
    | nil => cases f <;> simp [zipRow]
    | cons b w =>
      cases f with
      | nil => simp [zipRow]
      | cons x f =>
        simp only [List.map_cons, zipRow, ih]
        cases zipRow v w f <;> simp [Cell.scaleF]

theorem zipMaps_scaleF (c : ℝ) (vm wm : List (List (Option ℝ))) (fm : List (List ℝ)) :
    zipMaps vm wm (fm.map (List.map (· * c)))
      = (zipMaps vm wm fm).map (List.map (List.map (Cell.scaleF c))) := by
  induction vm generalizing wm fm with
  | nil => cases wm <;> cases fm <;> simp [zipMaps]
  | cons a vm ih =>
    cases wm with
    | nil => cases fm <;> simp [zipMaps]
    | cons b wm =>
      cases fm with
      | nil => simp [zipMaps]
      | cons x fm =>
        simp only [List.map_cons, zipMaps, ih, zipRow_scaleF]
        cases zipRow a b x <;> cases zipMaps vm wm fm <;> simp

theorem zipRow_scaleW (c : ℝ) (v w : List (Option ℝ)) (f : List ℝ) :
    zipRow v (w.map (Option.map (· * c))) f = (zipRow v w f).map (List.map (Cell.scaleW c)) := by
  induction v generalizing w f with
  | nil => cases w <;> cases f <;> simp [zipRow]
  | cons a v ih =>
    cases w with
    | nil => cases f <;> simp [zipRow]
    | cons b w =>
      cases f with
      | nil => simp [zipRow]
      | cons x f =>
        simp only [List.map_cons, zipRow, ih]
        cases zipRow v w f <;> simp [Cell.scaleW]

theorem zipMaps_scaleW (c : ℝ) (vm wm : List (List (Option ℝ))) (fm : List (List ℝ)) :
    zipMaps vm (wm.map (List.map (Option.map (· * c)))) fm
      = (zipMaps vm wm fm).map (List.map (List.map (Cell.scaleW c))) := by
  induction vm generalizing wm fm with
  | nil => cases wm <;> cases fm <;> simp [zipMaps]
  | cons a vm ih =>
    cases wm with
    | nil => cases fm <;> simp [zipMaps]
    | cons b wm =>
      cases fm with
      | nil => simp [zipMaps]
      | cons x fm =>
        simp only [List.map_cons, zipMaps, ih, zipRow_scaleW]
        cases zipRow a b x <;> cases zipMaps vm wm fm <;> simp


/-! ### more enumeration facts -/

theorem exists_mem_indexRow {β : Type} (i j : Nat) {row : List β} {c : β} (h : c ∈ row) :
    ∃ k, (i, k, c) ∈ indexRow i j row := by
  induction row generalizing j with
  | nil => simp at h
  | cons a t ih =>
    rcases List.mem_cons.mp h with rfl | h
    · exact ⟨j, by simp [indexRow]⟩
    · obtain ⟨k, hk⟩ := ih (j + 1) h
      exact ⟨k, by simp [indexRow, hk]⟩

theorem exists_mem_indexMap {β : Type} (i : Nat) {cells : List (List β)} {row : List β} {c : β}
    (hr : row ∈ cells) (h : c ∈ row) : ∃ a b, (a, b, c) ∈ indexMap i cells := by
  induction cells generalizing i with
  | nil => simp at hr
  | cons r rows ih =>
    rcases List.mem_cons.mp hr with rfl | hr
    · obtain ⟨k, hk⟩ := exists_mem_indexRow i 0 h
      exact ⟨i, k, by simp [indexMap, hk]⟩
    · obtain ⟨a, b, hab⟩ := ih (i + 1) hr
      exact ⟨a, b, by simp [indexMap, hab]⟩

theorem bins_eq_zip {β : Type} (rb : List β) : bins rb = rb.zip rb.tail := by
  induction rb with
  | nil => rfl
  | cons a t ih =>
    cases t with
    | nil => rfl
    | cons b t' => simp only [bins, List.tail_cons, List.zip_cons_cons] at ih ⊢; rw [ih]

/-! ### the common frame `binnedWith` -/

theorem binnedWith_map (g h : List (Fibre ℝ) → ℝ) (G : Cell ℝ → Cell ℝ) (φ : Fibre ℝ → Fibre ℝ)
    (hr : ∀ x, (φ x).r = x.r) (cells : List (List (Cell ℝ))) (s : ℝ) (rb : List ℝ)
    (hflat : flatten (cells.map (List.map G)) s = (flatten cells s).map (List.map φ)) :
    binnedWith g h (cells.map (List.map G)) s rb
      = binnedWith (fun S => g (S.map φ)) (fun S => h (S.map φ)) cells s rb := by
  unfold binnedWith
  rw [hflat]
  cases flatten cells s with
  | none => rfl
  | some F =>
    cases rb with
    | nil => rfl
    | cons a t => simp [sel_map hr]

theorem binnedWith_scale_second (g h : List (Fibre ℝ) → ℝ) (c : ℝ) (cells : List (List (Cell ℝ)))
    (s : ℝ) (rb : List ℝ) :
    binnedWith g (fun S => h S * c) cells s rb
      = (binnedWith g h cells s rb).map (fun p => (p.1, p.2.map (· * c))) := by
  unfold binnedWith
  cases flatten cells s with
  | none => rfl
  | some F =>
    cases rb with
    | nil => rfl
    | cons a t => simp [Except.map, Function.comp]

theorem velBin_scaleF {c : ℝ} (hc : c ≠ 0) (S : List (Fibre ℝ)) :
    velBin (S.map (Fibre.scaleF c)) = velBin S := by
  unfold velBin; rw [v2Bin_scaleF hc]

theorem velBin_scaleW {c : ℝ} (hc : c ≠ 0) (S : List (Fibre ℝ)) :
    velBin (S.map (Fibre.scaleW c)) = velBin S := by
  unfold velBin; rw [v2Bin_scaleW hc]

theorem velWtBin_scaleW {c : ℝ} (hc : c ≠ 0) (S : List (Fibre ℝ)) :
    velWtBin (S.map (Fibre.scaleW c)) = velWtBin S * c := by
  unfold velWtBin
  rw [velBin_scaleW hc, sumBy_eq, sumBy_eq, sumBy_eq, sumBy_eq, List.map_map, List.map_map]
  have e1 : (S.map ((fun x : Fibre ℝ => w2 x * x.f) ∘ Fibre.scaleW c)).sum
      = (S.map (fun x => w2 x * x.f)).sum * c := by
    rw [← sum_map_mul_const]; apply sum_map_congr; intro x _
    simp only [Function.comp, w2_scaleW]; simp [Fibre.scaleW]; ring
  have e2 : (S.map ((fun x : Fibre ℝ => x.f) ∘ Fibre.scaleW c)) = S.map (fun x => x.f) := by
    apply List.map_congr_left; intro x _; simp [Fibre.scaleW]
  rw [e1, e2, lit_two]; ring

/-! ### rewriting dropped fibres -/

/-- two cells are interchangeable for `_2d_t0_1d`: same flux, and either the same value and
    weight, or both are dropped by the finiteness filter (for whatever reason) -/
def CellEquiv (a b : Cell ℝ) : Prop :=
  a.f = b.f ∧ ((a.v = b.v ∧ a.w = b.w) ∨ ((a.v = none ∨ a.w = none) ∧ (b.v = none ∨ b.w = none)))

theorem toFibre_rel (s : ℝ) (ci cj : Nat) (x y : Nat × Nat × Cell ℝ)
    (h : x.1 = y.1 ∧ x.2.1 = y.2.1 ∧ CellEquiv x.2.2 y.2.2) :
    toFibre s ci cj x = toFibre s ci cj y := by
  obtain ⟨i, j, ⟨v, w, f⟩⟩ := x
  obtain ⟨i', j', ⟨v', w', f'⟩⟩ := y
  obtain ⟨h1, h2, h3, h4⟩ := h
  simp only at h1 h2 h3 h4
  subst h1 h2 h3
  rcases h4 with ⟨rfl, rfl⟩ | ⟨ha, hb⟩
  · rfl
  · cases v <;> cases w <;> cases v' <;> cases w' <;> simp_all [toFibre]

theorem flatten_rel {cells cells' : List (List (Cell ℝ))}
    (h : List.Forall₂ (List.Forall₂ CellEquiv) cells cells') (s : ℝ) :
    flatten cells s = flatten cells' s := by
  have hrel := forall₂_indexMap h 0
  unfold flatten
  generalize indexMap 0 cells = l at hrel ⊢
  generalize indexMap 0 cells' = l' at hrel ⊢
  cases hrel with
  | nil => rfl
  | @cons x y l l' hxy ht =>
    have hk : ∀ a b : Nat × Nat × Cell ℝ,
        (a.1 = b.1 ∧ a.2.1 = b.2.1 ∧ CellEquiv a.2.2 b.2.2) → cellFlux a = cellFlux b :=
      fun a b hab => hab.2.2.1
    have hc := argmaxGo_rel (key := cellFlux) hk ht hxy
    simp only [argmaxFirst, Option.map_some, Option.some.injEq]
    rw [hc.1, hc.2.1]
    exact filterMap_forall₂ (List.Forall₂.cons hxy ht) (fun a b hab => toFibre_rel s _ _ a b hab)

/-! ### `combine` is a `zipWith` -/

theorem combine_eq_zipWith (vr wv dr wd : List ℝ) :
    combine vr wv dr wd
      = List.zipWith (fun (a b : ℝ × ℝ) => (totDisp a.1 b.1, totErr a.1 a.2 b.1 b.2))
          (vr.zip wv) (dr.zip wd) := by
  induction vr generalizing wv dr wd with
  | nil => cases wv <;> cases dr <;> cases wd <;> simp [combine]
  | cons a t ih =>
    cases wv with
    | nil => cases dr <;> cases wd <;> simp [combine]
    | cons b wv =>
      cases dr with
      | nil => cases wd <;> simp [combine]
      | cons c dr =>
        cases wd with
        | nil => simp [combine]
        | cons d wd => simp [combine, ih]


theorem combine_fst_map (f g : ℝ → ℝ) (vr wv dr wd : List ℝ) :
    (combine vr (wv.map f) dr (wd.map g)).map (·.1) = (combine vr wv dr wd).map (·.1) := by
  induction vr generalizing wv dr wd with
  | nil => cases wv <;> cases dr <;> cases wd <;> simp [combine]
  | cons a t ih =>
    cases wv with
    | nil => cases dr <;> cases wd <;> simp [combine]
    | cons b wv =>
      cases dr with
      | nil => cases wd <;> simp [combine]
      | cons c dr =>
        cases wd with
        | nil => simp [combine]
        | cons d wd => simp [combine, ih]

end HierArc.Ifu
