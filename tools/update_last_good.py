#!/venv/bin/python
"""Regenerates lean/HierArc/Gen/*.lean from /repo and, when all three translators succeed, copies the result to
translator/last_good/ (committed): the model used when a later source can no longer be translated (see check,
TRANSLATOR_FALLBACK)."""
import os, shutil, sys
HERE = os.path.dirname(os.path.dirname(os.path.abspath(__file__)))
sys.path.insert(0, HERE)
from translator import translate
translate.regenerate(["ladders", "tables", "effects"])
for f in translate.GEN_FILES.values():
    shutil.copy(os.path.join(HERE, "lean", "HierArc", "Gen", f), os.path.join(translate.LAST_GOOD, f))
print("last_good updated")
