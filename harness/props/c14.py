"""C14 — goodness-of-fit outputs describe the same model that the likelihood evaluates."""
import copy
import math

import numpy as np

from harness.common import run_driver, f2b, b2f, close, close_list, close_mat, err_enum
from harness import lens_common as lc
from harness.props import c03, c07

ID = "C14"
LEAN_MODULES = ["HierArc.Props.C14"]
TRANSLATE = ["tables"]
# when the translator cannot follow a rewritten source, the last generated model is run against the implementation instead
TRANSLATOR_FALLBACK = True
RULE = ("random kinematic / Ddt lens configurations (IFUKinCov, DdtGaussKin, DdtHistKin with 1-3 bins, optional a_ani "
        "scaling grid, systematic error; DdtGaussian, DdtHist, DdtHistKDE; IFU flag, LOS assignment, alpha/beta scaling) x "
        "random sharp hyper-parameters x fake cosmologies; N in {2,3,5}; plus scatter cases (moment check) and samples for "
        "reduced chi^2 incl. perfect-match samples; distinct = (type, bins, scaling, los, ifu, N)")
ASSUMPTIONS = [
    "np.cov is the unbiased sample covariance (ddof=1), np.std the population standard deviation; N >= 2 draws",
    "with scatter, 'mean and spread match the population moments' is a statistical statement: validated by sampling only "
    "(5 sigma of the Monte-Carlo error), not proved",
    "matplotlib plotting functions are not exercised (only the numbers they display)",
]
TRUSTED = ["hand-written model HierArc/Model/Gof.lean on top of Model/Gauss.lean, tied by differential execution"]
LEVEL_TEXT = ("Lean theorems over ℝ: for N identical draws (sharp hyper-parameters) the reported measurement, measurement "
              "covariance, mean prediction and prediction covariance are the kinematic likelihood's own residual and covariances "
              "(sample covariance of identical draws vanishes), so the kinematic log-likelihood equals the Gaussian core on "
              "reported-measurement − reported-prediction with the summed covariances (= MVN log-density by C06); the model "
              "Ddt, Dd are the displaced distances Ddt·λ(1−κ), Dd(1+γ)/2 with zero spread; reduced χ² = −2 lnL/N_data and vanishes "
              "at a perfect match for un-normalised Gaussian types; generated tables: which types report Ddt / σ_v.  Executed "
              "against LensLikelihood.sigma_v_measured_vs_predict / ddt_dd_model_prediction / ddt_measurement and "
              "GoodnessOfFit.reduced_chi2, kin_fit.")
LEVEL_NOTE = "partial: under scatter the report is proved to be the (linear image of the) moments of the N drawn displacement factors, for every realisation (scatter_ddt_dd_moments, checked exactly on the implementation); that those sample moments approach the population moments is a statistical statement, validated by sampling only; floats vs ℝ; engines as in C06"
TECHNIQUE = "Lean 4 proof (finite sums, matrix algebra on the C06 model) + correspondence"

TYPES = ["IFUKinCov", "DdtGaussKin", "DdtHistKin", "DdtGaussian", "DdtHist", "DdtHistKDE"]


def gen_case(rng, ltype, sharp=True):
    cfg, h = lc.gen_lens_cfg(rng, ltype, sharp=sharp, with_scaling=(rng.random() < 0.6))
    data = lc.data_kwargs(rng, ltype)
    lc.finish_scaling(rng, cfg, data, ltype)
    if ltype in ("DdtHist", "DdtHistKDE", "DdtHistKin") and rng.random() < 0.7:
        # importance-weighted posterior samples: the reported data mean / sigma are the weighted ones
        ns = len(data["ddt_samples"])
        data["ddt_weights"] = np.array([rng.choice([rng.uniform(0.05, 3.0), rng.uniform(0.5, 1.5), 1.0]) for _ in range(ns)])
        if rng.random() < 0.3:
            data["ddt_weights"] = data["ddt_weights"] * rng.choice([1e-3, 40.0])
    if sharp and "kin_scaling_param_list" in cfg and rng.random() < 0.35:
        # the tangential-to-radial parameterisation: the hyper-parameter is sigma_t/sigma_r, the lens-level anisotropy
        # parameter handed to the interpolation is 1 - (sigma_t/sigma_r)^2 — also at zero scatter
        cfg["anisotropy_distribution"] = "GAUSSIAN_TAN_RAD"
        cfg["anisotropy_model"] = "const"
        h["kwargs_kin"]["a_ani"] = rng.uniform(0.52, 0.69)      # both a and 1 - a^2 inside the grid [0.5, 4]
        h["kwargs_kin"]["a_ani_sigma"] = 0.0
    if sharp and ltype in lc.KIN_TYPES and rng.random() < 0.3:
        # the J-scaling tabulated over a LENS parameter only (the lens' own slope), no anisotropy parameter at all: the report
        # re-scales J with the slope exactly as the likelihood does
        for key in ("kin_scaling_param_list", "j_kin_scaling_param_axes", "j_kin_scaling_grid_list", "anisotropy_model",
                    "anisotropy_distribution", "_scaling_axis"):
            cfg.pop(key, None)
        nb = len(data["sigma_v_measurement"])
        axis = np.linspace(1.6, 2.4, 5)
        cfg.update(kin_scaling_param_list=["gamma_pl"], j_kin_scaling_param_axes=axis, gamma_pl_index=0, anisotropy_sampling=False,
                   j_kin_scaling_grid_list=[np.array([rng.uniform(0.7, 1.4) for _ in axis]) for _ in range(nb)])
        h["kwargs_lens"]["gamma_pl_list"] = [rng.choice([2.23, 1.78, 2.1, 1.95])]
        sv = h["kwargs_kin"].get("sigma_v_sys_error")
        h["kwargs_kin"] = {} if sv is None else {"sigma_v_sys_error": sv}
    cfg["num_distribution_draws"] = rng.choice([2, 3, 5]) if sharp else 4000
    if ltype in lc.KIN_TYPES:
        data["sigma_sys_error_include"] = rng.random() < 0.5
    return dict(ltype=ltype, cfg=cfg, hyper=h, data=data, cosmo=dict(scale=rng.uniform(0.7, 1.4), a=rng.uniform(1200, 1800), b=rng.uniform(0.4, 0.8)),
                stream="sharp" if sharp else "scatter", like_first=bool(sharp and rng.random() < 0.5))


def gen_scatter_case(rng, k):
    """exactly one scatter that applies to the lens is non-zero (as in C04): the reported model Ddt must
    then carry the population mean and spread"""
    lt = rng.choice(["DdtGaussian", "DdtGaussKin"])
    case = gen_case(rng, lt, False)
    cfg, h = case["cfg"], case["hyper"]
    for key in ("global_los_distribution", "los_distributions"):
        cfg.pop(key, None)
    h["kwargs_los"] = None
    kl = h["kwargs_lens"]
    kl.setdefault("lambda_ifu", 1.02)
    cfg["lambda_mst_distribution"] = "GAUSSIAN"
    which = ["ifu", "mst", "los", "ani", "gev"][k % 5]
    if which == "ani":
        # the anisotropy scatter is the ONLY scatter acting on a kinematic lens: the reported kinematic prediction must
        # still be the average over the draws (as the likelihood marginalises over them)
        case = gen_case(rng, rng.choice(["IFUKinCov", "DdtGaussKin"]), False)
        cfg, h = case["cfg"], case["hyper"]
        for key in ("global_los_distribution", "los_distributions"):
            cfg.pop(key, None)
        h["kwargs_los"] = None
        h["kwargs_lens"].update(lambda_mst_sigma=0.0, lambda_ifu_sigma=0.0)
        nb = len(case["data"]["sigma_v_measurement"])
        axis = np.linspace(0.5, 4.0, 6)
        cfg.update(anisotropy_model="OM", anisotropy_sampling=True, anisotropy_distribution=rng.choice(["GAUSSIAN", "GAUSSIAN_SCALED"]),
                   kin_scaling_param_list=["a_ani"], j_kin_scaling_param_axes=axis,
                   j_kin_scaling_grid_list=[np.array([rng.uniform(0.7, 1.4) for _ in axis]) for _ in range(nb)], num_distribution_draws=400)
        h["kwargs_kin"].update(a_ani=rng.uniform(1.5, 2.5), a_ani_sigma=rng.uniform(0.05, 0.2))
        case["stream"] = "scatter_ani"
        return case
    if which == "ifu":
        cfg["mst_ifu"] = True
        kl.update(lambda_mst_sigma=0.0, lambda_ifu_sigma=rng.uniform(0.02, 0.08))
    elif which == "mst":
        cfg["mst_ifu"] = False
        kl.update(lambda_mst_sigma=rng.uniform(0.02, 0.08), lambda_ifu_sigma=0.0)
    elif which == "gev":
        # a skewed line-of-sight population: mean != median, standard deviation != half the 68% interval
        kl.update(lambda_mst_sigma=0.0, lambda_ifu_sigma=0.0)
        cfg.update(global_los_distribution=0, los_distributions=["GEV"])
        h["kwargs_los"] = [dict(mean=rng.uniform(-0.02, 0.04), sigma=rng.uniform(0.03, 0.05), xi=rng.choice([-0.25, -0.1, 0.2, 0.3]))]
    else:
        kl.update(lambda_mst_sigma=0.0, lambda_ifu_sigma=0.0)
        cfg.update(global_los_distribution=0, los_distributions=["GAUSSIAN"])
        h["kwargs_los"] = [dict(mean=rng.uniform(-0.02, 0.06), sigma=rng.uniform(0.01, 0.04))]
    case["stream"] = "scatter"
    return case


def mvn_logpdf(x, mean, cov):
    from scipy.stats import multivariate_normal
    return float(multivariate_normal.logpdf(np.asarray(x, dtype=float), mean=np.asarray(mean, dtype=float), cov=np.asarray(cov, dtype=float)))


def lens_lambda_kappa(case):
    return c03.lens_lambda(case["cfg"], case["hyper"]), c03.lens_kappa(case["cfg"], case["hyper"])


def evaluate(case, seed=0):
    lens = lc.make_lens(case["ltype"], case["cfg"], case["data"])
    cosmo = lc.FakeCosmo(**case["cosmo"])
    # the caller's own dictionaries, used for the likelihood AND for the reports (the oracle keeps the pristine ones)
    h = copy.deepcopy(case["hyper"])
    rec = lc.Recorder(lens)
    out = {}
    draws = []
    if case.get("like_first"):
        # the order GoodnessOfFit.plot_kin_fit uses: the likelihood is evaluated, then the reports are asked for with the
        # same hyper-parameter dictionaries
        try:
            np.random.seed(seed + 1)
            with np.errstate(all="ignore"):
                lens.lens_log_likelihood(cosmo, kwargs_lens=h["kwargs_lens"], kwargs_kin=h["kwargs_kin"],
                                         kwargs_source=h["kwargs_source"], kwargs_los=h["kwargs_los"])
        except Exception:  # noqa  – the likelihood's own failures belong to C02 / C06
            pass
    np.random.seed(seed)
    orig_pred = lens._lens_type.sigma_v_prediction if hasattr(lens._lens_type, "sigma_v_prediction") else None
    if orig_pred is not None:
        def pred(ddt, dd, kin_scaling=1):
            draws.append((float(np.squeeze(ddt)), float(np.squeeze(dd)), np.atleast_1d(np.array(kin_scaling, dtype=float)).tolist()))
            return orig_pred(ddt, dd, kin_scaling)
        lens._lens_type.sigma_v_prediction = pred
    try:
        with np.errstate(all="ignore"):
            out["sigma_v"] = lens.sigma_v_measured_vs_predict(cosmo, kwargs_lens=h["kwargs_lens"], kwargs_kin=h["kwargs_kin"], kwargs_los=h["kwargs_los"])
            if case["stream"] == "sharp":
                # the same dictionaries again (kin_fit / plot_kin_fit walk over the lenses with ONE set of dictionaries)
                out["sigma_v_again"] = lens.sigma_v_measured_vs_predict(cosmo, kwargs_lens=h["kwargs_lens"], kwargs_kin=h["kwargs_kin"], kwargs_los=h["kwargs_los"])
            # the displacement factors of the N draws, as handed to the public `displace_prediction` (theorem scatter_ddt_dd_moments)
            disp = []
            orig_disp = lens.displace_prediction

            def disp_rec(ddt, dd, gamma_ppn=1, lambda_mst=1, kappa_ext=0, mag_source=0, **kw):
                disp.append((float(np.squeeze(gamma_ppn)), float(np.squeeze(lambda_mst)), float(np.squeeze(kappa_ext))))
                return orig_disp(ddt, dd, gamma_ppn=gamma_ppn, lambda_mst=lambda_mst, kappa_ext=kappa_ext, mag_source=mag_source, **kw)
            lens.displace_prediction = disp_rec
            try:
                out["ddt_dd"] = lens.ddt_dd_model_prediction(cosmo, kwargs_lens=h["kwargs_lens"], kwargs_los=h["kwargs_los"])
            finally:
                del lens.displace_prediction
            out["disp"] = disp
            out["ddt_meas"] = lens.ddt_measurement()
            out["dist"] = lens.angular_diameter_distances(cosmo)
    except Exception as e:  # noqa
        out["err"] = "%s: %s" % (err_enum(e), str(e)[:100])
    finally:
        if orig_pred is not None:
            del lens._lens_type.sigma_v_prediction
    out["draws"] = draws
    return out, lens, cosmo


def oracle(case, out, lens, cosmo):
    fails = []
    if "err" in out:
        return ["raised " + out["err"]]
    h, cfg, lt = case["hyper"], case["cfg"], case["ltype"]
    ddt0, dd0 = out["dist"]
    lam, kap = lens_lambda_kappa(case)
    gam = h["kwargs_lens"].get("gamma_ppn", 1)
    sharp = case["stream"] == "sharp"
    m, cm, p, cp = out["sigma_v"]
    if lt in lc.KIN_TYPES and sharp and out.get("sigma_v_again") is not None and m is not None:
        again = out["sigma_v_again"]
        same = all((a is None and b is None) or (a is not None and b is not None and np.array_equal(np.asarray(a), np.asarray(b)))
                   for a, b in zip(out["sigma_v"], again))
        if not same:
            fails.append("the velocity-dispersion report asked for a second time with the same dictionaries differs from the first "
                         "(measurement covariance diag %r then %r)" % (np.diag(np.atleast_2d(cm)).tolist(), np.diag(np.atleast_2d(again[1])).tolist()))
    if lt in lc.KIN_TYPES:
        if m is None:
            return ["no velocity-dispersion report for a kinematic type"]
        if sharp and lam * (1 - kap) >= 1e-4:
            # the normalised kinematic log-likelihood must be the MVN log-density of the report
            kl = lens._lens_type._kinlikelihood if hasattr(lens._lens_type, "_kinlikelihood") else lens._lens_type
            from hierarc.Likelihood.LensLikelihood.kin_likelihood import KinLikelihood
            d = case["data"]
            kn = KinLikelihood(cfg["z_lens"], cfg["z_source"], d["sigma_v_measurement"], d["j_model"], d["error_cov_measurement"],
                               d["error_cov_j_sqrt"], normalized=True, sigma_sys_error_include=d.get("sigma_sys_error_include", False))
            ks = np.array(out["draws"][0][2]) if out["draws"] else None
            if cfg.get("kin_scaling_param_list") == ["gamma_pl"] and cfg.get("gamma_pl_index") is not None:
                # a scaling tabulated over the lens' own slope: the report is built on the scaling at THAT slope (as the
                # likelihood is), whether or not an anisotropy parameter exists
                g = h["kwargs_lens"]["gamma_pl_list"][cfg["gamma_pl_index"]]
                ks_exp = np.atleast_1d(np.array(lens.kin_scaling({"gamma_pl": g}), dtype=float))
                ks_got = np.ones_like(ks_exp) if ks is None else np.broadcast_to(ks, ks_exp.shape) if ks.size == 1 else ks
                if ks_got.shape != ks_exp.shape or not np.allclose(ks_got, ks_exp, rtol=1e-12, atol=0):
                    fails.append("the reported prediction is built on the kinematic scaling %r; the lens' own slope gamma_pl = %r gives %r on its "
                                 "scaling grid" % (ks_got.tolist(), g, ks_exp.tolist()))
            if "kin_scaling_param_list" in cfg and ks is not None and "a_ani" in h["kwargs_kin"]:
                # the anisotropy the report is built on is the declared one: the lens-level parameter of the declared
                # parameterisation at zero scatter, interpolated on the lens' own grid
                a = h["kwargs_kin"]["a_ani"]
                a_eff = 1 - a ** 2 if cfg.get("anisotropy_distribution") == "GAUSSIAN_TAN_RAD" else a
                ks_exp = np.atleast_1d(np.array(lens.kin_scaling({"a_ani": a_eff}), dtype=float))
                if ks.shape != ks_exp.shape or not np.allclose(ks, ks_exp, rtol=1e-12, atol=0):
                    fails.append("the reported prediction is built on the kinematic scaling %r; the declared anisotropy (%s, a_ani = %r -> "
                                 "lens-level parameter %r) gives %r" % (ks.tolist(), cfg.get("anisotropy_distribution"), a, a_eff, ks_exp.tolist()))
            sv = h["kwargs_kin"].get("sigma_v_sys_error")
            want = float(np.squeeze(kn.log_likelihood(ddt0 * lam * (1 - kap), dd0 * (1 + gam) / 2, kin_scaling=ks, sigma_v_sys_error=sv)))
            got = mvn_logpdf(m, p, np.asarray(cm) + np.asarray(cp))
            if not close(got, want, 1e-8):
                fails.append("kinematic log-likelihood %r != MVN log-density of the report %r" % (want, got))
    else:
        if m is not None:
            fails.append("velocity-dispersion report for a non-kinematic type")
    # a lens that the likelihood marginalises over draws (check_dist says "not sharp") reports the AVERAGE over the
    # same number of draws, not one realisation
    try:
        sharp_impl = bool(lens.check_dist(h["kwargs_lens"], h["kwargs_kin"], h["kwargs_source"], h["kwargs_los"]))
    except Exception:  # noqa
        sharp_impl = None
    if lt in lc.KIN_TYPES and sharp_impl is False and out["draws"] is not None and len(out["draws"]) != cfg["num_distribution_draws"]:
        fails.append("the likelihood marginalises over %d draws (an applicable scatter is non-zero) but the reported kinematic "
                     "prediction is built from %d realisation(s)" % (cfg["num_distribution_draws"], len(out["draws"])))
    # model distances
    a, sa, b, sb = [float(np.squeeze(v)) for v in out["ddt_dd"]]
    if sharp and lam * (1 - kap) >= 1e-4:
        if not (close(a, ddt0 * lam * (1 - kap), 1e-10) and close(b, dd0 * (1 + gam) / 2, 1e-10)):
            fails.append("model Ddt/Dd (%r, %r) are not the displaced distances (%r, %r)" % (a, b, ddt0 * lam * (1 - kap), dd0 * (1 + gam) / 2))
        if not (abs(sa) <= 1e-9 * abs(a) and abs(sb) <= 1e-9 * abs(b)):
            fails.append("sharp hyper-parameters but model spread (%r, %r)" % (sa, sb))
    disp = out.get("disp") or []
    if len(disp) == cfg["num_distribution_draws"] and all(l * (1 - k) >= 1e-4 for _, l, k in disp):
        # exact, for every realisation (theorem scatter_ddt_dd_moments): the report is Ddt x (mean, spread) of the drawn
        # displacement factors lambda_k (1 - kappa_k) and Dd x (mean, spread) of (1 + gamma_k) / 2
        f1 = np.array([l * (1 - k) for _, l, k in disp])
        f2 = np.array([(1 + g) / 2 for g, _, _ in disp])
        want = (ddt0 * np.mean(f1), abs(ddt0) * np.std(f1), dd0 * np.mean(f2), abs(dd0) * np.std(f2))
        scale = (abs(ddt0), abs(ddt0), abs(dd0), abs(dd0))
        if not all(abs(float(x) - float(w)) <= 1e-9 * max(sc, 1e-300) for x, w, sc in zip((a, sa, b, sb), want, scale)):
            fails.append("model Ddt/Dd report %r is not Ddt x, Dd x the moments of the %d drawn displacement factors: %r"
                         % ((a, sa, b, sb), len(disp), want))
    if not sharp:
        # population moments of Ddt under lambda / kappa scatter (statistical, 5 sigma)
        n = cfg["num_distribution_draws"]
        ls = c03_sigma(case)
        if ls is not None:
            mean_l, sig_l, mean_k, sig_k = ls
            exp_mean = ddt0 * mean_l * (1 - mean_k)
            exp_var = ddt0 ** 2 * (sig_l ** 2 * (1 - mean_k) ** 2 + mean_l ** 2 * sig_k ** 2 + sig_l ** 2 * sig_k ** 2)
            tol_m = 5 * math.sqrt(exp_var / n) + 1e-9 * abs(exp_mean)
            if abs(a - exp_mean) > tol_m:
                fails.append("scatter: model Ddt mean %r vs population mean %r (tol %r)" % (a, exp_mean, tol_m))
            if exp_var > 0 and abs(sa - math.sqrt(exp_var)) > 0.15 * math.sqrt(exp_var):
                fails.append("scatter: model Ddt spread %r vs population spread %r" % (sa, math.sqrt(exp_var)))
    # ddt measurement
    dm = out["ddt_meas"]
    d = case["data"]
    if lt in ("DdtGaussian", "DdtGaussKin"):
        if not (close(dm[0], d["ddt_mean"], 1e-12) and close(dm[1], d["ddt_sigma"], 1e-12)):
            fails.append("ddt_measurement %r is not the data mean / sigma" % (dm,))
    elif lt in ("DdtHist", "DdtHistKDE", "DdtHistKin"):
        s = np.asarray(d["ddt_samples"], dtype=float)
        w = d.get("ddt_weights")
        w = np.ones_like(s) if w is None else np.asarray(w, dtype=float)
        wm = float(math.fsum(s * w) / math.fsum(w))
        ws = math.sqrt(math.fsum(w * (s - wm) ** 2) / math.fsum(w))
        if not (close(dm[0], wm, 1e-9) and close(dm[1], ws, 1e-6)):
            fails.append("ddt_measurement %r is not the (weighted) sample mean / std (%r, %r)" % (dm, wm, ws))
    elif dm[0] is not None:
        fails.append("ddt_measurement for a type without Ddt data")
    return fails


def c03_sigma(case):
    """(mean lambda, sigma lambda, mean kappa, sigma kappa) actually applying to the lens, or None when GEV"""
    cfg, h = case["cfg"], case["hyper"]
    lam, kap = lens_lambda_kappa(case)
    kl = h["kwargs_lens"]
    sig_l = 0.0
    if cfg.get("lambda_mst_distribution") == "GAUSSIAN":
        sig_l = kl.get("lambda_ifu_sigma", 0) if cfg.get("mst_ifu") else kl.get("lambda_mst_sigma", 0)
    sig_k = 0.0
    if "global_los_distribution" in cfg:
        i = cfg["global_los_distribution"]
        if cfg["los_distributions"][i] == "GEV":
            # a skewed population: its MEAN and STANDARD DEVIATION (not median / percentiles) are the population moments
            from scipy.stats import genextreme
            d = h["kwargs_los"][i]
            pop = genextreme(c=d["xi"], loc=d["mean"], scale=d["sigma"])
            return lam, sig_l, float(pop.mean()), float(pop.std())
        if cfg["los_distributions"][i] != "GAUSSIAN":
            return None
        sig_k = h["kwargs_los"][i]["sigma"]
    return lam, sig_l, kap, sig_k


def chi2_oracle(rng):
    """GoodnessOfFit.reduced_chi2 = -2 lnL / N_data of the un-normalised sample likelihood; 0 at a perfect match"""
    from hierarc.Diagnostics.goodness_of_fit import GoodnessOfFit
    from hierarc.Likelihood.lens_sample_likelihood import LensSampleLikelihood
    fails = []
    cosmo = lc.FakeCosmo()
    lenses, match = [], rng.random() < 0.5
    for _ in range(rng.choice([1, 2, 3])):
        lt = rng.choice(["DdtGaussian", "DdtDdGaussian", "DsDdsGaussian", "IFUKinCov", "DdtGaussKin"])
        data = lc.data_kwargs(rng, lt)
        kw = dict(z_lens=rng.uniform(0.3, 0.7), z_source=rng.uniform(1.2, 2.2), likelihood_type=lt)
        dd = float(cosmo.angular_diameter_distance(kw["z_lens"]).value)
        ds = float(cosmo.angular_diameter_distance(kw["z_source"]).value)
        dds = float(cosmo.angular_diameter_distance_z1z2(kw["z_lens"], kw["z_source"]).value)
        ddt = (1 + kw["z_lens"]) * dd * ds / dds
        if match:   # measurement == prediction
            if "ddt_mean" in data:
                data["ddt_mean"] = ddt
            if "dd_mean" in data:
                data["dd_mean"] = dd
            if "ds_dds_mean" in data:
                data["ds_dds_mean"] = ds / dds
            if "sigma_v_measurement" in data:
                data["sigma_v_measurement"] = list(np.sqrt(np.array(data["j_model"]) * ds / dds) * 299792.458)
        kw.update(data)
        lenses.append(kw)
    # the model settings the goodness-of-fit object is built with (the dictionary a user also hands to the sampler):
    # none, or the switches of a run that samples lambda_mst / a velocity-dispersion systematic
    kwargs_model = rng.choice([{}, {}, {"lambda_mst_sampling": True, "lambda_mst_distribution": "NONE"},
                               {"sigma_v_systematics": True},
                               {"lambda_mst_sampling": True, "lambda_mst_distribution": "NONE", "sigma_v_systematics": True}])
    gof = GoodnessOfFit(copy.deepcopy(lenses), copy.deepcopy(kwargs_model))
    hyp = dict(kwargs_lens=dict(lambda_mst=1.0, gamma_ppn=1.0), kwargs_kin={})
    chi2 = float(np.squeeze(gof.reduced_chi2(cosmo, hyp["kwargs_lens"], hyp["kwargs_kin"])))
    s = LensSampleLikelihood(copy.deepcopy(lenses), normalized=False)
    logl = float(np.squeeze(s.log_likelihood(cosmo, kwargs_lens=hyp["kwargs_lens"], kwargs_kin=hyp["kwargs_kin"])))
    nd = s.num_data()
    if not close(chi2, -2 * logl / nd, 1e-10):
        fails.append("reduced_chi2 %r != -2 lnL/N = %r (model settings %r)" % (chi2, -2 * logl / nd, kwargs_model))
    # ... and of the un-normalised likelihood of each lens on its own
    from hierarc.Likelihood.hierarchy_likelihood import LensLikelihood
    alone = sum(float(np.squeeze(LensLikelihood(**copy.deepcopy(l), normalized=False).lens_log_likelihood(
        cosmo, kwargs_lens=hyp["kwargs_lens"], kwargs_kin=hyp["kwargs_kin"]))) for l in lenses)
    if not close(chi2, -2 * alone / nd, 1e-10):
        fails.append("reduced_chi2 %r != -2 sum_lenses lnL_unnormalised / N = %r (model settings %r)" % (chi2, -2 * alone / nd, kwargs_model))
    if match and abs(chi2) > 1e-12:
        fails.append("perfect match but reduced chi2 = %r" % chi2)
    # kin_fit lists the reports
    names, ms, mes, ps, pes = gof.kin_fit(cosmo, hyp["kwargs_lens"], hyp["kwargs_kin"], None)
    nkin = sum(len(l["sigma_v_measurement"]) for l in lenses if "sigma_v_measurement" in l)
    if len(ms) != nkin:
        fails.append("kin_fit lists %d velocity dispersions for %d kinematic data points" % (len(ms), nkin))
    return fails, chi2, logl, nd


def run(ctx, res):
    rng = ctx.rng
    per = ctx.n(12, 200)
    cases = [gen_case(rng, lt, True) for lt in TYPES for _ in range(per)]
    cases += [gen_case(rng, rng.choice(["DdtGaussian", "DdtGaussKin"]), False) for _ in range(ctx.n(4, 30))]
    cases += [gen_scatter_case(rng, k) for k in range(ctx.n(10, 60))]
    lines, meta = [], []
    for case in cases:
        try:
            out, lens, cosmo = evaluate(case, ctx.np_seed())
        except Exception as e:  # noqa
            res.notes.append("construction failed for %s: %r" % (case["ltype"], e))
            res.count("ctor_fail")
            continue
        res.evaluations += 1
        res.count("type=" + case["ltype"])
        res.count("stream=" + case["stream"])
        cfg = case["cfg"]
        res.signatures.add((case["ltype"], case["stream"], len(case["data"].get("sigma_v_measurement", [])), "kin_scaling_param_list" in cfg,
                            "global_los_distribution" in cfg, cfg["mst_ifu"], cfg["num_distribution_draws"]))
        for f in oracle(case, out, lens, cosmo):
            res.violation("GoodnessOfFit[%s]:%s" % (case["ltype"], " ".join(f.split(" ")[:4])), f, c03.to_json(case))
        if "err" in out:
            continue
        if len(res.samples) < 2 and case["ltype"] == "IFUKinCov" and case["stream"] == "sharp":
            m, cm, p, cp = out["sigma_v"]
            res.sample({"type": case["ltype"], "measurement": list(map(float, m)), "prediction": list(map(float, p)),
                        "ddt_dd": [float(np.squeeze(v)) for v in out["ddt_dd"]]})
        d = case["data"]
        if case["ltype"] in lc.KIN_TYPES and case["stream"] == "sharp" and out["draws"]:
            n = cfg["num_distribution_draws"]
            draws = out["draws"][:n]
            sv = case["hyper"]["kwargs_kin"].get("sigma_v_sys_error")
            lines.append({"op": "C14.report", "err": lc.opt(sv),
                          "kin": {"z": f2b(cfg["z_lens"]), "sigma_v": [f2b(x) for x in d["sigma_v_measurement"]], "j": [f2b(x) for x in d["j_model"]],
                                  "cov_meas": [[f2b(x) for x in r] for r in np.asarray(d["error_cov_measurement"])],
                                  "cov_j": [[f2b(x) for x in r] for r in np.asarray(d["error_cov_j_sqrt"])],
                                  "normalized": True, "sys_include": bool(d.get("sigma_sys_error_include", False))},
                          "draws": [{"ddt": f2b(a), "dd": f2b(b), "ks": [f2b(x) for x in (ks if len(ks) == len(d["j_model"]) else ks * len(d["j_model"]))]}
                                    for a, b, ks in draws]})
            meta.append(("report", case, out))
        if out.get("disp") and len(out["disp"]) == cfg["num_distribution_draws"] <= 12 and out.get("dist") is not None:      # (the model's Fin-indexed sums are cubic in N when interpreted)
            # the model builds the report from the drawn (gamma, lambda, kappa) with its own displacement (floor included)
            lines.append({"op": "C14.ddtdd_draws", "ddt0": f2b(float(out["dist"][0])), "dd0": f2b(float(out["dist"][1])),
                          "draws": [[f2b(g_), f2b(l_), f2b(k_)] for g_, l_, k_ in out["disp"]]})
            meta.append(("ddtdd_draws", case, out))
        if case["ltype"] in ("DdtHist", "DdtHistKDE", "DdtHistKin") and out.get("ddt_meas") is not None:
            sm = np.asarray(d["ddt_samples"], dtype=float)
            wt = d.get("ddt_weights")
            wt = np.ones_like(sm) if wt is None else np.asarray(wt, dtype=float)
            lines.append({"op": "C12.measurement", "samples": [f2b(x) for x in sm], "weights": [f2b(x) for x in wt]})
            meta.append(("ddt_meas", case, out))
    for _ in range(ctx.n(12, 120)):
        try:
            fails, chi2, logl, nd = chi2_oracle(rng)
        except Exception as e:  # noqa
            res.notes.append("chi2 oracle failed to run: %r" % (e,))
            continue
        res.evaluations += 1
        res.count("reduced_chi2")
        for f in fails:
            res.violation("GoodnessOfFit.reduced_chi2:" + " ".join(f.split(" ")[:3]), f, {"chi2": True})
        lines.append({"op": "C14.chi2", "logL": f2b(logl), "num_data": int(nd)})
        meta.append(("chi2", None, chi2))
    if ctx.search_mode:
        return
    outs = run_driver(lines)
    for (kind, case, out), o in zip(meta, outs):
        res.traces += 1
        cj = c03.to_json(case) if case else {"chi2": True}
        if "err" in o:
            res.disagree("driver error %s" % o["err"], cj)
            continue
        m = o["ok"]
        if kind == "chi2":
            if not close(b2f(m["chi2"]), out, 1e-10):
                res.disagree("reduced chi2: model %r impl %r" % (b2f(m["chi2"]), out), cj)
            continue
        if kind == "ddtdd_draws":
            have = [float(np.squeeze(v)) for v in out["ddt_dd"]]
            want = [b2f(m[k_]) for k_ in ("ddt_mean", "ddt_std", "dd_mean", "dd_std")]
            sc = [abs(float(out["dist"][0]))] * 2 + [abs(float(out["dist"][1]))] * 2
            if not all(abs(a_ - b_) <= 1e-9 * max(s_, 1e-300) for a_, b_, s_ in zip(have, want, sc)):
                res.disagree("ddt_dd_model_prediction: model (displacement of the %d drawn parameter sets, then moments) %r impl %r"
                             % (len(out["disp"]), want, have), cj)
            continue
        if kind == "ddt_meas":
            dm = out["ddt_meas"]
            if not (close(b2f(m["mean"]), float(dm[0]), 1e-10) and close(b2f(m["sigma"]), float(dm[1]), 1e-7)):
                res.disagree("ddt_measurement: model (Hist.measurement) %r impl %r" % ((b2f(m["mean"]), b2f(m["sigma"])), dm), cj)
            continue
        im, icm, ip, icp = out["sigma_v"]
        ok = (close_list([b2f(x) for x in m["measurement"]], list(map(float, im)), 1e-10)
              and close_mat([[b2f(x) for x in r] for r in m["cov_measurement"]], np.asarray(icm, dtype=float).tolist(), 1e-10)
              and close_list([b2f(x) for x in m["predict_mean"]], list(map(float, ip)), 1e-10)
              and close_mat([[b2f(x) for x in r] for r in m["cov_predict"]], np.asarray(icp, dtype=float).tolist(), 1e-9, atol=1e-9))
        if not ok:
            res.disagree("sigma_v_measured_vs_predict report differs", cj)


def replay(ctx, data):
    if data["input"].get("chi2"):
        import random
        for s in range(20):
            f = chi2_oracle(random.Random(s))[0]
            if f:
                return True, str(f)
        return False, "chi2 oracle holds"
    case = c03.from_json(data["input"])
    out, lens, cosmo = evaluate(case, 0)
    fails = oracle(case, out, lens, cosmo)
    return bool(fails), "oracle on the implementation: %s" % (fails or "holds")
