/-
  C09 — Population draws stay inside the supported range and follow the declared law.
  Property theorems about `HierArc.Draws` (Model/Draws.lean) instantiated at ℝ.

  Conventions: `s` is the stream of standard normals / uniforms the draw runs on (ANY list), `fuel` the
  recursion depth available to the re-draw recursion (ANY number); `Rng.mem r v` = `v` lies in the closed
  range `r` (an absent end is unbounded: the parameter is not an axis of the grid).
-/
import HierArc.Model.Draws
import HierArc.Proofs.RealInst
import HierArc.Proofs.Draws
import HierArc.Proofs.DrawsCdf
import Mathlib.Tactic.Linarith
import Mathlib.Tactic.NormNum
import Mathlib.Tactic.Ring
import Mathlib.Tactic.FieldSimp
import Mathlib.Analysis.SpecificLimits.Basic

namespace HierArc.Draws
open HierArc

/-! ## 1. draw_anisotropy -/

/-- the whole-draw specification: whatever `draw_anisotropy` returns (any fuel, any stream) satisfies
    `AniOk` w.r.t. the stream it was given, and the rest of the stream is a suffix -/
theorem drawAnisotropy_spec {c : AniCfg ℝ} {p : AniPar ℝ} {fuel : ℕ} {s s' : List ℝ} {d : Dict ℝ}
    (hs : c.sampling = true) (h : drawAnisotropy c p fuel s = .ok (d, s')) :
    AniOk c p s d ∧ s' <:+ s := by
  obtain ⟨s₀, hsuf, ha⟩ := retry_ok_spec (fun a b hab => aniAttempt_none hab) h
  obtain ⟨hok, hs'⟩ := aniAttempt_ok hs ha
  exact ⟨hok.mono hsuf, hs'.trans hsuf⟩

/-- **in range (a_ani)**: a returned `a_ani` lies within `[min, max]` of its grid axis. -/
theorem drawAnisotropy_a_in_range {c : AniCfg ℝ} {p : AniPar ℝ} {fuel : ℕ} {s s' : List ℝ}
    {d : Dict ℝ} (hs : c.sampling = true) (h : drawAnisotropy c p fuel s = .ok (d, s'))
    {v : ℝ} (hv : d.get? "a_ani" = some v) : c.aRng.mem v := by
  obtain ⟨_, _, _, h3, _⟩ := (drawAnisotropy_spec hs h).1.a_spec v hv
  exact h3

/-- **in range (beta_inf)** -/
theorem drawAnisotropy_b_in_range {c : AniCfg ℝ} {p : AniPar ℝ} {fuel : ℕ} {s s' : List ℝ}
    {d : Dict ℝ} (hs : c.sampling = true) (h : drawAnisotropy c p fuel s = .ok (d, s'))
    {v : ℝ} (hv : d.get? "beta_inf" = some v) : c.bRng.mem v := by
  obtain ⟨_, _, _, h3, _⟩ := (drawAnisotropy_spec hs h).1.b_spec v hv
  exact h3

/-- the drawn parameters are present: `a_ani` for OM / GOM / const, `beta_inf` for GOM -/
theorem drawAnisotropy_keys {c : AniCfg ℝ} {p : AniPar ℝ} {fuel : ℕ} {s s' : List ℝ}
    {d : Dict ℝ} (hs : c.sampling = true) (h : drawAnisotropy c p fuel s = .ok (d, s')) :
    (c.model ≠ .NONE → ∃ v, d.get? "a_ani" = some v) ∧
    (c.model = .GOM → ∃ v, d.get? "beta_inf" = some v) :=
  ⟨(drawAnisotropy_spec hs h).1.a_key, (drawAnisotropy_spec hs h).1.b_key⟩

/-- **mean outside ⇒ ValueError (a_ani)**: for every stream and every fuel ≥ 1, before any draw is used. -/
theorem drawAnisotropy_mean_out_raises {c : AniCfg ℝ} {p : AniPar ℝ} {a : ℝ}
    (hs : c.sampling = true) (hm : c.model ≠ .NONE) (ha : p.a = some a) (hout : ¬ c.aRng.mem a)
    (fuel : ℕ) (s : List ℝ) : drawAnisotropy c p (fuel + 1) s = .error .valueError := by
  apply retry_error
  unfold aniAttempt
  rw [hs, aniStageA_popOut hm ha hout]
  rfl

/-- **mean outside ⇒ never a value (beta_inf, GOM)**: the call can only raise. -/
theorem drawAnisotropy_beta_mean_out_never_returns {c : AniCfg ℝ} {p : AniPar ℝ} {b : ℝ}
    (hs : c.sampling = true) (hm : c.model = .GOM) (hb : p.b = some b) (hout : ¬ c.bRng.mem b)
    (fuel : ℕ) (s s' : List ℝ) (d : Dict ℝ) : drawAnisotropy c p fuel s ≠ .ok (d, s') := by
  intro h
  obtain ⟨v, hv⟩ := (drawAnisotropy_spec hs h).1.b_key hm
  obtain ⟨b', hb', hmem, _⟩ := (drawAnisotropy_spec hs h).1.b_spec v hv
  rw [hb] at hb'; cases hb'
  exact hout hmem

/-- **re-sampling, not clipping (a_ani)**: with a Gaussian law the returned `a_ani` is
    `post(mean + scale·z)` for an element `z` of the stream — never a bound substituted for a rejected draw —
    where `scale = σ` (GAUSSIAN, GAUSSIAN_TAN_RAD) or `σ·mean` (GAUSSIAN_SCALED) and `scale ≥ 0`. -/
theorem drawAnisotropy_resample_not_clip {c : AniCfg ℝ} {p : AniPar ℝ} {fuel : ℕ} {s s' : List ℝ}
    {d : Dict ℝ} (hs : c.sampling = true) (hd : c.dist ≠ .none)
    (h : drawAnisotropy c p fuel s = .ok (d, s')) {v : ℝ} (hv : d.get? "a_ani" = some v) :
    ∃ a, p.a = some a ∧ 0 ≤ aniScale c.dist a p.aSig ∧
      ∃ z ∈ s, v = aniPost c.dist (a + aniScale c.dist a p.aSig * z) := by
  obtain ⟨a, h1, _, _, _, h5⟩ := (drawAnisotropy_spec hs h).1.a_spec v hv
  exact ⟨a, h1, h5 hd⟩

/-- **scaled sigma**: GAUSSIAN_SCALED draws `a_ani = mean + (σ·mean)·z`; GAUSSIAN draws `mean + σ·z`. -/
theorem drawAnisotropy_scaled_sigma {c : AniCfg ℝ} {p : AniPar ℝ} {fuel : ℕ} {s s' : List ℝ}
    {d : Dict ℝ} (hs : c.sampling = true) (h : drawAnisotropy c p fuel s = .ok (d, s'))
    {v : ℝ} (hv : d.get? "a_ani" = some v) :
    (c.dist = .scaled → ∃ a, p.a = some a ∧ ∃ z ∈ s, v = a + (p.aSig * a) * z) ∧
    (c.dist = .gaussian → ∃ a, p.a = some a ∧ ∃ z ∈ s, v = a + p.aSig * z) ∧
    (c.dist = .none → p.a = some v) := by
  obtain ⟨a, h1, _, _, h4, h5⟩ := (drawAnisotropy_spec hs h).1.a_spec v hv
  refine ⟨fun hd => ?_, fun hd => ?_, fun hd => ?_⟩
  · obtain ⟨_, z, hz, hvz⟩ := h5 (by rw [hd]; decide)
    exact ⟨a, h1, z, hz, by simpa [hd, aniScale, aniPost] using hvz⟩
  · obtain ⟨_, z, hz, hvz⟩ := h5 (by rw [hd]; decide)
    exact ⟨a, h1, z, hz, by simpa [hd, aniScale, aniPost] using hvz⟩
  · rw [h4 hd]; exact h1

/-- beta_inf is `mean + σ·z` of a stream element for the two Gaussian laws, the mean itself otherwise -/
theorem drawAnisotropy_beta_resample {c : AniCfg ℝ} {p : AniPar ℝ} {fuel : ℕ} {s s' : List ℝ}
    {d : Dict ℝ} (hs : c.sampling = true) (h : drawAnisotropy c p fuel s = .ok (d, s'))
    {v : ℝ} (hv : d.get? "beta_inf" = some v) :
    ∃ b, p.b = some b ∧
      ((c.dist = .gaussian ∨ c.dist = .scaled) → 0 ≤ p.bSig ∧ ∃ z ∈ s, v = b + p.bSig * z) ∧
      (¬ (c.dist = .gaussian ∨ c.dist = .scaled) → v = b) := by
  obtain ⟨b, h1, _, _, h4, h5⟩ := (drawAnisotropy_spec hs h).1.b_spec v hv
  exact ⟨b, h1, h4, h5⟩

/-- **first accepted attempt**: the result is exactly what the first attempt none of whose draws is rejected
    returns — all earlier attempts were rejected as a whole (fresh normals for every parameter). -/
theorem drawAnisotropy_first_accepted (c : AniCfg ℝ) (p : AniPar ℝ) (fuel : ℕ) (s s' : List ℝ)
    (d : Dict ℝ) :
    drawAnisotropy c p fuel s = .ok (d, s') ↔
      ∃ k s₀, k < fuel ∧ RejChain (aniAttempt c p) s s₀ k ∧ aniAttempt c p s₀ = .ok (some d, s') :=
  retry_ok_iff _ _ _ _ _

/-- **non-termination (F9, anisotropy)**: GAUSSIAN_TAN_RAD with zero scatter and `1 - mean²` outside the
    range: no fuel and no stream make the call return a value or a ValueError — only stack exhaustion. -/
theorem drawAnisotropy_tanRad_zero_acceptance {c : AniCfg ℝ} {p : AniPar ℝ} {a : ℝ}
    (hs : c.sampling = true) (hm : c.model = .OM ∨ c.model = .const) (hd : c.dist = .tanRad)
    (ha : p.a = some a) (hin : c.aRng.mem a) (h0 : p.aSig = 0) (hout : ¬ c.aRng.mem (1 - a * a))
    (fuel : ℕ) (s : List ℝ) :
    drawAnisotropy c p fuel s = .error .recursion ∨ drawAnisotropy c p fuel s = .error .streamEnd := by
  apply retry_only_recursion
  intro t
  have hmN : c.model ≠ .NONE := by rcases hm with h | h <;> rw [h] <;> decide
  have hstage : ∀ t, aniStageA c p t = .error .streamEnd ∨ ∃ t', aniStageA c p t = .ok (none, t') := by
    intro t
    unfold aniStageA
    split
    · rename_i hx; exact absurd hx hmN
    · rw [ha, hd]
      simp only [drawChecked, (Rng.out_eq_false _ _).mpr hin, aniScale, h0, lit_zero, lt_irrefl,
        Bool.false_eq_true, ↓reduceIte]
      cases t with
      | nil => left; rfl
      | cons z t' =>
        right
        have : c.aRng.out (aniPost AniDist.tanRad a) = true := by
          rw [Rng.out_eq_true]; simpa [aniPost, lit_one] using hout
        simp [this]
  unfold aniAttempt
  rw [hs]
  simp only [Bool.not_true, Bool.false_eq_true, ↓reduceIte]
  rcases hstage t with h | ⟨t', h⟩
  · rw [h]; left; rfl
  · rw [h]; right; exact ⟨t', rfl⟩

/-! ## 2. draw_lens -/

theorem drawLens_spec {c : LensCfg ℝ} {p : LensPar ℝ} {fuel : ℕ} {s s' : List ℝ} {d : Dict ℝ}
    (h : drawLens c p fuel s = .ok (d, s')) : LensOk c p s d ∧ s' <:+ s := by
  obtain ⟨s₀, hsuf, ha⟩ := retry_ok_spec (fun a b hab => lensAttempt_none hab) h
  obtain ⟨hok, hs'⟩ := lensAttempt_ok ha
  exact ⟨hok.mono hsuf, hs'.trans hsuf⟩

/-- **in range (gamma_in, log_m2l)**: returned values lie within `[min, max]` of their grid axes, and they
    are present whenever the parameter is sampled. -/
theorem drawLens_in_range {c : LensCfg ℝ} {p : LensPar ℝ} {fuel : ℕ} {s s' : List ℝ} {d : Dict ℝ}
    (h : drawLens c p fuel s = .ok (d, s')) :
    (∀ v, d.get? "gamma_in" = some v → c.gRng.mem v) ∧
    (∀ v, d.get? "log_m2l" = some v → c.mRng.mem v) ∧
    (c.gammaInSampling = true → ∃ v, d.get? "gamma_in" = some v) ∧
    (c.logM2lSampling = true → ∃ v, d.get? "log_m2l" = some v) := by
  have hok := (drawLens_spec h).1
  exact ⟨fun v hv => (hok.g_spec v hv).2.2.1, fun v hv => (hok.m_spec v hv).2.2.1, hok.g_key, hok.m_key⟩

/-- **mean outside ⇒ never a value**: with the population mean of `gamma_in` (or `log_m2l`) outside its
    range no stream and no fuel make `draw_lens` return. -/
theorem drawLens_mean_out_never_returns {c : LensCfg ℝ} {p : LensPar ℝ}
    (hout : (c.gammaInSampling = true ∧ ¬ c.gRng.mem p.gammaIn) ∨
            (c.logM2lSampling = true ∧ ¬ c.mRng.mem p.logM2l))
    (fuel : ℕ) (s s' : List ℝ) (d : Dict ℝ) : drawLens c p fuel s ≠ .ok (d, s') := by
  intro h
  have hok := (drawLens_spec h).1
  rcases hout with ⟨hon, hno⟩ | ⟨hon, hno⟩
  · obtain ⟨v, hv⟩ := hok.g_key hon
    exact hno (hok.g_spec v hv).2.1
  · obtain ⟨v, hv⟩ := hok.m_key hon
    exact hno (hok.m_spec v hv).2.1

/-- **mean outside ⇒ ValueError (gamma_in)**: as soon as the (unchecked) lambda draw before it succeeds —
    non-negative lambda scatter, one stream element — the outcome is exactly ValueError. -/
theorem drawLens_gamma_in_mean_out_raises {c : LensCfg ℝ} {p : LensPar ℝ}
    (hon : c.gammaInSampling = true) (hout : ¬ c.gRng.mem p.gammaIn)
    (hl : 0 ≤ lambdaSigma c p) (fuel : ℕ) (z : ℝ) (s : List ℝ) :
    drawLens c p (fuel + 1) (z :: s) = .error .valueError := by
  apply retry_error
  unfold lensAttempt lensStageLambda drawPlain
  have h0 : ¬ lambdaSigma c p < (0.0 : ℝ) := by rw [lit_zero]; exact not_lt.mpr hl
  by_cases hg : c.lambdaGaussian = true
  · simp only [hg, h0, ↓reduceIte, lensStageGammaIn, hon, drawChecked_popOut hout]
  · simp only [hg, Bool.false_eq_true, ↓reduceIte, lensStageGammaIn, hon, drawChecked_popOut hout]

/-- **re-sampling, not clipping**: `gamma_in`, `log_m2l` (and `lambda_mst`) are `lens-level mean + σ·z` for
    stream elements `z`, with the given `σ ≥ 0`; the lens-level means carry the scaling relations. -/
theorem drawLens_resample_not_clip {c : LensCfg ℝ} {p : LensPar ℝ} {fuel : ℕ} {s s' : List ℝ}
    {d : Dict ℝ} (h : drawLens c p fuel s = .ok (d, s')) :
    (∀ v, d.get? "gamma_in" = some v →
        0 ≤ p.gammaInSigma ∧ ∃ z ∈ s, v = gammaInLens c p + p.gammaInSigma * z) ∧
    (∀ v, d.get? "log_m2l" = some v →
        0 ≤ p.logM2lSigma ∧ ∃ z ∈ s, v = logM2lLens c p + p.logM2lSigma * z) ∧
    (∃ x, d.get? "lambda_mst" = some x ∧
        (c.lambdaGaussian = true → 0 ≤ lambdaSigma c p ∧ ∃ z ∈ s, x = lambdaLens c p + lambdaSigma c p * z) ∧
        (c.lambdaGaussian = false → x = lambdaLens c p)) ∧
    d.get? "gamma_ppn" = some p.gammaPpn := by
  have hok := (drawLens_spec h).1
  exact ⟨fun v hv => (hok.g_spec v hv).2.2.2, fun v hv => (hok.m_spec v hv).2.2.2, hok.l_spec, hok.ppn⟩

theorem drawLens_first_accepted (c : LensCfg ℝ) (p : LensPar ℝ) (fuel : ℕ) (s s' : List ℝ)
    (d : Dict ℝ) :
    drawLens c p fuel s = .ok (d, s') ↔
      ∃ k s₀, k < fuel ∧ RejChain (lensAttempt c p) s s₀ k ∧ lensAttempt c p s₀ = .ok (some d, s') :=
  retry_ok_iff _ _ _ _ _

/-- **non-termination (F9)**: zero scatter and a lens-level mean (population mean + scaling relation) outside
    the range: for every fuel and every stream `draw_lens` returns no value — each attempt can only be rejected
    (or raise), so the real code recurses until the stack is exhausted. -/
theorem drawLens_zero_sigma_outside_never_returns {c : LensCfg ℝ} {p : LensPar ℝ}
    (hcase : (c.gammaInSampling = true ∧ p.gammaInSigma = 0 ∧ ¬ c.gRng.mem (gammaInLens c p)) ∨
             (c.logM2lSampling = true ∧ p.logM2lSigma = 0 ∧ ¬ c.mRng.mem (logM2lLens c p)))
    (fuel : ℕ) (s s' : List ℝ) (d : Dict ℝ) : drawLens c p fuel s ≠ .ok (d, s') := by
  intro h
  have hok := (drawLens_spec h).1
  rcases hcase with ⟨hon, h0, hno⟩ | ⟨hon, h0, hno⟩
  · obtain ⟨v, hv⟩ := hok.g_key hon
    obtain ⟨_, _, hmem, _, z, _, hz⟩ := hok.g_spec v hv
    rw [h0, zero_mul, add_zero] at hz
    exact hno (hz ▸ hmem)
  · obtain ⟨v, hv⟩ := hok.m_key hon
    obtain ⟨_, _, hmem, _, z, _, hz⟩ := hok.m_spec v hv
    rw [h0, zero_mul, add_zero] at hz
    exact hno (hz ▸ hmem)

/-- the same for any scatter: if no realisation `lens-level mean + σ·z` can fall in the range the call
    never returns (general form of the F9 hypothesis: the theorems need acceptance to be possible) -/
theorem drawLens_no_acceptance_never_returns {c : LensCfg ℝ} {p : LensPar ℝ}
    (hon : c.gammaInSampling = true)
    (hno : ∀ z, ¬ c.gRng.mem (gammaInLens c p + p.gammaInSigma * z))
    (fuel : ℕ) (s s' : List ℝ) (d : Dict ℝ) : drawLens c p fuel s ≠ .ok (d, s') := by
  intro h
  have hok := (drawLens_spec h).1
  obtain ⟨v, hv⟩ := hok.g_key hon
  obtain ⟨_, _, hmem, _, z, _, hz⟩ := hok.g_spec v hv
  exact hno z (hz ▸ hmem)

/-- **termination, as far as it is true**: if some attempt on the stream is accepted after `k` rejected ones,
    every fuel `> k` returns it (so a RecursionError can only come from `k ≥` the stack depth). -/
theorem drawLens_returns_of_accepting_attempt {c : LensCfg ℝ} {p : LensPar ℝ} {s s₀ s' : List ℝ}
    {k : ℕ} {d : Dict ℝ} (hc : RejChain (lensAttempt c p) s s₀ k)
    (ha : lensAttempt c p s₀ = .ok (some d, s')) {fuel : ℕ} (hf : k < fuel) :
    drawLens c p fuel s = .ok (d, s') :=
  retry_returns hc ha hf

theorem drawAnisotropy_returns_of_accepting_attempt {c : AniCfg ℝ} {p : AniPar ℝ} {s s₀ s' : List ℝ}
    {k : ℕ} {d : Dict ℝ} (hc : RejChain (aniAttempt c p) s s₀ k)
    (ha : aniAttempt c p s₀ = .ok (some d, s')) {fuel : ℕ} (hf : k < fuel) :
    drawAnisotropy c p fuel s = .ok (d, s') :=
  retry_returns hc ha hf

/-! non-vacuity: F9 witness configuration (range [1,2], gamma_in 1.9, α·property = 0.5, σ = 0) -/
example : ∃ (c : LensCfg ℝ) (p : LensPar ℝ), c.gammaInSampling = true ∧ p.gammaInSigma = 0 ∧
    c.gRng.mem p.gammaIn ∧ ¬ c.gRng.mem (gammaInLens c p) := by
  refine ⟨⟨false, true, true, false, false, 1, 0, ⟨some 1, some 2⟩, ⟨none, none⟩, none, false, false⟩,
    ⟨1, 0, 1, 1, 0, 0, 0, 1.9, 0, 0.5, 0, 0, 0, none, 2, 0⟩, rfl, rfl, ?_, ?_⟩
  · constructor <;> intro x hx <;> simp at hx <;> subst hx <;> norm_num
  · intro h
    have := h.2 2 rfl
    norm_num [gammaInLens] at this

/-! non-vacuity: an accepted lens draw (lambda Gaussian, gamma_in in [1,2] rejected once) -/
example : drawLens (α := ℝ)
    ⟨true, true, true, false, false, 0, 0, ⟨some 1, some 2⟩, ⟨none, none⟩, none, false, false⟩
    ⟨1, 0.1, 1, 1, 0, 0, 0, 1.5, 1, 0, 0, 0, 0, none, 2, 0⟩ 3 [1, 2, -1, 0.25, 9]
    = .ok ([("lambda_mst", 0.9), ("gamma_ppn", 1), ("gamma_in", 1.75)], [9]) := by
  norm_num [drawLens, retry, lensAttempt, lensStageLambda, lensStageGammaIn, lensStageLogM2l,
    lensStageGammaPl, drawChecked, drawPlain, Rng.out, lambdaLens, lambdaSigma, gammaInLens]

/-! ## 3. tabulated PDF: approx_cdf_1d, its inverse, PDFSampling.draw -/

/-- a tabulated PDF: non-negative entries with positive sum -/
def ValidPdf (pdf : List ℝ) : Prop := (∀ q ∈ pdf, 0 ≤ q) ∧ 0 < pdf.sum

theorem approxCdf_eq (pdf : List ℝ) : approxCdf pdf = cdfFrom pdf.sum 0 pdf := by
  unfold approxCdf; rw [sumList_eq, lit_zero]

/-- **cdf_ends** (and length): the CDF array has one node per bin edge, starts at 0 and ends at 1. -/
theorem cdf_ends {pdf : List ℝ} (h : 0 < pdf.sum) :
    (approxCdf pdf).length = pdf.length + 1 ∧
    (∃ rest, approxCdf pdf = 0 :: rest) ∧ lastD (approxCdf pdf) 0 = 1 := by
  rw [approxCdf_eq]
  refine ⟨cdfFrom_length _ _ _, cdfFrom_eq_cons _ _ _, ?_⟩
  rw [cdfFrom_last, zero_add, div_self h.ne']

/-- **cdf_monotone**: the CDF array is non-decreasing. -/
theorem cdf_monotone {pdf : List ℝ} (h : ValidPdf pdf) : (approxCdf pdf).Pairwise (· ≤ ·) := by
  rw [approxCdf_eq]; exact cdfFrom_pairwise h.2 h.1

/-- every CDF node lies in [0, 1] -/
theorem cdf_in_unit {pdf : List ℝ} (h : ValidPdf pdf) : ∀ x ∈ approxCdf pdf, 0 ≤ x ∧ x ≤ 1 := by
  intro x hx
  obtain ⟨_, ⟨rest, hr⟩, hlast⟩ := cdf_ends h.2
  refine ⟨by rw [approxCdf_eq] at hx; exact cdfFrom_ge h.2 h.1 x hx, ?_⟩
  have hm := cdf_monotone h
  rw [hr] at hx hm hlast
  have hmem := lastD_mem 0 rest 0
  rw [hlast] at hmem
  -- 1 is the last element; every element is ≤ the last one
  have : ∀ (l : List ℝ) (a : ℝ), (a :: l).Pairwise (· ≤ ·) → ∀ y ∈ a :: l, y ≤ lastD (a :: l) 0 := by
    intro l
    induction l with
    | nil => intro a _ y hy; simp at hy; simp [lastD, hy]
    | cons b l ih =>
      intro a hp y hy
      rw [lastD_cons_cons]
      rcases List.mem_cons.mp hy with rfl | hy
      · exact le_trans ((List.pairwise_cons.mp hp).1 b List.mem_cons_self)
          (ih b (List.pairwise_cons.mp hp).2 b List.mem_cons_self)
      · exact ih b (List.pairwise_cons.mp hp).2 y hy
  have := this rest 0 hm x hx
  rwa [hlast] at this

/-- **cdfinv_in_bins**: for `0 ≤ p ≤ 1` the inverse CDF returns a value inside the bin range. -/
theorem cdfInv_in_bins {pdf : List ℝ} {e0 : ℝ} {et : List ℝ} (h : ValidPdf pdf)
    (hl : (e0 :: et).length = pdf.length + 1) (he : (e0 :: et).Pairwise (· ≤ ·))
    {p : ℝ} (hp0 : 0 ≤ p) (hp1 : p ≤ 1) :
    ∃ v, cdfInv (e0 :: et) pdf p = .ok v ∧ e0 ≤ v ∧ v ≤ lastD (e0 :: et) e0 := by
  obtain ⟨hlen, ⟨rest, hr⟩, hlast⟩ := cdf_ends h.2
  unfold cdfInv interp
  rw [hr] at hlast hlen ⊢
  simp only [hlast, not_lt.mpr hp0, not_lt.mpr hp1, ↓reduceIte]
  exact ⟨_, rfl, interpGo_bounds _ _ p e0 et rfl (by rw [hlen, hl]) he⟩

/-- a probability outside [0, 1] is a ValueError of the interpolator (no extrapolation) -/
theorem cdfInv_outside_raises {pdf : List ℝ} (edges : List ℝ) (h : 0 < pdf.sum) {p : ℝ}
    (hp : p < 0 ∨ 1 < p) : cdfInv edges pdf p = .error .valueError := by
  obtain ⟨_, ⟨rest, hr⟩, hlast⟩ := cdf_ends h
  unfold cdfInv interp
  rw [hr] at hlast ⊢
  simp only [hlast]
  rcases hp with hp | hp
  · rw [if_pos hp]
  · split <;> rfl

/-- **inverse lands in a bin of positive probability**: for `0 ≤ p < 1` (the range of the uniform
    generator) there is a bin `i` with `pdf[i] > 0` and `edges[i] ≤ cdfInv p ≤ edges[i+1]`. -/
theorem cdfInv_in_positive_bin {pdf edges : List ℝ} (h : ValidPdf pdf)
    (hl : edges.length = pdf.length + 1) (he : edges.Pairwise (· ≤ ·))
    {p : ℝ} (hp0 : 0 ≤ p) (hp1 : p < 1) :
    ∃ v, cdfInv edges pdf p = .ok v ∧
      ∃ i, ∃ (h1 : i < pdf.length) (h2 : i + 1 < edges.length),
        0 < pdf[i] ∧ edges[i] ≤ v ∧ v ≤ edges[i + 1] := by
  obtain ⟨hlen, ⟨rest, hr⟩, hlast⟩ := cdf_ends h.2
  have hb := interpGo_cdf_bin pdf edges pdf.sum 0 p hl he h.1 h.2 hp0
    (by rw [zero_add, div_self h.2.ne']; exact hp1)
  unfold cdfInv interp
  rw [← approxCdf_eq] at hb
  rw [hr] at hlast hb ⊢
  simp only [hlast, not_lt.mpr hp0, not_lt.mpr hp1.le, ↓reduceIte]
  exact ⟨_, rfl, hb⟩

/-- **cdf_cdfinv**: with strictly increasing bin edges, `CDF(inverse CDF(p)) = p` for `0 ≤ p ≤ 1`. -/
theorem cdf_cdfInv {pdf : List ℝ} {e0 : ℝ} {et : List ℝ} (h : ValidPdf pdf)
    (hl : (e0 :: et).length = pdf.length + 1) (he : (e0 :: et).Pairwise (· < ·))
    {p : ℝ} (hp0 : 0 ≤ p) (hp1 : p ≤ 1) :
    ∃ v, cdfInv (e0 :: et) pdf p = .ok v ∧ cdfFunc (e0 :: et) pdf v = .ok p := by
  obtain ⟨v, hv, hlo, hhi⟩ := cdfInv_in_bins h hl (he.imp le_of_lt) hp0 hp1
  refine ⟨v, hv, ?_⟩
  obtain ⟨hlen, ⟨rest, hr⟩, hlast⟩ := cdf_ends h.2
  have hvdef : v = interpGo (approxCdf pdf) (e0 :: et) p := by
    unfold cdfInv interp at hv
    rw [hr] at hlast hv
    simp only [hlast, not_lt.mpr hp0, not_lt.mpr hp1, ↓reduceIte, Except.ok.injEq] at hv
    rw [hr]; exact hv.symm
  unfold cdfFunc interp
  simp only [not_lt.mpr hlo, not_lt.mpr hhi, ↓reduceIte, Except.ok.injEq]
  rw [hvdef, hr]
  rw [hr] at hlast hlen
  exact interpGo_roundtrip (0 :: rest) (e0 :: et) p 0 rest rfl (by rw [hlen, hl]) he hp0
    (by rw [hlast]; exact hp1)

/-- the inverse CDF of a valid PDF on strictly increasing edges is not constant: a tabulated line-of-sight
    distribution is never degenerate -/
theorem cdfInv_nonconstant {pdf : List ℝ} {e0 : ℝ} {et : List ℝ} (h : ValidPdf pdf)
    (hl : (e0 :: et).length = pdf.length + 1) (he : (e0 :: et).Pairwise (· < ·)) :
    cdfInv (e0 :: et) pdf 0 ≠ cdfInv (e0 :: et) pdf 1 := by
  obtain ⟨v0, h0, hf0⟩ := cdf_cdfInv h hl he (le_refl 0) zero_le_one
  obtain ⟨v1, h1, hf1⟩ := cdf_cdfInv h hl he zero_le_one (le_refl 1)
  intro heq
  rw [h0, h1] at heq
  cases heq
  rw [hf0] at hf1
  simp at hf1

/-- **PDFSampling.draw stays inside the bin range** for any list of uniforms in [0, 1]. -/
theorem pdfDraw_in_bins {pdf : List ℝ} {e0 : ℝ} {et : List ℝ} (h : ValidPdf pdf)
    (hl : (e0 :: et).length = pdf.length + 1) (he : (e0 :: et).Pairwise (· ≤ ·)) :
    ∀ us : List ℝ, (∀ u ∈ us, 0 ≤ u ∧ u ≤ 1) →
      ∃ vs, pdfDraw (e0 :: et) pdf us = .ok vs ∧ vs.length = us.length ∧
        ∀ v ∈ vs, e0 ≤ v ∧ v ≤ lastD (e0 :: et) e0 := by
  intro us
  induction us with
  | nil => intro _; exact ⟨[], rfl, rfl, by simp⟩
  | cons u t ih =>
    intro hu
    obtain ⟨vs, hvs, hlen, hin⟩ := ih (fun x hx => hu x (List.mem_cons_of_mem _ hx))
    obtain ⟨v, hv, hlo, hhi⟩ := cdfInv_in_bins h hl he (hu u List.mem_cons_self).1
      (hu u List.mem_cons_self).2
    refine ⟨v :: vs, ?_, by simp [hlen], ?_⟩
    · unfold pdfDraw; rw [hv, hvs]
    · intro x hx
      rcases List.mem_cons.mp hx with rfl | hx
      · exact ⟨hlo, hhi⟩
      · exact hin x hx

/-! non-vacuity: the PDF [1, 0, 2, 1] on edges 0..4: CDF = [0, 1/4, 1/4, 3/4, 1], inverse of 1/2 is 2.5 -/
example : ValidPdf [1, 0, 2, 1] := ⟨by intro q hq; simp at hq; rcases hq with rfl | rfl | rfl | rfl <;> norm_num, by norm_num⟩
example : approxCdf (α := ℝ) [1, 0, 2, 1] = [0, 1/4, 1/4, 3/4, 1] := by
  norm_num [approxCdf, cdfFrom, sumList]
example : cdfInv (α := ℝ) [0, 1, 2, 3, 4] [1, 0, 2, 1] (1/2) = .ok 2.5 := by
  norm_num [cdfInv, interp, approxCdf, cdfFrom, sumList, lastD, interpGo]

/-! ## 4. ranges = min / max of the interpolation axes (param_bounds_interpol) -/

/-- **bounds_minmax**: for every named axis (names distinct) the two dictionaries hold nodes `lo`, `hi` of
    that axis with `lo ≤ x ≤ hi` for every node `x`; axes of any length, in any order. -/
theorem paramBounds_minmax : ∀ (axes : List (String × List ℝ)) (b : Dict ℝ × Dict ℝ),
    paramBounds axes = some b → (axes.map Prod.fst).Nodup →
    ∀ k ax, (k, ax) ∈ axes → ∃ lo hi, b.1.get? k = some lo ∧ b.2.get? k = some hi ∧
      lo ∈ ax ∧ hi ∈ ax ∧ ∀ x ∈ ax, lo ≤ x ∧ x ≤ hi := by
  intro axes
  induction axes with
  | nil => intro b _ _ k ax h; simp at h
  | cons hd t ih =>
    intro b hb hnd k ax hmem
    obtain ⟨k0, ax0⟩ := hd
    unfold paramBounds at hb
    split at hb
    · rename_i lo hi mn mx hlo hhi ht
      simp only [Option.some.injEq] at hb
      subst hb
      simp only [List.map_cons, List.nodup_cons] at hnd
      rcases List.mem_cons.mp hmem with heq | hmem
      · cases heq
        obtain ⟨h1, h2⟩ := listMin_spec _ _ hlo
        obtain ⟨h3, h4⟩ := listMax_spec _ _ hhi
        exact ⟨lo, hi, by simp [Dict.get?], by simp [Dict.get?], h1, h3, fun x hx => ⟨h2 x hx, h4 x hx⟩⟩
      · have hne : k0 ≠ k := by
          intro heq
          exact hnd.1 (List.mem_map.mpr ⟨(k, ax), hmem, heq.symm⟩)
        obtain ⟨lo', hi', h1, h2, h3⟩ := ih (mn, mx) ht hnd.2 k ax hmem
        exact ⟨lo', hi', by simpa [Dict.get?, hne] using h1, by simpa [Dict.get?, hne] using h2, h3⟩
    · cases hb

/-- a parameter that is not an axis of the grid has no bound (`kwargs_min.get(k, -inf)`) -/
theorem paramBounds_absent : ∀ (axes : List (String × List ℝ)) (b : Dict ℝ × Dict ℝ),
    paramBounds axes = some b → ∀ k, k ∉ axes.map Prod.fst → b.1.get? k = none ∧ b.2.get? k = none := by
  intro axes
  induction axes with
  | nil => intro b hb k _; simp [paramBounds] at hb; subst hb; simp [Dict.get?]
  | cons hd t ih =>
    intro b hb k hk
    obtain ⟨k0, ax0⟩ := hd
    unfold paramBounds at hb
    split at hb
    · rename_i lo hi mn mx hlo hhi ht
      simp only [Option.some.injEq] at hb
      subst hb
      simp only [List.map_cons, List.mem_cons, not_or] at hk
      obtain ⟨h1, h2⟩ := ih (mn, mx) ht k hk.2
      have hne : k0 ≠ k := fun h => hk.1 h.symm
      exact ⟨by simpa [Dict.get?, hne] using h1, by simpa [Dict.get?, hne] using h2⟩
    · cases hb

/-- **no draw leaves the grid**: with the ranges taken from the grid (`rngOf (paramBounds axes)`), a returned
    `a_ani` lies between two nodes of the `a_ani` axis (hence inside the interpolation domain). -/
theorem drawAnisotropy_inside_grid {axes : List (String × List ℝ)} {b : Dict ℝ × Dict ℝ}
    (hb : paramBounds axes = some b) (hnd : (axes.map Prod.fst).Nodup) {ax : List ℝ}
    (hax : ("a_ani", ax) ∈ axes) {c : AniCfg ℝ} (hc : c.aRng = rngOf b "a_ani") {p : AniPar ℝ}
    {fuel : ℕ} {s s' : List ℝ} {d : Dict ℝ} (hs : c.sampling = true)
    (h : drawAnisotropy c p fuel s = .ok (d, s')) {v : ℝ} (hv : d.get? "a_ani" = some v) :
    ∃ lo ∈ ax, ∃ hi ∈ ax, lo ≤ v ∧ v ≤ hi := by
  obtain ⟨lo, hi, h1, h2, h3, h4, _⟩ := paramBounds_minmax axes b hb hnd _ _ hax
  have hm := drawAnisotropy_a_in_range hs h hv
  rw [hc] at hm
  exact ⟨lo, h3, hi, h4, hm.1 lo h1, hm.2 hi h2⟩

theorem drawLens_inside_grid {axes : List (String × List ℝ)} {b : Dict ℝ × Dict ℝ}
    (hb : paramBounds axes = some b) (hnd : (axes.map Prod.fst).Nodup) {ax : List ℝ}
    (hax : ("gamma_in", ax) ∈ axes) {c : LensCfg ℝ} (hc : c.gRng = rngOf b "gamma_in") {p : LensPar ℝ}
    {fuel : ℕ} {s s' : List ℝ} {d : Dict ℝ}
    (h : drawLens c p fuel s = .ok (d, s')) {v : ℝ} (hv : d.get? "gamma_in" = some v) :
    ∃ lo ∈ ax, ∃ hi ∈ ax, lo ≤ v ∧ v ≤ hi := by
  obtain ⟨lo, hi, h1, h2, h3, h4, _⟩ := paramBounds_minmax axes b hb hnd _ _ hax
  have hm := (drawLens_in_range h).1 v hv
  rw [hc] at hm
  exact ⟨lo, h3, hi, h4, hm.1 lo h1, hm.2 hi h2⟩

example : paramBounds (α := ℝ) [("a_ani", [2, 0.5, 3]), ("gamma_in", [1, 2])] =
    some ([("a_ani", 0.5), ("gamma_in", 1)], [("a_ani", 3), ("gamma_in", 2)]) := by
  norm_num [paramBounds, listMin, listMax]

/-! ## 5. line of sight: `draw_bool` is False exactly when the draw is degenerate -/

/-- the draw does not depend on its random input -/
def Degenerate (k : LosKind) (edges pdf : List ℝ) (mean sigma : ℝ) (q : ℝ → ℝ) : Prop :=
  ∀ r r', drawLos1 k edges pdf mean sigma q r = drawLos1 k edges pdf mean sigma q r'

/-- **draw_bool_iff_degenerate**.  Hypotheses: the standard-GEV quantile function is not constant, the
    global scatter is non-negative (numpy / scipy reject negative scales), an individual GEV has positive
    scale, an individual PDF has a non-constant inverse CDF (true for every valid PDF: `cdfInv_nonconstant`),
    and the distribution name is a supported one. -/
theorem drawBool_false_iff_degenerate (k : LosKind) (edges pdf : List ℝ) (mean sigma : ℝ)
    (q : ℝ → ℝ) (hq : ∃ u u', q u ≠ q u') (hs : 0 ≤ sigma) (hgev : k = .indivGev → 0 < sigma)
    (hpdf : k = .indivPdf → ∃ u u', cdfInv edges pdf u ≠ cdfInv edges pdf u')
    (hk : k ≠ .globOther) :
    drawBool k sigma = false ↔ Degenerate k edges pdf mean sigma q := by
  obtain ⟨u, u', huu⟩ := hq
  have hns : ¬ sigma < 0 := not_lt.mpr hs
  cases k with
  | none => simp [drawBool, Degenerate, drawLos1]
  | indivPdf =>
    obtain ⟨a, a', haa⟩ := hpdf rfl
    simp only [drawBool, Bool.true_eq_false, false_iff, Degenerate, drawLos1]
    intro h; exact haa (h a a')
  | indivGev =>
    have hpos := hgev rfl
    simp only [drawBool, Bool.true_eq_false, false_iff, Degenerate, drawLos1, lit_zero, hns, ↓reduceIte]
    intro h
    have := h u u'
    simp only [Except.ok.injEq, add_right_inj] at this
    exact huu (mul_left_cancel₀ hpos.ne' this)
  | globOther => exact absurd rfl hk
  | globGaussian =>
    simp only [drawBool, Degenerate, drawLos1, normal, hns, ↓reduceIte, lit_zero, Bool.or_eq_false_iff,
      decide_eq_false_iff_not, not_lt]
    constructor
    · rintro ⟨h1, h2⟩ r r'
      have : sigma = 0 := le_antisymm h2 hs
      simp [this]
    · intro h
      have := h 0 1
      simp only [mul_zero, add_zero, mul_one, Except.ok.injEq] at this
      have : sigma = 0 := by linarith
      simp [this]
  | globGev =>
    simp only [drawBool, Degenerate, drawLos1, hns, ↓reduceIte, lit_zero, Bool.or_eq_false_iff,
      decide_eq_false_iff_not, not_lt]
    constructor
    · rintro ⟨h1, h2⟩ r r'
      have : sigma = 0 := le_antisymm h2 hs
      simp [this]
    · intro h
      have := h u u'
      simp only [Except.ok.injEq, add_right_inj] at this
      have hz : sigma = 0 := by
        by_contra hne
        exact huu (mul_left_cancel₀ hne this)
      simp [hz]

example : ∃ u u' : ℝ, (fun x : ℝ => 2 * x) u ≠ (fun x : ℝ => 2 * x) u' := ⟨0, 1, by norm_num⟩

/-! ## 6. the law of re-sampling: truncation, not clipping -/

section Law
variable {Ω : Type} [Fintype Ω]

/-- closed form for `n` attempts:  `P_n(A) · P(R) = P(A ∩ R) · (1 − (1 − P(R))ⁿ)`. -/
theorem rejLaw_closed_form (w : Ω → ℝ) (R A : Ω → Prop) [DecidablePred R] [DecidablePred A]
    (hw : ∑ ω, w ω = 1) (n : ℕ) :
    rejLaw w R A n * pAcc w R = pAccIn w R A * (1 - (1 - pAcc w R) ^ n) := by
  induction n with
  | zero => simp [rejLaw]
  | succ n ih =>
    rw [rejLaw_succ w R A hw, add_mul, mul_assoc, ih]
    ring

/-- **rejection fixed point**: any `q` with `q = P(A∩R) + (1 − P(R))·q` is the truncated law
    `P(A∩R)/P(R)`. -/
theorem rejection_fixed_point {pR pAR q : ℝ} (hR : 0 < pR) (h : q = pAR + (1 - pR) * q) :
    q = pAR / pR := by
  rw [eq_div_iff hR.ne']
  linarith

/-- **truncated law in the limit**: with acceptance probability `0 < P(R) ≤ 1` the law of the re-sampling
    draw with `n` attempts tends to `P(A ∩ R) / P(R)` — the declared law conditioned on (truncated to) the
    range, which has no atoms at the bounds unless the declared law has them. -/
theorem rejLaw_tendsto_truncated (w : Ω → ℝ) (R A : Ω → Prop) [DecidablePred R] [DecidablePred A]
    (hw : ∑ ω, w ω = 1) (h0 : 0 < pAcc w R) (h1 : pAcc w R ≤ 1) :
    Filter.Tendsto (rejLaw w R A) Filter.atTop (nhds (pAccIn w R A / pAcc w R)) := by
  have hform : ∀ n, rejLaw w R A n = pAccIn w R A * (1 - (1 - pAcc w R) ^ n) / pAcc w R := by
    intro n; rw [eq_div_iff h0.ne']; exact rejLaw_closed_form w R A hw n
  have hpow : Filter.Tendsto (fun n : ℕ => (1 - pAcc w R) ^ n) Filter.atTop (nhds 0) :=
    tendsto_pow_atTop_nhds_zero_of_lt_one (by linarith) (by linarith)
  have : Filter.Tendsto (fun n : ℕ => pAccIn w R A * (1 - (1 - pAcc w R) ^ n) / pAcc w R) Filter.atTop
      (nhds (pAccIn w R A * (1 - 0) / pAcc w R)) :=
    ((hpow.const_sub 1).const_mul _).div_const _
  simp only [sub_zero, mul_one] at this
  exact this.congr (fun n => (hform n).symm)

/-- a clipped draw is a different law: it returns the bound with the whole outside mass, the re-sampled
    one returns it with conditional mass.  Three outcomes {below, inside, bound} with weights 1/4, 1/2, 1/4,
    accept set {inside, bound}: re-sampling gives the bound 1/3 in the limit, clipping would give 1/2. -/
example : pAccIn (Ω := Fin 3) (fun i => if i = 1 then 1/2 else 1/4) (fun i => i ≠ 0) (fun i => i = 2) /
    pAcc (Ω := Fin 3) (fun i => if i = 1 then 1/2 else 1/4) (fun i => i ≠ 0) = 1 / 3 := by
  simp [pAccIn, pAcc, Fin.sum_univ_three]
  norm_num

end Law

/-! non-vacuity: a concrete accepted draw after one rejection (range [0.5, 2], mean 1, σ 1, z = 3 then 0.5) -/
example : drawAnisotropy (α := ℝ) ⟨.OM, true, .gaussian, ⟨some 0.5, some 2⟩, ⟨none, none⟩⟩
    ⟨some 1, 1, none, 0⟩ 5 [3, 0.5, 7] = .ok ([("a_ani", 1.5)], [7]) := by
  norm_num [drawAnisotropy, retry, aniAttempt, aniStageA, aniStageB, drawChecked, Rng.out, aniScale,
    aniPost]

example : ¬ (⟨some 0.5, some 2⟩ : Rng ℝ).mem 3 := by
  intro h; have := h.2 2 rfl; norm_num at this

end HierArc.Draws
