import HierArc.Drv.C06
import HierArc.Model.Gof
import HierArc.Model.Lens
namespace HierArc.Drv.C14
open Lean HierArc.Drv HierArc.Gauss HierArc.Gof HierArc.Drv.C06

/-- op `C14.report`: {"kin": <KinData as in C06>, "err": bits|null, "draws": [{"ddt","dd","ks":[..]|null}]} -/
def report (j : Json) : R Json := do
  let kp ← kinData (← field j "kin")
  let err ← optF j "err"
  let ds ← arr (← field j "draws")
  let draws ← ds.mapM fun d => do
    let ks ← optFs d "ks"
    pure ({ ddt := ← getF d "ddt", dd := ← getF d "dd", ks := ks.map (vecN kp.n) } : KinDraw Float kp.n)
  let N := draws.length
  let nan : Float := 0.0 / 0.0
  let dflt : KinDraw Float kp.n := { ddt := nan, dd := nan, ks := none }
  let r := sigmaVMeasuredVsPredict kp.d err (fun (k : Fin N) => draws.getD k.val dflt)
  pure (Json.mkObj [("measurement", jvec r.measurement), ("cov_measurement", jmat r.covMeasurement),
                    ("predict_mean", jvec r.predictMean), ("cov_predict", jmat r.covPredict)])

/-- op `C14.ddtdd`: {"ddt": [..], "dd": [..]} -/
def ddtdd (j : Json) : R Json := do
  let a ← fls (← field j "ddt")
  let b ← fls (← field j "dd")
  let N := a.length
  let nan : Float := 0.0 / 0.0
  let r := ddtDdModelPrediction (fun (k : Fin N) => a.getD k.val nan) (fun (k : Fin N) => b.getD k.val nan)
  pure (Json.mkObj [("ddt_mean", jf r.1), ("ddt_std", jf r.2.1), ("dd_mean", jf r.2.2.1), ("dd_std", jf r.2.2.2)])

/-- op `C14.ddtdd_draws`: {"ddt0", "dd0", "draws": [[γ, λ, κ] …]} — the N displaced pairs are built by the model's
    own `Lens.displace` (C03) from the drawn parameters, then `ddtDdModelPrediction` (theorem
    `scatter_ddt_dd_moments` reads the same composition over ℝ) -/
def ddtddDraws (j : Json) : R Json := do
  let ddt0 ← getF j "ddt0"
  let dd0 ← getF j "dd0"
  let ds ← arr (← field j "draws")
  let trip ← ds.mapM fun d => do
    match ← fls d with
    | [g, l, k] => pure (g, l, k)
    | _ => throw "bad-draw"
  let N := trip.length
  let nan : Float := 0.0 / 0.0
  let at' (k : Fin N) := trip.getD k.val (nan, nan, nan)
  let r := ddtDdModelPrediction
    (fun (k : Fin N) => (HierArc.Lens.displace ddt0 dd0 (at' k).1 (at' k).2.1 (at' k).2.2 0.0).1)
    (fun (k : Fin N) => (HierArc.Lens.displace ddt0 dd0 (at' k).1 (at' k).2.1 (at' k).2.2 0.0).2.1)
  pure (Json.mkObj [("ddt_mean", jf r.1), ("ddt_std", jf r.2.1), ("dd_mean", jf r.2.2.1), ("dd_std", jf r.2.2.2)])

/-- op `C14.chi2` -/
def chi2 (j : Json) : R Json := do
  pure (Json.mkObj [("chi2", jf (reducedChi2 (← getF j "logL") (← (← field j "num_data").getNat?)))])

def ops : List (String × (Json → R Json)) := [("C14.report", report), ("C14.ddtdd", ddtdd), ("C14.ddtdd_draws", ddtddDraws), ("C14.chi2", chi2)]

end HierArc.Drv.C14
