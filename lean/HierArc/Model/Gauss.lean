/-
  HierArc.Model.Gauss — model of the per-lens *data* likelihoods (property C06):

    hierarc/Likelihood/LensLikelihood/ddt_gauss_likelihood.py        DdtGaussianLikelihood
    hierarc/Likelihood/LensLikelihood/ddt_lognorm_likelihood.py      DdtLogNormLikelihood
    hierarc/Likelihood/LensLikelihood/ddt_dd_gauss_likelihood.py     DdtDdGaussian
    hierarc/Likelihood/LensLikelihood/ds_dds_gauss_likelihood.py     DsDdsGaussianLikelihood
    hierarc/Likelihood/LensLikelihood/kin_likelihood.py              KinLikelihood  ("IFUKinCov")
    hierarc/Likelihood/LensLikelihood/ddt_gauss_kin_likelihood.py    DdtGaussKinLikelihood
    hierarc/Likelihood/LensLikelihood/ddt_hist_kin_likelihood.py     DdtHistKinLikelihood
    hierarc/Likelihood/LensLikelihood/mag_likelihood.py              MagnificationLikelihood
    hierarc/Likelihood/LensLikelihood/td_mag_likelihood.py           TDMagLikelihood
    hierarc/Likelihood/LensLikelihood/td_mag_magnitude_likelihood.py TDMagMagnitudeLikelihood
    hierarc/Likelihood/LensLikelihood/double_source_plane.py         DSPLikelihood
    hierarc/Likelihood/LensLikelihood/base_lens_likelihood.py        LensLikelihoodBase.log_likelihood
    hierarc/Likelihood/cosmo_likelihood.py                           `normalized` override in __init__

  NO Mathlib import.  Every function is written once over a carrier `α` with operations only; it is
  run at `Float` by the driver (Drv/C06.lean) and reasoned about at `ℝ` (Props/C06.lean).
  `numpy.linalg.inv` / `numpy.linalg.slogdet` are a *parameter* (`LinAlg α`); the sample-based KDE
  of `DdtHistKin` is a parameter (its value at the point).
-/
import HierArc.Model.Basic
namespace HierArc.Gauss
open HierArc

abbrev Vec (α : Type) (n : Nat) := Fin n → α
abbrev Mat (α : Type) (n : Nat) := Fin n → Fin n → α

/-- further transcendental operations needed here (`x ** y`, `numpy.pi`); operations only. -/
class TransX (α : Type) where
  rpow : α → α → α
  pi : α

instance : TransX Float where
  rpow := Float.pow
  pi := 3.141592653589793

instance instNatCastFloat : NatCast Float := ⟨Float.ofNat⟩

/-- `numpy.linalg` as a parameter of the model.
    `inv M = none`  ⇔  `numpy.linalg.inv` raises `LinAlgError` (exactly singular);
    `slogdet M = (sign, ln|det M|)` with `sign ∈ {-1, 0, 1}`. -/
structure LinAlg (α : Type) where
  inv : {n : Nat} → Mat α n → Option (Mat α n)
  slogdet : {n : Nat} → Mat α n → Int × α

/-- what a `log_likelihood` call can produce: a number, `-numpy.inf` (from the `except:` branch), or
    the `ValueError("error covariance matrix needs to be positive definite")` of `KinLikelihood`. -/
inductive Res (α : Type) where
  | val (x : α)
  | negInf
  | valueError

/-- python `x + r` for a finite float `x` and a result `r` (`x + (-inf) = -inf`; an exception
    propagates). -/
def Res.addVal {α : Type} [Add α] (x : α) : Res α → Res α
  | .val y => .val (x + y)
  | .negInf => .negInf
  | .valueError => .valueError

section Numeric
variable {α : Type} [Add α] [Sub α] [Mul α] [Div α] [Neg α] [LT α] [DecidableLT α]
  [OfScientific α] [NatCast α] [Trans α] [TransX α]

/-- `Σ_i f i` (left to right), starting from the literal zero. -/
def sumFin : {n : Nat} → (Fin n → α) → α
  | 0, _ => (0.0 : α)
  | _ + 1, f => sumFin (fun i => f i.castSucc) + f (Fin.last _)

/-- `numpy.dot` of two vectors -/
def dot {n : Nat} (u v : Vec α n) : α := sumFin (fun i => u i * v i)

/-- `M.dot(v)` -/
def mulVec {n : Nat} (M : Mat α n) (v : Vec α n) : Vec α n := fun i => dot (M i) v

/-- `numpy.outer(u, v)` -/
def outer {n : Nat} (u v : Vec α n) : Mat α n := fun i j => u i * v j

def madd {n : Nat} (A B : Mat α n) : Mat α n := fun i j => A i j + B i j

/-- `numpy.append(u, v)` -/
def vappend {a b : Nat} (u : Vec α a) (v : Vec α b) : Vec α (a + b) :=
  fun i => Fin.addCases (motive := fun _ => α) u v i

/-- the data covariance of the time-delay + magnification likelihoods:
    `cov = zeros((n,n)); cov[:a,:a] = A; cov[a:,a:] = B`. -/
def blockDiag {a b : Nat} (A : Mat α a) (B : Mat α b) : Mat α (a + b) :=
  fun i j =>
    Fin.addCases (motive := fun _ => α)
      (fun i' => Fin.addCases (motive := fun _ => α) (fun j' => A i' j') (fun _ => (0.0 : α)) j)
      (fun i' => Fin.addCases (motive := fun _ => α) (fun _ => (0.0 : α)) (fun j' => B i' j') j)
      i

/-- The Gaussian core shared by `KinLikelihood`, `MagnificationLikelihood`, `TDMagLikelihood`,
    `TDMagMagnitudeLikelihood`:

    ```
    try: cov_inv = np.linalg.inv(cov)
    except: return -np.inf
    lnl = -delta.dot(cov_inv.dot(delta)) / 2.0
    if normalized:
        sign_det, lndet = np.linalg.slogdet(cov)
        if sign_det < 0: raise ValueError      # only KinLikelihood (`checkSign`)
        lnl -= 1 / 2.0 * (num_data * np.log(2 * np.pi) + lndet)
    ```  -/
def gaussCore (la : LinAlg α) (normalized checkSign : Bool) {n : Nat}
    (delta : Vec α n) (cov : Mat α n) : Res α :=
  match la.inv cov with
  | none => .negInf
  | some covInv =>
    let lnl := -(dot delta (mulVec covInv delta)) / 2.0
    if normalized then
      let sl := la.slogdet cov
      if checkSign && decide (sl.1 < 0) then .valueError
      else .val (lnl - 1.0 / 2.0 * ((n : α) * Trans.log (2.0 * TransX.pi) + sl.2))
    else .val lnl

/-! ### one-dimensional types -/

/-- `DdtGaussianLikelihood.log_likelihood`: `-((ddt - mean) ** 2) / sigma**2 / 2` (no flag: always
    without the Gaussian prefactor). -/
def ddtGaussian (mean sigma ddt : α) : α :=
  -((ddt - mean) * (ddt - mean)) / (sigma * sigma) / 2.0

/-- `DdtLogNormLikelihood.log_likelihood`:
    `-0.5*(log ddt - mu)**2/sigma**2 - log ddt - 0.5*log(sigma**2)`. -/
def ddtLogNorm (mu sigma ddt : α) : α :=
  -0.5 * ((Trans.log ddt - mu) * (Trans.log ddt - mu)) / (sigma * sigma) - Trans.log ddt
    - 0.5 * Trans.log (sigma * sigma)

/-- `DdtDdGaussian.log_likelihood(ddt, dd, kin_scaling)`; `k0 = kin_scaling[0]` if given. -/
def ddtDdGaussian (ddtMean ddtSigma ddMean ddSigma ddt dd : α) (k0 : Option α) : α :=
  let dd' := match k0 with
    | some k => dd * k
    | none => dd
  ddtGaussian ddtMean ddtSigma ddt - ((dd' - ddMean) * (dd' - ddMean)) / (ddSigma * ddSigma) / 2.0

/-- `DsDdsGaussianLikelihood.log_likelihood(ddt, dd, kin_scaling)`. -/
def dsDdsGaussian (zLens mean sigma ddt dd : α) (k0 : Option α) : α :=
  let dsDds := ddt / dd / (1.0 + zLens)
  let scaling := match k0 with
    | some k => k
    | none => (1.0 : α)
  let x := dsDds / scaling;
  (-((x - mean) * (x - mean)) / (sigma * sigma) / 2.0)

/-- `beta2theta_e_ratio` -/
def beta2thetaERatio (beta gammaPl lambdaMst : α) : α :=
  TransX.rpow (beta - (1.0 - lambdaMst) * (1.0 - beta)) (1.0 / (gammaPl - 1.0))

/-- `DSPLikelihood.log_likelihood(beta_dsp, gamma_pl, lambda_mst)` -/
def dspl (normalized : Bool) (betaMeas sigmaBeta beta gammaPl lambdaMst : α) : α :=
  let r := (beta2thetaERatio beta gammaPl lambdaMst - betaMeas) / sigmaBeta
  let l := -0.5 * (r * r)
  if normalized then l - 1.0 / 2.0 * Trans.log (2.0 * TransX.pi * (sigmaBeta * sigmaBeta)) else l

/-! ### IFU kinematics -/

/-- `const.c / 1000` (lenstronomy: `c = 299792458` m/s) -/
def cKms : α := 299792.458

/-- constructor arguments of `KinLikelihood` -/
structure KinData (α : Type) (n : Nat) where
  zLens : α
  sigmaV : Vec α n          -- sigma_v_measurement
  jModel : Vec α n          -- j_model
  covMeas : Mat α n         -- error_cov_measurement
  covJSqrt : Mat α n        -- error_cov_j_sqrt
  normalized : Bool
  sysInclude : Bool         -- sigma_sys_error_include

/-- `ds_dds = np.maximum(ddt / dd / (1 + z_lens), 0)` -/
def dsDdsOf (zLens ddt dd : α) : α :=
  let x := ddt / dd / (1.0 + zLens)
  if x < 0.0 then 0.0 else x

/-- `kin_scaling is None → 1` (a scalar one broadcasts like a vector of ones) -/
def scalingOf {n : Nat} (ks : Option (Vec α n)) : Vec α n :=
  match ks with
  | some k => k
  | none => fun _ => (1.0 : α)

/-- `sigma_v_model`: `sqrt(J * ds_dds * kin_scaling) * c/1000` -/
def sigmaVModel {n : Nat} (j : Vec α n) (dsDds : α) (k : Vec α n) : Vec α n :=
  fun i => Trans.sqrt (j i * dsDds * k i) * cKms

/-- `sigma_v_measurement_mean` -/
def sigmaVMean {n : Nat} (s : Vec α n) (off : Option α) : Vec α n :=
  match off with
  | none => s
  | some o => fun i => s i * (1.0 + o)

/-- `cov_error_model`: `E * outer(sqrt k, sqrt k) * ds_dds * (c/1000)**2` -/
def covErrorModel {n : Nat} (e : Mat α n) (dsDds : α) (k : Vec α n) : Mat α n :=
  fun i j => e i j * (Trans.sqrt (k i) * Trans.sqrt (k j)) * dsDds * (cKms * cKms)

/-- `cov_error_measurement`: `M + outer(s*err, s*err)` when included **and** given, else `M` -/
def covErrorMeasurement {n : Nat} (m : Mat α n) (s : Vec α n) (incl : Bool) (err : Option α) :
    Mat α n :=
  match incl, err with
  | true, some e => madd m (outer (fun i => s i * e) (fun i => s i * e))
  | _, _ => m

/-- residual of `KinLikelihood.log_likelihood` -/
def kinDelta {n : Nat} (d : KinData α n) (ddt dd : α) (ks : Option (Vec α n)) (off : Option α) :
    Vec α n :=
  let dsDds := dsDdsOf d.zLens ddt dd
  let pred := sigmaVModel d.jModel dsDds (scalingOf ks)
  fun i => sigmaVMean d.sigmaV off i - pred i

/-- total covariance of `KinLikelihood.log_likelihood` -/
def kinCov {n : Nat} (d : KinData α n) (ddt dd : α) (ks : Option (Vec α n)) (err : Option α) :
    Mat α n :=
  let dsDds := dsDdsOf d.zLens ddt dd
  madd (covErrorMeasurement d.covMeas d.sigmaV d.sysInclude err)
       (covErrorModel d.covJSqrt dsDds (scalingOf ks))

/-- `KinLikelihood.log_likelihood(ddt, dd, kin_scaling, sigma_v_sys_error, sigma_v_sys_offset)` -/
def kin (la : LinAlg α) {n : Nat} (d : KinData α n) (ddt dd : α) (ks : Option (Vec α n))
    (err off : Option α) : Res α :=
  gaussCore la d.normalized true (kinDelta d ddt dd ks off) (kinCov d ddt dd ks err)

/-- `DdtGaussKinLikelihood.log_likelihood` -/
def ddtGaussKin (la : LinAlg α) {n : Nat} (ddtMean ddtSigma : α) (d : KinData α n) (ddt dd : α)
    (ks : Option (Vec α n)) (err off : Option α) : Res α :=
  Res.addVal (ddtGaussian ddtMean ddtSigma ddt) (kin la d ddt dd ks err off)

/-- `DdtHistKinLikelihood.log_likelihood`; `tdLogL` = value returned by the sample-based Ddt part
    (`DdtHistKDELikelihood.log_likelihood(ddt)`, an external of this model).  No offset argument. -/
def ddtHistKin (la : LinAlg α) {n : Nat} (tdLogL : α) (d : KinData α n) (ddt dd : α)
    (ks : Option (Vec α n)) (err : Option α) : Res α :=
  Res.addVal tdLogL (kin la d ddt dd ks err none)

/-! ### magnification / time-delay + magnification -/

/-- lenstronomy `magnitude2cps`: `10 ** (-(magnitude - zero_point) / 2.5)` -/
def magnitude2cps (mag zp : α) : α := Trans.pow10 (-(mag - zp) / 2.5)

structure MagData (α : Type) (n : Nat) where
  amp : Vec α n             -- amp_measured
  covAmp : Mat α n          -- cov_amp_measured
  magModel : Vec α n        -- magnification_model
  covMagModel : Mat α n     -- cov_magnification_model
  zeroPoint : α             -- magnitude_zero_point

def magModelVec {n : Nat} (d : MagData α n) (mu : α) : Vec α n :=
  fun i => magnitude2cps mu d.zeroPoint * d.magModel i

def magCov {n : Nat} (d : MagData α n) (mu : α) : Mat α n :=
  let a := magnitude2cps mu d.zeroPoint
  fun i j => d.covAmp i j + d.covMagModel i j * (a * a)

/-- `MagnificationLikelihood.log_likelihood(mu_intrinsic)` (always normalised) -/
def mag (la : LinAlg α) {n : Nat} (d : MagData α n) (mu : α) : Res α :=
  gaussCore la true false (fun i => d.amp i - magModelVec d mu i) (magCov d mu)

/-- constructor arguments shared by `TDMagLikelihood` / `TDMagMagnitudeLikelihood`;
    `fermatUnit = const.Mpc / const.c / const.day_s * const.arcsec**2` is passed in. -/
structure TDMagData (α : Type) (a b : Nat) where
  td : Vec α a              -- time_delay_measured
  covTd : Mat α a           -- cov_td_measured
  amp : Vec α b             -- amp_measured | magnitude_measured
  covAmp : Mat α b          -- cov_amp_measured | cov_magnitude_measured
  fermat : Vec α a          -- fermat_diff
  magModel : Vec α b        -- magnification_model
  covModel : Mat α (a + b)  -- cov_model
  zeroPoint : α             -- magnitude_zero_point (flux version only)
  fermatUnit : α

/-- `model_scale * (cov_model * model_scale).T`, entry `(i,j)` = `s j * (cov j i * s i)` -/
def scaleCov {n : Nat} (s : Vec α n) (c : Mat α n) : Mat α n := fun i j => s j * (c j i * s i)

def tdMagScale {a b : Nat} (d : TDMagData α a b) (ddt mu : α) : Vec α (a + b) :=
  vappend (fun _ => ddt * d.fermatUnit * 1.0) (fun _ => magnitude2cps mu d.zeroPoint * 1.0)

def tdMagDelta {a b : Nat} (d : TDMagData α a b) (ddt mu : α) : Vec α (a + b) :=
  fun i => vappend d.td d.amp i - tdMagScale d ddt mu i * vappend d.fermat d.magModel i

def tdMagCov {a b : Nat} (d : TDMagData α a b) (ddt mu : α) : Mat α (a + b) :=
  madd (blockDiag d.covTd d.covAmp) (scaleCov (tdMagScale d ddt mu) d.covModel)

/-- `TDMagLikelihood.log_likelihood(ddt, mu_intrinsic)` -/
def tdMag (la : LinAlg α) {a b : Nat} (d : TDMagData α a b) (ddt mu : α) : Res α :=
  gaussCore la true false (tdMagDelta d ddt mu) (tdMagCov d ddt mu)

def tdMagMagnitudeScale {a b : Nat} (d : TDMagData α a b) (ddt : α) : Vec α (a + b) :=
  vappend (fun _ => ddt * d.fermatUnit * 1.0) (fun _ => (1.0 : α))

def tdMagMagnitudeDelta {a b : Nat} (d : TDMagData α a b) (ddt mu : α) : Vec α (a + b) :=
  fun i => vappend d.td d.amp i
    - vappend (fun k => ddt * d.fermatUnit * d.fermat k) (fun k => d.magModel k + mu) i

def tdMagMagnitudeCov {a b : Nat} (d : TDMagData α a b) (ddt : α) : Mat α (a + b) :=
  madd (blockDiag d.covTd d.covAmp) (scaleCov (tdMagMagnitudeScale d ddt) d.covModel)

/-- `TDMagMagnitudeLikelihood.log_likelihood(ddt, mu_intrinsic)` -/
def tdMagMagnitude (la : LinAlg α) {a b : Nat} (d : TDMagData α a b) (ddt mu : α) : Res α :=
  gaussCore la true false (tdMagMagnitudeDelta d ddt mu) (tdMagMagnitudeCov d ddt)

/-! ### `LensLikelihoodBase` : construction (which types receive `normalized`) and dispatch -/

/-- one lens, as constructed by `LensLikelihoodBase.__init__` (the C06 types).  For the types whose
    class takes a `normalized` argument the flag lives in the data record. -/
inductive Lens (α : Type) where
  | ddtGaussian (mean sigma : α)
  | ddtLogNorm (mu sigma : α)
  | ddtDdGaussian (ddtMean ddtSigma ddMean ddSigma : α)
  | dsDdsGaussian (zLens mean sigma : α)
  | ifuKinCov (n : Nat) (d : KinData α n)
  | ddtGaussKin (n : Nat) (ddtMean ddtSigma : α) (d : KinData α n)
  | ddtHistKin (n : Nat) (tdLogL : α → α) (d : KinData α n)
  | mag (n : Nat) (d : MagData α n)
  | tdMag (a b : Nat) (d : TDMagData α a b)
  | tdMagMagnitude (a b : Nat) (d : TDMagData α a b)
  | dspl (normalized : Bool) (betaMeas sigmaBeta : α)

/-- keyword arguments of `LensLikelihoodBase.log_likelihood`; `kinScaling` is the array (indexed
    from 0; consumers read the first `n` entries, `DdtDdGaussian`/`DsDdsGaussian` entry 0). -/
structure Args (α : Type) where
  ddt : α
  dd : α
  betaDsp : α
  kinScaling : Option (Nat → α)
  sigmaVSysError : Option α
  muIntrinsic : α
  gammaPl : α
  lambdaMst : α

def ksVec {n : Nat} (ks : Option (Nat → α)) : Option (Vec α n) :=
  match ks with
  | none => none
  | some f => some (fun i => f i.val)

def ks0 (ks : Option (Nat → α)) : Option α :=
  match ks with
  | none => none
  | some f => some (f 0)

/-- `LensLikelihoodBase.log_likelihood`: each type receives only the arguments it consumes. -/
def dispatch (la : LinAlg α) (l : Lens α) (x : Args α) : Res α :=
  match l with
  | .ddtGaussian m s => .val (ddtGaussian m s x.ddt)
  | .ddtLogNorm m s => .val (ddtLogNorm m s x.ddt)
  | .ddtDdGaussian m s dm ds => .val (ddtDdGaussian m s dm ds x.ddt x.dd (ks0 x.kinScaling))
  | .dsDdsGaussian z m s => .val (dsDdsGaussian z m s x.ddt x.dd (ks0 x.kinScaling))
  | .ifuKinCov _ d => kin la d x.ddt x.dd (ksVec x.kinScaling) x.sigmaVSysError none
  | .ddtGaussKin _ m s d =>
      ddtGaussKin la m s d x.ddt x.dd (ksVec x.kinScaling) x.sigmaVSysError none
  | .ddtHistKin _ f d => ddtHistKin la (f x.ddt) d x.ddt x.dd (ksVec x.kinScaling) x.sigmaVSysError
  | .mag _ d => mag la d x.muIntrinsic
  | .tdMag _ _ d => tdMag la d x.ddt x.muIntrinsic
  | .tdMagMagnitude _ _ d => tdMagMagnitude la d x.ddt x.muIntrinsic
  | .dspl nrm b s => .val (dspl nrm b s x.betaDsp x.gammaPl x.lambdaMst)

end Numeric

/-- `CosmoLikelihood.__init__`:
    `if kwargs_model.get("sigma_v_systematics", False) is True: normalized = True`. -/
def effectiveNormalized (sigmaVSystematics normalized : Bool) : Bool :=
  if sigmaVSystematics then true else normalized

end HierArc.Gauss
