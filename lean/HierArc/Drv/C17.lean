import HierArc.Drv.Proto
import HierArc.Model.Blind
namespace HierArc.Drv.C17
open Lean HierArc.Drv

/-- op `C17.blind`: {"cols": [[bits…]…], "names": […]} → {"cols": …} | err IndexError -/
def blind (j : Json) : R Json := do
  let cols ← flss (← field j "cols")
  let names ← strs (← field j "names")
  match HierArc.Blind.blind cols names with
  | some out => pure (Json.mkObj [("cols", jfss out)])
  | none => throw "IndexError"

def median (j : Json) : R Json := do
  let l ← fls (← field j "col")
  pure (Json.mkObj [("median", jf (HierArc.Blind.median l))])

def ops : List (String × (Json → R Json)) := [("C17.blind", blind), ("C17.median", median)]

end HierArc.Drv.C17
