/-
  Helper lemmas for C15 (carrier-generic: the store is a structure of copied values, no
  arithmetic is involved; only the box gate needs the order, see Props/C15.lean).
-/
import HierArc.Model.Mcmc
import Mathlib.Tactic.Common

namespace HierArc.Mcmc
variable {α : Type}

/-! ### outcome of the step loop -/

theorem loopOutcome_ok_iff (r : Req α) : loopOutcome r = .ok ↔ r.n ≤ r.moves.length := by
  unfold loopOutcome
  by_cases h : r.moves.length < r.n
  · simp only [h, if_true]
    constructor
    · intro h'; cases h'
    · intro h'; omega
  · simp only [h, if_false]
    constructor
    · intro _; omega
    · intro _; trivial

theorem loopOutcome_stopped_iff (r : Req α) :
    loopOutcome r = .stopped ↔ r.moves.length < r.n := by
  unfold loopOutcome
  by_cases h : r.moves.length < r.n
  · simp only [h, if_true]
  · simp only [h, if_false]
    constructor
    · intro h'; cases h'
    · intro h'; exact h'.elim

theorem loopOutcome_ne_err (r : Req α) (e : Err) : loopOutcome r ≠ .err e := by
  unfold loopOutcome
  by_cases h : r.moves.length < r.n
  · simp only [h, if_true]; intro h'; cases h'
  · simp only [h, if_false]; intro h'; cases h'

/-! ### lengths -/

theorem step_length (lik : List α → Option α) (e : Ensemble α) (m : Move α) :
    (step lik e m).length = e.length := by
  induction e generalizing m with
  | nil => simp [step]
  | cons w ws ih => cases m <;> simp [step, ih]

theorem runSteps_length (lik : List α → Option α) (e : Ensemble α) (ms : List (Move α)) :
    (runSteps lik e ms).length = ms.length := by
  induction ms generalizing e with
  | nil => rfl
  | cons m ms ih => simp [runSteps, ih]

theorem runSteps_width (lik : List α → Option α) (e : Ensemble α) (ms : List (Move α)) :
    ∀ e' ∈ runSteps lik e ms, e'.length = e.length := by
  induction ms generalizing e with
  | nil => intro e' h; simp [runSteps] at h
  | cons m ms ih =>
    intro e' h
    simp only [runSteps, List.mem_cons] at h
    rcases h with rfl | h
    · exact step_length lik e m
    · rw [ih _ e' h, step_length]

/-! ### walker predicates carried along a run

  `Q` restricts the proposals that occur (e.g. "has dimension nd"); `Closed lik Q P` says an
  accepted proposal satisfies `P`. -/

/-- every proposal occurring in the moves satisfies `Q` -/
def MovesSat (Q : List α → Prop) (ms : List (Move α)) : Prop :=
  ∀ m ∈ ms, ∀ y, some y ∈ m → Q y

/-- an accepted proposal (finite log-probability `l` returned by `lik`) satisfies `P` -/
def Closed (lik : List α → Option α) (Q : List α → Prop) (P : Walker α → Prop) : Prop :=
  ∀ y l, Q y → lik y = some l → P ⟨y, some l⟩

theorem MovesSat.take {Q : List α → Prop} {ms : List (Move α)} (h : MovesSat Q ms) (n : Nat) :
    MovesSat Q (ms.take n) :=
  fun m hm => h m (List.mem_of_mem_take hm)

theorem movesSat_true (ms : List (Move α)) : MovesSat (fun _ => True) ms :=
  fun _ _ _ _ => trivial

theorem stepWalker_pres {lik : List α → Option α} {Q : List α → Prop} {P : Walker α → Prop}
    (hc : Closed lik Q P) {w : Walker α} (hw : P w) (p : Option (List α))
    (hq : ∀ y, p = some y → Q y) : P (stepWalker lik w p) := by
  cases p with
  | none => exact hw
  | some y =>
    simp only [stepWalker]
    cases h : lik y with
    | none => exact hw
    | some l => exact hc y l (hq y rfl) h

theorem step_pres {lik : List α → Option α} {Q : List α → Prop} {P : Walker α → Prop}
    (hc : Closed lik Q P) {e : Ensemble α} (he : ∀ w ∈ e, P w) (m : Move α)
    (hq : ∀ y, some y ∈ m → Q y) : ∀ w ∈ step lik e m, P w := by
  induction e generalizing m with
  | nil => intro w h; simp [step] at h
  | cons v vs ih =>
    cases m with
    | nil => simpa [step] using he
    | cons p ps =>
      intro w h
      simp only [step, List.mem_cons] at h
      rcases h with rfl | h
      · exact stepWalker_pres hc (he v (by simp)) p
          (fun y hy => hq y (by simp [hy]))
      · exact ih (fun w hw => he w (by simp [hw])) ps
          (fun y hy => hq y (by simp [hy])) w h

theorem runSteps_pres {lik : List α → Option α} {Q : List α → Prop} {P : Walker α → Prop}
    (hc : Closed lik Q P) {e : Ensemble α} (he : ∀ w ∈ e, P w) {ms : List (Move α)}
    (hq : MovesSat Q ms) : ∀ e' ∈ runSteps lik e ms, ∀ w ∈ e', P w := by
  induction ms generalizing e with
  | nil => intro e' h; simp [runSteps] at h
  | cons m ms ih =>
    have h1 : ∀ w ∈ step lik e m, P w := step_pres hc he m (hq m (by simp))
    intro e' h
    simp only [runSteps, List.mem_cons] at h
    rcases h with rfl | h
    · exact h1
    · exact ih h1 (fun m' hm' => hq m' (by simp [hm'])) e' h

theorem initEns_pres {lik : List α → Option α} {P : Walker α → Prop} {ball : List (List α)}
    (hb : ∀ x ∈ ball, P ⟨x, lik x⟩) : ∀ w ∈ initEns lik ball, P w := by
  intro w hw
  simp only [initEns, List.mem_map] at hw
  obtain ⟨x, hx, rfl⟩ := hw
  exact hb x hx

theorem initEns_length (lik : List α → Option α) (ball : List (List α)) :
    (initEns lik ball).length = ball.length := by simp [initEns]

/-! ### store invariants -/

/-- every stored walker satisfies `P` -/
def StoreSat (P : Walker α → Prop) (b : Backend α) : Prop := ∀ e ∈ b.iters, ∀ w ∈ e, P w

/-- every stored iteration holds `b.nw` walkers -/
def StoreWidth (b : Backend α) : Prop := ∀ e ∈ b.iters, e.length = b.nw

/-- does this call evaluate the start ball?  (fresh run, or repaired continue on an empty store) -/
def usesBall (fallback : Bool) (b : Backend α) (r : Req α) : Prop :=
  r.cont = false ∨ (fallback = true ∧ b.iters = [])

theorem mem_of_getLast? {l : List (Ensemble α)} {e : Ensemble α} (h : l.getLast? = some e) :
    e ∈ l := by
  rw [List.getLast?_eq_some_iff] at h
  obtain ⟨ys, rfl⟩ := h
  simp

theorem getLast?_eq_none {l : List (Ensemble α)} (h : l.getLast? = none) : l = [] := by
  simpa using h

theorem startFromBall_sat {lik : List α → Option α} {Q : List α → Prop} {P : Walker α → Prop}
    (hc : Closed lik Q P) {b : Backend α} (hb : StoreSat P b) {r : Req α}
    (hball : ∀ x ∈ r.ball, P ⟨x, lik x⟩) (hq : MovesSat Q r.moves) :
    StoreSat P (startFromBall lik b r).1 := by
  unfold startFromBall
  split
  · exact hb
  · split
    · exact hb
    · intro e he
      simp only [List.mem_append] at he
      rcases he with he | he
      · exact hb e he
      · exact runSteps_pres hc (initEns_pres hball) (hq.take _) e he

theorem reset_sat (P : Walker α → Prop) (b : Backend α) (nw nd : Nat) :
    StoreSat P (b.reset nw nd) := by
  intro e he; simp [Backend.reset] at he

/-- one call preserves a walker invariant; the start ball is only constrained when it is used -/
theorem runOpGen_sat {fb : Bool} {lik : List α → Option α} {Q : List α → Prop}
    {P : Walker α → Prop} (hc : Closed lik Q P) {b : Backend α} (hb : StoreSat P b) {r : Req α}
    (hball : usesBall fb b r → ∀ x ∈ r.ball, P ⟨x, lik x⟩) (hq : MovesSat Q r.moves) :
    StoreSat P (runOpGen fb lik b r).1 := by
  unfold runOpGen
  by_cases hcont : r.cont = true
  · simp only [hcont, if_true]
    split
    · exact hb
    · cases hl : b.iters.getLast? with
      | none =>
        simp only
        cases fb with
        | false => exact hb
        | true =>
          exact startFromBall_sat hc hb (hball (Or.inr ⟨rfl, getLast?_eq_none hl⟩)) hq
      | some e =>
        simp only
        split
        · exact hb
        · intro e' he'
          simp only [List.mem_append] at he'
          rcases he' with he' | he'
          · exact hb e' he'
          · exact runSteps_pres hc (hb e (mem_of_getLast? hl)) (hq.take _) e' he'
  · have hc' : r.cont = false := by simpa using hcont
    simp only [hc']
    exact startFromBall_sat hc (reset_sat P b _ _) (hball (Or.inl hc')) hq

/-- a walker invariant holds after any history, if every start ball that gets evaluated and every
    proposal satisfy their side conditions -/
theorem runHistoryGen_sat {fb : Bool} {lik : List α → Option α} {Q : List α → Prop}
    {P : Walker α → Prop} (hc : Closed lik Q P) {b : Backend α} (hb : StoreSat P b)
    {rs : List (Req α)} (hball : ∀ r ∈ rs, ∀ x ∈ r.ball, P ⟨x, lik x⟩)
    (hq : ∀ r ∈ rs, MovesSat Q r.moves) :
    StoreSat P (runHistoryGen fb lik b rs) := by
  induction rs generalizing b with
  | nil => exact hb
  | cons r rs ih =>
    simp only [runHistoryGen]
    exact ih (runOpGen_sat hc hb (fun _ => hball r (by simp)) (hq r (by simp)))
      (fun r' hr' => hball r' (by simp [hr'])) (fun r' hr' => hq r' (by simp [hr']))

/-! ### widths -/

theorem startFromBall_width {lik : List α → Option α} {b : Backend α} (hb : StoreWidth b)
    {r : Req α} (hball : r.ball.length = b.nw) : StoreWidth (startFromBall lik b r).1 := by
  unfold startFromBall
  split
  · exact hb
  · split
    · exact hb
    · intro e he
      simp only [List.mem_append] at he
      rcases he with he | he
      · exact hb e he
      · simp only
        rw [runSteps_width lik _ _ e he, initEns_length, hball]

theorem runOpGen_width {fb : Bool} {lik : List α → Option α} {b : Backend α} (hb : StoreWidth b)
    {r : Req α} (hball : r.ball.length = r.nw) : StoreWidth (runOpGen fb lik b r).1 := by
  unfold runOpGen
  by_cases hcont : r.cont = true
  · simp only [hcont, if_true]
    split
    · exact hb
    · rename_i hshape
      have hnw : b.nw = r.nw := by
        by_contra h; exact hshape (Or.inl h)
      cases hl : b.iters.getLast? with
      | none =>
        simp only
        cases fb with
        | false => exact hb
        | true => exact startFromBall_width hb (hball.trans hnw.symm)
      | some e =>
        simp only
        split
        · exact hb
        · intro e' he'
          simp only [List.mem_append] at he'
          rcases he' with he' | he'
          · exact hb e' he'
          · simp only
            rw [runSteps_width lik _ _ e' he', hb e (mem_of_getLast? hl)]
  · have hc' : r.cont = false := by simpa using hcont
    simp only [hc']
    have : StoreWidth (b.reset r.nw r.nd) := by intro e he; simp [Backend.reset] at he
    exact startFromBall_width this (by simpa [Backend.reset] using hball)

theorem runHistoryGen_width {fb : Bool} {lik : List α → Option α} {b : Backend α}
    (hb : StoreWidth b) {rs : List (Req α)} (hball : ∀ r ∈ rs, r.ball.length = r.nw) :
    StoreWidth (runHistoryGen fb lik b rs) := by
  induction rs generalizing b with
  | nil => exact hb
  | cons r rs ih =>
    simp only [runHistoryGen]
    exact ih (runOpGen_width hb (hball r (by simp))) (fun r' hr' => hball r' (by simp [hr']))

/-! ### flattening -/

theorem length_flatten_of_width {β : Type} (l : List (List β)) (n : Nat)
    (h : ∀ e ∈ l, e.length = n) : l.flatten.length = l.length * n := by
  induction l with
  | nil => simp
  | cons a t ih =>
    have ha : a.length = n := h a (by simp)
    have ht := ih (fun e he => h e (by simp [he]))
    simp only [List.flatten_cons, List.length_append, List.length_cons, ha, ht]
    rw [Nat.succ_mul, Nat.add_comm]

theorem history_snoc (fb : Bool) (lik : List α → Option α) (b : Backend α) (rs : List (Req α))
    (r : Req α) :
    runHistoryGen fb lik b (rs ++ [r]) = (runOpGen fb lik (runHistoryGen fb lik b rs) r).1 := by
  induction rs generalizing b with
  | nil => rfl
  | cons r' rs ih => simp only [List.cons_append, runHistoryGen, ih]

end HierArc.Mcmc
