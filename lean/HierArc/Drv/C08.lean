import HierArc.Drv.Proto
import HierArc.Model.State
namespace HierArc.Drv.C08
open Lean HierArc.Drv HierArc.State

/-- op `C08.history`: {"values": [bits per distinct point], "history": [point index …]}.
    Runs the cached-likelihood machine (cache = unit token) over the history and returns the outputs
    and whether the cache is filled at the end. -/
def history (j : Json) : R Json := do
  let vals ← fls (← field j "values")
  let h ← nats (← field j "history")
  let nan : Float := 0.0 / 0.0
  let m := cachedLikelihood (C := Nat) (X := Nat) (O := Float) 1 (fun c x => if c == 1 then vals.getD x nan else nan)
  let r := m.run m.init h
  pure (Json.mkObj [("outputs", jfs r.2), ("cached", Json.bool r.1.isSome)])

def ops : List (String × (Json → R Json)) := [("C08.history", history)]

end HierArc.Drv.C08
