#!/venv/bin/python
"""Runs the registered checks against every seeded change under /verif/seeded/<id>/patch.diff:
applies the patch to /repo (git apply), runs the check of the property the change breaks (and, with
--all, every check), records exit code and VIOLATION lines, and reverts /repo (git checkout -- .).
Results: seeded/RESULTS.json.   usage: tools/run_seeded.py [--all] [id ...]"""
import json
import os
import subprocess
import sys

HERE = os.path.dirname(os.path.dirname(os.path.abspath(__file__)))
REPO = "/repo"


def sh(cmd, cwd=None, timeout=3600):
    p = subprocess.run(cmd, shell=True, cwd=cwd, capture_output=True, text=True, timeout=timeout)
    return p.returncode, p.stdout + p.stderr


def main():
    args = [a for a in sys.argv[1:] if not a.startswith("--")]
    run_all = "--all" in sys.argv
    sd = os.path.join(HERE, "seeded")
    ids = args or sorted(d for d in os.listdir(sd) if os.path.isdir(os.path.join(sd, d)))
    rc, out = sh("git status --porcelain -- hierarc", cwd=REPO)
    if out.strip():
        print("refusing: /repo has uncommitted changes under hierarc/")
        sys.exit(2)
    seed = os.environ.get("VERIF_SEED", "0")
    respath = os.path.join(sd, "RESULTS.json" if seed == "0" else "RESULTS-seed%s.json" % seed)
    results = json.load(open(respath)) if os.path.exists(respath) else {}
    for sid in ids:
        d = os.path.join(sd, sid)
        meta = json.load(open(os.path.join(d, "meta.json")))
        props = [meta["property"]] if not run_all else sorted(set([meta["property"]] + meta.get("also_run", [])))
        if run_all:
            props = sorted(p["id"] for p in map(json.loads, open(os.path.join(HERE, "properties.jsonl"))))
        rc, out = sh("git apply %s" % os.path.join(d, "patch.diff"), cwd=REPO)
        if rc != 0:
            print(sid, "patch does not apply:", out[-300:])
            results[sid] = {"error": "patch does not apply"}
            continue
        try:
            r = {}
            for pid in props:
                rc, out = sh("./check %s --tier quick" % pid, cwd=HERE, timeout=1800)
                viol = [l for l in out.splitlines() if l.startswith("VIOLATION")]
                r[pid] = {"exit": rc, "violation_lines": viol[:3],
                          "concrete_replay": any("no-failing-input-found" not in l for l in viol)}
                print("%s -> check %s: exit %d %s" % (sid, pid, rc, viol[:1]))
            results[sid] = {"property": meta["property"], "checks": r,
                            "caught": r[meta["property"]]["exit"] == 1}
        finally:
            sh("git checkout -- .", cwd=REPO)
            # regenerate Gen/*.lean for the clean tree so that no stale generated model is left behind
            sh("/venv/bin/python -c \"import sys; sys.path.insert(0, '%s'); from translator import translate; "
               "translate.regenerate(['ladders', 'tables', 'effects'])\"" % HERE, cwd=HERE)
    json.dump(results, open(respath, "w"), indent=1)
    print(json.dumps({k: v.get("caught") for k, v in results.items()}))


if __name__ == "__main__":
    main()
