/-
  C07 — Sample log-probability is a sum of independent terms, local settings over global.
-/
import HierArc.Model.Sample
import HierArc.Proofs.LensDet
import HierArc.Gen.Tables
import Mathlib.Algebra.BigOperators.Group.List.Basic

namespace HierArc.C07
open HierArc HierArc.Sample HierArc.Lens

/-! ### A. the sample term is a plain sum -/

theorem foldl_add (l : List ℝ) (a : ℝ) : l.foldl (· + ·) a = a + l.sum := by
  induction l generalizing a with
  | nil => simp
  | cons x t ih => simp [ih, add_assoc]

/-- **additive**: the sample log-likelihood is the sum of the lens terms -/
theorem additive (terms : List ℝ) : sampleLogL terms = terms.sum := by
  simp [sampleLogL, foldl_add, lit_zero]

theorem additive_append (a b : List ℝ) : sampleLogL (a ++ b) = sampleLogL a + sampleLogL b := by
  simp [additive]

/-- **order-free**: any re-ordering of the lens terms gives the same total -/
theorem perm_invariant {a b : List ℝ} (h : a.Perm b) : sampleLogL a = sampleLogL b := by
  rw [additive, additive, h.sum_eq]

/-- the supernova, chain-KDE and custom-prior terms are added independently -/
theorem total_is_sum (lens : ℝ) (sne kde prior : Option ℝ) :
    total lens sne kde prior = lens + sne.getD 0 + kde.getD 0 + prior.getD 0 := by
  cases sne <;> cases kde <;> cases prior <;> simp [total]

/-! ### B. per-lens slope parameters -/

theorem assign_length (g : Bool) (ls : List LensSpec) (i : ℕ) : (assign g ls i).length = ls.length := by
  induction ls generalizing i with
  | nil => rfl
  | cons l t ih => simp only [assign]; split <;> simp [ih]

/-- under global slope sampling no lens gets an own slope and `gamma_pl_num = 0` -/
theorem assign_global (ls : List LensSpec) (i : ℕ) :
    assign true ls i = ls.map (fun _ => none) ∧ gammaPlNum true ls = 0 := by
  refine ⟨?_, rfl⟩
  induction ls generalizing i with
  | nil => rfl
  | cons l t ih => simp [assign, ih]

/-- the assigned indices are `i, i+1, …` in lens order, one per slope-interpolating lens -/
theorem assign_indices (ls : List LensSpec) (i : ℕ) :
    (assign false ls i).filterMap id = List.range' i (gammaPlNum false ls) := by
  induction ls generalizing i with
  | nil => simp [assign, gammaPlNum]
  | cons l t ih =>
    simp only [assign, gammaPlNum, Bool.not_false, Bool.and_true, Bool.false_eq_true, if_false] at ih ⊢
    cases hs : l.slope with
    | true => simpa [hs, List.range'_succ] using ih (i + 1)
    | false => simpa [hs] using ih i

/-- **gamma_pl count**: the number of per-lens slope parameters equals the number of lenses that
    interpolate over the slope -/
theorem gamma_pl_count (ls : List LensSpec) :
    ((assign false ls 0).filterMap id).length = (ls.filter (·.slope)).length
      ∧ gammaPlNum false ls = (ls.filter (·.slope)).length := by
  rw [assign_indices]; simp [gammaPlNum]

/-- **no lens indexes past the slope list**: every index handed to a lens is smaller than `gamma_pl_num`, the length of
    `gamma_pl_list` that `ParamManager` builds — whatever the order of the lenses and whichever of them carry a scaling
    list without the slope (the `IndexError` of a running index that advances for the wrong lenses cannot occur) -/
theorem assign_index_lt (ls : List LensSpec) (i j k : ℕ) (h : (assign false ls i)[j]? = some (some k)) :
    i ≤ k ∧ k < i + gammaPlNum false ls := by
  have hmem : k ∈ (assign false ls i).filterMap id := by
    rw [List.mem_filterMap]
    exact ⟨some k, List.mem_of_getElem? h, rfl⟩
  rw [assign_indices, List.mem_range'_1] at hmem
  exact hmem

/-- non-vacuity: a slope-less kinematic lens listed BEFORE two slope lenses — indices 0 and 1, `gamma_pl_num = 2` -/
example : assign false [⟨some ["a_ani"]⟩, ⟨some ["a_ani", "gamma_pl"]⟩, ⟨none⟩, ⟨some ["gamma_pl"]⟩] 0
    = [none, some 0, none, some 1] ∧
    gammaPlNum false [⟨some ["a_ani"]⟩, ⟨some ["a_ani", "gamma_pl"]⟩, ⟨none⟩, ⟨some ["gamma_pl"]⟩] = 2 := by decide

/-- the slope values of a lens list (each lens carrying its own value `v`), in lens order -/
def slopeVals {β : Type} (ls : List (LensSpec × β)) : List β :=
  (ls.filter (·.1.slope)).map (·.2)

/-- **every slope lens is handed its own value**: with the slope vector arranged in lens order
    (whatever that order is), lens `j` reads exactly its own entry.  Hence re-ordering the lens list
    with the slope parameters re-ordered accordingly leaves every lens term unchanged. -/
theorem slope_routed {β : Type} (ls : List (LensSpec × β)) (i : ℕ) (pre : List β) (hpre : pre.length = i)
    (j : ℕ) (l : LensSpec × β) (hj : ls[j]? = some l) (hs : l.1.slope = true) :
    ∃ k, (assign false (ls.map (·.1)) i)[j]? = some (some k) ∧ (pre ++ slopeVals ls)[k]? = some l.2 := by
  induction ls generalizing i pre j with
  | nil => simp at hj
  | cons h t ih =>
    cases j with
    | zero =>
      simp only [List.getElem?_cons_zero, Option.some.injEq] at hj
      subst hj
      refine ⟨i, by simp [assign, hs], ?_⟩
      simp [slopeVals, List.filter_cons, hs, ← hpre]
    | succ j =>
      simp only [List.getElem?_cons_succ] at hj
      cases hh : h.1.slope with
      | true =>
        obtain ⟨k, hk1, hk2⟩ := ih (i + 1) (pre ++ [h.2]) (by simp [hpre]) j hj
        refine ⟨k, by simp [assign, hh, hk1], ?_⟩
        simpa [slopeVals, List.filter_cons, hh] using hk2
      | false =>
        obtain ⟨k, hk1, hk2⟩ := ih i pre hpre j hj
        refine ⟨k, by simp [assign, hh, hk1], ?_⟩
        simpa [slopeVals, List.filter_cons, hh] using hk2

/-- a lens that does not interpolate over the slope gets no index -/
theorem nonslope_none (g : Bool) (ls : List LensSpec) (i j : ℕ) (l : LensSpec) (hj : ls[j]? = some l)
    (hs : l.slope = false) : (assign g ls i)[j]? = some none := by
  induction ls generalizing i j with
  | nil => simp at hj
  | cons h t ih =>
    cases j with
    | zero =>
      simp only [List.getElem?_cons_zero, Option.some.injEq] at hj
      subst hj
      simp [assign, hs]
    | succ j =>
      simp only [List.getElem?_cons_succ] at hj
      simp only [assign]
      split <;> simpa using ih _ j hj

/-! ### C. local settings override the global model settings, only whitelisted keys are inherited -/

theorem merge_lookup {V : Type} (wl : List String) (g l : List (String × V)) (k : String) :
    (mergeSettings wl g l).lookup k =
      match l.lookup k with
      | some v => some v
      | none => if k ∈ wl then g.lookup k else none := by
  unfold mergeSettings
  rw [List.lookup_append]
  cases hl : l.lookup k with
  | some v => simp
  | none =>
    simp only [Option.none_or]
    induction wl with
    | nil => simp
    | cons w t ih =>
      simp only [List.filterMap_cons, List.mem_cons]
      cases hg : g.lookup w with
      | none =>
        simp only [Option.map_none, ih]
        by_cases hkw : k = w
        · subst hkw; simp [hg]
        · simp [hkw]
      | some v =>
        simp only [Option.map_some, List.lookup_cons]
        by_cases hkw : k = w
        · subst hkw; simp [hg]
        · have : (k == w) = false := by simpa using hkw
          simp [this, ih, hkw]

/-- **local wins** -/
theorem merge_local_wins {V : Type} (wl : List String) (g l : List (String × V)) (k : String) (v : V)
    (h : l.lookup k = some v) : (mergeSettings wl g l).lookup k = some v := by
  rw [merge_lookup, h]

/-- **whitelist only**: a global key outside the whitelist is never inherited -/
theorem merge_whitelist_only {V : Type} (wl : List String) (g l : List (String × V)) (k : String)
    (hk : k ∉ wl) (hl : l.lookup k = none) : (mergeSettings wl g l).lookup k = none := by
  rw [merge_lookup, hl]; simp [hk]

/-- a whitelisted global setting is inherited when the lens does not set it -/
theorem merge_inherits {V : Type} (wl : List String) (g l : List (String × V)) (k : String)
    (hk : k ∈ wl) (hl : l.lookup k = none) : (mergeSettings wl g l).lookup k = g.lookup k := by
  rw [merge_lookup, hl]; simp [hk]

/-- the generated whitelist contains only keyword arguments that `LensLikelihood.__init__` accepts
    (a typo in the whitelist would make every construction with that global key fail) -/
theorem whitelist_accepted :
    Gen.inputParamList.all (fun k => Gen.lensLikelihoodInitKeywords.contains k) = true := by decide

/-! ### D. data points -/

theorem numData_sum (ns : List ℕ) : numData ns = ns.sum := by
  have : ∀ a, ns.foldl (· + ·) a = a + ns.sum := by
    induction ns with
    | nil => simp
    | cons x t ih => intro a; simp [ih, Nat.add_assoc]
  simp [numData, this]

theorem numData_perm {a b : List ℕ} (h : a.Perm b) : numData a = numData b := by
  rw [numData_sum, numData_sum, h.sum_eq]

/-- `LensLikelihoodBase.num_data` returns `self._lens_type.num_data`: that is an integer for every
    likelihood type only if no per-type class provides `num_data` as a plain method -/
theorem num_data_is_value_for_every_type :
    (Gen.numDataKind.all (fun p => p.2 == "attribute" || p.2 == "property")
      || Gen.baseNumDataHandlesMethod) = true := by decide

/-! ### E. hyper-parameters that do not apply to a lens never change its term -/

/-- another lens' slope: only the lens' own entry of `gamma_pl_list` is read -/
theorem other_slopes_irrelevant (mk : ℝ → ℝ → ℝ → ℝ) (cfg : LensDist ℝ) (kw : Dict ℝ) (i : ℕ)
    (hi : cfg.gammaPlIndex = some i) (l l' : List ℝ) (h : l[i]? = l'[i]?) :
    gammaPlStep mk cfg kw (some l) = gammaPlStep mk cfg kw (some l') := by
  unfold gammaPlStep
  simp [hi, h]

theorem dict_get?_set_other (d : Dict ℝ) (k k' : String) (v : ℝ) (h : k ≠ k') :
    Dict.get? (Dict.set d k v) k' = Dict.get? d k' := by
  induction d with
  | nil => simp [Dict.set, Dict.get?, h]
  | cons p t ih =>
    obtain ⟨k0, v0⟩ := p
    by_cases h0 : k0 = k
    · subst h0; simp [Dict.set, Dict.get?, h]
    · by_cases h1 : k0 = k'
      · subst h1; simp [Dict.set, Dict.get?, h0]
      · simp [Dict.set, Dict.get?, h0, h1, ih]

theorem getD_set_other (d : Dict ℝ) (k k' : String) (v dflt : ℝ) (h : k ≠ k') :
    getD (Dict.set d k v) k' dflt = getD d k' dflt := by
  simp [getD, dict_get?_set_other d k k' v h]

/-- **IFU-specific lambda for a non-IFU lens** (value and scatter): no effect on the lens draw -/
theorem lambda_ifu_irrelevant (mk : ℝ → ℝ → ℝ → ℝ) (cfg : LensDist ℝ) (hifu : cfg.mstIfu = false)
    (kw : Dict ℝ) (gpl : Option (List ℝ)) (v w : ℝ) :
    lensAttempt mk cfg (Dict.set (Dict.set kw "lambda_ifu" v) "lambda_ifu_sigma" w) gpl
      = lensAttempt mk cfg kw gpl := by
  have hg : ∀ k dflt, k ≠ "lambda_ifu" → k ≠ "lambda_ifu_sigma" →
      getD (Dict.set (Dict.set kw "lambda_ifu" v) "lambda_ifu_sigma" w) k dflt = getD kw k dflt := by
    intro k dflt h1 h2
    rw [getD_set_other _ _ _ _ _ (Ne.symm h2), getD_set_other _ _ _ _ _ (Ne.symm h1)]
  unfold lensAttempt gammaInStep m2lStep gammaPlStep lambdaLens lambdaSigma
  simp only [hifu, Bool.false_eq_true, if_false]
  simp only [hg "lambda_mst" _ (by decide) (by decide), hg "lambda_mst_sigma" _ (by decide) (by decide),
    hg "alpha_lambda" _ (by decide) (by decide), hg "beta_lambda" _ (by decide) (by decide),
    hg "gamma_ppn" _ (by decide) (by decide), hg "gamma_in" _ (by decide) (by decide),
    hg "gamma_in_sigma" _ (by decide) (by decide), hg "alpha_gamma_in" _ (by decide) (by decide),
    hg "log_m2l" _ (by decide) (by decide), hg "log_m2l_sigma" _ (by decide) (by decide),
    hg "alpha_log_m2l" _ (by decide) (by decide), hg "gamma_pl_mean" _ (by decide) (by decide),
    hg "gamma_pl_sigma" _ (by decide) (by decide)]

/-- **population lambda for an IFU lens**: no effect -/
theorem lambda_mst_irrelevant_for_ifu (mk : ℝ → ℝ → ℝ → ℝ) (cfg : LensDist ℝ) (hifu : cfg.mstIfu = true)
    (kw : Dict ℝ) (gpl : Option (List ℝ)) (v w : ℝ) :
    lensAttempt mk cfg (Dict.set (Dict.set kw "lambda_mst" v) "lambda_mst_sigma" w) gpl
      = lensAttempt mk cfg kw gpl := by
  have hg : ∀ k dflt, k ≠ "lambda_mst" → k ≠ "lambda_mst_sigma" →
      getD (Dict.set (Dict.set kw "lambda_mst" v) "lambda_mst_sigma" w) k dflt = getD kw k dflt := by
    intro k dflt h1 h2
    rw [getD_set_other _ _ _ _ _ (Ne.symm h2), getD_set_other _ _ _ _ _ (Ne.symm h1)]
  unfold lensAttempt gammaInStep m2lStep gammaPlStep lambdaLens lambdaSigma
  simp only [hifu, if_true]
  simp only [hg "lambda_ifu" _ (by decide) (by decide), hg "lambda_ifu_sigma" _ (by decide) (by decide),
    hg "alpha_lambda" _ (by decide) (by decide), hg "beta_lambda" _ (by decide) (by decide),
    hg "gamma_ppn" _ (by decide) (by decide), hg "gamma_in" _ (by decide) (by decide),
    hg "gamma_in_sigma" _ (by decide) (by decide), hg "alpha_gamma_in" _ (by decide) (by decide),
    hg "log_m2l" _ (by decide) (by decide), hg "log_m2l_sigma" _ (by decide) (by decide),
    hg "alpha_log_m2l" _ (by decide) (by decide), hg "gamma_pl_mean" _ (by decide) (by decide),
    hg "gamma_pl_sigma" _ (by decide) (by decide)]

/-- **a line-of-sight population the lens is not assigned to**: only entry `i` is read -/
theorem other_los_irrelevant (mk : ℝ → ℝ → ℝ → ℝ) (cfg : LosCfg) (i : ℕ) (hi : cfg.globalIdx = some i)
    (los los' : List (Dict ℝ)) (ext : Option ℝ) (h : los[i]? = los'[i]?) :
    drawLos mk cfg los ext = drawLos mk cfg los' ext ∧
    drawBool cfg los isZeroR = drawBool cfg los' isZeroR := by
  constructor
  · funext s; simp [drawLos, hi, h]
  · simp [drawBool, hi, h]

/-- a lens without line-of-sight assignment reads no population at all -/
theorem no_los_irrelevant (mk : ℝ → ℝ → ℝ → ℝ) (cfg : LosCfg) (hi : cfg.globalIdx = none)
    (los los' : List (Dict ℝ)) (ext : Option ℝ) :
    drawLos mk cfg los ext = drawLos mk cfg los' ext ∧
    drawBool cfg los isZeroR = drawBool cfg los' isZeroR := by
  constructor
  · funext s; simp [drawLos, hi]
  · simp [drawBool, hi]

/-- **kinematic scaling / anisotropy for types without kinematics**: the branches of the types that
    do not receive `kin_scaling` never read it -/
theorem nonkin_ignores_scaling :
    Gen.dispatch.all (fun r =>
      r.1.any (fun t => ["DdtDdKDE", "DdtDdGaussian", "DsDdsGaussian", "DdtHistKin", "IFUKinCov", "DdtGaussKin"].contains t)
      || r.2.all (fun p => p.2 != "kin_scaling" && p.2 != "sigma_v_sys_error")) = true := by decide

/-! ### non-vacuity -/
example : assign false [⟨some ["a_ani", "gamma_pl"]⟩, ⟨none⟩, ⟨some ["gamma_pl"]⟩, ⟨some ["a_ani"]⟩] 0
    = [some 0, none, some 1, none] := by decide
example : gammaPlNum false [⟨some ["a_ani", "gamma_pl"]⟩, ⟨none⟩, ⟨some ["gamma_pl"]⟩] = 2 := by decide

end HierArc.C07
