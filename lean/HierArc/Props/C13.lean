/-
  C13 — External-chain prior: unit-cube rescaling invertible, KDE term unit-free.
  Property theorems about `HierArc.Chain` (model of KDELikelihood/chain.py and of the KDE branch of
  CosmoLikelihood.likelihood) instantiated at ℝ.

  `ps` always denotes the chain's samples in physical units (dict name → column);
  `StateU ps s` / `StateR ps s` say that the object `s` holds them un-rescaled / rescaled.
-/
import HierArc.Model.Chain
import HierArc.Proofs.RealInst
import HierArc.Proofs.Chain

namespace HierArc.Chain
open HierArc

/-! Example data for the non-vacuity instances (`exPs`, `exKw`, `exAff` and their side conditions
    live in Proofs/Chain): a two-parameter chain, a sampled cosmology, a change of units with
    positive slopes. -/
example : (keys exPs).Nodup := by decide
example : "rescaled" ∉ keys exPs := by decide
example : StateU exPs (⟨exPs, some [], false⟩ : Chain ℝ) := ⟨rfl, rfl, rfl⟩
example : Covers exKw exPs := exKw_covers
example : ∀ k, 0 < (exAff k).1 := exAff_pos

/-! ## 1. rescaling to the unit cube and back -/

theorem toUnity_of_stateU {ps : List (String × List ℝ)} {s : Chain ℝ} (h : StateU ps s)
    (hnd : NonDeg ps) (hnodup : (keys ps).Nodup) : ∃ s', toUnity s = .ok s' ∧ StateR ps s' := by
  obtain ⟨hr, hp, hd⟩ := h
  obtain ⟨d, hd⟩ := Option.isSome_iff_exists.mp hd
  obtain ⟨d', h1, _, h3⟩ := toUnityLoop_ok ps d hnd
  refine ⟨⟨unitParams ps, some d', true⟩, ?_, rfl, rfl, d', rfl, h3 hnodup⟩
  simp [toUnity, hd, hr, hp, h1]

theorem fromUnity_of_stateR {ps : List (String × List ℝ)} {s : Chain ℝ} (h : StateR ps s)
    (hnd : NonDeg ps) : ∃ s', fromUnity s = .ok s' ∧ StateU ps s' ∧ s'.dic = s.dic := by
  obtain ⟨hr, hp, d, hd, hdic⟩ := h
  refine ⟨⟨ps, some d, false⟩, ?_, ⟨rfl, rfl, rfl⟩, hd.symm⟩
  simp [fromUnity, hd, hr, hp, fromUnityLoop_ok ps d hnd hdic]

/-- **to_from_id**: rescaling a chain to the unit cube and back restores the original samples
    (every column must have max ≠ min; names distinct as in a python dict). -/
theorem to_from_id {ps : List (String × List ℝ)} {s : Chain ℝ} (h : StateU ps s)
    (hnd : NonDeg ps) (hnodup : (keys ps).Nodup) :
    ∃ s' s'', toUnity s = .ok s' ∧ fromUnity s' = .ok s'' ∧ s''.params = s.params ∧
      s''.rescaled = false := by
  obtain ⟨s', h1, h2⟩ := toUnity_of_stateU h hnd hnodup
  obtain ⟨s'', h3, h4, _⟩ := fromUnity_of_stateR h2 hnd
  exact ⟨s', s'', h1, h3, h4.2.1.trans h.2.1.symm, h4.1⟩

example : ∃ s' s'', toUnity (⟨exPs, some [], false⟩ : Chain ℝ) = .ok s' ∧ fromUnity s' = .ok s'' ∧
    s''.params = exPs ∧ s''.rescaled = false :=
  to_from_id ⟨rfl, rfl, rfl⟩ exPs_nonDeg (by decide)

/-- and in the other order: a rescaled chain taken back to physical units and rescaled again holds
    the same unit samples and the same stored ranges for its parameters. -/
theorem from_to_id {ps : List (String × List ℝ)} {s : Chain ℝ} (h : StateR ps s)
    (hnd : NonDeg ps) (hnodup : (keys ps).Nodup) :
    ∃ s' s'', fromUnity s = .ok s' ∧ toUnity s' = .ok s'' ∧ s''.params = s.params ∧
      StateR ps s'' := by
  obtain ⟨s', h1, h2, _⟩ := fromUnity_of_stateR h hnd
  obtain ⟨s'', h3, h4⟩ := toUnity_of_stateU h2 hnd hnodup
  exact ⟨s', s'', h1, h3, h4.2.1.trans h.2.1.symm, h4⟩

/-- the constructor with `rescale=True` produces the rescaled state -/
theorem init_ok {ps : List (String × List ℝ)} (hnd : NonDeg ps) (hnodup : (keys ps).Nodup) :
    ∃ s, init ps true = .ok s ∧ StateR ps s := by
  have : StateU ps (⟨ps, some [], false⟩ : Chain ℝ) := ⟨rfl, rfl, rfl⟩
  simpa [init] using toUnity_of_stateU this hnd hnodup

example : ∃ s, init exPs true = .ok s ∧ StateR exPs s := init_ok exPs_nonDeg (by decide)

/-- **unit cube**: after rescaling every sample lies in [0, 1] and both ends are attained in
    every column. -/
theorem unit_cube {ps : List (String × List ℝ)} (hnd : NonDeg ps) :
    ∀ p ∈ unitParams ps, (∀ u ∈ p.2, 0 ≤ u ∧ u ≤ 1) ∧ (0 : ℝ) ∈ p.2 ∧ (1 : ℝ) ∈ p.2 := by
  intro p hp
  obtain ⟨q, hq, rfl⟩ := List.mem_map.mp hp
  obtain ⟨mx, mn, hr, hne⟩ := hnd q hq
  obtain ⟨hmx, hmn, hb⟩ := colRange_spec hr
  simp only [unitCol_of_range hr]
  refine ⟨?_, ?_, ?_⟩
  · intro u hu
    obtain ⟨x, hx, rfl⟩ := List.mem_map.mp hu
    exact toU_mem_unit hne (hb x hx).1 (hb x hx).2
  · exact List.mem_map.mpr ⟨mn, hmn, toU_min⟩
  · exact List.mem_map.mpr ⟨mx, hmx, toU_max hne⟩

example : ∀ p ∈ unitParams exPs, (∀ u ∈ p.2, 0 ≤ u ∧ u ≤ 1) ∧ (0 : ℝ) ∈ p.2 ∧ (1 : ℝ) ∈ p.2 :=
  unit_cube exPs_nonDeg

/-! ## 2. a second rescaling in the same direction is refused -/

/-- **refuse_double** (to unity) — whatever the samples are -/
theorem refuse_double_to (s : Chain ℝ) (hd : s.dic.isSome = true) (hr : s.rescaled = true) :
    toUnity s = .error "RuntimeError" := by
  obtain ⟨d, hd⟩ := Option.isSome_iff_exists.mp hd
  simp [toUnity, hd, hr]

/-- **refuse_double** (from unity) -/
theorem refuse_double_from (s : Chain ℝ) (hd : s.dic.isSome = true) (hr : s.rescaled = false) :
    fromUnity s = .error "RuntimeError" := by
  obtain ⟨d, hd⟩ := Option.isSome_iff_exists.mp hd
  simp [fromUnity, hd, hr]

/-- a successful call is followed by a refusal of the same call -/
theorem refuse_second_to {s s' : Chain ℝ} (h : toUnity s = .ok s') :
    toUnity s' = .error "RuntimeError" := by
  unfold toUnity at h
  split at h
  · simp at h
  · split at h
    · simp at h
    · split at h
      · simp only [Except.ok.injEq] at h; subst h; simp [toUnity]
      · simp at h

theorem refuse_second_from {s s' : Chain ℝ} (h : fromUnity s = .ok s') :
    fromUnity s' = .error "RuntimeError" := by
  unfold fromUnity at h
  split at h
  · simp at h
  · split at h
    · simp at h
    · split at h
      · simp only [Except.ok.injEq] at h; subst h; simp [fromUnity]
      · simp at h

/-- the constructor has rescaled once: the next `rescale_to_unity` is refused -/
example : ∃ s, init exPs true = .ok s ∧ toUnity s = .error "RuntimeError" := by
  obtain ⟨s, h, hs⟩ := init_ok exPs_nonDeg (by decide)
  exact ⟨s, h, refuse_double_to s (by obtain ⟨_, _, d, hd, _⟩ := hs; simp [hd]) hs.1⟩

/-- adding a column to a chain (`fill_default_array`) changes neither the rescaling flag nor the stored ranges -/
theorem fill_keeps_flag_and_ranges (c c' : Chain ℝ) (k : String) (v : List ℝ) (h : fillArray c k v = .ok c') :
    c'.rescaled = c.rescaled ∧ c'.dic = c.dic := by
  unfold fillArray at h
  split at h
  · simp at h
  · split at h
    · split at h
      · simp only [Except.ok.injEq] at h
        subst h
        exact ⟨rfl, rfl⟩
      · simp at h
    · simp at h

/-- **a second rescaling in the same direction is refused — also after the chain was extended by a column**: the column
    added to a rescaled chain does not re-open it, so the stored ranges cannot be overwritten -/
theorem refuse_to_after_fill (c c' : Chain ℝ) (k : String) (v : List ℝ) (hd : c.dic.isSome = true)
    (hr : c.rescaled = true) (h : fillArray c k v = .ok c') : toUnity c' = .error "RuntimeError" := by
  obtain ⟨h1, h2⟩ := fill_keeps_flag_and_ranges c c' k v h
  exact refuse_double_to c' (by rw [h2]; exact hd) (by rw [h1]; exact hr)

/-- … and the refused call leaves the extended chain as it is: whole histories of further `rescale_to_unity` calls are
    refused one by one -/
theorem refuse_to_history_after_fill (c c' : Chain ℝ) (k : String) (v : List ℝ) (hd : c.dic.isSome = true)
    (hr : c.rescaled = true) (h : fillArray c k v = .ok c') (n : ℕ) :
    runOps c' (List.replicate n Op.toU) = (List.replicate n "RuntimeError", c') := by
  have hrefuse := refuse_to_after_fill c c' k v hd hr h
  induction n with
  | zero => rfl
  | succ n ih => simp [List.replicate_succ, runOps, step, hrefuse, ih]

/-- a rescaled two-column chain (unit samples, physical ranges stored) -/
def exRescaled : Chain ℝ :=
  ⟨[("h0", [0, 1, 0.5]), ("om", [1, 0, 0.25])], some [("h0", (75, 65)), ("om", (0.4, 0.2))], true⟩

/-- non-vacuity: a third column added to the rescaled chain, the second rescaling refused -/
example : ∃ c', fillArray exRescaled "extra" [3, 1, 2] = .ok c' ∧ toUnity c' = .error "RuntimeError" := by
  have h : fillArray exRescaled "extra" [3, 1, 2]
      = .ok { exRescaled with params := Dict.set exRescaled.params "extra" [3, 1, 2] } := by
    simp [fillArray, listParams, exRescaled, Dict.get?]
  exact ⟨_, h, refuse_to_after_fill exRescaled _ _ _ (by simp [exRescaled]) (by simp [exRescaled]) h⟩

/-- **state_refines_two_state_spec**: for *every* history of rescale / un-rescale calls the object
    behaves like the two-state machine `specOps`: the same calls are refused, and after the history
    it holds exactly the physical samples (flag off) or exactly their unit-cube image together with
    the physical ranges (flag on).  Induction over the history. -/
theorem state_refines_two_state_spec {ps : List (String × List ℝ)} (hnd : NonDeg ps)
    (hnodup : (keys ps).Nodup) :
    ∀ (ops : List Op) (flag : Bool) (s : Chain ℝ),
      (if flag then StateR ps s else StateU ps s) →
      (runOps s ops).1 = (specOps flag ops).1 ∧
      (if (specOps flag ops).2 then StateR ps (runOps s ops).2 else StateU ps (runOps s ops).2) := by
  intro ops
  induction ops with
  | nil => intro flag s hs; cases flag <;> simpa [runOps, specOps] using hs
  | cons o os ih =>
    intro flag s hs
    cases o <;> cases flag <;> simp only [Bool.false_eq_true, if_false, if_true] at hs
    · -- toU from U
      obtain ⟨s', h1, h2⟩ := toUnity_of_stateU hs hnd hnodup
      have := ih true s' (by simpa using h2)
      simpa [runOps, specOps, step, h1] using this
    · -- toU from R : refused
      have h1 := refuse_double_to s (by obtain ⟨_, _, d, hd, _⟩ := hs; simp [hd]) hs.1
      have := ih true s (by simpa using hs)
      simpa [runOps, specOps, step, h1] using this
    · -- fromU from U : refused
      have h1 := refuse_double_from s hs.2.2 hs.1
      have := ih false s (by simpa using hs)
      simpa [runOps, specOps, step, h1] using this
    · -- fromU from R
      obtain ⟨s', h1, h2, _⟩ := fromUnity_of_stateR hs hnd
      have := ih false s' (by simpa using h2)
      simpa [runOps, specOps, step, h1] using this

/-- a history with refusals in both directions, started from the un-rescaled object -/
example : (runOps (⟨exPs, some [], false⟩ : Chain ℝ) [.fromU, .toU, .toU, .fromU, .fromU, .toU]).1
    = ["RuntimeError", "ok", "RuntimeError", "ok", "RuntimeError", "ok"] :=
  (state_refines_two_state_spec exPs_nonDeg (by decide) _ false _ ⟨rfl, rfl, rfl⟩).1

/-- a chain built with `rescale=False` is in the un-rescaled state and can be rescaled later
    (constructor after notes/C13-fix-1.diff). -/
theorem init_unrescaled_can_rescale {ps : List (String × List ℝ)} (hnd : NonDeg ps)
    (hnodup : (keys ps).Nodup) :
    ∃ s s', init ps false = .ok s ∧ StateU ps s ∧ toUnity s = .ok s' ∧ StateR ps s' := by
  have hs : StateU ps (⟨ps, some [], false⟩ : Chain ℝ) := ⟨rfl, rfl, rfl⟩
  obtain ⟨s', h1, h2⟩ := toUnity_of_stateU hs hnd hnodup
  exact ⟨_, s', rfl, hs, h1, h2⟩

example : ∃ s s', init exPs false = .ok s ∧ StateU exPs s ∧ toUnity s = .ok s' ∧ StateR exPs s' :=
  init_unrescaled_can_rescale exPs_nonDeg (by decide)

/-! ## 3. the vector helpers -/

/-- **vector_helpers_inverse**: for any dictionary whose addressed ranges have max ≠ min,
    `rescale_vector_from_unity ∘ rescale_vector_to_unity` and
    `rescale_vector_to_unity ∘ rescale_vector_from_unity` are the identity on arrays with at
    least `len(keys)` columns (any number of rows). -/
theorem vector_helpers_inverse (d : Dict (ℝ × ℝ)) (ks : List String) (cols : List (List ℝ))
    (hlen : ks.length ≤ cols.length)
    (hk : ∀ k ∈ ks, k ≠ "rescaled" ∧ ∃ mx mn, Dict.get? d k = some (mx, mn) ∧ mx ≠ mn) :
    (∃ c', vecToUnity cols d ks = .ok c' ∧ vecFromUnity c' d ks = .ok cols) ∧
    (∃ c', vecFromUnity cols d ks = .ok c' ∧ vecToUnity c' d ks = .ok cols) := by
  constructor
  · obtain ⟨c', h1, _, h2⟩ := vecMap_inverse toU fromU d ks cols hlen (fun k hk' => by
      obtain ⟨hne, mx, mn, hg, hmm⟩ := hk k hk'
      exact ⟨hne, mx, mn, hg, fromU_toU hmm⟩)
    exact ⟨c', h1, h2⟩
  · obtain ⟨c', h1, _, h2⟩ := vecMap_inverse fromU toU d ks cols hlen (fun k hk' => by
      obtain ⟨hne, mx, mn, hg, hmm⟩ := hk k hk'
      exact ⟨hne, mx, mn, hg, toU_fromU hmm⟩)
    exact ⟨c', h1, h2⟩

/-- hypotheses of `vector_helpers_inverse` on a concrete dictionary -/
example : ∀ k ∈ ["h0", "om"], k ≠ "rescaled" ∧ ∃ mx mn : ℝ,
    Dict.get? [("h0", ((73 : ℝ), (67 : ℝ))), ("om", (0.35, 0.25))] k = some (mx, mn) ∧ mx ≠ mn := by
  intro k hk
  simp only [List.mem_cons, List.mem_nil_iff, or_false] at hk
  rcases hk with rfl | rfl
  · exact ⟨by decide, 73, 67, by simp [Dict.get?], by norm_num⟩
  · exact ⟨by decide, 0.35, 0.25, by simp [Dict.get?], by norm_num⟩

/-- **consistent with the stored ranges**: applied to the chain's physical samples with the
    chain's own `rescale_dic` and key order, the helper reproduces the chain's unit samples, and
    the inverse helper takes the unit samples back to the physical ones. -/
theorem vector_helpers_consistent {ps : List (String × List ℝ)} {s : Chain ℝ} (h : StateR ps s)
    (hnd : NonDeg ps) (hres : "rescaled" ∉ keys ps) :
    ∃ d, s.dic = some d ∧
      vecToUnity (ps.map Prod.snd) d (keys ps) = .ok (s.params.map Prod.snd) ∧
      vecFromUnity (s.params.map Prod.snd) d (keys ps) = .ok (ps.map Prod.snd) := by
  obtain ⟨_, hp, d, hd, hdic⟩ := h
  have h1 := vecToUnity_chain ps d hnd hdic hres
  refine ⟨d, hd, by rw [hp]; exact h1, ?_⟩
  have hk : ∀ k ∈ keys ps, k ≠ "rescaled" ∧ ∃ mx mn, Dict.get? d k = some (mx, mn) ∧ mx ≠ mn := by
    intro k hk
    obtain ⟨q, hq, rfl⟩ := List.mem_map.mp hk
    obtain ⟨mx, mn, hr, hne⟩ := hnd q hq
    exact ⟨fun e => hres (e ▸ hk), mx, mn, by rw [hdic q hq, hr], hne⟩
  obtain ⟨⟨c', h2, h3⟩, _⟩ := vector_helpers_inverse d (keys ps) (ps.map Prod.snd)
    (by simp [keys]) hk
  rw [h1] at h2
  simp only [Except.ok.injEq] at h2
  rw [hp, h2]; exact h3

example : ∃ s d, init exPs true = .ok s ∧ s.dic = some d ∧
    vecToUnity (exPs.map Prod.snd) d (keys exPs) = .ok (s.params.map Prod.snd) := by
  obtain ⟨s, h, hs⟩ := init_ok exPs_nonDeg (by decide)
  obtain ⟨d, hd, h1, _⟩ := vector_helpers_consistent hs exPs_nonDeg (by decide)
  exact ⟨s, d, h, hd, h1⟩

/-! ## 4. the evaluation point of the KDE term -/

/-- **evaluation point**: the point handed to the KDE is the sampled cosmology taken in the
    chain's own parameter order and mapped, coordinate by coordinate, with the range of the
    chain's physical samples of that parameter. -/
theorem evalPoint_spec {ps : List (String × List ℝ)} {s : Chain ℝ} (kw : Dict ℝ)
    (h : StateR ps s) (hnd : NonDeg ps) (hres : "rescaled" ∉ keys ps) (hc : Covers kw ps) :
    evalPoint kw s (listParams s) = .ok (ps.map (unitCoord kw)) := by
  rw [listParams_stateR h hnd]
  obtain ⟨_, _, d, hd, hdic⟩ := h
  simp only [evalPoint, rawPoint_ok kw ps hc, hd, vecToUnity_point kw ps d hnd hdic hres hc]
  rw [flatten_singletons]

/-- the KDE term in closed form: the estimator applied to the axes
    (name, unit samples, unit coordinate) in the chain's order. -/
theorem kdeTerm_spec {ps : List (String × List ℝ)} {s : Chain ℝ}
    (kde : List (Axis ℝ) → List ℝ → ℝ) (kw : Dict ℝ) (w : List ℝ)
    (h : StateR ps s) (hnd : NonDeg ps) (hres : "rescaled" ∉ keys ps) (hc : Covers kw ps) :
    kdeTerm kde kw s w = .ok (kde (ps.map (fun p => (p.1, unitCol p.2, unitCoord kw p))) w) := by
  simp only [kdeTerm, evalPoint_spec kw h hnd hres hc, h.2.1, zipAxes_map]

example : ∃ s, init exPs true = .ok s ∧
    evalPoint exKw s (listParams s) = .ok (exPs.map (unitCoord exKw)) := by
  obtain ⟨s, h, hs⟩ := init_ok exPs_nonDeg (by decide)
  exact ⟨s, h, evalPoint_spec exKw hs exPs_nonDeg (by decide) exKw_covers⟩

/-! ### affine change of units -/

/-- the axes of the KDE problem after an affine change of units of the chain columns (slopes
    `≠ 0`), the evaluation point changed accordingly: every axis with a positive slope is
    unchanged, every axis with a negative slope is reflected `u ↦ 1 − u` (samples and point alike). -/
theorem axes_aff (kw : Dict ℝ) (f : String → ℝ × ℝ) (ps : List (String × List ℝ))
    (ha : ∀ k, (f k).1 ≠ 0) (hnd : NonDeg ps) (hc : Covers kw ps) :
    (affParams f ps).map (fun p => (p.1, unitCol p.2, unitCoord (affKw f kw) p)) =
      ps.map (fun p => (p.1, (unitCol p.2).map (refl (f p.1).1), refl (f p.1).1 (unitCoord kw p))) := by
  simp only [affParams, List.map_map]
  apply List.map_congr_left
  intro p hp
  obtain ⟨mx, mn, hr, hne⟩ := hnd p hp
  obtain ⟨x, hx⟩ := hc p hp
  simp only [Function.comp]
  rw [unitCol_aff _ _ (ha p.1) hr hne, unitCoord_aff kw f (ha p.1) hr hne hx]

/-- **affine_unit_free**: change the units of any chain columns by `x ↦ a·x + b` with `a > 0`
    (chain *and* sampled point): the rescaled chain holds the same unit samples, the evaluation
    point is the same, hence the KDE term is identical — for every density estimator `kde`. -/
theorem affine_unit_free (kde : List (Axis ℝ) → List ℝ → ℝ) (kw : Dict ℝ) (w : List ℝ)
    (f : String → ℝ × ℝ) {ps : List (String × List ℝ)} {s s' : Chain ℝ}
    (ha : ∀ k, 0 < (f k).1) (h : StateR ps s) (h' : StateR (affParams f ps) s')
    (hnd : NonDeg ps) (hres : "rescaled" ∉ keys ps) (hc : Covers kw ps) :
    s'.params = s.params ∧
    evalPoint (affKw f kw) s' (listParams s') = evalPoint kw s (listParams s) ∧
    kdeTerm kde (affKw f kw) s' w = kdeTerm kde kw s w := by
  have ha' : ∀ k, (f k).1 ≠ 0 := fun k => (ha k).ne'
  have hnd' := nonDeg_aff f ha' hnd
  have hres' : "rescaled" ∉ keys (affParams f ps) := by rwa [keys_aff]
  have hc' := covers_aff kw f ps hc
  have hax := axes_aff kw f ps ha' hnd hc
  have hrefl : ∀ k, refl (f k).1 = id := fun k => funext (fun u => by simp [refl, ha k])
  simp only [hrefl, List.map_id, id] at hax
  refine ⟨?_, ?_, ?_⟩
  · rw [h'.2.1, h.2.1]
    have := congrArg (List.map (fun a : Axis ℝ => (a.1, a.2.1))) hax
    simpa [unitParams, List.map_map, Function.comp_def] using this
  · rw [evalPoint_spec _ h' hnd' hres' hc', evalPoint_spec _ h hnd hres hc]
    have := congrArg (List.map (fun a : Axis ℝ => a.2.2)) hax
    simp only [List.map_map, Function.comp_def] at this
    rw [this]
  · rw [kdeTerm_spec kde _ w h' hnd' hres' hc', kdeTerm_spec kde _ w h hnd hres hc, hax]

/-- both constructors succeed and the two KDE terms coincide, whatever the estimator -/
example (kde : List (Axis ℝ) → List ℝ → ℝ) (w : List ℝ) :
    ∃ s s', init exPs true = .ok s ∧ init (affParams exAff exPs) true = .ok s' ∧
      kdeTerm kde (affKw exAff exKw) s' w = kdeTerm kde exKw s w := by
  obtain ⟨s, h, hs⟩ := init_ok exPs_nonDeg (by decide)
  obtain ⟨s', h', hs'⟩ := init_ok (nonDeg_aff exAff (fun k => (exAff_pos k).ne') exPs_nonDeg)
    (by rw [keys_aff]; decide)
  exact ⟨s, s', h, h', (affine_unit_free kde exKw w exAff exAff_pos hs hs' exPs_nonDeg (by decide)
    exKw_covers).2.2⟩

/-- **decreasing changes of units**: with slopes of either sign (`a ≠ 0`) the KDE problem is the
    original one with the negatively-scaled axes reflected, so the term is identical for every
    estimator that is invariant under reflection of an axis (samples and point) — e.g. any
    symmetric product/radial kernel on the samples; for the binned variant up to the closed last
    bin. -/
theorem affine_any_sign (kde : List (Axis ℝ) → List ℝ → ℝ) (kw : Dict ℝ) (w : List ℝ)
    (f : String → ℝ × ℝ) {ps : List (String × List ℝ)} {s s' : Chain ℝ}
    (ha : ∀ k, (f k).1 ≠ 0) (h : StateR ps s) (h' : StateR (affParams f ps) s')
    (hnd : NonDeg ps) (hres : "rescaled" ∉ keys ps) (hc : Covers kw ps)
    (hkde : ∀ (l : List (Axis ℝ)) (g : String → ℝ),
      kde (l.map (fun a => (a.1, a.2.1.map (refl (g a.1)), refl (g a.1) a.2.2))) w = kde l w) :
    kdeTerm kde (affKw f kw) s' w = kdeTerm kde kw s w := by
  have hnd' := nonDeg_aff f ha hnd
  have hres' : "rescaled" ∉ keys (affParams f ps) := by rwa [keys_aff]
  have hc' := covers_aff kw f ps hc
  rw [kdeTerm_spec kde _ w h' hnd' hres' hc', kdeTerm_spec kde _ w h hnd hres hc,
    axes_aff kw f ps ha hnd hc]
  have := hkde (ps.map (fun p => (p.1, unitCol p.2, unitCoord kw p))) (fun k => (f k).1)
  simp only [List.map_map, Function.comp_def] at this
  rw [this]

/-! ### order of the chain's parameters -/

/-- **order_free**: list the chain's parameters in another order (`ps'` a permutation of `ps`):
    the axes (name, unit samples, unit coordinate) of the KDE problem are the same axes in the
    permuted order — the unit point is permuted consistently with the chain's columns — so the
    term is identical for every estimator that does not depend on the order of the axes. -/
theorem order_free (kde : List (Axis ℝ) → List ℝ → ℝ) (kw : Dict ℝ) (w : List ℝ)
    {ps ps' : List (String × List ℝ)} {s s' : Chain ℝ} (hperm : ps.Perm ps')
    (h : StateR ps s) (h' : StateR ps' s') (hnd : NonDeg ps) (hres : "rescaled" ∉ keys ps)
    (hc : Covers kw ps) :
    (∃ pt pt', evalPoint kw s (listParams s) = .ok pt ∧ evalPoint kw s' (listParams s') = .ok pt' ∧
      (zipAxes s.params pt).Perm (zipAxes s'.params pt')) ∧
    ((∀ l l' : List (Axis ℝ), l.Perm l' → kde l w = kde l' w) →
      kdeTerm kde kw s' w = kdeTerm kde kw s w) := by
  have hnd' := nonDeg_perm hperm hnd
  have hres' : "rescaled" ∉ keys ps' := fun hm =>
    hres ((hperm.map Prod.fst).symm.subset hm)
  have hc' : Covers kw ps' := fun p hp => hc p (hperm.symm.subset hp)
  constructor
  · refine ⟨_, _, evalPoint_spec kw h hnd hres hc, evalPoint_spec kw h' hnd' hres' hc', ?_⟩
    rw [h.2.1, h'.2.1, zipAxes_map, zipAxes_map]
    exact hperm.map _
  · intro hk
    rw [kdeTerm_spec kde _ w h' hnd' hres' hc', kdeTerm_spec kde _ w h hnd hres hc]
    exact congrArg Except.ok (hk _ _ (hperm.symm.map _))

example : exPs.Perm [("om", [0.3, 0.25, 0.35]), ("h0", [67, 73, 70])] := List.Perm.swap _ _ _
/-- an order-independent estimator exists (here: the number of axes), so the hypothesis of the
    second part is satisfiable -/
example : ∀ l l' : List (Axis ℝ), l.Perm l' → (fun l (_ : List ℝ) => (l.length : ℝ)) l ([] : List ℝ)
    = (fun l (_ : List ℝ) => (l.length : ℝ)) l' [] := fun _ _ h => by simp [h.length_eq]

/-! ## 5. import of a Planck-format chain -/

/-- every pattern of the ladder, taken as a line of the names file, triggers its own branch (no
    earlier branch of the `if/elif` ladder captures it) -/
theorem ladder_selfmatch : ∀ e ∈ ladder, lineNames ladder e.1 = e.2 := by decide

example : lineNames ladder "H0*\tH_0\n" = ["h0"] := by decide

/-- **planck_index**: a requested parameter receives the number of the (last) line of the names
    file that names it, plus two (the two leading columns of a sample row are weight and
    log-likelihood); any number of other lines before and after. -/
theorem planck_index (pre post : List String) (line p : String)
    (hl : p ∈ lineNames ladder line) (hpost : ∀ l ∈ post, p ∉ lineNames ladder l) :
    paramIndex (pre ++ line :: post) p = some (pre.length + 2) := by
  have h1 : (lineNames ladder line).contains p = true := by simpa using hl
  rw [paramIndex, scanIndex_append]
  simp only [scanIndex, h1, if_true]
  rw [scanIndex_no_match _ _ _ _ _ hpost]
  simp

/-- Planck names file: H0 on line 1 ⇒ column 3 (hypotheses and conclusion on a concrete file) -/
example : "h0" ∈ lineNames ladder "H0*\tH_0\n" := by decide
example : ∀ l ∈ ["omegam*\t\\Omega_m\n", "sigma8*\t\\sigma_8\n"], "h0" ∉ lineNames ladder l := by decide
example : paramIndex (["omegabh2\t\\Omega_b h^2\n"] ++ "H0*\tH_0\n" ::
    ["omegam*\t\\Omega_m\n", "sigma8*\t\\sigma_8\n"]) "h0" = some 3 :=
  planck_index _ _ _ _ (by decide) (by decide)

/-- a parameter no line names gets no index (and an empty column) -/
theorem planck_index_none (lines : List String) (p : String)
    (h : ∀ l ∈ lines, p ∉ lineNames ladder l) : paramIndex lines p = none :=
  scanIndex_no_match _ _ _ _ _ h

example : paramIndex ["omegabh2\t\\Omega_b h^2\n", "H0*\tH_0\n"] "ok" = none :=
  planck_index_none _ _ (by decide)

/-- **planck_columns**: with rows of at least `n ≥ 2` numbers and all indices below `n`, the
    imported chain has, for every requested parameter, the column found by the scan of the names
    file (empty when the file does not list it), the weights are column 0 and the log-likelihoods
    column 1 of the sample rows. -/
theorem planck_columns (lines : List String) (rows : List (List ℝ)) (params : List String)
    (n : Nat) (hn : 2 ≤ n) (hrows : ∀ r ∈ rows, n ≤ r.length)
    (hidx : ∀ p ∈ params, ∀ i, paramIndex lines p = some i → i < n) :
    importCols lines params rows = .ok
      (params.map (fun p => (p, colOf rows (paramIndex lines p))), colAt rows 0, colAt rows 1) := by
  have h0 := column_ok rows 0 (fun r hr => by have := hrows r hr; omega)
  have h1 := column_ok rows 1 (fun r hr => by have := hrows r hr; omega)
  simp [importCols, importParams_ok lines rows params n hrows hidx, h0, h1]

/-- the headline form: the requested parameter named on line number `pre.length` of the names
    file is imported from column `pre.length + 2` of the sample rows. -/
theorem planck_named_column (pre post : List String) (line p : String) (rows : List (List ℝ))
    (params : List String) (n : Nat) (hn : 2 ≤ n) (hrows : ∀ r ∈ rows, n ≤ r.length)
    (hidx : ∀ q ∈ params, ∀ i, paramIndex (pre ++ line :: post) q = some i → i < n)
    (hp : p ∈ params) (hl : p ∈ lineNames ladder line)
    (hpost : ∀ l ∈ post, p ∉ lineNames ladder l) :
    ∃ ps w ll, importCols (pre ++ line :: post) params rows = .ok (ps, w, ll) ∧
      (p, colAt rows (pre.length + 2)) ∈ ps ∧ w = colAt rows 0 ∧ ll = colAt rows 1 := by
  refine ⟨_, _, _, planck_columns _ rows params n hn hrows hidx, ?_, rfl, rfl⟩
  refine List.mem_map.mpr ⟨p, hp, ?_⟩
  simp [planck_index pre post line p hl hpost, colOf]

/-- two rows of five numbers, names file with three lines, `h0` and `om` requested -/
example : ∃ ps w ll, importCols (["omegabh2\t\\Omega_b h^2\n"] ++ "H0*\tH_0\n" :: ["omegam*\t\\Omega_m\n"])
    ["om", "h0"] ([[1, 1500, 0.022, 67, 0.31], [3, 1501, 0.023, 68, 0.3]] : List (List ℝ)) = .ok (ps, w, ll) ∧
    ("h0", colAt [[1, 1500, 0.022, 67, 0.31], [3, 1501, 0.023, 68, 0.3]] 3) ∈ ps ∧
    w = colAt [[1, 1500, 0.022, 67, 0.31], [3, 1501, 0.023, 68, 0.3]] 0 ∧
    ll = colAt [[1, 1500, 0.022, 67, 0.31], [3, 1501, 0.023, 68, 0.3]] 1 := by
  refine planck_named_column _ _ _ "h0" _ _ 5 (by norm_num) ?_ ?_ (by simp) (by decide) (by decide)
  · intro r hr; simp at hr; rcases hr with rfl | rfl <;> simp
  · intro q hq i hi
    simp only [List.mem_cons, List.mem_nil_iff, or_false] at hq
    rcases hq with rfl | rfl
    · have : paramIndex (["omegabh2\t\\Omega_b h^2\n"] ++ "H0*\tH_0\n" :: ["omegam*\t\\Omega_m\n"]) "om"
          = some 4 := by decide
      rw [this] at hi; cases hi; norm_num
    · have : paramIndex (["omegabh2\t\\Omega_b h^2\n"] ++ "H0*\tH_0\n" :: ["omegam*\t\\Omega_m\n"]) "h0"
          = some 3 := by decide
      rw [this] at hi; cases hi; norm_num

end HierArc.Chain
