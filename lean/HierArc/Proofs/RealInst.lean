/-
  Instantiation of the model's carrier at ℝ.
-/
import HierArc.Model.Basic
import Mathlib.Analysis.SpecialFunctions.Pow.Real
import Mathlib.Analysis.SpecialFunctions.Log.Base
import Mathlib.Analysis.SpecialFunctions.Sqrt
import Mathlib.Tactic.NormNum

namespace HierArc

noncomputable instance : Trans ℝ where
  sqrt := Real.sqrt
  exp := Real.exp
  log := Real.log
  log10 := Real.logb 10
  pow10 := fun x => (10 : ℝ) ^ x

end HierArc

namespace HierArc
/-! literal normalisation (the model writes literals through `OfScientific`) -/
theorem lit_zero : (0.0 : ℝ) = 0 := by norm_num
theorem lit_one : (1.0 : ℝ) = 1 := by norm_num
theorem lit_two : (2.0 : ℝ) = 2 := by norm_num
theorem lit_half : (0.5 : ℝ) = 1 / 2 := by norm_num
theorem lit_five : (5.0 : ℝ) = 5 := by norm_num
theorem lit_seventy : (70.0 : ℝ) = 70 := by norm_num
end HierArc
