"""C20 — per-lens Gaussian priors act on the lens' own realised parameters only."""
import copy
import math

import numpy as np

from harness.common import run_driver, f2b, b2f, close, err_enum
from harness import lens_common as lc
from harness.props import c03

ID = "C20"
LEAN_MODULES = ["HierArc.Props.C20"]
TRANSLATE = ["tables"]
# when the translator cannot follow a rewritten source, the last generated model is run against the implementation instead
TRANSLATOR_FALLBACK = True
RULE = ("random lens configurations of all 14 types (sharp and with scatter; IFU flag, LOS, kinematic scaling grid, "
        "per-lens slope index, global slope) x random prior lists (1-4 entries over realised and non-realised names, "
        "random means/widths, duplicates); each case evaluated with and without the list under the same seed; plus "
        "two-lens samples where only one lens carries a list; distinct = (type, names in the list, sharp?, "
        "realised-key set)")
ASSUMPTIONS = [
    "same NumPy seed => same draws with and without the prior list (the prior consumes no random numbers)",
    "the prior emitted by the posterior processing for gamma_pl: evaluated here on KinConstraints / DdtKinConstraints with the "
    "stubbed kinematics engine of the C16 harness (imaging slope inside, on the edge of and outside the slope grid); the "
    "model tie of the whole emitted configuration is the C16 check (Model/Posterior.lean, prior entry included)",
]
TRUSTED = ["hand-written model HierArc/Model/Lens.lean (priorLogL, realised-parameter dictionaries) tied by differential execution"]
LEVEL_TEXT = ("Lean theorems over ℝ: the prior term is exactly Σ −(x−μ)²/(2σ²) over listed names present in the realised-"
              "parameter dictionary and 0 for absent names; the realised lens parameters are exactly lambda_mst, gamma_ppn "
              "and, when sampled, gamma_in, log_m2l, the lens' own gamma_pl (plus a_ani / beta_inf from the anisotropy draw); "
              "every single-draw evaluation adds the prior on the parameters realised in that draw (inside the population "
              "average); WHICH parameters a lens has is a static function of its configuration (prior_only_own_parameters: the "
              "term equals that of the list restricted to Lens.realisedKeys; gamma_pl_prior_needs_a_slope: the fallback slope 2 "
              "handed to the data likelihood is not a parameter of the lens); changing a lens' prior list changes nothing but the added term (same arguments to the data "
              "likelihood, same draws consumed).  The model is executed against LensLikelihood with and without prior_list; the "
              "statement is evaluated on the real code per draw.")
LEVEL_NOTE = ("trusted: Lean kernel+Mathlib, hand model (validated by correspondence, tol 1e-12); the emitted prior list is "
              "evaluated here on the real posterior-processing classes, its model tie is in C16")
TECHNIQUE = "Lean 4 proof (list induction, case analysis of the draw monad) + correspondence"

NAMES = ["lambda_mst", "gamma_ppn", "gamma_in", "log_m2l", "gamma_pl", "a_ani", "beta_inf", "h0", "lambda_ifu", "kappa_ext",
         "lambda_mst_sigma", "a_ani_sigma", "mu_sne"]


def gen_case(rng, ltype, k):
    sharp = k % 2 == 0
    cfg, h = lc.gen_lens_cfg(rng, ltype, sharp=sharp)
    data = {} if ltype == "DdtDdKDE" else lc.data_kwargs(rng, ltype)
    lc.finish_scaling(rng, cfg, data, ltype)
    if rng.random() < 0.4:
        h["kwargs_lens"]["gamma_pl_list"] = [rng.uniform(1.8, 2.2) for _ in range(3)]
        cfg["gamma_pl_index"] = rng.randrange(3)
    elif rng.random() < 0.3:
        cfg.update(gamma_pl_global_sampling=True, gamma_pl_global_dist=rng.choice(["GAUSSIAN", "NONE"]))
        h["kwargs_lens"].update(gamma_pl_mean=2.05, gamma_pl_sigma=0.0 if sharp else 0.05)
    pl = []
    for _ in range(rng.choice([1, 2, 3, 4])):
        pl.append([rng.choice(NAMES), rng.uniform(0.5, 2.5), rng.uniform(0.05, 0.6)])
    if k % 5 == 3 and ltype in lc.SCALING_TYPES:
        # the kinematic scaling tabulated over the lens' OWN slope (as the posterior-processing classes emit it), a prior on
        # that slope, and a sampled slope beyond the tabulated axis (the sampler's box is independent of the grid; the 1-d
        # scaling extrapolates): the prior is on the slope the lens realises
        for key in ("kin_scaling_param_list", "j_kin_scaling_param_axes", "j_kin_scaling_grid_list", "gamma_pl_global_sampling",
                    "gamma_pl_global_dist"):
            cfg.pop(key, None)
        nbin = len(data["sigma_v_measurement"]) if ltype in lc.KIN_TYPES else 1
        axis = np.linspace(1.8, 2.2, rng.choice([3, 5]))
        cfg.update(kin_scaling_param_list=["gamma_pl"], j_kin_scaling_param_axes=axis,
                   j_kin_scaling_grid_list=[np.array([rng.uniform(0.8, 1.25) for _ in axis]) for _ in range(nbin)], gamma_pl_index=1)
        cfg["anisotropy_sampling"] = False
        h["kwargs_lens"]["gamma_pl_list"] = [2.0, rng.choice([2.26, 2.4, 1.7, 1.75, 2.05]), 1.9]
        pl.append(["gamma_pl", rng.uniform(1.9, 2.1), rng.uniform(0.03, 0.1)])
    if k % 4 == 1:
        # realised values that are exactly zero (isotropic orbits, gamma_ppn = 0) are values like any other
        h["kwargs_lens"]["gamma_ppn"] = 0.0
        pl.append(["gamma_ppn", rng.uniform(0.5, 1.5), rng.uniform(0.1, 0.5)])
        if "kin_scaling_param_list" not in cfg:
            cfg["anisotropy_sampling"] = False
            h["kwargs_kin"] = dict(h["kwargs_kin"], a_ani=0.0, beta_inf=0.0)
            pl += [["a_ani", rng.uniform(0.5, 2.0), rng.uniform(0.1, 0.5)], ["beta_inf", rng.uniform(0.3, 1.0), rng.uniform(0.1, 0.5)]]
    return dict(ltype=ltype, cfg=cfg, hyper=h, data=data, ddt=rng.uniform(3500, 6500), dd=rng.uniform(800, 1400),
                dlum=rng.uniform(-2, 2) if ltype in lc.MAG_TYPES else 0.0, beta=rng.uniform(0.5, 0.9) if ltype == "DSPL" else None,
                prior_list=pl, stream="main")


def with_prior(case, pl):
    c = dict(case)
    c["cfg"] = dict(case["cfg"])
    if pl is None:
        c["cfg"].pop("prior_list", None)
    else:
        c["cfg"]["prior_list"] = pl
    return c


def formula(pl, realised):
    tot = 0.0
    for n, mu, sg in pl:
        if n in realised:
            tot -= (float(np.squeeze(realised[n])) - mu) ** 2 / (2 * sg ** 2)
    return tot


def oracle(case, seed):
    fails = []
    o0, r0, _ = c03.evaluate(with_prior(case, None), seed)
    o1, r1, lens = c03.evaluate(with_prior(case, case["prior_list"]), seed)
    if ("err" in o0) != ("err" in o1):
        return ["prior list changes the outcome class: %s vs %s" % (o0, o1)], o1, r1, lens
    if "err" in o0:
        return fails, o1, r1, lens
    if len(r0.singles) != len(r1.singles):
        return ["prior list changes the number of evaluations %d -> %d" % (len(r0.singles), len(r1.singles))], o1, r1, lens
    if [n[2] for n in r0.normals] != [n[2] for n in r1.normals]:
        fails.append("prior list changes the random draws")
    for i, (a, b) in enumerate(zip(r0.singles, r1.singles)):
        realised = r1.kin[i][0] if i < len(r1.kin) else {}
        # only parameters the lens HAS count (from the configuration, not from what the implementation handed on)
        own = lc.own_parameters(case["cfg"], case["hyper"])
        realised = {k: v for k, v in realised.items() if k in own}
        want = formula(case["prior_list"], realised)
        if math.isfinite(a) and not close(b - a, want, 1e-9, atol=1e-9 * max(1.0, abs(a))):
            fails.append("draw %d: prior adds %r but the formula on the realised parameters %s gives %r" % (i, b - a, sorted(realised), want))
            break
    # "exactly -(x-mu)^2/(2 sigma^2)" — also the second time: the same object evaluated again at the same point under the
    # same seed returns the same value (the prior is added to the value of THIS evaluation, not to anything kept)
    if "value" in o1 and not o1.get("complex"):
        c1 = with_prior(case, case["prior_list"])
        for rep in (2, 3):
            np.random.seed(seed)
            try:
                again = np.squeeze(lens.hyper_param_likelihood(c1["ddt"], c1["dd"], c1["dlum"], beta_dsp=c1["beta"], **copy.deepcopy(c1["hyper"])))
                again = float(again.real if np.iscomplexobj(again) else again)
            except Exception as e:  # noqa
                fails.append("evaluation %d of the same lens object raised %s" % (rep, err_enum(e)))
                break
            if not (again == o1["value"] or (math.isnan(again) and math.isnan(o1["value"]))):
                fails.append("evaluation %d of the same lens object at the same point and seed gives %r, the first gave %r (prior list %r)"
                             % (rep, again, o1["value"], case["prior_list"]))
                break
    # ... and also after the same kind of object was evaluated at a point where the lens realises ANOTHER set of parameters
    # (without anisotropy sampling the anisotropy parameters are realised exactly when the caller supplies them): which
    # priors apply is decided by the parameters of THIS evaluation
    if "value" in o1 and not o1.get("complex") and not case["cfg"].get("anisotropy_sampling"):
        c1 = with_prior(case, case["prior_list"])
        twin = copy.deepcopy(c1["hyper"])
        kk = twin.setdefault("kwargs_kin", {})
        if "a_ani" in kk or "beta_inf" in kk:
            kk.pop("a_ani", None)
            kk.pop("beta_inf", None)
        else:
            kk["a_ani"] = 1.0
        try:
            lens2 = lc.make_lens(c1["ltype"], c1["cfg"], c1["data"])
            np.random.seed(seed + 1)
            with np.errstate(all="ignore"):
                lens2.hyper_param_likelihood(c1["ddt"], c1["dd"], c1["dlum"], beta_dsp=c1["beta"], **twin)
            ok_twin = True
        except Exception:  # noqa  - the twin itself is not under test
            ok_twin = False
        if ok_twin:
            np.random.seed(seed)
            try:
                with np.errstate(all="ignore"):
                    after = np.squeeze(lens2.hyper_param_likelihood(c1["ddt"], c1["dd"], c1["dlum"], beta_dsp=c1["beta"], **copy.deepcopy(c1["hyper"])))
                after = float(after.real if np.iscomplexobj(after) else after)
                if not (after == o1["value"] or (math.isnan(after) and math.isnan(o1["value"]))):
                    fails.append("a lens object first evaluated with another set of realised parameters (anisotropy parameters %s) gives %r at "
                                 "the point, a fresh object %r under the same seed (prior list %r)"
                                 % ("withheld" if "a_ani" not in kk else "supplied", after, o1["value"], case["prior_list"]))
            except Exception as e:  # noqa
                fails.append("a lens object first evaluated with another set of realised parameters raised %s at the point; a fresh object "
                             "evaluates it (prior list %r)" % (err_enum(e), case["prior_list"]))
    # the data likelihood must see the same arguments
    for d0, d1 in zip(r0.data, r1.data):
        if lc.canon_data_call(*d0[:2]) != lc.canon_data_call(*d1[:2]):
            fails.append("prior list changes the arguments of the data likelihood")
            break
    return fails, o1, r1, lens


def reused_list_oracle(seed):
    """the prior a lens adds is the prior it was BUILT with: the caller's list (a template re-used for the next lens, a
    list edited to build a second, wider analysis) may change afterwards; the term of the lens built first stays
    -(x-mu)^2/(2 sigma^2) with the numbers it was given"""
    import random
    rng = random.Random(seed)
    lt = rng.choice(["DdtGaussian", "DdtDdGaussian", "DsDdsGaussian", "IFUKinCov", "Mag"])
    case = gen_case(rng, lt, 0)
    if "err" in c03.evaluate(with_prior(case, None), seed)[0]:
        return []
    mine = [list(e) for e in case["prior_list"]] + [["lambda_mst", 1.0, 0.1], ["gamma_ppn", 1.0, 0.2]]      # the caller's own list
    as_built = [list(e) for e in mine]
    c1 = with_prior(case, mine)
    lens = lc.make_lens(c1["ltype"], c1["cfg"], c1["data"])

    def value():
        np.random.seed(seed)
        v = np.squeeze(lens.hyper_param_likelihood(c1["ddt"], c1["dd"], c1["dlum"], beta_dsp=c1["beta"], **copy.deepcopy(c1["hyper"])))
        return float(v.real if np.iscomplexobj(v) else v)
    try:
        v0 = value()
    except Exception:  # noqa
        return []
    # the caller moves on: the template entries get the next lens' numbers, another entry is appended
    for e in mine:
        e[1] = e[1] + 0.7
        e[2] = e[2] * 2.0
    mine.append(["lambda_mst", 0.2, 0.01])
    v1 = value()
    if not (v0 == v1 or (math.isnan(v0) and math.isnan(v1))):
        return ["the prior term of a lens follows later edits of the caller's prior list: %r when built with %r, %r after the caller "
                "re-used the list for %r" % (v0, as_built, v1, mine)]
    return []


def two_lens_oracle(rng, seed):
    """a prior on lens A must not change lens B's term"""
    from hierarc.Likelihood.lens_sample_likelihood import LensSampleLikelihood
    fails = []
    ca = gen_case(rng, "DdtGaussian", 0)
    cb = gen_case(rng, rng.choice(["DdtGaussian", "DsDdsGaussian", "DdtLogNorm"]), 0)
    la = dict(ca["cfg"], likelihood_type=ca["ltype"], **ca["data"])
    lb = dict(cb["cfg"], likelihood_type=cb["ltype"], **cb["data"])
    for d in (la, lb):
        d.pop("gamma_pl_index", None)
        d.pop("gamma_pl_global_sampling", None)
        d.pop("gamma_pl_global_dist", None)
    cosmo = lc.FakeCosmo()
    hyp = dict(kwargs_lens=dict(lambda_mst=1.03, gamma_ppn=1.0), kwargs_kin=ca["hyper"]["kwargs_kin"] or cb["hyper"]["kwargs_kin"],
               kwargs_source={}, kwargs_los=None)
    for d in (la, lb):
        for k in ("global_los_distribution", "los_distributions", "lambda_mst_distribution"):
            d.pop(k, None)
    hyp["kwargs_kin"] = {}
    for d in (la, lb):
        for k in ("anisotropy_model", "anisotropy_sampling", "anisotropy_distribution", "kin_scaling_param_list",
                  "j_kin_scaling_param_axes", "j_kin_scaling_grid_list"):
            d.pop(k, None)
    pl = [["lambda_mst", 1.0, 0.05], ["gamma_ppn", 0.9, 0.2]]
    s0 = LensSampleLikelihood([la, lb])
    s1 = LensSampleLikelihood([dict(la, prior_list=pl), lb])
    np.random.seed(seed)
    b0 = s0._lens_list[1].lens_log_likelihood(cosmo, **hyp)
    np.random.seed(seed)
    b1 = s1._lens_list[1].lens_log_likelihood(cosmo, **hyp)
    np.random.seed(seed)
    t0 = s0.log_likelihood(cosmo, **hyp)
    np.random.seed(seed)
    t1 = s1.log_likelihood(cosmo, **hyp)
    if float(b0) != float(b1):
        fails.append("a prior attached to lens A changes the term of lens B: %r vs %r" % (b0, b1))
    lam = 1.03 + hyp["kwargs_lens"].get("alpha_lambda", 0)
    want = formula(pl, {"lambda_mst": lam if not la.get("alpha_lambda_sampling") else None, "gamma_ppn": 1.0}) if False else None
    return fails, (float(t1) - float(t0))


def emitted_prior_oracle(rng):
    case = emitted_case(rng)
    return emitted_check(case)


def emitted_case(rng):
    """last clause of the property: the prior that the posterior processing emits for an interpolated power-law slope is
    centred on the imaging measurement with its uncertainty — wherever the measurement lies relative to the slope grid —
    and the lens likelihood applies exactly that Gaussian term."""
    from harness.props import c16
    for _ in range(200):
        case = c16.gen_pl(rng)
        if case["gamma_pl"] is not None and case["kind"] in ("kin", "ddt") and case["ani"] in ("OM", "GOM", "const"):
            break
    grid = case["gamma_pl"]
    where = rng.choice(["inside", "inside", "edge", "above", "below"])
    if where == "edge":
        case["gamma"] = rng.choice([grid[0], grid[-1]])
    elif where == "above":
        case["gamma"] = round(min(2.95, grid[-1] + rng.uniform(0.01, 0.25)), 4)
    elif where == "below":
        case["gamma"] = round(max(1.05, grid[0] - rng.uniform(0.01, 0.25)), 4)
    else:
        case["gamma"] = round(rng.uniform(grid[0], grid[-1]), 4)
    case["N"] = 2
    case["where"] = where
    return case


def emitted_check(case):
    from harness.props import c16
    from hierarc.Likelihood.prior_likelihood import PriorLikelihood
    grid, where = case["gamma_pl"], case.get("where")
    r = c16.call_impl(case)
    info = {"where": where, "kind": case["kind"], "case": c16.strip(case)}
    if "err" in r:
        return None, info
    fails = []
    pl = r["config"].get("prior_list")
    want = ["gamma_pl", case["gamma"], case["gamma_error"]]
    mine = [p for p in (pl or []) if p[0] == "gamma_pl"]
    if len(mine) != 1:
        fails.append("posterior processing with a slope grid emitted %d gamma_pl priors (%r)" % (len(mine), pl))
        return fails, info
    p = mine[0]
    if not (close(float(p[1]), want[1], 1e-12) and close(float(p[2]), want[2], 1e-12)):
        fails.append("emitted prior %r is not centred on the imaging measurement %r with its uncertainty %r (slope grid %r, "
                     "measurement %s the grid)" % (p, want[1], want[2], grid, where))
    pr = PriorLikelihood(prior_list=pl)
    for x in [grid[0], grid[-1], 0.5 * (grid[0] + grid[-1]), case["gamma"]]:
        got = float(pr.log_likelihood({"gamma_pl": x, "a_ani": 1.0}))
        exp = -(x - case["gamma"]) ** 2 / (2 * case["gamma_error"] ** 2)
        if not close(got, exp, 1e-10, atol=1e-12):
            fails.append("the emitted prior gives %r at gamma_pl = %r, the Gaussian around the imaging measurement gives %r" % (got, x, exp))
            break
    return fails, info


def run(ctx, res):
    rng = ctx.rng
    for _ in range(ctx.n(40, 400)):
        fails, info = emitted_prior_oracle(rng)
        res.evaluations += 1
        res.count("emitted_prior=" + ("not-constructed" if fails is None else info["where"]))
        for f in (fails or []):
            res.violation("hierarchy_configuration[%s]:emitted prior" % info["kind"], f, {"emitted": True, "case": info["case"]})
    per = ctx.n(16, 300)
    cases = [gen_case(rng, lt, k) for lt in lc.TYPES for k in range(per)]
    lines, meta = [], []
    for case in cases:
        seed = ctx.np_seed()
        try:
            fails, o1, r1, lens = oracle(case, seed)
        except Exception as e:  # noqa
            res.notes.append("construction failed for %s: %r" % (case["ltype"], e))
            res.count("ctor_fail=" + case["ltype"])
            continue
        res.evaluations += 1
        res.count("type=" + case["ltype"])
        realised0 = sorted(r1.kin[0][0]) if r1.kin and r1.kin[0][0] else []
        hit = sorted(set(n for n, _, _ in case["prior_list"]) & set(realised0))
        res.count("priors_hitting=%d" % len(hit))
        res.signatures.add((case["ltype"], tuple(sorted(n for n, _, _ in case["prior_list"])), tuple(realised0), len(r1.singles)))
        for f in fails:
            res.violation("PriorLikelihood[%s]:%s" % (case["ltype"], " ".join(f.split(" ")[:3])), f, c03.to_json(case))
        if len(res.samples) < 3 and hit and "err" not in o1:
            res.sample({"type": case["ltype"], "prior_list": case["prior_list"], "realised": {k: float(np.squeeze(v)) for k, v in r1.kin[0][0].items()},
                        "single_with_prior": r1.singles[0]})
        if "err" in o1 or not r1.spans:
            continue
        n0, n1, g0, g1, k0, d0 = r1.spans[0]
        data_val = float(np.squeeze(r1.data[d0][2])) if len(r1.data) > d0 else None
        lines.append({"op": "Lens.single", "cfg": lc.encode_cfg(lens, case["ltype"], with_prior(case, case["prior_list"])["cfg"]), "hyper": lc.encode_hyper(case["hyper"]),
                      "ddt": f2b(case["ddt"]), "dd": f2b(case["dd"]), "dLum": f2b(case["dlum"]), "beta": lc.opt(case["beta"]),
                      "ext": {"losDraw": (f2b(r1.gev[g0]) if g1 > g0 else None),
                              "kinScaling": [f2b(x) for x in (r1.kin[k0][1] if len(r1.kin) > k0 else [])]},
                      "stream": [f2b(r) for _, _, r in r1.normals[n0:n1]], "fuel": 200})
        meta.append((case, r1, data_val))
        # the lens' own parameters: model (Lens.realisedKeys, theorem prior_only_own_parameters), the harness' statement of
        # them, and what the implementation handed to kin_scaling / the prior
        lines.append({"op": "Lens.keys", "cfg": lc.encode_cfg(lens, case["ltype"], with_prior(case, case["prior_list"])["cfg"]),
                      "hyper": lc.encode_hyper(case["hyper"])})
        meta.append((case, r1, "keys"))
    # lens-locality on two-lens samples
    for _ in range(ctx.n(10, 100)):
        try:
            fails, _ = two_lens_oracle(rng, ctx.np_seed())
        except Exception as e:  # noqa
            res.notes.append("two-lens sample failed: %r" % e)
            continue
        res.evaluations += 1
        res.count("two_lens_sample")
        for f in fails:
            res.violation("LensSampleLikelihood:prior-not-local", f, {"two_lens": True})
    for _ in range(ctx.n(12, 100)):
        rs = rng.randrange(2 ** 30)
        try:
            fails = reused_list_oracle(rs)
        except Exception as e:  # noqa
            res.notes.append("re-used prior list check failed to run: %r" % e)
            continue
        res.evaluations += 1
        res.count("reused_prior_list")
        for f in fails:
            res.violation("PriorLikelihood:follows-later-edits-of-the-list", f, {"reused_list": True, "seed": rs})
    if ctx.search_mode:
        return
    outs = run_driver(lines)
    for (case, r1, data_val), o in zip(meta, outs):
        res.traces += 1
        cj = c03.to_json(case)
        if "err" in o:
            res.disagree("model error %s where the implementation evaluated" % o["err"], cj)
            continue
        m = o["ok"]
        if data_val == "keys":
            mk = sorted(m["keys"])
            hk = sorted(lc.own_parameters(case["cfg"], case["hyper"]))
            ik = sorted((r1.kin[0][0] or {}).keys()) if r1.kin else None
            if mk != hk:
                res.disagree("own parameters of the lens: model %s, harness statement %s" % (mk, hk), cj)
            elif ik is not None and ik != mk:
                res.disagree("own parameters of the lens: model %s, the implementation realised %s" % (mk, ik), cj)
            continue
        prior_m = b2f(m["prior"])
        if data_val is not None and math.isfinite(data_val):
            prior_i = r1.singles[0] - data_val
            if not close(prior_m, prior_i, 1e-9, atol=1e-9 * max(1.0, abs(data_val))):
                res.disagree("prior term: model %r implementation %r" % (prior_m, prior_i), cj)
                continue
        kp = r1.kin[0][0] or {}
        mp = {k: b2f(v) for k, v in m["kwargsParam"]}
        if set(kp) != set(mp) or not all(close(float(np.squeeze(kp[k])), mp[k], 1e-12) for k in kp):
            res.disagree("realised parameters: model %s implementation %s" % (mp, kp), cj)


def replay(ctx, data):
    if data["input"].get("two_lens"):
        import random
        fails, _ = two_lens_oracle(random.Random(0), 0)
        return bool(fails), "two-lens oracle: %s" % (fails or "holds")
    if data["input"].get("reused_list"):
        fails = reused_list_oracle(data["input"]["seed"])
        return bool(fails), "re-used prior list: %s" % (fails or "holds")
    if data["input"].get("emitted"):
        fails, _ = emitted_check(data["input"]["case"])
        return bool(fails), "emitted-prior oracle on the implementation: %s" % (fails or "holds")
    case = c03.from_json(data["input"])
    fails = oracle(case, 0)[0]
    return bool(fails), "oracle on the implementation: %s" % (fails or "holds")
