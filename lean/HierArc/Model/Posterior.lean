/-
  HierArc.Model.Posterior — model of hierarc/LensPosterior/*:
    kin_scaling_config.py      (parameter names / axes / base values / anisotropy kwargs)
    imaging_constraints.py     (draw_lens of the power-law classes)
    kin_constraints.py         (j_kin_draw, model_marginalization, error_cov_measurement,
                                anisotropy_scaling, hierarchy_configuration)
    ddt_kin_constraints.py, ddt_kin_gauss_constraints.py (same pipeline, other config keys)
    kin_constraints_composite.py (draw_lens, j_kin_draw_composite(_m2l), grids, config)
  and of Likelihood/kin_scaling.py : KinScalingParamManager.param_array2kwargs.

  The kinematics engine `velocity_dispersion_map_dimension_less` is an ARBITRARY function
  `J : EngineArgs → ℕ → α` (value for measurement bin `s`).  numpy's random generator enters as
  the values it returned (`raw`), lenstronomy's `GNFW.kappa_s_to_alpha_Rs` as an arbitrary
  function `K`, the lens cosmology as four numbers.

  No Mathlib import.  Carrier-polymorphic (ℝ in the theorems, Float in the driver).
-/
import HierArc.Model.Basic
namespace HierArc.Posterior
open HierArc

section
variable {α : Type} [Add α] [Sub α] [Mul α] [Div α] [Neg α] [LT α] [DecidableLT α]
  [OfScientific α] [Trans α]

/-! ### small numeric helpers -/

/-- `f 0 + … + f (n-1)` (left to right, starting from `0.0`). -/
def sumN (f : Nat → α) : Nat → α
  | 0 => 0.0
  | n + 1 => sumN f n + f n

/-- the natural number `n` in the carrier. -/
def natA : Nat → α
  | 0 => 0.0
  | n + 1 => natA n + 1.0

/-- mean of `f 0 … f (N-1)` (`numpy.mean`; `0/0` for `N = 0`). -/
def meanN (f : Nat → α) (N : Nat) : α := sumN f N / natA N

/-- `numpy.mean` of a 1-d array. -/
def meanL (l : List α) : α := meanN (fun i => l.getD i 0.0) l.length

/-- `numpy.maximum(a, b)` / `numpy.minimum(a, b)` on non-NaN values. -/
def maxA (a b : α) : α := if a < b then b else a
def minA (a b : α) : α := if b < a then b else a

/-! ### measurement covariance (`KinConstraints.error_cov_measurement`) -/

/-- entry `(i,j)` of `outer(ones*c, ones*c) + diag(ind**2)`. -/
def errCovEntry (ind : List α) (c : α) (i j : Nat) : α :=
  (1.0 * c) * (1.0 * c) + (if i = j then ind.getD i 0.0 * ind.getD i 0.0 else 0.0)

def errCovMatrix (ind : List α) (c : α) : List (List α) :=
  (List.range ind.length).map fun i => (List.range ind.length).map fun j => errCovEntry ind c i j

/-- the property `error_cov_measurement`.  The code tests `independent is None or covariant is None`,
    but `independent` was wrapped by `np.array(...)` in `__init__` and is never `None`; a missing
    independent error therefore surfaces as a `TypeError` of `array(None)**2`. -/
def errorCovMeasurement (supplied : Option (List (List α))) (ind : Option (List α))
    (c : Option α) : Except String (List (List α)) :=
  match supplied with
  | some m => .ok m
  | none =>
    match c with
    | none => .error "ValueError"
    | some c =>
      match ind with
      | none => .error "TypeError"
      | some ind => .ok (errCovMatrix ind c)

/-! ### mean and covariance over the lens-model draws (`model_marginalization`) -/

/-- `np.mean(j_kin_matrix, axis=0)[s]` for the draw matrix `jm i s`. -/
def jModelEntry (jm : Nat → Nat → α) (N s : Nat) : α := meanN (fun i => jm i s) N

/-- `np.cov(np.sqrt(j_kin_matrix.T))[s, t]` (unbiased, `N-1`). -/
def covSqrtEntry (jm : Nat → Nat → α) (N s t : Nat) : α :=
  let ms := meanN (fun i => Trans.sqrt (jm i s)) N
  let mt := meanN (fun i => Trans.sqrt (jm i t)) N
  sumN (fun i => (Trans.sqrt (jm i s) - ms) * (Trans.sqrt (jm i t) - mt)) N / (natA N - 1.0)

/-! ### parameter names, axes, base values (`KinScalingConfig`) -/

def omAxis : List α := [0.1, 0.2, 0.5, 1.0, 2.0, 5.0]
def betaInfAxis : List α := [0.0, 0.5, 0.8, 1.0]
/-- `np.linspace(-0.49, 1, 7)` : `start + i*step`, last element set to `stop`. -/
def constAxis : List α :=
  (List.range 7).map fun i => if i = 6 then 1.0 else (-0.49) + natA i * ((1.0 - (-0.49)) / 6.0)

/-- names and axes of the anisotropy block; `none` axes = attribute never set ("NONE"). -/
def aniPart (m : String) : Except String (List String × Option (List (List α))) :=
  if m = "OM" then .ok (["a_ani"], some [omAxis])
  else if m = "GOM" then .ok (["a_ani", "beta_inf"], some [omAxis, betaInfAxis])
  else if m = "const" then .ok (["a_ani"], some [constAxis])
  else if m = "NONE" then .ok ([], none)
  else .error "ValueError"

/-- optional axes appended in the order gamma_in, log_m2l, gamma_pl -/
def optPart (gIn m2l gPl : Option (List α)) : List (String × List α) :=
  (match gIn with | some a => [("gamma_in", a)] | none => []) ++
  (match m2l with | some a => [("log_m2l", a)] | none => []) ++
  (match gPl with | some a => [("gamma_pl", a)] | none => [])

/-- `KinScalingConfig.__init__`: `(param_name_list, kin_scaling_param_array)`.
    `AttributeError`: "NONE" with an optional axis (`_ani_param_array` does not exist). -/
def scalingInit (m : String) (gIn m2l gPl : Option (List α)) :
    Except String (List String × Option (List (List α))) :=
  let opt := optPart gIn m2l gPl
  match aniPart (α := α) m with
  | .error e => .error e
  | .ok (n, some ax) => .ok (n ++ opt.map (·.1), some (ax ++ opt.map (·.2)))
  | .ok (n, none) => if opt.isEmpty then .ok (n, none) else .error "AttributeError"

/-- `kwargs_anisotropy_base` -/
def aniBase (m : String) (rEff : α) : Except String (Dict α) :=
  if m = "OM" then .ok [("r_ani", 1.0 * rEff)]
  else if m = "GOM" then .ok [("r_ani", 1.0 * rEff), ("beta_inf", 1.0)]
  else if m = "const" then .ok [("beta", 0.1)]
  else .error "ValueError"

/-- `anisotropy_kwargs(**kwargs_ani)`; the names come from `aniPart`, so `a_ani` (and `beta_inf`
    for GOM) are always present (theorem `decode_ani_present`); the `getD` default is unreachable. -/
def aniKwargs (m : String) (rEff : α) (kw : Dict α) : Dict α :=
  let a := (kw.get? "a_ani").getD 0.0
  if m = "OM" then [("r_ani", a * rEff)]
  else if m = "GOM" then [("r_ani", a * rEff), ("beta_inf", (kw.get? "beta_inf").getD 0.0)]
  else [("beta", a)]

/-- `kwargs_lens_base` -/
def lensBase (names : List String) (gIn m2l : Option (List α)) (gPlMean : α) : Dict α :=
  (if names.contains "gamma_in" then [("gamma_in", meanL (gIn.getD []))] else []) ++
  (if names.contains "log_m2l" then [("log_m2l", meanL (m2l.getD []))] else []) ++
  (if names.contains "gamma_pl" then [("gamma_pl", gPlMean)] else [])

def isLensParam (k : String) : Bool := k = "gamma_in" || k = "gamma_pl" || k = "log_m2l"

/-- `KinScalingParamManager.param_array2kwargs` : (kwargs_anisotropy, kwargs_lens). -/
def paramArray2kwargs : List String → List α → Dict α × Dict α
  | n :: ns, x :: xs =>
    let (a, l) := paramArray2kwargs ns xs
    if isLensParam n then (a, (n, x) :: l) else ((n, x) :: a, l)
  | _, _ => ([], [])

/-! ### grids over any number of axes -/

/-- all nodes of the product grid, row-major (first axis slowest) = order of the nested loops
    and of `numpy.ndarray.ravel()`. -/
def nodes : List (List α) → List (List α)
  | [] => [[]]
  | ax :: rest => ax.flatMap fun a => (nodes rest).map fun p => a :: p

/-- node with multi-index `idx` -/
def nodeAt : List (List α) → List Nat → List α
  | ax :: rest, i :: is => ax.getD i 0.0 :: nodeAt rest is
  | _, _ => []

def prodL : List Nat → Nat
  | [] => 1
  | d :: ds => d * prodL ds

/-- row-major flat index of a multi-index for the given axis lengths -/
def flatIdx : List Nat → List Nat → Nat
  | _ :: ds, i :: is => i * prodL ds + flatIdx ds is
  | _, _ => 0

/-- scaling grid of one measurement bin, flattened row-major: `F node / F0`. -/
def gridFlat (F : List α → α) (F0 : α) (axes : List (List α)) : List α :=
  (nodes axes).map fun p => F p / F0

/-! ### power-law classes: `draw_lens`, `j_kin_draw` -/

structure ImgCfg (α : Type) where
  thetaE : α
  thetaEErr : α
  gamma : α
  gammaErr : α
  rEff : α
  rEffErr : α

structure Draw (α : Type) where
  thetaE : α
  gamma : α
  rEff : α
  delta : α

/-- the three values `np.random.normal` returned for (theta_E, gamma, delta_r_eff); the gamma
    value is not consumed when `gamma_pl` is given. -/
structure Raw (α : Type) where
  tE : α
  gam : α
  del : α

/-- `ImageModelPosterior.draw_lens(gamma_pl, no_error)` -/
def drawLensPL (c : ImgCfg α) (gammaPl : Option α) (noErr : Bool) (r : Raw α) : Draw α :=
  if noErr then
    { thetaE := c.thetaE, gamma := gammaPl.getD c.gamma, rEff := c.rEff, delta := 1.0 }
  else
    let d := maxA r.del 0.001
    { thetaE := maxA r.tE 0.0,
      gamma := match gammaPl with
        | none => minA (maxA r.gam 1.0) 2.999
        | some g => g,
      rEff := d * c.rEff,
      delta := d }

/-- arguments of `velocity_dispersion_map_dimension_less` (power-law classes). -/
structure EngineArgs (α : Type) where
  lens : List (Dict α)
  light : List (Dict α)
  ani : Dict α
  rEff : α
  thetaE : α
  gamma : α

def EngineArgs.empty : EngineArgs α :=
  { lens := [], light := [], ani := [], rEff := 0.0, thetaE := 0.0, gamma := 0.0 }

/-- light keywords reaching the engine: Hernquist `Rs = 0.551 r_eff` by default, else the
    supplied profiles with `Rs`, `R_sersic` multiplied by `delta_r_eff`. -/
def lightPL (light : Option (List (Dict α))) (d : Draw α) : List (Dict α) :=
  match light with
  | none => [[("Rs", d.rEff * 0.551), ("amp", 1.0)]]
  | some l => l.map fun kw => kw.map fun (k, v) =>
      if k = "Rs" ∨ k = "R_sersic" then (k, v * d.delta) else (k, v)

/-- `KinConstraints.j_kin_draw(kwargs_anisotropy, gamma_pl, no_error)` up to the engine call. -/
def argsPL (c : ImgCfg α) (light : Option (List (Dict α))) (ani : Dict α) (gammaPl : Option α)
    (noErr : Bool) (r : Raw α) : EngineArgs α :=
  let d := drawLensPL c gammaPl noErr r
  { lens := [[("theta_E", d.thetaE), ("gamma", d.gamma), ("center_x", 0.0), ("center_y", 0.0)]],
    light := lightPL light d,
    ani := ani,
    rEff := d.rEff,
    thetaE := d.thetaE,
    gamma := d.gamma }

/-- constructor arguments of KinConstraints / DdtKinConstraints / DdtGaussKinConstraints -/
structure PLInput (α : Type) where
  kind : String                       -- "kin" | "ddt" | "ddtgauss"
  img : ImgCfg α
  aniModel : String
  light : Option (List (Dict α))
  gammaIn : Option (List α)
  logM2l : Option (List α)
  gammaPl : Option (List α)
  supplied : Option (List (List α))
  ind : Option (List α)
  cov : Option α
  nData : Nat

/-- engine arguments at a grid node (power-law classes) -/
def argsAtNodePL (inp : PLInput α) (names : List String) (p : List α) : EngineArgs α :=
  let (aniKw, lensKw) := paramArray2kwargs names p
  argsPL inp.img inp.light (aniKwargs inp.aniModel inp.img.rEff aniKw) (lensKw.get? "gamma_pl")
    true { tE := 0.0, gam := 0.0, del := 0.0 }

/-- what `hierarchy_configuration` returns + the trace of engine calls -/
structure Out (α : Type) (E : Type) where
  likelihoodType : String
  names : List String
  axes : List (List α)
  jModel : List α
  covJ : List (List α)
  errCov : List (List α)
  grids : List (List α)                 -- per measurement bin, flattened row-major
  hasPrior : Bool                       -- the key `prior_list` exists
  prior : Option (List (String × α × α)) -- its value (`none` = Python None)
  margCalls : List E
  baseCall : E
  nodeCalls : List E

def likelihoodTypeOf (kind : String) : String :=
  if kind = "ddt" then "DdtHistKin" else if kind = "ddtgauss" then "DdtGaussKin" else "IFUKinCov"

/-- mean / covariance block shared by all classes -/
def margBlock {E : Type} (J : E → Nat → α) (calls : List E) (dflt : E) (n : Nat) :
    List α × List (List α) :=
  let N := calls.length
  let jm : Nat → Nat → α := fun i s => J (calls.getD i dflt) s
  ((List.range n).map fun s => jModelEntry jm N s,
   (List.range n).map fun s => (List.range n).map fun t => covSqrtEntry jm N s t)

/-- the configuration once the constructor / base-value / error-specification checks passed
    (pure part of `hierarchy_configuration`).  `raws` = the values the random generator returned,
    one triple per lens-model draw. -/
def corePL (inp : PLInput α) (J : EngineArgs α → Nat → α) (raws : List (Raw α))
    (names : List String) (axes : List (List α)) (ani0 : Dict α) (errCov : List (List α)) :
    Out α (EngineArgs α) :=
  let gpl0 := (lensBase names inp.gammaIn inp.logM2l inp.img.gamma).get? "gamma_pl"
  -- model_marginalization
  let margCalls := raws.map fun r => argsPL inp.img inp.light ani0 gpl0 false r
  let mb := margBlock J margCalls EngineArgs.empty inp.nData
  -- anisotropy_scaling
  let baseCall := argsPL inp.img inp.light ani0 gpl0 true { tE := 0.0, gam := 0.0, del := 0.0 }
  { likelihoodType := likelihoodTypeOf inp.kind, names := names, axes := axes,
    jModel := mb.1, covJ := mb.2, errCov := errCov,
    grids := (List.range inp.nData).map fun s =>
      gridFlat (fun p => J (argsAtNodePL inp names p) s) (J baseCall s) axes,
    hasPrior := inp.kind != "ddtgauss",
    prior := some (if names.contains "gamma_pl" then [("gamma_pl", inp.img.gamma, inp.img.gammaErr)]
                   else []),
    margCalls := margCalls, baseCall := baseCall,
    nodeCalls := (nodes axes).map (argsAtNodePL inp names) }

/-- constructor + `hierarchy_configuration(num_sample_model = raws.length)` of the power-law
    classes, with the errors the code raises in the order it raises them. -/
def hierarchyPL (inp : PLInput α) (J : EngineArgs α → Nat → α) (raws : List (Raw α)) :
    Except String (Out α (EngineArgs α)) :=
  -- constructor (KinScalingConfig.__init__)
  match scalingInit inp.aniModel inp.gammaIn inp.logM2l inp.gammaPl with
  | .error e => .error e
  | .ok (names, axes?) =>
    -- model_marginalization: base anisotropy (ValueError for "NONE")
    match aniBase inp.aniModel inp.img.rEff with
    | .error e => .error e
    | .ok ani0 =>
      -- j_kin_draw(**kwargs_lens_base) only knows the keyword gamma_pl
      if (lensBase names inp.gammaIn inp.logM2l inp.img.gamma).any (fun kv => kv.1 != "gamma_pl")
      then .error "TypeError" else
      match axes? with
      | none => .error "AttributeError"
      | some axes =>
        match errorCovMeasurement inp.supplied inp.ind inp.cov with
        | .error e => .error e
        | .ok ec => .ok (corePL inp J raws names axes ani0 ec)

/-! ### composite class (GNFW halo + multi-Gaussian stars) -/

/-- arguments of the engine call of the composite class -/
structure EngineArgsC (α : Type) where
  rs : α                 -- kwargs_lens[0]["Rs"]
  gammaIn : α
  alphaRs : α
  cx : α
  cy : α
  starsAmp : List α      -- kwargs_lens[1]["amp"]
  starsSigma : List α
  light : List (List α × List α)   -- kwargs_lens_light: (amp, sigma) per profile
  ani : Dict α
  rEff : α
  thetaE : α
  gamma : α

def EngineArgsC.empty : EngineArgsC α :=
  { rs := 0.0, gammaIn := 0.0, alphaRs := 0.0, cx := 0.0, cy := 0.0, starsAmp := [],
    starsSigma := [], light := [], ani := [], rEff := 0.0, thetaE := 0.0, gamma := 0.0 }

structure CompInput (α : Type) where
  img : ImgCfg α
  aniModel : String
  gammaInArr : List α
  logM2lArr : List α
  alphaRs : Option (List α)
  rsAngle : Option (List α)
  kappaS : Option (List α)
  rho0 : Option (List α)
  rs : Option (List α)
  popLevel : Bool
  light : List (List α × List α)
  priorMean : Option α
  priorStd : Option α
  sigCritAngle : α        -- lensCosmo.sigma_crit_angle
  sigCrit : α             -- lensCosmo.sigma_crit
  dd : α                  -- lensCosmo.dd
  arcsec : α              -- lenstronomy.Util.constants.arcsec
  supplied : Option (List (List α))
  ind : Option (List α)
  cov : Option α
  nData : Nat

/-- `_check_arrays` -/
def checkArrays (a b : Option (List α)) : Bool :=
  match a, b with
  | some a, some b => a.length == b.length && decide (0 < a.length)
  | _, _ => false

/-- halo normalisation ladder of `__init__`: (normalisation array, is_alpha_Rs, r_s in arcsec);
    `get_kappa_s_r_s_angle` for the (rho0, r_s) input. -/
def haloArrays (c : CompInput α) : Except String (List α × Bool × List α) :=
  if checkArrays c.alphaRs c.rsAngle then .ok (c.alphaRs.getD [], true, c.rsAngle.getD [])
  else if checkArrays c.kappaS c.rsAngle then .ok (c.kappaS.getD [], false, c.rsAngle.getD [])
  else if checkArrays c.rho0 c.rs then
    .ok (List.zipWith (fun rho r => rho * r / c.sigCrit) (c.rho0.getD []) (c.rs.getD []), false,
         (c.rs.getD []).map fun r => r / c.dd / c.arcsec)
  else .error "ValueError"

/-- one draw of the composite class -/
structure DrawC (α : Type) where
  norm : α
  rs : α
  logM2l : α      -- only meaningful in the per-lens mode
  rEff : α
  delta : α

/-- `KinConstraintsComposite.draw_lens(no_error)`; `idx` = value of `np.random.randint`,
    `del` = value of `np.random.normal(1, r_eff_error / r_eff)`. -/
def drawLensC (c : CompInput α) (norm rsA : List α) (noErr : Bool) (idx : Nat) (del : α) :
    DrawC α :=
  if noErr then
    { norm := meanL norm, rs := meanL rsA, logM2l := meanL c.logM2lArr, rEff := c.img.rEff,
      delta := 1.0 }
  else
    let d := maxA del 0.001
    { norm := norm.getD idx 0.0, rs := rsA.getD idx 0.0, logM2l := c.logM2lArr.getD idx 0.0,
      rEff := d * c.img.rEff, delta := d }

/-- engine arguments of `j_kin_draw_composite` (`m2lFactor = 10**log_m2l`) and
    `j_kin_draw_composite_m2l` (`m2lFactor = fac log_m2l_draw`) for a given draw;
    `l0 = kwargs_lens_light[0]` as (amp, sigma). -/
def argsC (c : CompInput α) (K : α → α → α → α) (isAlpha : Bool) (l0 : List α × List α)
    (ani : Dict α) (gIn : α) (m2lFactor : α) (d : DrawC α) : EngineArgsC α :=
  { rs := d.rs, gammaIn := gIn,
    alphaRs := if isAlpha then d.norm else K d.norm d.rs gIn,
    cx := 0.0, cy := 0.0,
    starsAmp := l0.1.map fun a => a * (m2lFactor / c.sigCritAngle),
    starsSigma := l0.2.map fun s => s * d.delta,
    light := c.light.map fun (a, s) => (a, s.map fun x => x * d.delta),
    ani := ani, rEff := d.rEff, thetaE := c.img.thetaE, gamma := c.img.gamma }

/-- the stellar amplitude factor: population level `10**log_m2l` of the grid / base value,
    per-lens mode `fac` of the drawn value (`fac = pow10` is the documented meaning; the
    unchanged tree realises `fac = id`, see Props/C16). -/
def m2lFactorOf (c : CompInput α) (fac : α → α) (logM2lNode : α) (d : DrawC α) : α :=
  if c.popLevel then Trans.pow10 logM2lNode else fac d.logM2l

/-- engine arguments at a grid node of the composite class (`no_error=True`) -/
def argsAtNodeC (c : CompInput α) (K : α → α → α → α) (fac : α → α) (norm rsA : List α)
    (isAlpha : Bool) (l0 : List α × List α) (names : List String) (p : List α) : EngineArgsC α :=
  let (aniKw, lensKw) := paramArray2kwargs names p
  let d := drawLensC c norm rsA true 0 0.0
  argsC c K isAlpha l0 (aniKwargs c.aniModel c.img.rEff aniKw) ((lensKw.get? "gamma_in").getD 0.0)
    (m2lFactorOf c fac ((lensKw.get? "log_m2l").getD 0.0) d) d

/-- pure part of the composite `hierarchy_configuration`; `raws` = (randint value, normal value)
    per lens-model draw. -/
def coreC (c : CompInput α) (K : α → α → α → α) (fac : α → α) (J : EngineArgsC α → Nat → α)
    (raws : List (Nat × α)) (names : List String) (axes : List (List α)) (norm rsA : List α)
    (isAlpha : Bool) (l0 : List α × List α) (ani0 : Dict α) (errCov : List (List α)) :
    Out α (EngineArgsC α) :=
  let gIn0 := meanL c.gammaInArr
  let m2l0 := meanL c.logM2lArr
  -- model_marginalization
  let margCalls := raws.map fun (idx, del) =>
    let d := drawLensC c norm rsA false idx del
    argsC c K isAlpha l0 ani0 gIn0 (m2lFactorOf c fac m2l0 d) d
  let mb := margBlock J margCalls EngineArgsC.empty c.nData
  -- anisotropy_scaling
  let d0 := drawLensC c norm rsA true 0 0.0
  let baseCall := argsC c K isAlpha l0 ani0 gIn0 (m2lFactorOf c fac m2l0 d0) d0
  { likelihoodType := "IFUKinCov", names := names, axes := axes,
    jModel := mb.1, covJ := mb.2, errCov := errCov,
    grids := (List.range c.nData).map fun s =>
      gridFlat (fun p => J (argsAtNodeC c K fac norm rsA isAlpha l0 names p) s) (J baseCall s) axes,
    hasPrior := true,
    prior := match c.priorMean, c.priorStd with
      | some m, some sd => some [("gamma_in", m, sd)]
      | _, _ => none,
    margCalls := margCalls, baseCall := baseCall,
    nodeCalls := (nodes axes).map (argsAtNodeC c K fac norm rsA isAlpha l0 names) }

/-- `KinConstraintsComposite(...).hierarchy_configuration(num_sample_model = raws.length)`. -/
def hierarchyC (c : CompInput α) (K : α → α → α → α) (fac : α → α)
    (J : EngineArgsC α → Nat → α) (raws : List (Nat × α)) :
    Except String (Out α (EngineArgsC α)) :=
  -- constructor
  match scalingInit c.aniModel (some c.gammaInArr)
      (if c.popLevel then some c.logM2lArr else none) none with
  | .error e => .error e
  | .ok (names, axes?) =>
    match haloArrays c with
    | .error e => .error e
    | .ok (norm, isAlpha, rsA) =>
      if !c.popLevel && !(norm.length == c.logM2lArr.length && decide (0 < norm.length)) then
        .error "ValueError" else
      match axes? with
      | none => .error "AttributeError"
      | some axes =>
        -- model_marginalization
        match aniBase c.aniModel c.img.rEff with
        | .error e => .error e
        | .ok ani0 =>
          match c.light with
          | [] => .error "IndexError"
          | l0 :: _ =>
            match errorCovMeasurement c.supplied c.ind c.cov with
            | .error e => .error e
            | .ok ec => .ok (coreC c K fac J raws names axes norm rsA isAlpha l0 ani0 ec)

end

end HierArc.Posterior
