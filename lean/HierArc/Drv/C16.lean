import HierArc.Drv.Proto
import HierArc.Model.Posterior
namespace HierArc.Drv.C16
open Lean HierArc.Drv HierArc HierArc.Posterior

/-! decoding helpers (own file; shared Proto.lean untouched) -/

def optF (j : Json) (k : String) : R (Option Float) :=
  let v := fieldD j k Json.null
  if v.isNull then pure none else do pure (some (← fl v))

def optFs (j : Json) (k : String) : R (Option (List Float)) :=
  let v := fieldD j k Json.null
  if v.isNull then pure none else do pure (some (← fls v))

def optFss (j : Json) (k : String) : R (Option (List (List Float))) :=
  let v := fieldD j k Json.null
  if v.isNull then pure none else do pure (some (← flss v))

def imgOf (j : Json) : R (ImgCfg Float) := do
  match ← fls (← field j "img") with
  | [a, b, c, d, e, f] =>
    pure { thetaE := a, thetaEErr := b, gamma := c, gammaErr := d, rEff := e, rEffErr := f }
  | _ => throw "img: 6 floats expected"

def weightsOf (j : Json) : R (List (String × List Float)) := do
  (← arr (← field j "w")).mapM fun p => do
    match ← arr p with
    | [k, v] => pure (← k.getStr?, ← fls v)
    | _ => throw "weight pair expected"

def nan : Float := 0.0 / 0.0

/-- the stub engine: `J_s = c_s + (d_s + Σ_k w_s(name_k) · value_k)²` over the flattened, named
    arguments; an argument without a weight (never seen by the Python stub) gives NaN. -/
def polyJ (c d : List Float) (w : List (String × List Float)) (flat : Dict Float) (s : Nat) : Float :=
  let lin := flat.foldl (fun acc (kv : String × Float) =>
    let ws := match w.find? (·.1 = kv.1) with
      | some (_, ws) => ws.getD s nan
      | none => nan
    acc + ws * kv.2) (d.getD s 0.0)
  c.getD s 0.0 + lin * lin

def flatDicts (pre : String) (ds : List (Dict Float)) : Dict Float :=
  (ds.zipIdx).flatMap fun (d, i) => d.map fun (k, v) => (pre ++ toString i ++ "." ++ k, v)

def flatArr (name : String) (l : List Float) : Dict Float :=
  (l.zipIdx).map fun (v, i) => (name ++ "[" ++ toString i ++ "]", v)

def flatPL (a : EngineArgs Float) : Dict Float :=
  flatDicts "lens" a.lens ++ flatDicts "light" a.light ++ a.ani.map (fun (k, v) => ("ani." ++ k, v))
    ++ [("r_eff", a.rEff), ("theta_E", a.thetaE), ("gamma", a.gamma)]

def flatC (a : EngineArgsC Float) : Dict Float :=
  [("lens0.Rs", a.rs), ("lens0.gamma_in", a.gammaIn), ("lens0.alpha_Rs", a.alphaRs),
   ("lens0.center_x", a.cx), ("lens0.center_y", a.cy)]
  ++ flatArr "lens1.amp" a.starsAmp ++ flatArr "lens1.sigma" a.starsSigma
  ++ ((a.light.zipIdx).flatMap fun ((amp, sig), i) =>
        flatArr ("light" ++ toString i ++ ".amp") amp ++ flatArr ("light" ++ toString i ++ ".sigma") sig)
  ++ a.ani.map (fun (k, v) => ("ani." ++ k, v))
  ++ [("r_eff", a.rEff), ("theta_E", a.thetaE), ("gamma", a.gamma)]

def jPrior (p : Option (List (String × Float × Float))) : Json :=
  match p with
  | none => Json.null
  | some l => Json.arr (l.map fun (n, m, s) => Json.arr #[Json.str n, jf m, jf s]).toArray

def outJson {E : Type} (flat : E → Dict Float) (o : Out Float E) : Json :=
  Json.mkObj [
    ("ltype", Json.str o.likelihoodType), ("names", jstrs o.names), ("axes", jfss o.axes),
    ("jmodel", jfs o.jModel), ("covj", jfss o.covJ), ("errcov", jfss o.errCov),
    ("grids", jfss o.grids), ("has_prior", Json.bool o.hasPrior), ("prior", jPrior o.prior),
    ("marg", Json.arr (o.margCalls.map fun a => jpairsF (flat a)).toArray),
    ("base", jpairsF (flat o.baseCall)),
    ("nodes", Json.arr (o.nodeCalls.map fun a => jpairsF (flat a)).toArray)]

def lightPLOf (j : Json) : R (Option (List (Dict Float))) :=
  let v := fieldD j "light" Json.null
  if v.isNull then pure none else do pure (some (← (← arr v).mapM pairsF))

/-- op `C16.pl` : hierarchy_configuration of KinConstraints / DdtKinConstraints / DdtGaussKinConstraints -/
def pl (j : Json) : R Json := do
  let raws ← (← flss (← field j "raws")).mapM fun r =>
    match r with
    | [a, b, c] => pure ({ tE := a, gam := b, del := c } : Raw Float)
    | _ => throw "raw triple expected"
  let inp : PLInput Float := {
    kind := ← (← field j "kind").getStr?, img := ← imgOf j,
    aniModel := ← (← field j "ani").getStr?, light := ← lightPLOf j,
    gammaIn := ← optFs j "gamma_in", logM2l := ← optFs j "log_m2l", gammaPl := ← optFs j "gamma_pl",
    supplied := ← optFss j "supplied", ind := ← optFs j "ind", cov := ← optF j "cov",
    nData := ← (← field j "n").getNat? }
  let c ← fls (← field j "jc")
  let d ← fls (← field j "jd")
  let w ← weightsOf j
  let out ← hierarchyPL inp (fun a s => polyJ c d w (flatPL a) s) raws
  pure (outJson flatPL out)

def lightCOf (j : Json) : R (List (List Float × List Float)) := do
  (← arr (← field j "light")).mapM fun p => do
    match ← arr p with
    | [a, s] => pure (← fls a, ← fls s)
    | _ => throw "light (amp, sigma) pair expected"

def compInput (j : Json) : R (CompInput Float) := do
  let cosmo ← fls (← field j "cosmo")
  pure {
    img := ← imgOf j, aniModel := ← (← field j "ani").getStr?,
    gammaInArr := ← fls (← field j "gamma_in_arr"), logM2lArr := ← fls (← field j "log_m2l_arr"),
    alphaRs := ← optFs j "alpha_rs", rsAngle := ← optFs j "rs_angle", kappaS := ← optFs j "kappa_s",
    rho0 := ← optFs j "rho0", rs := ← optFs j "rs",
    popLevel := ← (← field j "pop").getBool?, light := ← lightCOf j,
    priorMean := ← optF j "prior_mean", priorStd := ← optF j "prior_std",
    sigCritAngle := cosmo.getD 0 nan, sigCrit := cosmo.getD 1 nan, dd := cosmo.getD 2 nan,
    arcsec := cosmo.getD 3 nan,
    supplied := ← optFss j "supplied", ind := ← optFs j "ind", cov := ← optF j "cov",
    nData := ← (← field j "n").getNat? }

/-- the stub of `GNFW.kappa_s_to_alpha_Rs`: `k·(q0 + q1 r + q2 g + q3 r g)` -/
def kPoly (q : List Float) (k r g : Float) : Float :=
  k * (q.getD 0 nan + q.getD 1 nan * r + q.getD 2 nan * g + q.getD 3 nan * r * g)

/-- op `C16.comp` : hierarchy_configuration of KinConstraintsComposite -/
def comp (j : Json) : R Json := do
  let inp ← compInput j
  let raws ← (← arr (← field j "raws")).mapM fun p => do
    match ← arr p with
    | [i, v] => pure (← i.getNat?, ← fl v)
    | _ => throw "raw (idx, delta) pair expected"
  let q ← fls (← field j "kpoly")
  let facName ← (← field j "fac").getStr?
  let fac : Float → Float := if facName = "id" then id else Trans.pow10
  let c ← fls (← field j "jc")
  let d ← fls (← field j "jd")
  let w ← weightsOf j
  let out ← hierarchyC inp (kPoly q) fac (fun a s => polyJ c d w (flatC a) s) raws
  pure (outJson flatC out)

/-- op `C16.draw` : ImageModelPosterior.draw_lens -/
def draw (j : Json) : R Json := do
  let img ← imgOf j
  let gpl ← optF j "gamma_pl"
  let noErr ← (← field j "no_error").getBool?
  let raws ← flss (← field j "raws")
  let outs ← raws.mapM fun r =>
    match r with
    | [a, b, c] =>
      let d := drawLensPL img gpl noErr { tE := a, gam := b, del := c }
      pure [d.thetaE, d.gamma, d.rEff, d.delta]
    | _ => throw "raw triple expected"
  pure (Json.mkObj [("draws", jfss outs)])

/-- op `C16.drawc` : KinConstraintsComposite.draw_lens -/
def drawc (j : Json) : R Json := do
  let inp ← compInput j
  let noErr ← (← field j "no_error").getBool?
  let (norm, isAlpha, rsA) ← haloArrays inp
  let raws ← (← arr (← field j "raws")).mapM fun p => do
    match ← arr p with
    | [i, v] => pure (← i.getNat?, ← fl v)
    | _ => throw "raw (idx, delta) pair expected"
  let outs := raws.map fun (i, v) =>
    let d := drawLensC inp norm rsA noErr i v
    [d.norm, d.rs, d.logM2l, d.rEff, d.delta]
  pure (Json.mkObj [("draws", jfss outs), ("is_alpha", Json.bool isAlpha),
                    ("norm", jfs norm), ("rs_angle", jfs rsA)])

/-- op `C16.errcov` : error_cov_measurement -/
def errcov (j : Json) : R Json := do
  let m ← errorCovMeasurement (← optFss j "supplied") (← optFs j "ind") (← optF j "cov")
  pure (Json.mkObj [("errcov", jfss m)])

def ops : List (String × (Json → R Json)) :=
  [("C16.pl", pl), ("C16.comp", comp), ("C16.draw", draw), ("C16.drawc", drawc),
   ("C16.errcov", errcov)]

end HierArc.Drv.C16
