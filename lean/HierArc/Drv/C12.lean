import HierArc.Drv.Proto
import HierArc.Model.Hist
namespace HierArc.Drv.C12
open Lean HierArc.Drv HierArc.Hist

def samplesOf (j : Json) : R (Samples Float) := do
  let xs ← fls (← field j "samples")
  let ws ← fls (← field j "weights")
  if xs.length ≠ ws.length then throw "bad-case"
  pure (xs.zip ws)

def boolOf (j : Json) (k : String) : R Bool := do
  match (← field j k) with
  | Json.bool b => pure b
  | _ => throw "bad-case"

def ruleOf (j : Json) : R (HistRule Float) := do
  let r ← (← field j "rule").getStr?
  match r with
  | "binned" => pure (.binned (← (← field j "nbins").getNat?))
  | "scott" => pure (.direct .scott)
  | "silverman" => pure (.direct .silverman)
  | "scalar" => pure (.direct (.scalar (← fl (← field j "factor"))))
  | _ => throw "bad-case"

def collect (l : List (Except String Float)) : R (List Float) := l.mapM id

/-- op `C12.hist`: DdtHistLikelihood → {"logl": [bits…]} | err -/
def hist (j : Json) : R Json := do
  let s ← samplesOf j
  let rule ← ruleOf j
  let nz ← boolOf j "normalized"
  let xs ← fls (← field j "xs")
  let out ← collect (xs.map (fun x => histLogL rule nz s x))
  pure (Json.mkObj [("logl", jfs out)])

/-- op `C12.kde`: DdtHistKDELikelihood (gaussian) / DdtHistKinLikelihood (with "kin": [bits…]) -/
def kde (j : Json) : R Json := do
  let s ← samplesOf j
  let n ← (← field j "nbins").getNat?
  let bw ← fl (← field j "bandwidth")
  let nz ← boolOf j "normalized"
  let xs ← fls (← field j "xs")
  match j.getObjVal? "kin" with
  | .ok kj =>
    let ks ← fls kj
    if ks.length ≠ xs.length then throw "bad-case"
    let out ← collect ((xs.zip ks).map (fun xk => kinLogL bw n nz s xk.1 xk.2))
    pure (Json.mkObj [("logl", jfs out)])
  | .error _ =>
    let out ← collect (xs.map (fun x => kdeLogL bw n nz s x))
    pure (Json.mkObj [("logl", jfs out)])

/-- op `C12.measurement`: ddt_measurement() -/
def meas (j : Json) : R Json := do
  let s ← samplesOf j
  let m := measurement s
  pure (Json.mkObj [("mean", jf m.1), ("sigma", jf m.2)])

/-- op `C12.kernel`: intermediate observables (kernel points, normalised weights, bandwidth) -/
def kernel (j : Json) : R Json := do
  let s ← samplesOf j
  let rule ← ruleOf j
  let k ← histKernel rule s
  pure (Json.mkObj [("centres", jfs (k.1.map (·.1))), ("weights", jfs (k.1.map (·.2))),
                    ("h", jf k.2)])

def ops : List (String × (Json → R Json)) :=
  [("C12.hist", hist), ("C12.kde", kde), ("C12.measurement", meas), ("C12.kernel", kernel)]

end HierArc.Drv.C12
